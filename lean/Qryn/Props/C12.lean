import Qryn.Proofs.ReadCode
import Qryn.Proofs.ReadPipe
import Qryn.Proofs.ReadPipeH
import Qryn.Proofs.ReadPipeHExec
import Qryn.Proofs.ReadCensus
import Qryn.Proofs.ReadCensusTyped
import Qryn.Proofs.ReadStageDiscipline
import Qryn.ReadSide.Controllers
import Qryn.Proofs.ReadDbVersion
import Qryn.Gen.DbVersion
/-! # C12 — no query can crash, hang or leak work on the read side   (PARTIAL: bookkeeping proved, runtime explored)

Property theorems only. Models: `Qryn.ReadSide` (Params.lean: controllers' parameter handling, `FixPeriodPlanner`,
aggregators, `LimitPlanner`, scanner buffer, TraceQL rows, Tempo trace id, with Go run-time panics as `Fault` values
and the goroutine that runs each piece deciding what a fault means) and `Qryn.ReadSide.Pipe` (Pipeline.lean: the channel
pipeline as a transition system). `Gen.ReadSide` is regenerated from /repo on every run: every `go` statement of the
request path with whether it recovers, every HTTP handler with whether it starts with `defer tamePanic`, the guard
conditions of the modelled arithmetic as source text, and the constants. `Gen.ReadGoroutines` (also regenerated):
the fault-site census of every goroutine started under reader/ and the receive loops of the handlers; its review is
`ReadSide/Census.lean`. `ReadSide/PipelineH.lean`: the pipeline with the HTTP handler as a component.

What is NOT proved here (explored in child processes by the harness instead): the Go scheduler, memory, context
propagation inside `database/sql`, Prometheus' engine, the third-party parsers. -/
namespace Qryn.C12
open Qryn.ReadSide Qryn.Gen

/-! ## T: the source still says what the model says -/

/-- the guards of `FixPeriodPlanner.Process` (synchronous refusal; first-series test; skip test with the inversion
    clause; clamps) are, textually, the ones `fixGuard` / `fixEntry` / `fixFill` model -/
theorem fix_period_guards_as_modelled :
    ReadSide.fixPeriodConds =
      ["step <= 0", "duration <= 0", "_to < _from || _to-_from < 0", "(_to-_from)/step >= maxFixPeriodPoints",
       "err != nil", "v == 0", "len(entries) > 0",
       "values == nil || entry.Fingerprint != fingerprint",
       "idxTo < 0 || idxFrom >= int64(len(values)) || idxFrom > idxTo",
       "idxFrom < 0", "idxTo >= int64(len(values))"] := by decide

/-- the index guards of the three aggregators and the stream cap are the modelled ones -/
theorem aggregator_guards_as_modelled :
    ReadSide.aggProcessConds = ["streamLen > 4000000000"] ∧
    ReadSide.lraAddValueConds = ["idx < 0 || idx+1 >= int64(len(stream.values))"] ∧
    ReadSide.unwrapAddValueConds = ["idx < 0 || idx+1 >= int64(len(stream.values))"] ∧
    ReadSide.aggOpAddValueConds = ["idx < 0 || idx >= int64(len(stream.values)/2)"] ∧
    ReadSide.aggStreamCap = 4000000000 := by decide

theorem limit_conditions_as_modelled :
    ReadSide.limitConds = ["limit == 0", "sent >= limit", "sent+len(entries) < limit", "ctx.CancelCtx != nil"] := by decide

/-- the goroutines of the request path that run WITHOUT a recover (pure drains and `close` one-liners left out) — the
    inventory of the first round, kept; `fault_site_census` below covers every `go` statement under reader/ and lists
    the fault sites of each. Where the arithmetic is modelled:
    * `FixPeriodPlanner.Process#1` — arithmetic and slicing: `detached_goroutines_fault_free` (1);
    * `ClickhouseGetterPlanner.Process#1/#2` (`Scan`, `ScanMatrix`) — the batch buffer: (2);
    * `TraceQLRequestProcessor.Process#1` — three parallel arrays of one `groupArray` row: (3);
    * the exporters, the label/series/tag/value/search senders and the forwarding loops have, by the census, no index,
      slice, division, allocation-by-parameter or type-assertion site at all: only sends and their own `close`. -/
def detachedModelled : List String :=
  ["service/queryLabelsService.go:QueryLabelsService.GenericLabelReq#1",
   "service/queryLabelsService.go:QueryLabelsService.Series#1",
   "service/queryLabelsService.go:QueryLabelsService.series#1",
   "service/queryLabelsService.go:QueryLabelsService.series#2",
   "service/queryRangeService.go:QueryRangeService.QueryRange#1",
   "service/queryRangeService.go:QueryRangeService.QueryRange#2",
   "service/queryRangeService.go:QueryRangeService.QueryInstant#1",
   "service/queryRangeService.go:QueryRangeService.QueryInstant#2",
   "service/queryRangeService.go:QueryRangeService.Tail#2",
   "service/queryRangeService.go:QueryRangeService.Tail#3",
   "service/tempoService.go:TempoService.Tags#1",
   "service/tempoService.go:TempoService.TagsV2#1",
   "service/tempoService.go:TempoService.ValuesV2#1",
   "service/tempoService.go:TempoService.Values#1",
   "service/tempoService.go:TempoService.Search#1",
   "service/tempoServiceTraceQL.go:TempoService.SearchTraceQL#1",
   "logql/logql_transpiler_v2/planner_from_fix.go:FixPeriodPlanner.Process#1",
   "logql/logql_transpiler_v2/shared/planner_clickhouse_getter.go:ClickhouseGetterPlanner.Process#1",
   "logql/logql_transpiler_v2/shared/planner_clickhouse_getter.go:ClickhouseGetterPlanner.Process#2",
   "traceql/transpiler/complex_request_processor.go:ComplexRequestProcessor.Process#1",
   "traceql/transpiler/reqest_processor.go:TraceQLRequestProcessor.Process#1"]

/-- **goroutine_inventory.** The set of un-recovered goroutines in the source is exactly the set analysed: a new
    `go` statement, or a recover that was removed (or turned back into the nested form that never recovers), changes
    the regenerated list and breaks this theorem. In particular the pipeline stages (`WrapProcess#1`), the span
    decoder (`OutputQuery#1`) and — since fix 7ae3000 — the websocket tail's service goroutine (`Tail#1`, which runs the
    planner chain once per tick) do recover. -/
theorem goroutine_inventory :
    ((ReadSide.goroutines.filter (fun g => !g.2.2 && g.2.1 != "drain" && g.2.1 != "close")).map (·.1) = detachedModelled) ∧
    (("logql/logql_transpiler_v2/internal_planner/planner_generic.go:GenericPlanner.WrapProcess#1", "lit", true) ∈ ReadSide.goroutines) ∧
    (("service/tempoService.go:TempoService.OutputQuery#1", "lit", true) ∈ ReadSide.goroutines) ∧
    (("service/queryRangeService.go:QueryRangeService.Tail#1", "lit", true) ∈ ReadSide.goroutines) := by decide

/-- stops reading only when `strconv.ParseInt` fails on a string its producer formatted with `%d` -/
def unreachableEarlyReturn : List String :=
  ["traceql/transpiler/complex_request_processor.go:ComplexRequestProcessor.ProcessComplexReqIteration#1"]

/-- **consumers_drain.** The hypothesis of `pipeline_terminates` in the source: every function that ranges over a
    pipeline channel either never returns from inside the loop (it reads until close) or leaves a drain behind
    (`drainEntries`, an empty `for range`) — the exporters, `WrapProcess`, `FixPeriodPlanner`, the forwarders. -/
theorem consumers_drain :
    ∀ c ∈ ReadSide.consumers, c.2.1 = true → c.2.2 = true ∨ c.1 ∈ unreachableEarlyReturn := by decide

open Qryn.ReadSide.Pipe in
/-- **stage_drains_regenerated** (typed; replaces the ASSUMPTION `drains` of the pipeline theorems). `Gen.StageDrains`
    lists every loop of the read side outside the controllers that receives from a channel — the in-process stages
    (`GenericPlanner.WrapProcess`), `FixPeriodPlanner`, the exporters of `queryRangeService.go`, the tail, the Tempo
    forwarders, the TraceQL collector — with every exit of the loop other than "channel closed", what happens to the
    channel on the worst path from that exit to the end of the function (a drainer is started / only a context is
    cancelled / nothing), whether the function recovers (a recovered panic leaves the loop at any point) and whether it
    defers a drainer of that channel before the loop. The theorem: every such loop whose receiver type is instantiated
    anywhere in the module keeps its input consumed whichever way it leaves (`StageCode.keepsConsumed`: a deferred
    drainer, or no recover and every explicit exit starts a drainer) — except the one loop whose early exit is
    unreachable (`unreachableExit`). The only loop of a type that is never constructed is the unreferenced
    `logql_transpiler_v2.MatrixStepPlanner` (it recovers and has no drainer). A stage that returns on an error without
    draining, or a recover added without a deferred drain, breaks this theorem. -/
theorem stage_drains_regenerated :
    (∀ c ∈ liveStages, c.keepsConsumed = true) ∧
    (Gen.StageDrains.stages.filter (fun g => !g.2.2.2.2.1)).map (·.1) =
      ["logql/logql_transpiler_v2/planner_matrix_step.go:(*reader/logql/logql_transpiler_v2.MatrixStepPlanner).Process$1#1"] ∧
    (∀ n ∈ unreachableExit, n ∈ Gen.StageDrains.stages.map (·.1)) ∧
    liveStages.length + 2 = Gen.StageDrains.stages.length :=
  ⟨live_stages_keep_consumed, by decide +kernel, by decide +kernel, by decide +kernel⟩

/-! ### T: the fault-site census of every goroutine started under reader/ -/
open Qryn.ReadSide.Census in
/-- **fault_site_census.** `Gen.ReadGoroutines` lists, for every `go` statement under reader/ (function literal or
    named function; followed through deferred calls, local closures, callbacks and same-package callees four levels
    deep, a deeper call being itself a site) whose goroutine has no recover of its own, every syntactic place where the
    run time can panic: index / slice / store through an index, type assertion without `, ok`, division and shift by a
    non-constant, `make` with a size that is neither constant nor a `len`, explicit dereference, slice-to-array
    conversion, `panic`, send, close, dropped error, call of a function value, and the library calls at which the
    census stops. The theorem says that this regenerated list is EXACTLY the reviewed one (`Census.reviewed`: same
    goroutines, same sites, same order; each with its classification), that every classification that cites a
    dominating condition (`guarded c`) or the sole-close fact (`ownChannel`) is backed by what the translator found at
    that site, and that the library calls are exactly the reviewed ones. A new `make([]T, n)` with a request-derived
    `n` in `Scan`, a new index expression, a removed guard, a second `close`, a new callee — each changes the
    regenerated list and breaks this theorem until the site is reviewed. This replaces "by reading" for the
    goroutines other than FixPeriodPlanner / Scan / ScanMatrix / TraceQL: what is still by reading is, per entry, the
    reason string of a `contract`, `harmless`, `sizedBy`, `mapAccess` or `drainedBy` classification. -/
theorem fault_site_census :
    censusMatches unrecovered reviewed = true ∧
    ReadGoroutines.externsUnion = reviewedExterns.map (·.1) := ⟨census_checked, externs_checked⟩

open Qryn.ReadSide.Census in
/-- **fault_site_census_typed.** The same on go/types + SSA + a CHA call graph (`Gen.ReadGoroutines`, typed part). For every
    goroutine whose stack starts under reader/ — the 34 `go` statements AND the handler goroutines net/http starts
    (every function of the `http.HandlerFunc` signature that is used as a value: registered handlers, middleware
    closures) — the translator computes the qryn functions that run on that stack outside every DIRECT deferred recover
    (static calls, deferred calls, interface calls resolved to the qryn types that implement the interface, function
    values resolved by signature, closures handed to library functions; a function whose deferred callee itself calls
    `recover()` covers what its defer statement dominates, callees included) and, in each, every SSA instruction that
    can panic and is not discharged by a dominating guard: index / slice bounds, integer division, shift count, write to
    a map not known to be made, type assertion without comma-ok, explicit panic, send, close, `make` by a non-length size,
    slice→array conversion, dereference of / call through a value that comes from a map lookup or a nil-able qryn
    result. The theorem says
    * the regenerated functions with their sites are EXACTLY the reviewed table (`reviewedTyped`: same functions, same
      sites in the same order, each with its `Why`; cited guards and sole-close facts are the regenerated ones);
    * the roots — which goroutines exist, which recover, which are expanded — are exactly the reviewed ones;
    * no goroutine the code starts itself is left unexpanded, and the only unexpanded handler goroutine is the reviewed
      websocket tail handler (with exactly the reviewed direct callees);
    * the calls that leave the module on those stacks are exactly the reviewed library names.
    A new goroutine without a recover that reaches a slice index two calls deep, a recover removed or moved below the
    first faulting statement, a new interface implementation reachable from an exporter, a new library call — each
    changes a regenerated table and breaks this theorem until the site is reviewed. -/
theorem fault_site_census_typed :
    typedMatches ReadGoroutines.typedFunctions reviewedTyped = true ∧
    rootHeads ReadGoroutines.typedRoots = reviewedRoots ∧
    wideRootsReviewed ReadGoroutines.typedRoots = true ∧
    goRootsExpanded ReadGoroutines.typedRoots = true ∧
    ReadGoroutines.typedExternsUnion = reviewedTypedExterns.map (·.1) :=
  ⟨typed_census_checked, typed_roots_checked, typed_roots_covered.1, typed_roots_covered.2, typed_externs_checked⟩

open Qryn.ReadSide.Census in
/-- the un-recovered goroutines of `goroutine_inventory` are un-recovered `go` roots of the typed census too, and the
    typed census knows of exactly 11 more un-recovered `go` roots: the two drainers `WrapProcess#2/#3`, the
    three `close` one-liners of the tag/value processors, the Tail handler's two websocket helpers and the process-lifetime
    goroutines (log shipper ×2, version-cache sleeper, watchdog) — all in the reviewed table -/
theorem typed_roots_cover_inventory :
    (∀ n ∈ detachedModelled, n ∈ typedDetached ReadGoroutines.typedRoots) ∧
    (typedDetached ReadGoroutines.typedRoots).length = detachedModelled.length + 11 := by decide +kernel

open Qryn.ReadSide.Census in
/-- the un-recovered goroutines of the older, narrower inventory (`goroutine_inventory`) are among those of the census -/
theorem census_covers_inventory :
    ∀ n ∈ detachedModelled, n ∈ unrecovered.map (·.1) := by decide +kernel

open Qryn.ReadSide.Census in
/-- **producers_rely_on_drain.** No send of any goroutine started under reader/ (the recovered stages included) is an
    alternative of a `select` with a `<-ctx.Done()` alternative: every producer's send is unconditional. Hence the
    convention the code relies on is the FIRST of the two under which `no_blocked_sender` holds — the consumer reads
    until close, or leaves a drainer behind — and not the context. (Scan/ScanMatrix poll `ctx.Done()` between rows
    only to stop early.) -/
theorem producers_rely_on_drain :
    ∀ g ∈ ReadGoroutines.goroutines, (sendProfile g).2.2 = 0 := no_send_selects_done

/-- what the body of a handler's receive loop may call without the handler leaving a drain behind: the response
    writer, the JSON encoder on strings / flat structs, `append`, `make`, printing — nothing that walks stored data -/
def harmlessLoopCalls : List String :=
  ["w.Write", "json.Marshal", "append", "make", "fmt.Println"]

/-- **handler_loops_read_to_close.** The consumer side of `no_blocked_sender` in the source: every loop of
    reader/controller that receives from a service channel either
    * leaves a drainer behind when the handler returns (`defer func(){ for range ch {} }()`: the Tempo trace
      handler, whose loop body renders stored spans, and the websocket tail, which also cancels), or
    * has no `return` / `break` / `goto` / `panic` in its body AND calls nothing but the response writer, the JSON
      encoder, `append`, `make` and `fmt.Println` there — so neither a statement nor a recovered panic of a callee
      takes the handler out of the loop before the producer has closed the channel.
    The seeded change C12-1 (a `return` on a write error or a cancelled request context inside `for str := range ch`)
    and the defect fixed in this round (the trace handler's loop calls `SpanToJSONSpan`, which dereferences a stored
    attribute value; the recovered panic left the span sender blocked for ever) both fail this condition. -/
theorem handler_loops_read_to_close :
    ∀ l ∈ ReadGoroutines.handlerLoops,
      l.2.2.2.1 = true ∨ (l.2.2.1 = false ∧ ∀ c ∈ l.2.2.2.2.2, c ∈ harmlessLoopCalls) := by decide

/-- what a handler's receive loop may reach, typed: the two response-writer wrappers of the middleware (gzip, status
    code capture) -/
def loopCallees : List String :=
  ["(*reader/utils/middleware.gzipResponseWriter).Write", "(*reader/utils/middleware.responseWriterWithCode).Write"]

/-- … and the library calls made from there -/
def loopExterns : List String :=
  ["(*compress/gzip.Writer).Write", "(net/http.Header).Set", "invoke net/http.ResponseWriter.Header",
   "invoke net/http.ResponseWriter.Write", "encoding/json.Marshal", "fmt.Println"]

/-- **handler_loops_no_fault_in_reach** (typed; closes the gap of `handler_loops_read_to_close`, which could not see
    inside the callees of a loop body). For every loop of reader/controller that receives from a channel (natural loops
    of the SSA control-flow graph; `for x := range ch` and `for { select { case x := <-ch … } }`): either the function
    leaves a drain behind (a deferred function — or a goroutine it starts — that itself receives in a loop), or
    * the loop has no exit other than "the channel is closed" (no return, break, goto, panic), AND
    * no instruction INSIDE the loop can panic (after discharge by dominating guards), AND
    * every qryn function reachable from a call inside the loop — transitively, through interface calls and function
      values — is one of the two response-writer wrappers, none of which has a panic site, AND
    * the library calls made from the loop and from those functions are the response writer, gzip, `json.Marshal`,
      `fmt.Println`.
    So no statement and no recovered panic takes a handler out of its loop before the producer has closed the channel,
    two calls deep included. (The Tempo trace handler renders stored spans in its loop — index sites in
    `SpanToJSONSpan`, dereferences of received values — and is in the first class: it defers a drain.) -/
theorem handler_loops_no_fault_in_reach :
    ∀ l ∈ ReadGoroutines.typedHandlerLoops,
      l.2.2.2.1 = true ∨
      (l.2.2.1 = false ∧ l.2.2.2.2.1 = [] ∧ l.2.2.2.2.2.2.1 = [] ∧
       (∀ c ∈ l.2.2.2.2.2.1, c ∈ loopCallees) ∧ (∀ e ∈ l.2.2.2.2.2.2.2, e ∈ loopExterns)) := by decide +kernel

/-- handlers that answer without touching the database or speak another protocol (websocket tail) -/
def staticHandlers : List String :=
  ["MiscController.Ready", "MiscController.Config", "MiscController.Rules", "MiscController.Metadata",
   "MiscController.Buildinfo", "ProfController.NotImplemented", "QueryRangeController.Tail", "TempoController.Echo"]

/-- **handlers_recover.** Every HTTP handler of the read side that runs a query starts with
    `defer tamePanic(w, r)`: a fault in the handler goroutine becomes a 500, never a dropped connection. -/
theorem handlers_recover : ∀ h ∈ ReadSide.handlers, h.2 = true ∨ h.1 ∈ staticHandlers := by decide

/-- handler goroutines without a recover of their own, typed: the middleware closures (they run BEFORE the controller's
    `defer tamePanic`; their sites are in the reviewed table), the two static Prometheus stubs, the echo endpoint and the
    websocket tail -/
def unrecoveredHandlerRoots : List String :=
  ["controller/miscController.go:MiscController.Metadata", "controller/miscController.go:MiscController.Buildinfo",
   "controller/queryRangeController.go:QueryRangeController.Tail", "controller/tempoController.go:TempoController.Echo",
   "utils/middleware/accept_encoding.go:reader/utils/middleware.AcceptEncodingMiddleware$1",
   "utils/middleware/basic_auth.go:reader/utils/middleware.BasicAuthMiddleware$1$1",
   "utils/middleware/cors_middleware.go:reader/utils/middleware.CorsMiddleware$1$1",
   "utils/middleware/logging.go:reader/utils/middleware.LoggingMiddleware$1$1"]

/-- **handlers_recover_typed.** Of the functions of the `http.HandlerFunc` signature under reader/ that are used as values
    (what net/http can run on a connection goroutine), every one has a direct deferred recover in its entry function —
    and, by `fault_site_census_typed`, no fault site before it — except the listed ones. (The syntactic
    `handlers_recover` lists four more: `Ready`, `Config`, `Rules`, `NotImplemented` are never registered.) -/
theorem handlers_recover_typed :
    ∀ r ∈ ReadGoroutines.typedRoots, r.2.1 = "handler" → r.2.2.1 = true ∨ r.1 ∈ unrecoveredHandlerRoots := by decide +kernel

/-! ## the detached goroutines cannot fault -/

/-- **detached_goroutines_fault_free.**
    (1) For *all* int64 window bounds, steps, range durations and *all* rows, `FixPeriodPlanner.Process` either
        refuses synchronously (an error → 5xx) or its detached goroutine runs to the end: no division by zero, no
        `makeslice` fault, no slice-bounds or index fault — also under int64 wrap-around, with fingerprint 0 first.
    (2) For every sequence of row events the scanners' index into their batch buffer stays in range.
    (3) A TraceQL result row whose three arrays have one length (they are `groupArray`s over the same rows) is
        indexed in range. -/
theorem detached_goroutines_fault_free :
    (∀ (p : FixParams) (rows : List Entry),
        fixProcess FixCode.fixed ReadSide.maxFixPeriodPoints p rows = none ∨
        ∃ out, fixProcess FixCode.fixed ReadSide.maxFixPeriodPoints p rows = some (.ok out)) ∧
    (∀ evs : List RowEv, ∃ batches, scanLoop ReadSide.scanBufLen 0 evs = .ok batches) ∧
    (∀ n : Nat, traceqlRow n n n = .ok ()) := by
  refine ⟨?_, ?_, ?_⟩
  · intro p rows
    by_cases hg : fixGuard ReadSide.maxFixPeriodPoints p = true
    · right
      obtain ⟨out, ho⟩ := fixGoroutine_ok (M := ReadSide.maxFixPeriodPoints) (by decide) hg rows
      exact ⟨out, by simp [fixProcess, hg, ho]⟩
    · left
      simp [fixProcess, FixCode.fixed, hg]
  · intro evs
    exact scanLoop_ok _ (by decide) evs 0 (by decide)
  · intro n
    simp [traceqlRow]

/-- **stage_goroutines_fault_free.** The arithmetic of the recovered pipeline stages does not fault either (so the
    recover is a second line, not the mechanism): guarded bucket indexes of the LRA/unwrap and `sum/min/max/avg/count`
    aggregators for every timestamp, window start, non-zero duration and slice length; `entries[:limit-sent]` of
    `LimitPlanner` for every int64 limit and every batching (as long as fewer than 2^63 entries went through). -/
theorem stage_goroutines_fault_free :
    (∀ (fromNs dur ts : Int) (len : Nat), dur ≠ 0 → ∃ r, lraAddValue AggCode.fixed fromNs dur ts len = .ok r) ∧
    (∀ (fromNs dur ts : Int) (len : Nat), dur ≠ 0 → (len : Int) < 9223372036854775808 →
        ∃ r, aggOpAddValue AggCode.fixed fromNs dur ts len = .ok r) ∧
    (∀ (limit : Int) (batches : List Nat), -9223372036854775808 ≤ limit → limit < 9223372036854775808 →
        sumN batches < 9223372036854775808 → ∃ r, limitRun limit 0 batches = .ok r) := by
  refine ⟨fun a b c d h => lraAddValue_ok a b c d h, fun a b c d h h' => aggOpAddValue_ok a b c d h h', ?_⟩
  intro limit batches h1 h2 h3
  exact limitRun_ok limit ⟨h1, h2⟩ batches 0 (by omega) (by omega)

/-! ## every parameter combination is answered -/

/-- **params_total.** Whatever the parameters parse to (absent, invalid, any int64), whatever the parser made of the
    query text, whatever the database does (version query fails, main query fails, any rows), the request ends in an
    HTTP response — result, 4xx, 5xx or a stream that ends with the error marker — never in a dropped connection and
    never in a dead process: Loki `query_range` and `query`; Prometheus `query_range` up to the engine; Tempo trace
    lookup for every id length and every position of a bad hex digit. -/
theorem params_total :
    (∀ q pl db, (lokiQueryRange code q pl db).answered = true) ∧
    (∀ q pl db, (lokiQueryInstant code q pl db).answered = true) ∧
    (∀ q, (promQueryRange q).answered = true) ∧
    (∀ idLen bad queryFails, (tempoTrace ⟨idLen, bad, true, true, queryFails⟩).answered = true) := by
  refine ⟨?_, ?_, ?_, ?_⟩
  · intro q pl db
    unfold lokiQueryRange
    split
    · rfl
    · split <;> first | exact lokiService_answered _ _ _ _ _ | rfl
  · intro q pl db
    unfold lokiQueryInstant
    split
    · rfl
    · split
      · rfl
      · simp only []
        split
        · rfl
        · exact lokiService_answered _ _ _ _ _
  · intro q
    simp only [promQueryRange]
    split
    · rfl
    · split
      · rfl
      · split
        · rfl
        · split
          · rfl
          · split <;> rfl
  · intro idLen bad qf
    have hd : ∃ b, hexDecodeInto (idLen / 2) idLen bad = .ok b := by
      unfold hexDecodeInto
      have : ¬ (idLen / 2 < match bad with | some k => min k (idLen / 2) | none => idLen / 2) := by
        cases bad <;> simp <;> omega
      exact ⟨_, if_neg this⟩
    obtain ⟨b, hb⟩ := hd
    simp only [tempoTrace, if_true, hb]
    cases b
    · rfl
    · simp only []
      split <;> rfl

/-- every step outcome sequence of a handler that defers `tamePanic` ends in an HTTP response, provided the status classes
    written next to the steps are responses -/
theorem runSteps_answered (steps : List (Resp × Out)) (h : steps.all (fun s => s.1.answered) = true) :
    (runSteps true steps).answered = true := by
  induction steps with
  | nil => rfl
  | cons s rest ih =>
    obtain ⟨c, o⟩ := s
    simp only [List.all_cons, Bool.and_eq_true] at h
    cases o with
    | ok => exact ih h.2
    | err => exact h.1
    | fault => rfl

/-- **handler_status_codes_as_modelled** (T). The status codes of the error answers of every handler of reader/controller
    (`PromError(N, …)`, `defaultError(w, N, …)`; literals — anything else is a GENFAIL), in source order, are the ones the
    controller models use, and every one of them is a 4xx or a 5xx. -/
theorem handler_status_codes_as_modelled :
    ReadSide.handlerCodes = modelledCodes ∧
    (∀ h ∈ ReadSide.handlerCodes, ∀ c ∈ h.2, classOfCode c = .err4xx ∨ classOfCode c = .err5xx) := by decide

/-- **params_total_all.** The remaining registered handlers of the read side — Loki labels / label values / series,
    Prometheus labels / label values / series / metadata / instant query, Tempo search (tags and TraceQL) / tags v1, v2 /
    tag values v1, v2 / echo, Pyroscope ProfileTypes / LabelNames / LabelValues / SelectMergeStacktraces / SelectSeries /
    SelectMergeProfile / Series / AnalyzeQuery / GetProfileStats / Settings / render-diff, the static answers: whatever
    each parameter parses to (absent, rejected, any int64), whatever each step of the handler does (returns, returns an
    error, FAULTS), the request ends in an HTTP response — result, 4xx or 5xx — never in a dropped connection. -/
theorem params_total_all :
    (∀ pl fo s e sv, (lokiLabels pl fo s e sv).answered = true) ∧
    (∀ pl fo s e ne sv, (lokiValues pl fo s e ne sv).answered = true) ∧
    (∀ pl fo s e nm sv, (lokiSeries pl fo s e nm sv).answered = true) ∧
    (∀ pl fo f2 sv, (promLabels pl fo f2 sv).answered = true) ∧
    (∀ pl pa ne sv s0, (promLabelValues pl pa ne sv s0).answered = true) ∧
    (∀ pl fo f2 sv, (promSeries pl fo f2 sv).answered = true) ∧
    (∀ pl, (promMetadata pl).answered = true) ∧
    (∀ pl fo t qe nq ex wr, (promQueryInstant pl fo t qe nq ex wr).answered = true) ∧
    (∀ pl sv, (tempoTagsV1 pl sv).answered = true) ∧
    (∀ pl s e v1 v2 m, (tempoTagsV2 pl s e v1 v2 m).answered = true) ∧
    (∀ pl mi ma li s e hq ql tg, (tempoSearch pl mi ma li s e hq ql tg).answered = true) ∧
    (staticAnswer.answered = true) ∧
    (∀ pa sv ma, (profEndpoint pa sv ma).answered = true) ∧
    (∀ sv ma, (profNoBody sv ma).answered = true) ∧
    (∀ mi a b c d sv, (profRenderDiff mi a b c d sv).answered = true) := by
  refine ⟨?_, ?_, ?_, ?_, ?_, ?_, ?_, ?_, ?_, ?_, ?_, rfl, ?_, ?_, ?_⟩ <;> intros <;> exact runSteps_answered _ rfl

/-- **tail_upgrade_total_partial.** The websocket tail up to the upgrade: plugins, the `query` parameter, the service call
    (`logql_transpiler_v2.Transpile` runs here, on the handler goroutine), the upgrade. The handler has NO
    `defer tamePanic`, so the statement needs the hypothesis that neither the plugins nor the service call FAULT (they
    may fail): then every outcome is an HTTP response — 500, 200 with an empty body (empty query / refused query), the
    upgrader's 400, or the 101 upgrade. That the parser and planner constructors do not fault is explored (typed
    census: `reviewedWide`; 200 000 generated and mutated queries), not proved. -/
theorem tail_upgrade_total_partial (plugins svc : Out) (queryEmpty upgradeOk : Bool)
    (hp : plugins ≠ .fault) (hs : svc ≠ .fault) : (lokiTail plugins queryEmpty svc upgradeOk).answered = true := by
  cases plugins <;> cases svc <;> cases queryEmpty <;> cases upgradeOk <;> first | rfl | contradiction

/-- the full-strength statement for the tail is false: a fault in the service call on the un-recovered handler goroutine
    drops the connection (net/http's recover keeps the process alive) -/
def tail_upgrade_total_full : Prop :=
  ∀ (plugins svc : Out) (queryEmpty upgradeOk : Bool), (lokiTail plugins queryEmpty svc upgradeOk).answered = true

theorem tail_upgrade_total_counterexample : ¬ tail_upgrade_total_full := by
  intro h
  have := h .ok .fault false true
  revert this
  decide

/-! ## the pinned tree violates the statement (witnesses kept) -/

/-- A24 [observed]: `rate({a="b"}[1m])`, `step=0`, one result row → division by zero in the detached goroutine
    after the response header was written → the process dies -/
theorem pinned_step_zero_crashes :
    lokiQueryRange pinned ⟨false, .ok 1700000000000000000, .ok 1700003600000000000, .ok 0⟩
      ⟨true, true, 60000000000, none⟩ ⟨false, false, [⟨7, 1700000100000000000, 1⟩]⟩ = .crash := by decide

/-- A24: reversed window → `makeslice: len out of range` -/
theorem pinned_reversed_window_crashes :
    lokiQueryRange pinned ⟨false, .ok 1700003600000000000, .ok 1700000000000000000, .ok 1000⟩
      ⟨true, true, 60000000000, none⟩ ⟨false, false, [⟨7, 1700000100000000000, 1⟩]⟩ = .crash := by decide

/-- A24: zero range duration `[0s]` → division by zero -/
theorem pinned_zero_range_crashes :
    lokiQueryRange pinned ⟨false, .ok 1700000000000000000, .ok 1700003600000000000, .ok 1000⟩
      ⟨true, true, 0, none⟩ ⟨false, false, [⟨7, 1700000100000000000, 1⟩]⟩ = .crash := by decide

/-- the same requests on the fixed code are refused with a 5xx -/
example : lokiQueryRange code ⟨false, .ok 1700000000000000000, .ok 1700003600000000000, .ok 0⟩
    ⟨true, true, 60000000000, none⟩ ⟨false, false, [⟨7, 1700000100000000000, 1⟩]⟩ = .err5xx := by decide

/-- [observed] a first series with fingerprint 0 is never allocated; a sample whose bucket straddles the start
    reaches `fastFill` with an empty slice -/
theorem guard_alone_fp0_faults :
    fixGoroutine ⟨true, false, true⟩ ⟨1700000000000000000, 1700003600000000000, 1000000000, 60000000000⟩
      [⟨0, 1700000000000000000 - 1, 1⟩] = .error .indexOutOfRange := by decide

/-- [observed] int64 overflow inverts the bucket range: `[9223372036854775807ns]`, start −9223372036 s, end 0,
    step 9223372036 s, a row at 0 → `values[1:1]` → `fastFill` faults -/
theorem guard_alone_overflow_faults :
    fixGuard ReadSide.maxFixPeriodPoints ⟨-9223372036000000000, 0, 9223372036000000000, 9223372036854775807⟩ = true ∧
    fixGoroutine ⟨true, true, false⟩ ⟨-9223372036000000000, 0, 9223372036000000000, 9223372036854775807⟩
      [⟨7, 0, 1⟩] = .error .indexOutOfRange := by decide

/-- A21: a sample at the end of the window has bucket index = stream length (LRA: no guard at all;
    AggOp: `idx*2 > len` lets `idx*2 == len` through) -/
theorem pinned_bucket_index_faults :
    lraAddValue AggCode.pinned 0 10 100 20 = .error .indexOutOfRange ∧
    lraAddValue AggCode.pinned 0 10 (-5 * 10) 20 = .error .indexOutOfRange ∧
    aggOpAddValue AggCode.pinned 0 10 100 20 = .error .indexOutOfRange := by decide

/-- A35: an id of 66 hex digits faults in `hex.Decode` (32-byte buffer) in a handler without recover → the
    connection is dropped without a response -/
theorem pinned_long_trace_id_aborts : tempoTrace ⟨66, none, false, false, false⟩ = .aborted := by decide

/-- the unreferenced `MatrixStepPlanner` loop: ends for a positive step, never ends for `step ≤ 0` -/
theorem matrix_step_loop (step lim i : Int) :
    (0 < step → ∃ r, matrixStepLoop ((lim - i).toNat + 1) i lim step = some r) ∧
    (step ≤ 0 → i < lim → ∀ fuel, matrixStepLoop fuel i lim step = none) :=
  ⟨fun h => matrixStepLoop_terminates step h lim _ i (by omega),
   fun h hi fuel => matrixStepLoop_diverges step h lim fuel i hi⟩

/-! ## the channel pipeline terminates -/
open Qryn.ReadSide.Pipe

/-- **pipeline_terminates.** For every pipeline ASSEMBLED FROM THE REGENERATED STAGES (`cs`: any number of them, in any
    order, each one of `liveStages` — the model reads each stage's `drains` flag off what `Gen.StageDrains` says about
    its exits, `drainsOf`), every result set (batches with arbitrary futures: how many batches each one produces at each
    later stage, where an error strikes), every closing output of the stages, and every interleaving of the goroutines
    together with the environment moves (context cancelled because the limit was reached or the client went away,
    database failing midway):
    (a) every move strictly decreases `measure`, so every schedule is finite, at most `measure` moves long;
    (b) a state that is not final has a move — no send blocks forever, no goroutine waits for ever;
    (c) hence a schedule can only stop in the final state (every goroutine returned, every channel closed),
        and the final state is reachable from every reachable state.
    There is no hypothesis about the stages' behaviour after an error any more: it is `stage_drains_regenerated`. -/
theorem pipeline_terminates (cs : List StageCode) (hn : 0 < cs.length) (hreg : ∀ c ∈ cs, c ∈ liveStages)
    (rows : List Item) (flush : Nat → List Item) (S : Sys)
    (hr : Run (startC cs rows flush) S) :
    (∀ S', Step S S' → S'.measure < S.measure) ∧
    S.measure ≤ (startC cs rows flush).measure ∧
    (¬ Final S → ∃ S', Step S S') ∧
    ((∀ S', ¬ Step S S') → Final S) ∧
    (∃ S', Run S S' ∧ Final S') := by
  have hI : Inv S := run_inv (startC_inv cs hn hreg rows flush) hr
  refine ⟨fun S' h => step_measure h, run_measure hr, fun hF => progress hI hF, ?_, reaches_final S hI⟩
  intro hstuck
  by_cases hF : Final S
  · exact hF
  · obtain ⟨S', hs⟩ := progress hI hF
    exact absurd hs (hstuck S')

/-- the exporter of the tree as found stops reading after an error entry: with one more batch on its way the
    scanner is blocked in its send forever (the goroutine leak observed through `ResponseOptimizerPlanner`) -/
theorem pipeline_without_drain_deadlocks :
    ∃ S, Run (start 1 [.mk true [.mk false []], .mk false []] (fun _ => []) (fun _ => false)) S ∧
      (∀ S', ¬ Step S S') ∧ ¬ Final S := by
  let e : Item := .mk true [.mk false []]
  let b : Item := .mk false []
  let S0 := start 1 [e, b] (fun _ => []) (fun _ => false)
  have s1 := Step.srcSend S0 e [b] rfl (by decide) ⟨rfl, rfl, Or.inl rfl⟩
  refine ⟨_, Run.step s1 (Run.step (Step.sendLast _ 0 (.mk false []) [] rfl rfl) (Run.step (Step.close _ 0 (by decide) rfl rfl (Or.inl rfl)) (Run.refl _))), ?_, ?_⟩
  · intro S' h
    cases h with
    | srcSend it rest hs hn hr => simp [Stg.ready, upd, Stg.closeOut, Stg.setBuf, Stg.recv, S0, start, e] at hr
    | cancel k hk => simp [S0, start] at hk
    | srcClose hs hc => simp [S0, start] at hs
    | seeClose i hi hr hu =>
      have : i = 0 := by simp [S0, start] at hi; omega
      subst this
      simp [Stg.ready, upd, Stg.closeOut, Stg.setBuf, Stg.recv, S0, start, e] at hr
    | send i it rest hi hb hr => simp [S0, start] at hi
    | sendLast i it rest hi hb =>
      have : i = 0 := by simp [S0, start] at hi; omega
      subst this
      simp [upd, Stg.closeOut, Stg.setBuf, Stg.recv, S0, start, e] at hb
    | close i hi hb hc hs =>
      have : i = 0 := by simp [S0, start] at hi; omega
      subst this
      simp [upd, Stg.closeOut, Stg.setBuf, Stg.recv, S0, start, e] at hc
  · intro hF
    have := hF.1
    simp [S0, start] at this

/-! ## the pipeline with its consumer: no producer stays blocked when the handler stops reading -/

/-- **no_blocked_sender.** The handler is part of the transition system (`PipelineH.lean`): it may leave its copy loop
    at ANY point (`stop`: client gone, write error, limit reached), the request context may be cancelled at any point
    (`envCancel`). For every pipeline assembled from the regenerated stages (`cs`, each one of `liveStages`; the model
    interprets each stage's regenerated exits, `drainsOf`), every result set (batches with arbitrary futures), every
    closing output and every interleaving: under the handler's convention — its code keeps the channel drained
    (`onStop = drain`: qryn, by `handler_loops_read_to_close` / `handler_loops_no_fault_in_reach` — a loop that is never
    left early, or a deferred drainer), OR it cancels a context on which every producer's send selects
    (`onStop = cancel ∧ sel`) —
    (a) every move strictly decreases `measure`: every schedule is finite;
    (b) a state that is not final has a move: no send blocks for ever, wherever the handler stopped;
    (c) a schedule can only end in the final state — scanner, every stage and the exporter returned, every channel
        closed, the handler out of its loop — and that state is reachable from every reachable state.
    What used to be the free assumption "every stage keeps its input consumed" is now the regenerated fact
    `stage_drains_regenerated`; `undrained_stage_never_terminates` is the counterexample for a stage that does not. -/
theorem no_blocked_sender (cs : List StageCode) (hn : 0 < cs.length) (hreg : ∀ c ∈ cs, c ∈ liveStages)
    (rows : List Item) (flush : Nat → List Item)
    (c : OnStop) (sel : Bool) (hconv : c = .drain ∨ (c = .cancel ∧ sel = true)) (S : HSys)
    (hr : HRun (hstartC cs rows flush c sel) S) :
    (∀ S', HStep S S' → S'.measure < S.measure) ∧
    S.measure ≤ (hstartC cs rows flush c sel).measure ∧
    (¬ HFinal S → ∃ S', HStep S S') ∧
    ((∀ S', ¬ HStep S S') → HFinal S) ∧
    (∃ S', HRun S S' ∧ HFinal S') := by
  have hI : HInv S := hrun_inv (hstartC_inv cs hn hreg rows flush c sel) hr
  have hc : Convention S := by
    have := hrun_code hr
    unfold Convention
    rw [this.1, this.2]
    exact hconv
  refine ⟨fun S' h => hstep_measure h, hrun_measure hr, fun hF => hprogress hI hc hF, ?_, hreaches_final S hI hc⟩
  intro hstuck
  by_cases hF : HFinal S
  · exact hF
  · obtain ⟨S', hs⟩ := hprogress hI hc hF
    exact absurd hs (hstuck S')

/-- a stage as the self-test writes it: `if err != nil { return }` inside `for entries := range in`, no drainer -/
def returnsWithoutDraining : StageCode := ⟨"stage that returns on an error without draining", false, false, [.none]⟩

/-- … and a stage that gained a recover but no deferred drainer (every explicit exit drains; the recovered panic does not) -/
def recoversWithoutDrain : StageCode := ⟨"stage with a recover and no deferred drainer", true, false, [.drain]⟩

/-- **undrained_stage_never_terminates** (counterexample, general): once a first stage that does not keep its input
    consumed (`drains = false`, what `drainsOf` computes for `returnsWithoutDraining`) has left its loop while the scanner
    still has a batch to send, and no producer selects on the context, then in EVERY continuation — whatever the handler
    does: it may drain, cancel, leave — the scanner still holds that batch: the final state is never reached. -/
theorem undrained_stage_never_terminates (S S' : HSys) (hU : Undrained S) (hr : HRun S S') :
    S'.sys.src ≠ [] ∧ ¬ HFinal S' :=
  ⟨(hrun_undrained hU hr).pending, undrained_not_final (hrun_undrained hU hr)⟩

/-- the full-strength statement without the regenerated discipline — false -/
def any_stage_terminates_full : Prop :=
  ∀ (cs : List StageCode) (rows : List Item) (flush : Nat → List Item) (S : HSys), 0 < cs.length →
    HRun (hstartC cs rows flush .drain false) S → ∃ S', HRun S S' ∧ HFinal S'

/-- **any_stage_terminates_counterexample**: the pipeline [a stage that returns on an error without draining] under a
    handler that DOES drain; the first batch is an error entry, a second batch is on its way. After the stage has
    received the first batch the scanner is blocked in its send for ever (kernel-checked: `drainsOf` of that stage code
    is `false`, the state is `Undrained`). The same for a stage that recovers without a deferred drainer. -/
theorem any_stage_terminates_counterexample : ¬ any_stage_terminates_full := by
  intro hfull
  let e : Item := .mk true []
  let b : Item := .mk false []
  let S0 := hstartC [returnsWithoutDraining] [e, b] (fun _ => []) .drain false
  let T : Sys := { S0.sys with src := [b], stg := upd S0.sys.stg 0 ((S0.sys.stg 0).recv e) }
  have st1 : HStep S0 { S0 with sys := T } :=
    HStep.work S0 T (Step.srcSend S0.sys e [b] rfl (by decide) ⟨rfl, rfl, Or.inl rfl⟩)
      (fun _ => Or.inr rfl)
  have hU : Undrained { S0 with sys := T } := by
    refine ⟨by decide, ?_, ?_, ?_, rfl⟩
    · simp [T]
    · simp [T, S0, hstartC, hstart, start, upd, Stg.recv, e]
    · simp [T, S0, hstartC, hstart, start, upd, Stg.recv, e, drainsOf, returnsWithoutDraining, StageCode.keepsConsumed]
  obtain ⟨S', hr', hF⟩ := hfull [returnsWithoutDraining] [e, b] (fun _ => []) _ (by decide) (HRun.step st1 (HRun.refl _))
  exact (undrained_stage_never_terminates _ S' hU hr').2 hF

/-- **stage_schedule_sound.** What the compiled model answers in the `stagedrain` correspondence stream (`c12sdrain`:
    fake upstream → the real aggregator stage over `GenericPlanner.WrapProcess` → a consumer that reads to the end) is a
    statement about the transition system: the state the schedule ends in is reachable; verdict `final` ⇒ every goroutine
    has returned; verdict `blocked` ⇒ the state is `Undrained`, so no continuation reaches the final state. -/
theorem stage_schedule_sound (k fuel : Nat) (S : HSys) :
    HRun S (hsched k fuel S 0).1 ∧
    (verdictS (hsched k fuel S 0).1 = "final" → HFinal (hsched k fuel S 0).1) ∧
    (verdictS (hsched k fuel S 0).1 = "blocked" → ∀ S', HRun (hsched k fuel S 0).1 S' → ¬ HFinal S') := by
  refine ⟨hsched_run k fuel S 0, ?_, ?_⟩
  · intro hv
    apply hfinalB_sound
    unfold verdictS at hv
    split at hv
    · assumption
    · split at hv <;> simp at hv
  · intro hv S' hr
    have hb : undrainedB (hsched k fuel S 0).1 = true := by
      unfold verdictS at hv
      split at hv
      · simp at hv
      · split at hv
        · assumption
        · simp at hv
    exact (undrained_stage_never_terminates _ S' (undrainedB_sound _ hb) hr).2

example : drainsOf [returnsWithoutDraining] 0 = false ∧ drainsOf [recoversWithoutDrain] 0 = false := by decide
-- the regenerated WrapProcess loop: every schedule of the stream ends with everything returned; a stage without drainer blocks
example : stageRun wrapProcessCode [false, true, false, false] = "final" := by decide +kernel
example : stageRun returnsWithoutDraining [false, true, false, false] = "blocked" := by decide +kernel
-- (an error in the LAST batch blocks nobody; the model's `Final` also asks that somebody has seen the input closed: "open")
example : stageRun returnsWithoutDraining [false, false, true] = "open" := by decide +kernel
example : wrapProcessCode.keepsConsumed = true := by decide +kernel
example : returnsWithoutDraining ∉ liveStages ∧ recoversWithoutDrain ∉ liveStages := by decide +kernel

/-- **abandoned_exporter_never_returns.** The counter-pattern in general: once the handler has left its loop, its
    code does not drain and the producers do not watch the context (`onStop ≠ drain`, `sel = false`: seeded change
    C12-1 on today's producers — also when the handler "only" cancels the request context), and the exporter has a chunk to hand over, then in EVERY continuation, whatever the
    pipeline length and the schedule, the exporter still holds that chunk: it never returns, its deferred drain never
    runs, the final state is never reached. -/
theorem abandoned_exporter_never_returns (S S' : HSys) (hA : Abandoned S) (hr : HRun S S') :
    (S'.sys.stg (S'.sys.n - 1)).buf ≠ [] ∧ ¬ HFinal S' :=
  ⟨(hrun_abandoned hA hr).pending, abandoned_not_final (hrun_abandoned hA hr)⟩

/-- the full-strength statement for a handler that simply returns early — false -/
def early_return_terminates_full : Prop :=
  ∀ (n : Nat) (rows : List Item) (flush : Nat → List Item) (S : HSys), 0 < n →
    HRun (hstart n rows flush (fun _ => true) .abandon false) S → ∃ S', HRun S S' ∧ HFinal S'

/-- **early_return_terminates_counterexample** (seeded change C12-1: `for str := range ch { if r.Context().Err() != nil
    { return } … }`): one stage, one row that makes the exporter produce one chunk; the handler leaves before the chunk
    is handed over. The exporter is blocked in `res <- chunk` for ever: no continuation reaches the final state. -/
theorem early_return_terminates_counterexample : ¬ early_return_terminates_full := by
  intro hfull
  let row : Item := .mk false [.mk false []]
  let S0 := hstart 1 [row] (fun _ => []) (fun _ => true) .abandon false
  let S1 : HSys := { S0 with reading := false, ctxDone := S0.ctxDone || (S0.onStop == OnStop.cancel) }
  let T : Sys := { S1.sys with src := [], stg := upd S1.sys.stg 0 ((S1.sys.stg 0).recv row) }
  have st1 : HStep S0 S1 := HStep.stop S0 rfl
  have st2 : HStep S1 { S1 with sys := T } :=
    HStep.work S1 T (Step.srcSend S1.sys row [] rfl (by decide) ⟨rfl, rfl, Or.inl rfl⟩)
      (fun ⟨it, h⟩ => by simp [S1, S0, hstart, start] at h)
  have hrun : HRun S0 { S1 with sys := T } := HRun.step st1 (HRun.step st2 (HRun.refl _))
  have hA : Abandoned { S1 with sys := T } := by
    refine ⟨rfl, by decide, rfl, by decide, ?_⟩
    simp [T, S1, S0, hstart, start, upd, Stg.recv, row]
  obtain ⟨S', hr', hF⟩ := hfull 1 [row] (fun _ => []) _ (by decide) hrun
  exact (abandoned_exporter_never_returns _ S' hA hr').2 hF

/-- **consumer_schedule_sound.** What the compiled model answers in the `consumer` correspondence stream
    (`c12hstop`: scanner → exporter → a consumer that leaves after `k` chunks and then drains / cancels / abandons) is
    a statement about the transition system: the state the executable schedule `hsched` ends in is REACHABLE from the
    start state by moves of `HStep`; if the verdict is `final`, every goroutine has returned there; if it is `blocked`,
    no continuation whatsoever reaches the final state (the exporter never returns). -/
theorem consumer_schedule_sound (k fuel : Nat) (S : HSys) :
    HRun S (hsched k fuel S 0).1 ∧
    (verdict (hsched k fuel S 0).1 = "final" → HFinal (hsched k fuel S 0).1) ∧
    (verdict (hsched k fuel S 0).1 = "blocked" → ∀ S', HRun (hsched k fuel S 0).1 S' → ¬ HFinal S') := by
  refine ⟨hsched_run k fuel S 0, ?_, ?_⟩
  · intro hv
    apply hfinalB_sound
    unfold verdict at hv
    split at hv
    · assumption
    · split at hv <;> simp at hv
  · intro hv S' hr
    have hb : abandonedB (hsched k fuel S 0).1 = true := by
      unfold verdict at hv
      split at hv
      · simp at hv
      · split at hv
        · assumption
        · simp at hv
    exact (abandoned_exporter_never_returns _ S' (abandonedB_sound _ hb) hr).2

-- non-vacuity: the hypotheses of the theorems above are satisfiable and the guard lets ordinary requests through
example : fixGuard ReadSide.maxFixPeriodPoints ⟨1700000000000000000, 1700003600000000000, 15000000000, 60000000000⟩ = true := by decide
example : fixProcess FixCode.fixed ReadSide.maxFixPeriodPoints ⟨1700000000000000000, 1700000060000000000, 30000000000, 60000000000⟩
    [⟨7, 1700000030000000000, 2⟩] = some (.ok [(7, [(1700000000000000000, 2), (1700000030000000000, 2)])]) := by decide
example : lokiQueryRange code ⟨false, .ok 1700000000000000000, .ok 1700003600000000000, .ok 15000⟩
    ⟨true, true, 60000000000, some 60000000000⟩ ⟨false, false, [⟨7, 1700000100000000000, 1⟩]⟩ = .result := by decide +kernel
example : limitRun 5 0 [3, 3, 3] = .ok ([3, 2], true) := by decide
example : scanLoop 3 0 (List.replicate 7 RowEv.row) = .ok [3, 3, 2] := by decide
example : Inv (start 3 [.mk false [.mk false []]] (fun _ => []) (fun _ => true)) := start_inv 3 (by decide) _ _
-- the handler can leave before anything was sent, under both conventions; the hypotheses of `no_blocked_sender` hold at the start
example : ∃ S', HStep (hstart 2 [.mk false [.mk false []]] (fun _ => []) (fun _ => true) .drain false) S' ∧ S'.reading = false :=
  ⟨_, HStep.stop _ rfl, rfl⟩
example : HInv (hstart 2 [.mk true []] (fun _ => []) (fun _ => true) .cancel true) := hstart_inv 2 (by decide) _ _ _ _
-- the schedule the driver runs: 3 + 2 chunks and the closing one; the consumer leaves after 2
example : exporterRun [(3, false), (2, false)] .drain 2 = ("final", 2) := by decide +kernel
example : exporterRun [(3, false), (2, false)] .abandon 2 = ("blocked", 2) := by decide +kernel
example : exporterRun [(3, false), (2, true), (5, false)] .abandon 5 = ("final", 5) := by decide +kernel

end Qryn.C12

/-! ## `dbVersion.GetVersionInfo` — the lookup every read request runs first (session c12w) -/
namespace Qryn.C12
section DbVersion
open Qryn.ReadSide.DbVersion

/-- **T.** reader/utils/dbVersion/version.go, regenerated: the event sequences of every source path of every function
    are the ones the transition system of `ReadSide/DbVersion.lean` has moves for — `GetVersionInfo`: first hold reads
    `versions` (move `hit` / `lead`); both queries OUTSIDE any hold (`settings`, `tables`; an error returns at once,
    holding nothing); second hold writes `versions`, then `throttle()` (`finish`); `throttle`: compare-and-swap of
    `throttled`, at most one sleeper started; the sleeper: sleep, `throttled = 0` (`sleeperWakes`), then under the mutex
    a fresh map (`reset`). No function blocks in a channel receive / Cond / WaitGroup wait (`waits = []`): no lookup
    depends on another lookup's progress. The translator itself refuses: a query, wait or sleep under the mutex; a path
    that returns holding it; a package variable touched outside a hold (`throttled`, accessed through sync/atomic,
    excepted); a wait nobody signals; a channel created on a path that returns without signalling it. -/
theorem version_lock_structure_as_modelled :
    Gen.DbVersion.funcs =
      [("(method).IsVersionSupported", [[.ret false]]),
       ("throttle", [[.cas "throttled", .spawn "throttle.go#1", .ret false], [.cas "throttled", .ret false]]),
       ("throttle.go#1", [[.sleep, .write "throttled", .lock, .write "versions", .unlock, .ret false]]),
       ("GetVersionInfo",
        [[.lock, .read "versions", .unlock, .query, .query, .lock, .write "versions", .unlock, .call "throttle", .ret false],
         [.lock, .read "versions", .unlock, .query, .query, .ret true],
         [.lock, .read "versions", .unlock, .query, .ret true],
         [.lock, .read "versions", .unlock, .ret false]])] ∧
    Gen.DbVersion.waits = [] ∧
    Gen.DbVersion.code = { share := false, signalOnError := true } := by decide

/-- **version_lookup_total.** Any number `S0.n` of concurrent calls of `GetVersionInfo` on any databases, started in any
    cache state (warm or cold per database, throttle flag either way, sleepers and resets pending), every interleaving of
    their critical sections with each other and with the cache resets, every outcome (rows / database error / the
    caller's context cancelled) of every bookkeeping query: in every reachable state `S`
    (1) every move decreases `measure` — no schedule runs for ever;
    (2) if some lookup has not returned, some goroutine has a move — nobody waits for something that cannot happen;
    (3) a state without moves has every lookup back in its caller (with the value or with the error);
    (4) such a state is reachable.
    Holds for the code as regenerated (`Gen.DbVersion.code`, first conjunct) and for EVERY shape that either does not
    make a lookup wait for another one or wakes the waiters on the error path too. What it means for the code: a read
    request never blocks in the version lookup, also when the database fails or another client goes away midway. The
    database driver answering or failing a query in bounded time (`QueryCtx` under the request context) is the
    hypothesis built into the moves `settings` / `tables`. -/
theorem version_lookup_total :
    (Gen.DbVersion.code.share = false ∨ Gen.DbVersion.code.signalOnError = true) ∧
    ∀ (c : Code), (c.share = false ∨ c.signalOnError = true) →
    ∀ (S0 S : Sys), Initial S0 → Run c S0 S →
      (∀ S', Step c S S' → S'.measure < S.measure) ∧
      ((∃ i, i < S.n ∧ (S.lk i).pc.isReturned = false) → ∃ S', Step c S S') ∧
      ((∀ S', ¬ Step c S S') → AllReturned S) ∧
      (∃ S', Run c S S' ∧ AllReturned S') := by
  refine ⟨by decide, ?_⟩
  intro c hc S0 S h0 hr
  have hI : Inv c S := run_inv c hc hr (initial_inv c S0 h0)
  refine ⟨fun S' h => step_measure c S S' h, ?_, ?_, reaches_all_returned c hc _ S (Nat.le_refl _) hI⟩
  · rintro ⟨i, hi, hnr⟩
    exact progress c S hI i hi hnr
  · intro hstuck
    apply Classical.byContradiction
    intro ha
    obtain ⟨i, hi, hnr⟩ := not_all_returned S ha
    obtain ⟨S', hs⟩ := progress c S hI i hi hnr
    exact hstuck S' hs

/-- **orphaned_waiter_never_returns** (counter-pattern, general). In ANY state in which a lookup waits on a leader that
    has returned without closing `done`, whatever happens afterwards — other lookups, query outcomes, cache resets, new
    leaders — that lookup is still waiting: the request it belongs to never gets its response. -/
theorem orphaned_waiter_never_returns (c : Code) (S S' : Sys) (h : Orphaned S) (hr : Run c S S') :
    Orphaned S' ∧ ¬ AllReturned S' := by
  refine ⟨?_, orphaned_never_returns c hr h⟩
  induction hr with
  | refl => exact h
  | step hs _ ih => exact ih (step_keeps_orphaned c _ _ h hs)

/-- the statement of `version_lookup_total` (4) for EVERY shape of the lookup -/
def version_lookup_total_full : Prop :=
  ∀ (c : Code) (S0 S : Sys), Initial S0 → Run c S0 S → ∃ S', Run c S S' ∧ AllReturned S'

/-- two requests for database 0 on a cold cache, starting together -/
def coldPair : Sys :=
  { n := 2, lk := fun _ => ⟨0, .start⟩, cache := fun _ => false, inflight := fun _ => none,
    throttled := false, sleepers := 0, resets := 0 }

/-- **version_lookup_total_counterexample** — "the entry is removed and the error returned before the waiters are
    signalled" (`share = true`, `signalOnError = false`; seeded change C12-w): lookup 0 misses the cache and becomes the
    leader, lookup 1 finds it under way and waits, the leader's settings query fails, the leader removes its entry and
    returns the error. Lookup 1 is now orphaned: no continuation has it returned. -/
theorem version_lookup_total_counterexample : ¬ version_lookup_total_full := by
  intro hfull
  let c : Code := ⟨true, false⟩
  let S1 : Sys := { coldPair with lk := setPc coldPair.lk 0 .settings, inflight := setKey coldPair.inflight 0 (some 0) }
  let S2 : Sys := { S1 with lk := setPc S1.lk 1 (.waiting 0) }
  let S3 : Sys := { S2 with lk := setPc S2.lk 0 (.finishing .error) }
  let S4 : Sys := Qryn.ReadSide.DbVersion.finish c S3 0 .error
  have s1 : Step c coldPair S1 := Step.lead coldPair 0 (by decide) rfl rfl (fun _ => rfl)
  have s2 : Step c S1 S2 := Step.join S1 1 0 (by decide) rfl rfl rfl rfl
  have s3 : Step c S2 S3 := Step.settings S2 0 .err (by decide) rfl
  have s4 : Step c S3 S4 := Step.finish S3 0 .error (by decide) rfl
  have hO : Orphaned S4 := ⟨1, 0, .error, by decide, rfl, rfl⟩
  have hrun : Run c coldPair S4 := Run.step s1 (Run.step s2 (Run.step s3 (Run.step s4 (Run.refl _))))
  obtain ⟨S', hr', hall⟩ := hfull c coldPair _ ⟨fun _ => rfl, fun _ => rfl⟩ hrun
  exact (orphaned_waiter_never_returns c _ S' hO hr').2 hall

-- non-vacuity: the hypotheses of `version_lookup_total` are satisfiable (a cold pair is an initial state, it has a move,
-- the same schedule with a leader that DOES signal releases the waiter) and `Orphaned` is reachable only without the signal
example : Initial coldPair := ⟨fun _ => rfl, fun _ => rfl⟩
example : ∃ S', Step Gen.DbVersion.code coldPair S' := ⟨_, Step.lead coldPair 0 (by decide) rfl rfl (fun h => by cases h)⟩
example : (Qryn.ReadSide.DbVersion.finish ⟨true, true⟩ { coldPair with lk := setPc coldPair.lk 0 (.finishing .error) } 0 .error).lk 0
    = ⟨0, .returned .error true⟩ := rfl
example : (Qryn.ReadSide.DbVersion.finish ⟨true, false⟩ { coldPair with lk := setPc coldPair.lk 0 (.finishing .error) } 0 .error).lk 0
    = ⟨0, .returned .error false⟩ := rfl

end DbVersion
end Qryn.C12
