import Qryn.Proofs.LogQLMetric
import Qryn.Proofs.MetricUnwrap
import Qryn.Proofs.MetricXCorollaries
import Qryn.Proofs.MetricOrder
/-! # C08 — the SQL generated for LogQL metric queries computes the defined aggregates

Model: `LogQL.planMetric` (tied byte-for-byte to the real planner's SQL text by the `text` stream, its step
list to the real planner chain by the `chain` stream), `Sql.evalSelA`/`evalBodyA`/`evalAgg` (semantics of the
aggregating SQL subset — a documented model of ClickHouse), `LogQL.evalMetric` (the direct reading, no SQL),
`LogQL.postProcess`/`fixWindow` (the Go post-processors, tied by the `post` stream); `LogQL.planMetricX` /
`LogQL.evalMetricX` for the labelled path (selectors with `| json` / `| regexp` / `| drop`, `quantile_over_time`; `textx`,
`semx` streams). The whole-plan equality is PROVED for three decidable classes (`plan_metric_correct`,
`plan_metric_correct_unwrap`, `plan_metric_correct_ext`; section "the whole plan" and after); the first sections prove it
stage by stage: for every stage the SELECT the planner emits, over arbitrary input rows, computes what the direct reading
defines. The semantic streams label every generated case with the class predicates of these theorems.

Numbers: Float64 values are exact rationals (`Rat`), UInt64/Int64 values integers; no theorem depends on IEEE
rounding. Range durations are positive (any unit: since the `fix:` of the rate divisor nothing depends on whole
milliseconds), timestamps non-negative. -/
namespace Qryn.C08
open Qryn Qryn.Sql Qryn.LogQL

/-! ## bucket -/

/-- **bucket.** `intDiv(ts, d) * d` is the start of the window of width `d` that contains `ts`: it is a multiple
    of `d`, at most `ts`, and `ts` is less than `d` after it. -/
theorem bucket (d ts : Int) (hts : 0 ≤ ts) (hd : 0 < d) :
    bucketOf d ts ≤ ts ∧ ts < bucketOf d ts + d ∧ d ∣ bucketOf d ts :=
  bucketOf_spec d ts hts hd

/-- …and it is the only such multiple: the bucket of an entry is determined by the entry alone. -/
theorem bucket_unique (d ts m : Int) (hts : 0 ≤ ts) (hd : 0 < d) (hm : d ∣ m) (h1 : m ≤ ts) (h2 : ts < m + d) :
    m = bucketOf d ts :=
  bucketOf_unique d ts m hts hd hm h1 h2

/-- the column every range planner writes (`intDiv(<ts column>, d) * d as timestamp_ns`) evaluates to that bucket start -/
theorem bucket_sql (o : Oracles) (env : Env) (r : Row) (src : String) (d ts : Int) (hd : d ≠ 0)
    (h : r.get src = .int ts) : evalE o env r (bucketCol src d) = .int (bucketOf d ts) :=
  evalE_bucketCol o env r src d ts hd h

/-- **no entry outside the window contributes (samples path).** Every row the range aggregation reads from the
    samples table — the rows of the `agg_a`/`main` sub-query, for every selector of the fragment — has its
    timestamp inside the planner's window `[from, to)`. -/
theorem window_confined (o : Oracles) (db : Db) (env : Env) (c : Ctx) (q : LogQuery) (out : Row)
    (h : out ∈ evalBodyA o db env (samplesMain c q)) :
    ∃ t, out.get "timestamp_ns" = .int t ∧ c.fromNs ≤ t ∧ t < c.toNs :=
  LogQL.window_confined o db env c q out h

/-- **no entry outside the window contributes (metrics_15s shortcut).** The shortcut's SELECT has exactly the WHERE
    `shortcutWhere`, and a slot passing it starts inside `[from, to)` rounded down to whole 15 s slots. -/
theorem shortcut_window_confined (o : Oracles) (env : Env) (c : MCtx) (q : LogQuery) (fn : RangeFn) (d : Nat) :
    (∃ ws cols gb, fingerprintFilter c.toCtx q (metrics15Sel c fn d) =
      .mk ws false cols (some (.col (.raw c.metrics15Table) "samples")) [] none (some (shortcutWhere c)) gb none [] none) ∧
    ∀ r, optB o env r (some (shortcutWhere c)) = true →
      ∃ t, r.get "samples.timestamp_ns" = .int t ∧
        Int.tdiv c.fromNs slot15 * slot15 ≤ t ∧ t < Int.tdiv c.toNs slot15 * slot15 :=
  ⟨shortcut_where c q fn d, fun r h => shortcut_confines o env c r h⟩

/-- **the window is widened at most to whole range buckets.** `FixPeriodPlanner` hands the SQL planners
    `[from/d·d, to/d·d + d)`: both ends are bucket starts of the SQL's grid, the start is the bucket of `from`,
    the end is the end of the bucket of `to`. -/
theorem window_widened_to_whole_buckets (fromNs toNs d : Int) (hf : 0 ≤ fromNs) (ht : 0 ≤ toNs) (hd : 0 < d) :
    let w := fixWindow fromNs toNs d
    d ∣ w.1 ∧ d ∣ w.2 ∧ w.1 ≤ fromNs ∧ fromNs < w.1 + d ∧ w.2 - d ≤ toNs ∧ toNs < w.2 :=
  fixWindow_spec fromNs toNs d hf ht hd

/-- one output point per (stream, range bucket): `LRAPlanner`'s SELECT returns exactly one row for every distinct
    (fingerprint, `intDiv(ts, d) * d`) of the rows it reads. -/
theorem range_one_point_per_bucket (o : Oracles) (db : Db) (env : Env) (fn : RangeFn) (d : Nat) (main : Sel) (T : Table) :
    (evalBodyA o db ((.named "agg_a", T) :: env) (lraSel fn d false main)).length =
      ((T.map (qualify "time_series")).map (lraKey o ((.named "agg_a", T) :: env) d)).eraseDups.length :=
  lraSel_groups o db env fn d main T

/-! ## range functions -/

/-- **range_fn (rate, count_over_time, bytes_rate, bytes_over_time).** Over the rows of one (stream, bucket) group,
    the value column `LRAPlanner` writes equals the range function of the direct reading on the entries of that
    group: count / seconds, count, bytes / seconds, bytes. -/
theorem range_fn_lra (o : Oracles) (env : Env) (rows : List Row) (first : Row) (grp : List Sample) (fn : RangeFn)
    (d : Nat) (h : LraRows rows grp) (hd : 0 < d) :
    evalAgg o env rows first (.col (lraValue fn (.int d)) "value") = .rat (lraVal fn d grp) :=
  LogQL.range_fn_lra o env rows first grp fn d h hd

theorem range_fn_rate (grp : List Sample) (d : Nat) : lraVal .rate d grp = (grp.length : Int) / secondsOf d := rfl
theorem range_fn_count_over_time (grp : List Sample) (d : Nat) : lraVal .countOverTime d grp = (grp.length : Int) := rfl
theorem range_fn_bytes_rate (grp : List Sample) (d : Nat) :
    lraVal .bytesRate d grp = ((grp.map (fun s => (s.str.length : Int))).foldl (· + ·) 0 : Int) / secondsOf d := rfl
/-! ### the rate divisor (`fix:` of the truncated `Milliseconds()/1000`)
    `rate`, `bytes_rate` and the unwrapped `rate` now write `x * 1000000000 / <range in ns>`: `range_fn_lra` /
    `range_fn_unwrap` hold for every positive range, whatever its unit. What the unfixed code wrote is characterised
    here: the literal `float64(d.Milliseconds())/1000` (printed by `%f`) denotes `truncatedSeconds d`. -/

/-- the number the unfixed divisor literal denoted: whole milliseconds of the range, over 1000 -/
def truncatedSeconds (durNs : Nat) : Rat := secOfMs (durNs / 1000000)

/-- it was the range in seconds for ranges that are whole milliseconds … -/
theorem truncated_divisor_whole_ms (d : Nat) (h : 1000000 ∣ d) : truncatedSeconds d = secondsOf d :=
  secOfMs_eq_secondsOf d h

/-- … zero for every range below one millisecond (`rate({…}[500us])` divided by `0.000000`: no number at all) … -/
theorem truncated_divisor_sub_ms_zero (d : Nat) (h : d < 1000000) : truncatedSeconds d = 0 := by
  unfold truncatedSeconds secOfMs
  rw [Nat.div_eq_of_lt h]
  decide +kernel

/-- … and too small otherwise: `[1500us]` was divided by 0.001 instead of 0.0015 (the rate came out 1.5 times too high) -/
theorem truncated_divisor_counterexample :
    truncatedSeconds 1500000 = 1 / 1000 ∧ secondsOf 1500000 = 15 / 10000 ∧ truncatedSeconds 1500000 ≠ secondsOf 1500000 := by
  decide +kernel

/-- the fixed expression: `x * 1000000000 / d` is `x` per second of a range of `d` ns, for every `d` (no unit condition) -/
theorem per_second_any_unit (x : Rat) (d : Nat) : x * 1000000000 / ((d : Int) : Rat) = x / secondsOf d :=
  perSecond_rat x d

/-- after the fix of A17: the byte count itself, not divided by the range -/
theorem range_fn_bytes_over_time (grp : List Sample) (d : Nat) :
    lraVal .bytesOverTime d grp = ((grp.map (fun s => (s.str.length : Int))).foldl (· + ·) 0 : Int) := rfl

/-- **range_fn (unwrapped rate, sum/avg/min/max/first/last_over_time).** Over the rows of one (series, bucket)
    group of `unwrap_1`, the value column `UnwrapFunctionPlanner` writes equals the range function of the direct
    reading on the (timestamp, value) pairs of that group. -/
theorem range_fn_unwrap (o : Oracles) (env : Env) (rows : List Row) (first : Row) (grp : List (Int × Rat))
    (fn : UnwrapFn) (d : Nat) (h : UnwrapRows rows grp) (hne : grp ≠ []) (hd : 0 < d) :
    evalAgg o env rows first (.col (unwrapValue fn (.int d)) "value") = ((unwrapVal o fn d grp).map Val.rat).getD .null :=
  LogQL.range_fn_unwrap o env rows first grp fn d h hne hd

/-- `stdvar_over_time` is the population variance of the group's values (the mean of the squared deviations from the
    mean: exact rational arithmetic), `stddev_over_time` the square root of it — `o.sqrt`, the one uninterpreted function
    `Sql.SemAgg` uses for `stddevPop` as well (a square root is not a rational function; nothing is assumed of it). -/
theorem range_fn_stdvar_over_time (o : Oracles) (grp : List (Int × Rat)) (p : Int × Rat) (d : Nat) :
    unwrapVal o .stdvarOT d (p :: grp) = some (varPopRat ((p :: grp).map (·.2))) := rfl
theorem range_fn_stddev_over_time (o : Oracles) (grp : List (Int × Rat)) (p : Int × Rat) (d : Nat) :
    unwrapVal o .stddevOT d (p :: grp) = some (o.sqrt (varPopRat ((p :: grp).map (·.2)))) := rfl

theorem range_fn_sum_over_time (o : Oracles) (grp : List (Int × Rat)) (p : Int × Rat) (d : Nat) :
    unwrapVal o .sumOT d (p :: grp) = some (ratSumL ((p :: grp).map (·.2))) := rfl
theorem range_fn_avg_over_time (o : Oracles) (grp : List (Int × Rat)) (p : Int × Rat) (d : Nat) :
    unwrapVal o .avgOT d (p :: grp) = some (ratSumL ((p :: grp).map (·.2)) / (((p :: grp).map (·.2)).length : Int)) := rfl
theorem range_fn_unwrapped_rate (o : Oracles) (grp : List (Int × Rat)) (p : Int × Rat) (d : Nat) :
    unwrapVal o .rate d (p :: grp) = some (ratSumL ((p :: grp).map (·.2)) / secondsOf d) := rfl

/-- `min_over_time` is a value of the group and no value of the group is smaller (no min/max swap) -/
theorem range_fn_min_over_time (o : Oracles) (grp : List (Int × Rat)) (p : Int × Rat) (d : Nat) :
    ∃ m, unwrapVal o .minOT d (p :: grp) = some m ∧ m ∈ (p :: grp).map (·.2) ∧ ∀ x ∈ (p :: grp).map (·.2), m ≤ x := by
  refine ⟨_, rfl, ?_⟩
  simpa using foldl_min_spec p.2 (grp.map (·.2))

/-- `max_over_time` is a value of the group and no value of the group is greater -/
theorem range_fn_max_over_time (o : Oracles) (grp : List (Int × Rat)) (p : Int × Rat) (d : Nat) :
    ∃ m, unwrapVal o .maxOT d (p :: grp) = some m ∧ m ∈ (p :: grp).map (·.2) ∧ ∀ x ∈ (p :: grp).map (·.2), x ≤ m := by
  refine ⟨_, rfl, ?_⟩
  simpa using foldl_max_spec p.2 (grp.map (·.2))

/-- `first_over_time` is the value of an entry of the group whose timestamp no entry of the group precedes -/
theorem range_fn_first_over_time (o : Oracles) (grp : List (Int × Rat)) (d : Nat) (v : Rat) (h : unwrapVal o .firstOT d grp = some v) :
    ∃ t, (t, v) ∈ grp ∧ ∀ p ∈ grp, t ≤ p.1 := by
  cases grp with
  | nil => simp [unwrapVal] at h
  | cons p ps => exact firstBy_spec (p :: ps) v (by simpa [unwrapVal] using h)

/-- `last_over_time` is the value of an entry of the group whose timestamp no entry of the group follows -/
theorem range_fn_last_over_time (o : Oracles) (grp : List (Int × Rat)) (d : Nat) (v : Rat) (h : unwrapVal o .lastOT d grp = some v) :
    ∃ t, (t, v) ∈ grp ∧ ∀ p ∈ grp, p.1 ≤ t := by
  cases grp with
  | nil => simp [unwrapVal] at h
  | cons p ps => exact lastBy_spec (p :: ps) v (by simpa [unwrapVal] using h)

/-! ## vector aggregation, by / without -/

/-- **vector_agg (sum, min, max, avg, count, stdvar, stddev).** Over the rows of one group of `lra_main`, the value column
    `AggOpPlanner` writes, read as a number, equals the aggregate of the direct reading over the group's values. -/
theorem vector_agg (o : Oracles) (env : Env) (rows : List Row) (first : Row) (vs : List Rat) (fn : AggFn)
    (h : AggRows rows vs) (hne : vs ≠ []) :
    (evalAgg o env rows first (.col (aggValue fn) "value")).toRat? = aggVal o fn vs :=
  vector_agg_value o env rows first vs fn h hne

/-- `stdvar` = population variance of the group's values, `stddev` = `o.sqrt` of it -/
theorem vector_agg_stdvar (o : Oracles) (v : Rat) (vs : List Rat) : aggVal o .stdvar (v :: vs) = some (varPopRat (v :: vs)) := rfl
theorem vector_agg_stddev (o : Oracles) (v : Rat) (vs : List Rat) :
    aggVal o .stddev (v :: vs) = some (o.sqrt (varPopRat (v :: vs))) := rfl

/-- one output series per (grouped identity, timestamp): `AggOpPlanner`'s SELECT returns exactly one row for every
    distinct (fingerprint, timestamp) of its input. -/
theorem vector_agg_one_row_per_group (o : Oracles) (db : Db) (env : Env) (fn : AggFn) (wl : Bool) (main : Sel) (T : Table) :
    (evalBodyA o db ((.named "lra_main", T) :: env) (aggSel fn wl main)).length =
      ((T.map (qualify "lra_main")).map aggKey).eraseDups.length :=
  aggSel_groups o db env fn wl main T

/-- `by (…)` keeps exactly the listed labels, `without (…)` exactly the others -/
theorem by_without_keeps_exactly (g : Grouping) (m : List (Bytes × Bytes)) (p : Bytes × Bytes) :
    p ∈ keptLabels g m ↔ p ∈ m ∧ ((groupingKeys g).contains p.1 = g.isBy) :=
  mem_keptLabels g m p

/-- **grouping fingerprint recomputed from the filtered label map.** A row of the `labels_<id>` sub-query of
    `ByWithoutPlanner` carries the stream's fingerprint, the labels the grouping keeps, and `cityHash64` of exactly
    those kept labels (the alias `labels` in `cityHash64(labels)` denotes the filtered map). -/
theorem grouping_fingerprint_recomputed (o : Oracles) (env : Env) (c : Ctx) (g : Grouping) (r : Row) (doc : Bytes) (fp : Val)
    (hdoc : r.get "time_series.labels" = .str doc) (hfp : r.get "time_series.fingerprint" = fp) :
    projectA o env (patchCol (timeSeriesSel c).cols "labels" (byWithoutCol g) ++ [.col hashLabels "new_fingerprint"]) r =
      [("fingerprint", fp), ("labels", .map (keptLabels g (o.jsonLabels doc))),
       ("new_fingerprint", .int (o.cityHash (keptLabels g (o.jsonLabels doc))))] := by
  rw [byWithoutTS_labels_cols]
  exact byWithoutTS_row o env g r doc fp hdoc hfp

/-- the same on the joined-labels path (`processSimple`, used after `| unwrap`) -/
theorem grouping_fingerprint_recomputed_simple (o : Oracles) (env : Env) (g : Grouping) (lc : String) (r : Row)
    (m : List (Bytes × Bytes)) (h1 : lc ≠ "timestamp_ns") (h2 : lc ≠ "fingerprint") (h3 : lc ≠ "string")
    (h4 : lc ≠ "value") (hm : r.get lc = .map m) :
    (projectA o env (byWithoutSimpleCols lc g) r).lookup "fingerprint" = some (.int (o.cityHash (keptLabels g m))) ∧
    (projectA o env (byWithoutSimpleCols lc g) r).lookup "labels" = some (.map (keptLabels g m)) :=
  byWithoutSimple_row o env g lc r m h1 h2 h3 h4 hm

/-- **output series are identified by exactly the grouped label set**: where cityHash64 separates the kept label
    sets at hand, two streams share the recomputed fingerprint iff the grouping keeps the same labels of both. -/
theorem output_series_identified_by_grouped_labels (o : Oracles) (g : Grouping) (m1 m2 : List (Bytes × Bytes))
    (hinj : o.cityHash (keptLabels g m1) = o.cityHash (keptLabels g m2) → keptLabels g m1 = keptLabels g m2) :
    o.cityHash (keptLabels g m1) = o.cityHash (keptLabels g m2) ↔ keptLabels g m1 = keptLabels g m2 :=
  grouped_identity o g m1 m2 hinj

/-! ## comparison, top/bottom-k -/

/-- **comparison.** The HAVING clause `ComparisonPlanner` adds keeps an output row iff its value satisfies the
    written operator against the written number. -/
theorem comparison (o : Oracles) (env : Env) (out : Row) (x : Rat) (cm : Comparison)
    (h : (out.get "value").toRat? = some x) :
    havingA o env out (and_ [cmpExpr cm]) = cmpHoldsR cm.op x (numOf cm.val) :=
  comparison_holds o env out x cm h

/-- a second comparison on the same SELECT is conjoined (`AndHaving`) -/
theorem comparison_conjoined (o : Oracles) (env : Env) (out : Row) (x : Rat) (c1 c2 : Comparison)
    (h : (out.get "value").toRat? = some x) :
    havingA o env out (andCond (some (and_ [cmpExpr c1])) [cmpExpr c2]) =
      (cmpHoldsR c1.op x (numOf c1.val) && cmpHoldsR c2.op x (numOf c2.val)) :=
  comparison_holds_two o env out x c1 c2 h

/-- **topk / bottomk.** The slice `TopKPlanner` builds for one timestamp is the first `k` of the tuples sorted
    best-first (greater value first for topk, smaller for bottomk; ties by smaller fingerprint); it is made of the
    input's tuples only, and every tuple kept is at least as good as every tuple cut. -/
theorem topk (isTop hasLabels : Bool) (k : Nat) (grp : List Row) :
    let le := if isTop then topLe else bottomLe
    let sorted := sortBy le (topTuples hasLabels grp)
    topkAgg isTop hasLabels k grp = .tuples (sorted.take k) ∧
    sorted.Perm (topTuples hasLabels grp) ∧
    (sorted.take k).length = min k grp.length ∧
    ∀ x ∈ sorted.take k, ∀ y ∈ sorted.drop k, le x y = true := by
  intro le sorted
  refine ⟨rfl, sortBy_perm _ _, ?_, ?_⟩
  · have h1 := (sortBy_perm le (topTuples hasLabels grp)).length_eq
    have h2 : (topTuples hasLabels grp).length = grp.length := by simp [topTuples]
    simp only [sorted, List.length_take, h1, h2]
  · intro x hx y hy
    cases isTop
    · exact take_best bottomLe bottomLe_total bottomLe_trans _ k x y hx hy
    · exact take_best topLe topLe_total topLe_trans _ k x y hx hy

/-- the ARRAY JOIN turns the slice back into one row per kept tuple -/
theorem topk_array_join (o : Oracles) (db : Db) (env : Env) (T : Table) :
    sourceRowsA o db ((.named "par_b", T) :: env)
        (.arrayJoinFrom (.withRef (.named "par_b")) (simpleCol "par_b.slice" "arr_b")) =
      (T.map (qualify "par_b")).flatMap (fun r =>
        match r.get "par_b.slice" with
        | .tuples ts => ts.map (fun t => r ++ tupleCols "arr_b" t)
        | _ => []) :=
  arrayJoin_rows o db env T

/-! ## order of the stages -/

/-- **function_order.** For every query and every range duration — with or without the metrics_15s shortcut — the
    planned steps are exactly the stages written in the query, each once, in the order of the text. -/
theorem function_order (q : MetricQuery) : (planSteps q).flatMap Step.tags = writtenStages q :=
  planSteps_tags q

/-- …whatever the range duration: changing the duration (which decides the shortcut) changes no planned stage -/
theorem function_order_any_duration (q : MetricQuery) (d : Nat) :
    (planSteps (q.setDur d)).flatMap Step.tags = (planSteps q).flatMap Step.tags := by
  rw [planSteps_tags, planSteps_tags, writtenStages_setDur]

/-- which queries take the shortcut: rate/count_over_time without unwrap, a range of at least 15 s that is a whole
    multiple of 15 s, and only line filters that cannot reject a line -/
theorem shortcut_iff (q : MetricQuery) :
    takesShortcut q = true ↔
      ∃ fn, q.rangeAgg.kind = .lra fn ∧ (fn = .rate ∨ fn = .countOverTime) ∧ slot15 ≤ q.rangeAgg.durNs ∧
        q.rangeAgg.durNs % slot15 = 0 ∧ ∀ f ∈ lineFilters q.rangeAgg.sel, lineFilterTrivial f = true := by
  unfold takesShortcut
  cases hk : q.rangeAgg.kind with
  | lra fn =>
    simp only [hk, Bool.and_eq_true, Bool.or_eq_true, beq_iff_eq, decide_eq_true_eq, List.all_eq_true, RangeKind.lra.injEq]
    constructor
    · rintro ⟨⟨⟨h1, h2⟩, h3⟩, h4⟩; exact ⟨fn, rfl, h1, h2, h3, h4⟩
    · rintro ⟨fn', rfl, h1, h2, h3, h4⟩; exact ⟨⟨⟨h1, h2⟩, h3⟩, h4⟩
  | unwrap fn l => simp [hk]

/-- **no stage is lost in the shortcut (line filters).** The only selector stages the shortcut does not plan are line
    filters that pass every line (empty needle with `|=` or `|~`; the empty regular expression matches everything). -/
theorem shortcut_skips_only_passing_filters (o : Oracles) (hre : ∀ s, o.reMatch [] s = true) (q : MetricQuery)
    (hs : takesShortcut q = true) (f : LineFilter) (hf : f ∈ lineFilters q.rangeAgg.sel) (hlike : f.like = none)
    (line : Bytes) : lineHolds o f line = true :=
  trivial_filter_passes o hre f (takesShortcut_filters q hs f hf) hlike line

/-- **no stage is lost in the shortcut (label filters).** In both modes the samples are restricted to `fp_sel`, and
    `fp_sel` is the stream selector wrapped by every label filter of the selector (one `subsel_<k>` each). -/
theorem label_filters_planned (c : Ctx) (q : LogQuery) : (fpQuery c q).withs.length = (labelConds q).length :=
  fpQuery_withs c q

/-! ## step re-bucketing -/

/-- **step ≤ range**: `StepFixPlanner` leaves the SQL unchanged -/
theorem step_rebucket_identity (c : MCtx) (d : Nat) (main : Sel) (h : c.stepNs ≤ (d : Int)) : stepFixSel c d main = main :=
  stepFix_identity c d main h

/-- **step > range**: the value of a (step bucket, series) group is the value of its earliest range bucket -/
theorem step_rebucket_value (o : Oracles) (env : Env) (rows : List Row) (first : Row) (grp : List (Int × Rat))
    (h : StepRows rows grp) :
    evalAgg o env rows first (.col (.call "argMin" [.raw "pre_step_fix.value", .raw "pre_step_fix.timestamp_ns"]) "value") =
      ((firstBy grp).map Val.rat).getD .null :=
  stepFix_value o env rows first grp h

/-- `ZeroEaterPlanner` drops exactly the rows whose value is 0 -/
theorem zero_eater (es : List MEntry) (e : MEntry) : e ∈ zeroEater es ↔ e ∈ es ∧ e.value ≠ 0 :=
  zeroEater_spec es e

/-- **step_rebucket (grid).** For step <, =, > range alike, every entry `FixPeriodPlanner` emits is non-zero and lies at
    `from + i·step` with `0 ≤ i ≤ (to − from)/step`. -/
theorem step_rebucket_grid (fromNs toNs step d : Int) (es : List MEntry) :
    ∀ e ∈ fixPeriod fromNs toNs step d es, GridOk fromNs toNs step e :=
  fixPeriod_grid fromNs toNs step d es

/-- **step_rebucket (provenance).** Every value emitted at `from + k·step` is the value of an input row of the same
    series whose range bucket `[b, b + d]` (b the start of the row's range bucket) covers that step point: nothing is
    invented and no row contributes outside its own bucket. -/
theorem step_rebucket_provenance (fromNs toNs step d : Int) (es : List MEntry) :
    ∀ x ∈ fixPeriod fromNs toNs step d es, ∃ e', ∃ k : Nat, e' ∈ es ∧ e'.fp = x.fp ∧ e'.value = x.value ∧
      x.ts = fromNs + (k : Int) * step ∧ covers fromNs step d e' k :=
  fixPeriod_provenance fromNs toNs step d es

/-! ## the function-name → SQL maps are those of the source (regenerated facts) -/
theorem gen_lra_ops : lraOpsModel = Gen.LogQLOps.lraOps := lraOps_eq
theorem gen_unwrap_ops : unwrapOpsModel = Gen.LogQLOps.unwrapOps := unwrapOps_eq
theorem gen_agg_ops : aggOpsModel = Gen.LogQLOps.aggOps := aggOps_eq
theorem gen_shortcut_ops : shortcutOpsModel = Gen.LogQLOps.shortcutOps := shortcutOps_eq
theorem gen_cmp_ops : cmpOpsModel = Gen.LogQLOps.cmpOps := cmpOps_eq
/-- planner_quantile.go: every text `QuantilePlanner.Process` writes is the model's (`quantCols`), the range goes into the bucket
    column and the parsed parameter into `quantile(%f)`, and `planQuantileOverTime` wires `Param` to the script's parameter and
    `Duration` to the script's range -/
theorem gen_quantile_ops :
    quantileTextsModel = Gen.QuantileOps.texts ∧
    Gen.QuantileOps.fmtArgs = [("intDiv(quant_a.timestamp_ns, %d) * %[1]d", "p.Duration.Nanoseconds()"), ("quantile(%f)(value)", "p.Param")] ∧
    Gen.QuantileOps.wiring = [("Main", "p.samplesPlanner"), ("Param", "strconv.ParseFloat(script.Param, 64)"),
      ("Duration", "time.ParseDuration(script.Time + script.TimeUnit)")] :=
  ⟨quantileTexts_eq, quantileArgs_eq.1, quantileArgs_eq.2⟩

/-! ## the whole plan -/

/-- **plan_metric_correct, class `rangeFn({selector} [d]) [cmp]`** — rate, count_over_time, bytes_rate,
    bytes_over_time over a selector of the C07 fragment, samples path (the metrics_15s shortcut not taken),
    step ≤ range. For every context, every database and every such query, evaluating the generated statement
    (`fp_sel` chain, `agg_a`, the LRA select with its optional HAVING, the labels join, the final ORDER BY) and reading
    the value column as a number gives exactly the matrix of the direct reading: one point per (selected stream,
    range bucket containing a matching entry of `[from, to)`), valued by the range function over exactly those
    entries, filtered by the comparison, labelled with the stream's labels, ordered by (fingerprint, timestamp). -/
theorem plan_metric_correct_range (o : Oracles) (c : MCtx) (hn : c.namesOk) (d : LokiDb) (r : RangeAgg) (fn : RangeFn)
    (hk : r.kind = .lra fn) (hm : r.sel.matchers.length ≤ 63) (hd : 0 < r.durNs)
    (hs : takesShortcut (.range r) = false) (hstep : c.stepNs ≤ (r.durNs : Int)) :
    (evalSelA o (d.toDbM c) (planMetric c (.range r))).map normRow = evalMetric o c d (.range r) :=
  planMetric_range_lra o c hn d r fn hk hm hd hs hstep

/-- **plan_metric_correct, class `aggOp by/without (…) (rangeFn({selector} [d]) [cmp]) [cmp]`** — sum, min, max, avg,
    count with a grouping clause (prefix or suffix position) over a range aggregation of the class above. The
    statement additionally contains `pre_without_<id>` (the range stage), `labels_<id>` (every admissible series row
    with the labels the grouping keeps and cityHash64 of exactly those) and `lra_main`; its rows are exactly the
    direct reading's: every range point moved to the series of its kept label set, the points of one (series,
    timestamp) aggregated by the written operator, both comparisons applied where written. -/
theorem plan_metric_correct_agg (o : Oracles) (c : MCtx) (hn : c.namesOk) (d : LokiDb) (a : VecAgg) (fn : RangeFn)
    (hk : a.inner.kind = .lra fn)
    (hm : a.inner.sel.matchers.length ≤ 63) (hd : 0 < a.inner.durNs)
    (hs : takesShortcut (.agg a) = false) (hstep : c.stepNs ≤ (a.inner.durNs : Int)) :
    (evalSelA o (d.toDbM c) (planMetric c (.agg a))).map normRow = evalMetric o c d (.agg a) :=
  planMetric_agg_lra o c hn d a fn hk hm hd hs hstep

/-- **plan_metric_correct on the samples path, every query shape.** `q` is any metric query whose range aggregation is
    rate / count_over_time / bytes_rate / bytes_over_time and does not take the metrics_15s shortcut: the range
    aggregation alone, under sum/min/max/avg/count/stddev/stdvar with or without a grouping clause, under topk/bottomk (of
    either), with a comparison after any of them; the step may be smaller or larger than the range (`StepFixPlanner` planned
    or not). Hypotheses: at most 63 matchers, the range positive (`aggOk` is `True` since the `fix:` of ungrouped
    aggregations; kept in the signature). Then the generated statement, under the documented SQL semantics, returns exactly
    the matrix of the direct reading. -/
theorem plan_metric_correct_samples_path (o : Oracles) (c : MCtx) (hn : c.namesOk) (d : LokiDb) (q : MetricQuery) (fn : RangeFn)
    (hk : q.rangeAgg.kind = .lra fn) (hs : takesShortcut q = false) (hok : aggOk q)
    (hm : q.rangeAgg.sel.matchers.length ≤ 63) (hd : 0 < q.rangeAgg.durNs) :
    (evalSelA o (d.toDbM c) (planMetric c q)).map normRow = evalMetric o c d q :=
  planMetric_lra o c hn d q fn hk hs hok hm hd

/-- **plan_metric_correct on the metrics_15s path, every query shape.** `q` takes the shortcut (`shortcut_iff`: rate or
    count_over_time, range a multiple of 15 s, only line filters that pass every line). Hypotheses besides those of the
    samples path: timestamps are not negative, and the skipped line filters do pass every stored line (for the empty
    needle this is `shortcut_skips_only_passing_filters`). The statement reads `metrics_15s` (by definition the
    materialized view of `samples`: one row per stream, 15 s slot and type with the number of entries) and returns
    exactly the matrix of the direct reading over the entries of the window rounded down to whole slots. -/
theorem plan_metric_correct_shortcut (o : Oracles) (c : MCtx) (hn : c.namesOk) (d : LokiDb) (q : MetricQuery)
    (hs : takesShortcut q = true) (hok : aggOk q)
    (hm : q.rangeAgg.sel.matchers.length ≤ 63)
    (hts : ∀ s ∈ d.samples, 0 ≤ s.ts)
    (htriv : ∀ s ∈ d.samples, (lineFilters q.rangeAgg.sel).all (fun f => lineHolds o f s.str) = true) :
    (evalSelA o (d.toDbM c) (planMetric c q)).map normRow = evalMetric o c d q :=
  planMetric_shortcut o c hn d q hs hok hm hts htriv

/-- `plan()` is the composition of its phases, `planPhases (takesShortcut q) c q`: `planPhases true` is the plan of
    `planMetrics15Shortcut`, `planPhases false` the plan of the matrix functions in `getFunctionOrder`. -/
theorem plan_is_phases (c : MCtx) (q : MetricQuery) : planMetric c q = planPhases (takesShortcut q) c q :=
  planMetric_phases c q

/-- **every pipeline stage written in the query takes effect whatever the range duration: the shortcut drops none.**
    For a query that takes the shortcut and a window of whole 15 s slots (`FixPeriodPlanner` hands down whole range
    buckets and the range is a multiple of 15 s), the shortcut's statement and the statement the matrix functions
    would build for the same query (reading `samples`, every stage planned) return the same matrix. -/
theorem shortcut_equals_function_plan (o : Oracles) (c : MCtx) (hn : c.namesOk) (d : LokiDb) (q : MetricQuery)
    (hs : takesShortcut q = true) (hok : aggOk q)
    (hm : q.rangeAgg.sel.matchers.length ≤ 63)
    (hts : ∀ s ∈ d.samples, 0 ≤ s.ts)
    (htriv : ∀ s ∈ d.samples, (lineFilters q.rangeAgg.sel).all (fun f => lineHolds o f s.str) = true)
    (hfrom : Int.tdiv c.fromNs slot15 * slot15 = c.fromNs) (hto : Int.tdiv c.toNs slot15 * slot15 = c.toNs) :
    (evalSelA o (d.toDbM c) (planPhases true c q)).map normRow =
      (evalSelA o (d.toDbM c) (planPhases false c q)).map normRow :=
  shortcut_plan_eq_function_plan o c hn d q hs hok hm hts htriv hfrom hto

/-- **plan_metric_correct** (the union of the classes above, over the decidable predicate `supported`). For every
    supported metric query — range aggregation rate / count_over_time / bytes_rate / bytes_over_time over a selector of
    the C07 fragment with a positive range (any unit) and at most 63 matchers; alone, under
    sum/min/max/avg/count `by`/`without`, under topk/bottomk, comparisons anywhere — every context (window, step <, =,
    > range, signal type, table names) and every database:
    `evalSelA (planMetric c q)`, value column read as a number, `=` `evalMetric c q`.
    On the metrics_15s path (`takesShortcut q`) additionally `ShortcutOk`: no negative timestamp and the unplanned
    (empty-needle) line filters pass every stored line. What is proved is the equality of the *model* plan (tied to the
    real planner's SQL text byte for byte on every run) under the documented SQL semantics `Sql.SemAgg` with the
    direct reading; `argMin`/`any`/ORDER BY ties are resolved in evaluation order on both sides (ClickHouse leaves them
    open); a stream without admissible series row gets `null` labels on both sides. -/
theorem plan_metric_correct (o : Oracles) (c : MCtx) (hn : c.namesOk) (d : LokiDb) (q : MetricQuery)
    (hsup : supported q = true) (hsc : takesShortcut q = true → ShortcutOk o d q) :
    (evalSelA o (d.toDbM c) (planMetric c q)).map normRow = evalMetric o c d q :=
  planMetric_correct o c hn d q hsup hsc

/-- **plan_metric_correct for unwrapped range aggregations** (`supportedU`: rate, sum/avg/min/max/first/last_over_time
    over `| unwrap <label>` or `| unwrap _entry`, with or without a grouping clause on the range aggregation; alone,
    under a grouped vector aggregation, under topk/bottomk, comparisons anywhere, any step). The plan orders `main` by
    timestamp before `LabelsJoinPlanner`, `UnwrapPlanner`, `ByWithoutPlanner.processSimple` and `UnwrapFunctionPlanner`
    group it; so what the statement returns is the matrix of the direct reading over the entries **taken in timestamp
    order** (`sortedDb`: the same database with `samples` read in timestamp order): the series, buckets and values of
    sum/avg/min/max/rate do not depend on that order, first/last_over_time among entries of equal timestamp and the
    order of first occurrence of the series do. -/
theorem plan_metric_correct_unwrap (o : Oracles) (c : MCtx) (hn : c.namesOk) (d : LokiDb) (q : MetricQuery)
    (hsup : supportedU q = true) :
    (evalSelA o (d.toDbM c) (planMetric c q)).map normRow = evalMetric o c (sortedDb c.toCtx d) q :=
  planMetric_unwrap_supported o c hn d q hsup

/-- …and when the table is stored in that order, of the direct reading itself -/
theorem plan_metric_correct_unwrap_sorted (o : Oracles) (c : MCtx) (hn : c.namesOk) (d : LokiDb) (q : MetricQuery)
    (hsup : supportedU q = true) (hsorted : sortBy (tsLe c.toCtx) d.samples = d.samples) :
    (evalSelA o (d.toDbM c) (planMetric c q)).map normRow = evalMetric o c d q := by
  rw [planMetric_unwrap_supported o c hn d q hsup, sortedDb_of_sorted c.toCtx d hsorted]

/-- the full statement of the property for *every* query of the plain fragment and every table order (also unwrapped range
    aggregations over a table that is not stored in timestamp order). Not proved in this form: for unwrap the two sides
    agree after the final ORDER BY when no two entries share a timestamp (`plan_metric_unwrap_any_row_order` is the proved
    order-independence, `plan_metric_correct_unwrap` the proved equality); with timestamp ties first/last_over_time follow
    the row order (`first_last_any_order_counterexample`, finding C08/first-last-tie-follows-row-order). -/
def plan_metric_correct_full : Prop :=
  ∀ (o : Oracles) (c : MCtx) (d : LokiDb) (q : MetricQuery), c.namesOk → q.rangeAgg.sel.matchers.length ≤ 63 →
    0 < q.rangeAgg.durNs → ShortcutOk o d q →
    (evalSelA o (d.toDbM c) (planMetric c q)).map normRow = evalMetric o c d q

/-- **no entry outside the window (widened at most to whole range buckets) contributes.** Changing, adding or removing
    entries outside the window the plan reads — `[from, to)` of the planner context, which `FixPeriodPlanner` sets to whole
    range buckets (`window_widened_to_whole_buckets`); rounded down to whole 15 s slots on the metrics_15s path — does
    not change a single row of the result. -/
theorem no_entry_outside_window_contributes (o : Oracles) (c : MCtx) (hn : c.namesOk) (d d' : LokiDb) (q : MetricQuery)
    (hsup : supported q = true) (hsc : takesShortcut q = true → ShortcutOk o d q ∧ ShortcutOk o d' q)
    (h : SameInside d d' (effWindow c q).1 (effWindow c q).2) :
    (evalSelA o (d.toDbM c) (planMetric c q)).map normRow = (evalSelA o (d'.toDbM c) (planMetric c q)).map normRow :=
  outside_window_irrelevant o c hn d d' q hsup hsc h

/-- **output series are identified by exactly the grouped label set** (plan level). Every row the statement returns for
    `aggOp by/without g (…)` (also under topk/bottomk, comparisons, step re-bucketing) has as labels exactly what `g`
    keeps of a label set and as fingerprint cityHash64 of exactly those labels (both `null` for a stream without series
    row). -/
theorem output_series_identified_by_grouped_labels_plan (o : Oracles) (c : MCtx) (hn : c.namesOk) (d : LokiDb)
    (q : MetricQuery) (a : VecAgg) (g : Grouping) (hsup : supported q = true)
    (hsc : takesShortcut q = true → ShortcutOk o d q)
    (ha : q.agg? = some a) (hg : chosenGrouping a.byPrefix a.bySuffix = some g) :
    ∀ r ∈ evalSelA o (d.toDbM c) (planMetric c q), GroupedKL o g (r.get "fingerprint") (r.get "labels") :=
  output_series_grouped o c hn d q a g hsup hsc ha (aggGrouping_of_some a g hg)

/-- **vector_agg_ungrouped** (full strength, after the `fix:` 8ee6041 of C08/agg-without-grouping-keeps-streams). A vector
    aggregation written without `by`/`without` (`sum(rate({…}[5s]))`) aggregates all series of a timestamp into ONE series,
    the one of the empty label set: every row the statement returns carries the labels `{}` and the fingerprint
    `cityHash64({})` (for a database in which a selected stream has no series row the join default `null` appears instead:
    limit of the SQL model). `planAgg` plans the grouping of the empty label list (`by ()`:
    `mapFilter((k,v) -> 0, labels)`), so `AggOpPlanner` groups by that one fingerprint and the timestamp. -/
theorem vector_agg_ungrouped (o : Oracles) (c : MCtx) (hn : c.namesOk) (d : LokiDb) (q : MetricQuery) (a : VecAgg)
    (hsup : supported q = true) (hsc : takesShortcut q = true → ShortcutOk o d q)
    (ha : q.agg? = some a) (hnone : chosenGrouping a.byPrefix a.bySuffix = none) :
    ∀ r ∈ evalSelA o (d.toDbM c) (planMetric c q),
      (r.get "labels" = .map [] ∧ r.get "fingerprint" = .int (o.cityHash [])) ∨
      (r.get "fingerprint" = .null ∧ r.get "labels" = .null) :=
  ungrouped_one_series o c hn d q a hsup hsc ha hnone

/-! ## the labelled path: selectors with `| json` / `| regexp` / `| drop`, and `quantile_over_time` -/

/-- **plan_metric_correct_ext** (class `supportedX`, a decidable predicate). Metric queries whose selector carries SQL-side
    pipeline stages after the stream selector — `| json l="path", …`, `| regexp "…"`, `| drop a, b="v"`, label filters on
    stored *or extracted* labels and line filters after them, in any order and number (C07's extended fragment) — under
    rate / count_over_time / bytes_rate / bytes_over_time, or ending in `| unwrap x` under rate / sum / avg / min / max /
    first / last / stdvar / stddev_over_time, or `quantile_over_time(φ, … | unwrap x [d])` with or without such stages;
    a grouping clause on an unwrapped / quantile range aggregation; alone, under a grouped vector aggregation
    (sum/min/max/avg/count/stddev/stdvar), under topk/bottomk; comparisons anywhere; any step; any positive range;
    ≤ 63 matchers. For every such query, every context and every database:
    `evalSelA (planMetricX c q)`, value column read as a number, `=` `evalMetricX c q` — the entries the selector AND
    every written pipeline stage let through (C07's `stagesX` over `entriesAtJoin`: each entry with its own stream's
    labels as rewritten by the json / regexp / drop stages up to that point, in the series of its rewritten label set),
    bucketed by series and range window, the range function applied to exactly those entries, then the aggregation over
    the kept label sets, comparison thresholds, top/bottom-k, step re-bucketing. The entries are read in timestamp order
    (`main` is ordered by timestamp before the labels join), so first/last_over_time among entries of equal timestamp,
    `any(labels)` and the order of first occurrence are those of that order on both sides.
    `quantile(φ)(x)`: `Sql.SemAgg` and the direct reading apply the same uninterpreted `Oracles.quantile φ` to the values of
    the group in row order; nothing is assumed of ClickHouse's algorithm (reservoir sampling, interpolation). What the
    theorem does say of `QuantilePlanner`: its groups are exactly the (series, range bucket) groups of the entries the
    pipeline lets through, φ is the written parameter, the labels are the series', the window is `[from, to)`.
    This composes C07's `plan_correct_ext` construction (re-proved for `Sql.SemAgg`: `Proofs/MetricXRuns`) with the range
    and vector stages; the statement is tied to the real planner byte for byte by the `textx` stream. -/
theorem plan_metric_correct_ext (o : Oracles) (c : MCtx) (hn : c.namesOk) (d : LokiDb) (q : MetricQueryX)
    (hsup : supportedX q = true) :
    (evalSelA o (d.toDbM c) (planMetricX c q)).map normRow = evalMetricX o c d q :=
  planMetricX_correct o c hn d q hsup

/-- **`QuantilePlanner`, stage level** (no hypothesis on the query): over any table of entry points bound to `quant_a`, the
    SELECT returns one row per (series, range bucket) in order of first occurrence, valued `quantile φ` of exactly the
    group's values in row order — φ the number the written parameter denotes — with the labels of the group's first member,
    then the optional HAVING. Independent of what `quantile` computes. -/
theorem quantile_stage (o : Oracles) (db : Db) (env : Env) (phi : NumLit) (d : Nat) (hd : 0 < d) (T : Table) (pts : List Pt)
    (h : Rep T pts) (hT : env.lookup (.named "quant_a") = some T) (cm : Option Comparison) :
    Rep (evalBodyA o db env (quantBody phi d (cmpHaving cm))) (cmpStage cm (rangeCore (quantileVal o phi) d pts)) :=
  quant_eval o db env phi d hd T pts h hT cm

/-- φ is passed through unchanged: the literal `QuantilePlanner` writes denotes the number the query's parameter denotes
    (parameters of at most six decimals; `%f` keeps six) -/
theorem quantile_param_passthrough (phi : NumLit) :
    ∃ u s, quantileCol phi = .quantileAgg u s "value" ∧ ((u : Int) : Rat) / (((10 ^ s : Nat) : Int) : Rat) = numOf phi :=
  ⟨_, _, rfl, rfl⟩

/-- **no entry outside the window contributes** (labelled path): entries outside `[from, to)` may be changed, added or
    removed without changing a row of the result -/
theorem no_entry_outside_window_contributes_ext (o : Oracles) (c : MCtx) (hn : c.namesOk) (d d' : LokiDb) (q : MetricQueryX)
    (hsup : supportedX q = true) (h : SameInside d d' c.fromNs c.toNs) :
    (evalSelA o (d.toDbM c) (planMetricX c q)).map normRow = (evalSelA o (d'.toDbM c) (planMetricX c q)).map normRow :=
  outside_window_irrelevantX o c hn d d' q hsup h

/-- **output series are identified by exactly the grouped label set** (labelled path): every row returned for
    `aggOp [by/without g] (…)` has as labels exactly what the grouping (`a.grouping`: the written one, `by ()` when none is
    written) keeps of a (rewritten) label set and as fingerprint cityHash64 of exactly those -/
theorem output_series_identified_by_grouped_labels_ext (o : Oracles) (c : MCtx) (hn : c.namesOk) (d : LokiDb)
    (q : MetricQueryX) (a : VecOp) (hsup : supportedX q = true) (ha : q.agg = some a) :
    ∀ r ∈ evalSelA o (d.toDbM c) (planMetricX c q), GroupedKL o a.grouping (r.get "fingerprint") (r.get "labels") :=
  output_series_groupedX o c hn d q a a.grouping hsup ha rfl

/-- **every pipeline stage written in the query takes effect**: the direct reading the statement is proved equal to is a
    function of the entries `stagesX post (entriesAtJoin …)` — every stage of `post` applied in order — and of nothing else
    of the samples table -/
theorem ext_stages_take_effect (o : Oracles) (c : Ctx) (d : LokiDb) (r : RangeAggX) :
    entriesX o c d r = stagesX o r.post (entriesAtJoin o c d r.sel) := rfl

/-! ## the physical order of the samples table (first/last_over_time) -/

/-- **no storage-order hypothesis is needed when timestamps are distinct.** For a supported unwrapped range aggregation
    (first/last_over_time included) the statement returns the same matrix for every physical order of the `samples` table
    (`Reordered`: the same rows, each once, no two rows sharing a timestamp; same index and series tables): nothing in the plan
    depends on the order rows are stored or read in. (`plan_metric_correct_unwrap` says which matrix.) -/
theorem plan_metric_unwrap_any_row_order (o : Oracles) (c : MCtx) (hn : c.namesOk) (d d' : LokiDb) (q : MetricQuery)
    (hsup : supportedU q = true) (h : Reordered d d') :
    (evalSelA o (d.toDbM c) (planMetric c q)).map normRow = (evalSelA o (d'.toDbM c) (planMetric c q)).map normRow :=
  planMetric_unwrap_reordered o c hn d d' q hsup h

/-- the same on the labelled path (also `quantile_over_time`: the values reach the oracle in timestamp order) -/
theorem plan_metric_ext_any_row_order (o : Oracles) (c : MCtx) (hn : c.namesOk) (d d' : LokiDb) (q : MetricQueryX)
    (hsup : supportedX q = true) (h : Reordered d d') :
    (evalSelA o (d.toDbM c) (planMetricX c q)).map normRow = (evalSelA o (d'.toDbM c) (planMetricX c q)).map normRow :=
  planMetricX_reordered o c hn d d' q hsup h

/-- the full statement: `first_over_time` / `last_over_time` of a group is a function of the group's members (whatever
    the order they are read in) -/
def first_last_any_order_full : Prop :=
  ∀ (l l' : List (Int × Rat)), (∀ x, x ∈ l ↔ x ∈ l') → firstBy l = firstBy l' ∧ lastBy l = lastBy l'

/-- what holds (partial): it is, when the timestamps of the group are pairwise distinct -/
theorem first_last_any_order_partial (l l' : List (Int × Rat)) (hmem : ∀ x, x ∈ l ↔ x ∈ l')
    (hdist : ∀ p ∈ l, ∀ q ∈ l, p.1 = q.1 → p = q) : firstBy l = firstBy l' ∧ lastBy l = lastBy l' :=
  ⟨firstBy_same_members l l' hmem hdist, lastBy_same_members l l' hmem hdist⟩

/-- **finding C08/first-last-tie-follows-row-order.** Among entries of one series with the same timestamp, `argMin`/`argMax`
    over the timestamp return the value of whichever row is read first: two rows `(ts 5, value 1)`, `(ts 5, value 2)` give
    `first_over_time = 1` in one order and `2` in the other (the definition read in table order does the same; ClickHouse
    leaves the choice open). The samples table stores no tie-breaker (Loki keeps ingestion order). -/
theorem first_last_any_order_counterexample : ¬ first_last_any_order_full := by
  intro h
  have := (h [(5, 1), (5, 2)] [(5, 2), (5, 1)] (by intro x; simp [or_comm])).1
  revert this
  decide +kernel

/-- the SQL side of the same witness (`Sql.SemAgg`'s `argMin`: first row with the least key) -/
theorem first_over_time_tie_sql :
    argMinAgg [(.rat 1, .int 5), (.rat 2, .int 5)] = .rat 1 ∧ argMinAgg [(.rat 2, .int 5), (.rat 1, .int 5)] = .rat 2 :=
  ⟨first_over_time_tie_follows_row_order.2.2.1, first_over_time_tie_follows_row_order.2.2.2⟩

/-! ## non-vacuity -/
example : LraRows [[("_string", .str [97, 98])]] [⟨1, 5, [97, 98], 1⟩] := by unfold LraRows; decide
example : UnwrapRows [[("unwrap_1.value", .rat 2), ("unwrap_1.timestamp_ns", .int 7)]] [(7, 2)] := by unfold UnwrapRows; decide +kernel
example : AggRows [[("lra_main.value", .rat 3)]] [3] := by unfold AggRows; decide +kernel
example : (1000000 : Nat) ∣ 5000000000 := by decide
example : takesShortcut (.range ⟨.lra .rate, ⟨[], []⟩, 60000000000, none, none, none⟩) = true := by decide
example : takesShortcut (.range ⟨.lra .rate, ⟨[], []⟩, 20000000000, none, none, none⟩) = false := by decide
example : takesShortcut (.range ⟨.lra .rate, ⟨[], [.line ⟨.notContains, [], none⟩]⟩, 60000000000, none, none, none⟩) = false := by decide

example : Reordered ⟨[], [], [⟨1, 1, [], 1⟩, ⟨1, 2, [], 1⟩]⟩ ⟨[], [], [⟨1, 2, [], 1⟩, ⟨1, 1, [], 1⟩]⟩ := by
  refine ⟨rfl, rfl, by decide, by decide, ?_, ?_⟩
  · intro s; simp [or_comm]
  · intro s hs s' hs' h
    simp only [List.mem_cons, List.not_mem_nil, or_false] at hs hs'
    rcases hs with rfl | rfl <;> rcases hs' with rfl | rfl <;> simp_all

-- the plan-level class is inhabited: sum by (a) (rate({…}[1m])) > 1 under topk, shortcut and not
example : supported (.topk ⟨true, 2, .agg ⟨.sum, some ⟨true, ["a"]⟩, ⟨.lra .rate, ⟨[], []⟩, 60000000000, none, none, none⟩, none,
    some ⟨.gt, ⟨1, []⟩⟩⟩, none⟩) = true := by decide
example : supported (.agg ⟨.count, none, ⟨.lra .bytesOverTime, ⟨[], []⟩, 7000000000, none, none, none⟩, some ⟨false, ["x"]⟩, none⟩) = true := by decide
example : supported (.agg ⟨.sum, none, ⟨.lra .rate, ⟨[], []⟩, 5000000000, none, none, none⟩, none, none⟩) = true := by decide
example : supportedU (.agg ⟨.max, some ⟨true, ["a"]⟩, ⟨.unwrap .firstOT "x", ⟨[], []⟩, 10000000000, none, some ⟨false, ["b"]⟩, none⟩, none, none⟩) = true := by decide
example : supportedU (.range ⟨.unwrap .stddevOT "x", ⟨[], []⟩, 10000000000, none, none, none⟩) = true := by decide
example : supported (.agg ⟨.stddev, some ⟨true, ["a"]⟩, ⟨.lra .rate, ⟨[], []⟩, 5000000000, none, none, none⟩, none, none⟩) = true := by decide
example (c : Ctx) : sortBy (tsLe c) ([] : List Sample) = [] := rfl
example (o : Oracles) (q : MetricQuery) : ShortcutOk o ⟨[], [], []⟩ q := ⟨by simp, by simp⟩
example (lo hi : Int) : SameInside ⟨[], [], [⟨1, lo - 1, [], 1⟩]⟩ ⟨[], [], []⟩ lo hi := by
  refine ⟨rfl, rfl, ?_⟩
  simp
  omega


-- the labelled class is inhabited: rate over `| json x="a" | x="1"`, sum by (x) of it under topk; quantile over unwrap
example : supportedX ⟨⟨.lra .rate, ⟨[], []⟩, [.ch (.json [([120], [.key [97]])]), .fl (.label (.str "x" .eq [49]))], 5000000000,
    none, none, none⟩, none, none⟩ = true := by decide
example : supportedX ⟨⟨.unwrap .sumOT "x", ⟨[], []⟩, [.ch (.drop [([97], [])])], 5000000000, none, some ⟨true, ["a"]⟩, none⟩,
    some ⟨.sum, some ⟨true, ["x"]⟩, none, none⟩, some ⟨true, 2, none⟩⟩ = true := by decide
example : supportedX ⟨⟨.quantile ⟨0, [5]⟩ "x", ⟨[], []⟩, [], 5000000000, none, none, none⟩, none, none⟩ = true := by decide
example : supportedX ⟨⟨.lra .rate, ⟨[], []⟩, [], 5000000000, none, none, none⟩, none, none⟩ = false := by decide

end Qryn.C08
