import Qryn.Proofs.LogQLPlan
import Qryn.Proofs.LogQLPlanX
/-! # C07 — the SQL generated for a LogQL log query selects exactly the matching lines

Model: `LogQL.planLog` (tied byte-for-byte to the real planner's SQL text by the `text` correspondence
stream), `Sql.evalSel` (semantics of the structured SQL subset — a documented model of ClickHouse),
`LogQL.evalLog` (the direct reading of the query, no SQL). Fragment: stream selector, line filters
`|= != |~ !~`, label filters on stream labels (before any parser), window, limit, direction.

Extension (`…_ext`, `script_correct`): the SQL-side pipeline stages `| json l="path"`, `| regexp "(?P<l>…)"`, `| drop`, and
line / label filters (string, numeric, and/or) placed after them, up to the stage where the script is handed to the
in-process engine (`| json`, `| logfmt`, `| line_format`). Model `LogQL.planLogX` / `planScript` (tied by the `textx`
stream through `logql_transpiler_v2.Plan`), semantics `Sql.evalSelX` (= `Sql.Sem` with the SELECT's aliases visible in
its WHERE and in its other columns, ClickHouse's default), specification `LogQL.evalLogX` / `evalScript`. -/
namespace Qryn.C07
open Qryn Qryn.Sql Qryn.LogQL

/-- **plan_correct.** For every query of the fragment, every context (window, limit, direction, signal
    type, table layout) and every database, evaluating the generated statement returns exactly the rows
    of the direct reading: entries inside [start, end) of the logs signal whose stream satisfies every
    matcher (through its index rows), whose line passes every line filter in order and whose stream labels
    pass every label filter; each with its own stream's labels; newest first (oldest when forward) and
    cut at the limit. -/
theorem plan_correct (o : Oracles) (c : Ctx) (hn : c.namesOk) (d : LokiDb) (q : LogQuery)
    (hlim : 0 ≤ c.limit) (hm : q.matchers.length ≤ 63) :
    evalSel o (d.toDb c) (planLog c q) = evalLog o c d q :=
  planLog_correct o c hn d q hlim hm

/-- **stream_select_correct.** The `groupBitOr(Σ bitShiftLeft(toUInt64 condᵢ, i)) = 2ⁿ−1` HAVING selects
    exactly the fingerprints having, for every matcher, an admissible index row satisfying it (n ≤ 63). -/
theorem stream_select_correct (o : Oracles) (c : Ctx) (hn : c.namesOk) (d : LokiDb) (ms : List Matcher)
    (hm : ms.length ≤ 63) (env : Env) (v : Val) :
    v ∈ firstCol (evalBody o (d.toDb c) env (streamSelect c ms)) ↔
      ∃ fp, v = .int fp ∧ streamSelected o c d ms fp = true :=
  streamSelect_eval o c hn d ms hm env v

/-- **like_contains.** The LIKE pattern rendered for a needle matches exactly the lines containing it. -/
theorem like_contains (s v : Bytes) : like s (37 :: likeEscape v ++ [37]) = true ↔ v <:+: s :=
  Sql.like_contains s v

/-- **limit_newest.** ORDER BY timestamp + LIMIT k keeps k entries none of which is older (newer, when
    forward) than any entry that was cut. -/
theorem limit_newest (o : Oracles) (c : Ctx) (d : LokiDb) (q : LogQuery) (kept cut : Sample)
    (hk : kept ∈ limited o c d q)
    (hc : cut ∈ d.samples.filter (entryMatches o c d q)) (hcut : cut ∉ limited o c d q) :
    tsLe c kept cut = true :=
  LogQL.limit_newest o c d q kept cut hk hc hcut

/-- every returned entry matches, and nothing is invented: the limited list is a sub-multiset of the matching entries -/
theorem limited_sound (o : Oracles) (c : Ctx) (d : LokiDb) (q : LogQuery) (s : Sample)
    (h : s ∈ limited o c d q) : s ∈ d.samples ∧ entryMatches o c d q s = true :=
  LogQL.limited_sound o c d q s h

/-- without a limit every matching entry is returned exactly as often as it is stored -/
theorem unlimited_complete (o : Oracles) (c : Ctx) (d : LokiDb) (q : LogQuery) (h : c.limit = 0) :
    (limited o c d q).Perm (d.samples.filter (entryMatches o c d q)) :=
  LogQL.unlimited_complete o c d q h

/-! ## the SQL-side pipeline stages -/

/-- **plan_correct_ext.** For every log query whose pipeline is made of line filters, label filters (string and
    numeric comparisons, and/or), `| json` with path parameters, `| regexp` and `| drop`, in any order and number, every
    context and every database: the statement planned for ClickHouse returns exactly the entries of the direct
    reading — the entries inside [start, end) of the logs signal whose stream satisfies the selector and the label
    filters placed before the first parser/drop (on the stored labels), whose line passes every line filter and whose
    *current* labels — the stream's, overwritten by the extracted ones, without the dropped ones — pass every later
    label filter, each stage seeing what the stages before it produced; each entry with its own stream's labels
    rewritten by exactly the json/regexp/drop stages in order and the fingerprint of that label set; ordered by
    timestamp, cut at the limit when the whole script runs in ClickHouse (`fin`), then ordered by series.
    JSON path extraction, RE2 capture groups and CityHash64 are arbitrary functions (`o`) shared by both sides. -/
theorem plan_correct_ext (o : Oracles) (c : Ctx) (hn : c.namesOk) (d : LokiDb) (q : LogQueryX) (fin : Bool)
    (hm : q.matchers.length ≤ 63) :
    evalSelX o (d.toDb c) (planLogX c fin q) = evalLogX o c fin d q :=
  planLogX_correct o c hn d q fin hm

/-- **script_correct.** For a whole script: what `logql_transpiler_v2.Plan` sends to ClickHouse — the stages before the
    first one only the in-process engine has, with the LIMIT only if there is no such stage — returns the direct reading
    of exactly those stages (the rest is C09's). -/
theorem script_correct (o : Oracles) (c : Ctx) (hn : c.namesOk) (d : LokiDb) (ms : List Matcher) (ss : List ScriptStage)
    (hm : ms.length ≤ 63) :
    evalSelX o (d.toDb c) (planScript c ms ss) = evalScript o c d ms ss :=
  planLogX_correct o c hn d ⟨ms, sqlPrefix ss⟩ (finalizes ss) hm

/-- **handover_point.** ClickHouse gets a prefix of the pipeline: everything before the first `| json` without
    parameters / `| logfmt` / `| line_format`; it applies the limit iff nothing is left for the in-process engine. -/
theorem handover_point (ss : List ScriptStage) :
    ∃ rest, ss = (sqlPrefix ss).map .sql ++ rest ∧ (finalizes ss = true ↔ rest = []) ∧
      (∀ s, rest.head? = some s → s.breaks = true) :=
  sqlPrefix_spec ss

/-- **own_stream_labels.** Every entry the stages return is an entry that entered them — same line, same timestamp —
    and its labels are its own stream's labels rewritten by the json / regexp / drop stages of the pipeline, in order
    (extracted labels replace stored ones of the same name: `mapUpdate`). -/
theorem own_stream_labels (o : Oracles) (ss : List StageX) (E : List EntryX) (e' : EntryX) (h : e' ∈ stagesX o ss E) :
    ∃ e ∈ E, e'.line = e.line ∧ e'.ts = e.ts ∧ e'.labels = (changersOf ss).foldl (applyChanger o e.line) e.labels :=
  stagesX_origin o ss E e' h

/-- **ext_conservative.** Without parser / drop stages the extended specification is the one `plan_correct` is about. -/
theorem ext_conservative (o : Oracles) (c : Ctx) (d : LokiDb) (q : LogQuery) :
    evalLogX o c true d ⟨q.matchers, q.stages.map .fl⟩ = evalLog o c d q :=
  evalLogX_plain o c d q

/-- extracted labels take precedence over stored ones, a later extraction over an earlier one -/
theorem extracted_overrides (a b : Labels) (k v : Bytes) (h : (k, v) ∈ b) (hu : ∀ v', (k, v') ∈ b → v' = v) :
    ∀ v', (k, v') ∈ mapUpdate a b → v' = v := by
  intro v' hm
  simp only [mapUpdate, List.mem_append, List.mem_filter] at hm
  rcases hm with ⟨_, hn⟩ | hm
  · have : b.any (fun q => q.1 == k) = true := List.any_eq_true.mpr ⟨(k, v), h, by simp⟩
    simp [this] at hn
  · exact hu v' hm

/-! non-vacuity: a context with distinct table names; a query with all stage kinds; the hand-over -/
example : ∃ c : Ctx, c.namesOk := ⟨⟨0, 10, 5, false, 1, false, "gin", "smp", "ts", "ts_dist"⟩, by simp [Ctx.namesOk]⟩
example : (splitPre [.fl (.line ⟨.contains, [97], none⟩), .ch (.drop [([97], [])]), .fl (.label (.str "a" .eq [98]))]).2.length = 2 := by decide
example : groupRuns [.ch (.json [([120], [.key [97], .idx 1])]), .ch (.drop [([97], [])]), .fl (.label (.str "x" .eq [98])),
    .ch (.regexp [[120], []] [40, 97, 41, 40, 98, 41])] =
    [.ch [.json [([120], [.key [97], .idx 1])], .drop [([97], [])]], .fl [.label (.str "x" .eq [98])],
     .ch [.regexp [[120], []] [40, 97, 41, 40, 98, 41]]] := by decide
example : sqlPrefix [.sql (.ch (.drop [([97], [])])), .inproc "logfmt", .sql (.ch (.drop [([98], [])]))] = [.ch (.drop [([97], [])])] ∧
    finalizes [.sql (.ch (.drop [([97], [])])), .inproc "logfmt"] = false := by decide

end Qryn.C07
