import Qryn.Proofs.LogQLPlan
import Qryn.Proofs.LogQLPlanX
import Qryn.Proofs.PushdownX
import Qryn.Proofs.SpecReadingX
import Qryn.Gen.InternalPlanner
import Qryn.LogQL.GrammarC07
/-! # C07 — the SQL generated for a LogQL log query selects exactly the matching lines

Model: `LogQL.planLog` (tied byte-for-byte to the real planner's SQL text by the `text` correspondence
stream), `Sql.evalSel` (semantics of the structured SQL subset — a documented model of ClickHouse),
`LogQL.evalLog` (the direct reading of the query, no SQL). Fragment: stream selector, line filters
`|= != |~ !~`, label filters on stream labels (before any parser), window, limit, direction.

Extension (`…_ext`, `script_correct`): the SQL-side pipeline stages `| json l="path"`, `| regexp "(?P<l>…)"`, `| drop`, and
line / label filters (string, numeric, and/or) placed after them, up to the stage where the script is handed to the
in-process engine (`| json`, `| logfmt`, `| line_format`). Model `LogQL.planLogX` / `planScript` (tied by the `textx`
stream through `logql_transpiler_v2.Plan`), semantics `Sql.evalSelX` (= `Sql.Sem` with the SELECT's aliases visible in
its WHERE and in its other columns, ClickHouse's default), specification `LogQL.evalLogX` / `evalScript`. -/
namespace Qryn.C07
open Qryn Qryn.Sql Qryn.LogQL

/-- **plan_correct.** For every query of the fragment, every context (window, limit, direction, signal
    type, table layout) and every database, evaluating the generated statement returns exactly the rows
    of the direct reading: entries inside [start, end) of the logs signal whose stream satisfies every
    matcher (through its index rows), whose line passes every line filter in order and whose stream labels
    pass every label filter; each with its own stream's labels; newest first (oldest when forward) and
    cut at the limit. -/
theorem plan_correct (o : Oracles) (c : Ctx) (hn : c.namesOk) (d : LokiDb) (q : LogQuery)
    (hlim : 0 ≤ c.limit) (hm : q.matchers.length ≤ 63) :
    evalSel o (d.toDb c) (planLog c q) = evalLog o c d q :=
  planLog_correct o c hn d q hlim hm

/-- **stream_select_correct.** The `groupBitOr(Σ bitShiftLeft(toUInt64 condᵢ, i)) = 2ⁿ−1` HAVING selects
    exactly the fingerprints having, for every matcher, an admissible index row satisfying it (n ≤ 63). -/
theorem stream_select_correct (o : Oracles) (c : Ctx) (hn : c.namesOk) (d : LokiDb) (ms : List Matcher)
    (hm : ms.length ≤ 63) (env : Env) (v : Val) :
    v ∈ firstCol (evalBody o (d.toDb c) env (streamSelect c ms)) ↔
      ∃ fp, v = .int fp ∧ streamSelected o c d ms fp = true :=
  streamSelect_eval o c hn d ms hm env v

/-- **like_contains.** The LIKE pattern rendered for a needle matches exactly the lines containing it. -/
theorem like_contains (s v : Bytes) : like s (37 :: likeEscape v ++ [37]) = true ↔ v <:+: s :=
  Sql.like_contains s v

/-- **limit_newest.** ORDER BY timestamp + LIMIT k keeps k entries none of which is older (newer, when
    forward) than any entry that was cut. -/
theorem limit_newest (o : Oracles) (c : Ctx) (d : LokiDb) (q : LogQuery) (kept cut : Sample)
    (hk : kept ∈ limited o c d q)
    (hc : cut ∈ d.samples.filter (entryMatches o c d q)) (hcut : cut ∉ limited o c d q) :
    tsLe c kept cut = true :=
  LogQL.limit_newest o c d q kept cut hk hc hcut

/-- every returned entry matches, and nothing is invented: the limited list is a sub-multiset of the matching entries -/
theorem limited_sound (o : Oracles) (c : Ctx) (d : LokiDb) (q : LogQuery) (s : Sample)
    (h : s ∈ limited o c d q) : s ∈ d.samples ∧ entryMatches o c d q s = true :=
  LogQL.limited_sound o c d q s h

/-- without a limit every matching entry is returned exactly as often as it is stored -/
theorem unlimited_complete (o : Oracles) (c : Ctx) (d : LokiDb) (q : LogQuery) (h : c.limit = 0) :
    (limited o c d q).Perm (d.samples.filter (entryMatches o c d q)) :=
  LogQL.unlimited_complete o c d q h

/-! ## the SQL-side pipeline stages -/

/-- **plan_correct_ext.** For every log query whose pipeline is made of line filters, label filters (string and
    numeric comparisons, and/or), `| json` with path parameters, `| regexp` and `| drop`, in any order and number, every
    context and every database: the statement planned for ClickHouse returns exactly the entries of the direct
    reading — the entries inside [start, end) of the logs signal whose stream satisfies the selector and the label
    filters placed before the first parser/drop (on the stored labels), whose line passes every line filter and whose
    *current* labels — the stream's, overwritten by the extracted ones, without the dropped ones — pass every later
    label filter, each stage seeing what the stages before it produced; each entry with its own stream's labels
    rewritten by exactly the json/regexp/drop stages in order and the fingerprint of that label set; ordered by
    timestamp, cut at the limit when the whole script runs in ClickHouse (`fin`), then ordered by series.
    JSON path extraction, RE2 capture groups and CityHash64 are arbitrary functions (`o`) shared by both sides. -/
theorem plan_correct_ext (o : Oracles) (c : Ctx) (hn : c.namesOk) (d : LokiDb) (q : LogQueryX) (fin : Bool)
    (hm : q.matchers.length ≤ 63) :
    evalSelX o (d.toDb c) (planLogX c fin q) = evalLogX o c fin d q :=
  planLogX_correct o c hn d q fin hm

/-- **script_correct.** For a whole script: what `logql_transpiler_v2.Plan` sends to ClickHouse — the stages before the
    first one only the in-process engine has, with the LIMIT only if there is no such stage — returns the direct reading
    of exactly those stages (the rest is C09's). -/
theorem script_correct (o : Oracles) (c : Ctx) (hn : c.namesOk) (d : LokiDb) (ms : List Matcher) (ss : List ScriptStage)
    (hm : ms.length ≤ 63) :
    evalSelX o (d.toDb c) (planScript c ms ss) = evalScript o c d ms ss :=
  planLogX_correct o c hn d ⟨ms, sqlPrefix ss⟩ (finalizes ss) hm

/-- **handover_point.** ClickHouse gets a prefix of the pipeline: everything before the first `| json` without
    parameters / `| logfmt` / `| line_format`; it applies the limit iff nothing is left for the in-process engine. -/
theorem handover_point (ss : List ScriptStage) :
    ∃ rest, ss = (sqlPrefix ss).map .sql ++ rest ∧ (finalizes ss = true ↔ rest = []) ∧
      (∀ s, rest.head? = some s → s.breaks = true) :=
  sqlPrefix_spec ss

/-- **own_stream_labels.** Every entry the stages return is an entry that entered them — same line, same timestamp —
    and its labels are its own stream's labels rewritten by the json / regexp / drop stages of the pipeline, in order
    (extracted labels replace stored ones of the same name: `mapUpdate`). -/
theorem own_stream_labels (o : Oracles) (ss : List StageX) (E : List EntryX) (e' : EntryX) (h : e' ∈ stagesX o ss E) :
    ∃ e ∈ E, e'.line = e.line ∧ e'.ts = e.ts ∧ e'.labels = (changersOf ss).foldl (applyChanger o e.line) e.labels :=
  stagesX_origin o ss E e' h

/-- **ext_conservative.** Without parser / drop stages the extended specification is the one `plan_correct` is about. -/
theorem ext_conservative (o : Oracles) (c : Ctx) (d : LokiDb) (q : LogQuery) :
    evalLogX o c true d ⟨q.matchers, q.stages.map .fl⟩ = evalLog o c d q :=
  evalLogX_plain o c d q

/-- extracted labels take precedence over stored ones, a later extraction over an earlier one -/
theorem extracted_overrides (a b : Labels) (k v : Bytes) (h : (k, v) ∈ b) (hu : ∀ v', (k, v') ∈ b → v' = v) :
    ∀ v', (k, v') ∈ mapUpdate a b → v' = v := by
  intro v' hm
  simp only [mapUpdate, List.mem_append, List.mem_filter] at hm
  rcases hm with ⟨_, hn⟩ | hm
  · have : b.any (fun q => q.1 == k) = true := List.any_eq_true.mpr ⟨(k, v), h, by simp⟩
    simp [this] at hn
  · exact hu v' hm

/-! ## the push-down of label filters to the stored labels (`analyzeScript` → `planTS`)

`planLogX` calls `LogQL.analyze` = the model of `analyzeScript`'s marking loop (`simpleOps`), of `labelsJoinIdx` and of
what `planTS` / `planSpl` do with them, built from the tables `Gen.C07Analyze` regenerated from analyze.go / planner.go. -/

/-- **pushdown_exact.** The exact stopping rule: stage `i` is marked as decidable on the stored labels iff it is a label
    filter — of any shape: one comparison, an and/or chain, parenthesised groups at any depth — and no stage before it
    rewrites the labels (`| json …`, `| regexp`, `| drop`). -/
theorem pushdown_exact (ss : List StageX) (i : Nat) :
    (simpleOps ss)[i]? = some true ↔ (∃ lc, ss[i]? = some (.fl (.label lc))) ∧ changersOf (ss.take i) = [] :=
  simpleOps_spec ss i

/-- **pushdown_sound.** For ALL pipelines: every filter the analysis pushes down evaluates the same on the stored labels
    as on the labels an entry carries when it reaches the filter's position — whatever the line, the stored labels and the
    JSON / RE2 oracles. (This is the lemma behind `plan_correct_ext`: it is why the label filters `planTS` moves into the
    fingerprint selection may be decided on `time_series.labels`.) -/
theorem pushdown_sound (o : Oracles) (ss : List StageX) (i : Nat) (lc : LabelCond) (line : Bytes) (stored : Labels)
    (_hs : ss[i]? = some (.fl (.label lc))) (hp : (simpleOps ss)[i]? = some true) :
    labelCondHolds o (labelsAt o line stored ss i) lc = labelCondHolds o stored lc := by
  rw [labelsAt_simple o line stored ss i hp]

/-- **pushdown_sound_criterion.** What ANY push-down rule needs: a filter that reads no label an earlier stage may set
    (json parameter, named group) or remove (drop) — looking at every comparison of the filter, inside parentheses too —
    evaluates the same on the stored labels as at its position. The pinned rule is the instance "no earlier stage
    rewrites anything" (`pushdown_rule_independent`). -/
theorem pushdown_sound_criterion (o : Oracles) (ss : List StageX) (i : Nat) (lc : LabelCond) (line : Bytes) (stored : Labels)
    (h : independent (changersOf (ss.take i)) lc = true) :
    labelCondHolds o (labelsAt o line stored ss i) lc = labelCondHolds o stored lc :=
  independent_sound o line _ lc stored h

theorem pushdown_rule_independent (ss : List StageX) (i : Nat) (lc : LabelCond) (hp : (simpleOps ss)[i]? = some true) :
    independent (changersOf (ss.take i)) lc = true :=
  simple_independent ss i lc hp

/-- **pushdown_is_the_specified_split.** What the plan does with the analysis — label filters wrapped around the fingerprint
    selection, filters planned on `main`, stages planned on the join — is the split the specification `evalLogX` reads the
    pipeline with: pushed down = exactly the label filters before the first label-rewriting stage. -/
theorem pushdown_is_the_specified_split (ss : List StageX) :
    analyze ss = ⟨labelConds ⟨[], (splitPre ss).1⟩, (splitPre ss).1, (splitPre ss).2⟩ :=
  analyze_eq_splitPre ss

/-- `{…} | drop x | (x="1")` -/
def pastDropWitness : List PStage := [.ch (.drop [([120], [])]), .label (.complex (.simple (.str "x" .eq [49])))]

/-- **pushdown_past_drop_counterexample** (kernel-checked). The rule "keep pushing down after `| drop` unless an
    UNPARENTHESISED comparison reads a dropped label" is not sound: in `{…} | drop x | (x="1")` it marks the filter (its
    only comparison is inside parentheses), yet on a stream stored with `x="1"` the filter is true of the stored labels and
    false of the labels at its position (no `x` after the drop). -/
theorem pushdown_past_drop_counterexample :
    ∃ (ss : List PStage) (i : Nat) (f : PFilter) (stored : Labels), ss[i]? = some (.label f) ∧
      (simpleOpsPastDrop [] ss)[i]? = some true ∧
      ∀ (o : Oracles) (line : Bytes),
        labelCondHolds o (labelsAt o line stored (ss.map PStage.erase) i) f.cond ≠ labelCondHolds o stored f.cond := by
  refine ⟨pastDropWitness, 1, .complex (.simple (.str "x" .eq [49])), [([120], [49])], rfl, by decide, ?_⟩
  intro o line
  simp [pastDropWitness, labelsAt, PStage.erase, changersOf, applyChanger, dropKeeps, labelCondHolds, labelValue, x_bytes,
    List.lookup, PFilter.cond]

/-- the same rule does stop at the unparenthesised `{…} | drop x | x="1"`; and the witness fails the criterion -/
example : (simpleOpsPastDrop [] [.ch (.drop [([120], [])]), .label (.simple (.str "x" .eq [49]))])[1]? = some false := by
  simp [simpleOpsPastDrop, PFilter.readsUnparenthesised, LabelCond.reads, x_bytes]
example : independent (changersOf ((pastDropWitness.map PStage.erase).take 1)) (.str "x" .eq [49]) = false := by
  simp [pastDropWitness, PStage.erase, changersOf, independent, Changer.writes, LabelCond.reads, x_bytes]
/-- the pinned rule on the witness: nothing after the drop is marked -/
example : simpleOps (pastDropWitness.map PStage.erase) = [false, false] := by decide

/-- **analysis_tables_pinned.** The regenerated tables of analyze.go / planner.go the model is built from say what the
    hand-written parts of the model assume: `changesLabels` is "parser or drop" (`groupRuns`' two kinds of runs), a
    request is renewed exactly where that changes from one stage to the next, from `labelsJoinIdx` on; `planSpl` has no
    branch for `| label_format` (and no default branch), so the stage must never reach the ClickHouse planner — and
    `GetBreakpoint` hands the script over at it, at `| line_format`, at `| json` without parameters and at `| logfmt`. -/
theorem analysis_tables_pinned :
    (∀ s : StageX, Gen.C07Analyze.changesLabels.contains s.kind = (match s with | .ch _ => true | .fl _ => false)) ∧
    Gen.C07Analyze.renewRule =
      "i < len(pipeline)-1 && p.labelsJoinIdx != -1 && i >= p.labelsJoinIdx && changesLabels(&pipeline[i]) != changesLabels(&pipeline[i+1])" ∧
    (Gen.C07Analyze.dispatch.lookup "LabelFormat" = none) ∧
    (∀ s : StageX, (Gen.C07Analyze.dispatch.lookup s.kind).isSome = true) ∧
    Gen.InternalPlanner.breakConds.drop 1 =
      ["ppl.Parser != nil && ((ppl.Parser.Fn == \"json\" && len(ppl.Parser.ParserParams) == 0) || ppl.Parser.Fn == \"logfmt\")",
       "ppl.LineFormat != nil", "ppl.LabelFormat != nil"] := by
  refine ⟨?_, rfl, by decide, ?_, rfl⟩
  · intro s; cases s with
    | fl f => cases f <;> rfl
    | ch c => cases c <;> rfl
  · intro s; cases s with
    | fl f => cases f <;> rfl
    | ch c => cases c <;> rfl

/-! ### the specification read stage by stage
`evalLogX` reads the filters before the first label-rewriting stage the way the plan decides them — through the index and the
series table. On a series table that gives every stream one label set this is the uniform reading `evalInPlace`: the
selector's entries, each carrying its stream's labels, go through ALL stages in order. -/

/-- **pre_filters_read_in_place.** If every series row of a stream carries the same label set `L fp` and every stream the
    selector picks has an admissible row, then the entries the specification admits for the filters `pre` placed before the
    first label-rewriting stage are exactly the selector's entries filtered in place by `pre`, each filter judging the
    entry's own labels and line. (Spec-level counterpart of `pushdown_sound`.) -/
theorem pre_filters_read_in_place (o : Oracles) (c : Ctx) (d : LokiDb) (ms : List Matcher) (L : Int → Labels)
    (H : SeriesConsistent o c d ms L) (pre : List Stage) :
    entriesAtJoin o c d ⟨ms, pre⟩ = stagesX o (pre.map .fl) (entriesAtJoin o c d ⟨ms, []⟩) :=
  LogQL.pre_filters_read_in_place o c d ms L H pre

/-- **plan_correct_in_place.** For a pipeline with at least one label-rewriting stage, on such a series table: the statement
    planned for ClickHouse returns what one gets by passing the selector's entries through every stage of the pipeline in
    order — no split of the pipeline appears in this reading. -/
theorem plan_correct_in_place (o : Oracles) (c : Ctx) (hn : c.namesOk) (d : LokiDb) (q : LogQueryX) (fin : Bool)
    (hm : q.matchers.length ≤ 63) (L : Int → Labels) (H : SeriesConsistent o c d q.matchers L)
    (hch : changersOf q.stages ≠ []) :
    evalSelX o (d.toDb c) (planLogX c fin q) = evalInPlace o c fin d q := by
  rw [planLogX_correct o c hn d q fin hm, evalLogX_reads_in_place o c fin d q L H hch]

/-- the hypothesis is satisfiable (a series table with one row; no index row, so the selector picks nothing) -/
example (o : Oracles) (c : Ctx) (ms : List Matcher) :
    SeriesConsistent o c ⟨[], [⟨[], 1, [123, 125], 1⟩], []⟩ ms (fun _ => o.jsonLabels [123, 125]) :=
  ⟨by intro t ht; simp at ht; subst ht; rfl, by intro fp h; simp [streamSelected] at h⟩

/-- **grammar_classified.** Every production of the LogQL log-query grammar as it is in logql_parser/model_v2.go now
    (`Gen.C07Grammar`, regenerated from the participle tags) is classified — modelled, handed over, or outside with the
    reason — and nothing else is: a production the grammar gains (a new stage, operator, token form) or loses is an open
    obligation until the model, the generator of the streams and this table say what to make of it. -/
theorem grammar_classified : Gen.C07Grammar.productions = GrammarC07.classTable.map (·.1) := by decide +kernel

/-! non-vacuity: a context with distinct table names; a query with all stage kinds; the hand-over -/
example : ∃ c : Ctx, c.namesOk := ⟨⟨0, 10, 5, false, 1, false, "gin", "smp", "ts", "ts_dist"⟩, by simp [Ctx.namesOk]⟩
example : (splitPre [.fl (.line ⟨.contains, [97], none⟩), .ch (.drop [([97], [])]), .fl (.label (.str "a" .eq [98]))]).2.length = 2 := by decide
example : groupRuns [.ch (.json [([120], [.key [97], .idx 1])]), .ch (.drop [([97], [])]), .fl (.label (.str "x" .eq [98])),
    .ch (.regexp [[120], []] [40, 97, 41, 40, 98, 41])] =
    [.ch [.json [([120], [.key [97], .idx 1])], .drop [([97], [])]], .fl [.label (.str "x" .eq [98])],
     .ch [.regexp [[120], []] [40, 97, 41, 40, 98, 41]]] := by decide
example : sqlPrefix [.sql (.ch (.drop [([97], [])])), .inproc "logfmt", .sql (.ch (.drop [([98], [])]))] = [.ch (.drop [([97], [])])] ∧
    finalizes [.sql (.ch (.drop [([97], [])])), .inproc "logfmt"] = false := by decide

end Qryn.C07
