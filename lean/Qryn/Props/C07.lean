import Qryn.Proofs.LogQLPlan
/-! # C07 — the SQL generated for a LogQL log query selects exactly the matching lines

Model: `LogQL.planLog` (tied byte-for-byte to the real planner's SQL text by the `text` correspondence
stream), `Sql.evalSel` (semantics of the structured SQL subset — a documented model of ClickHouse),
`LogQL.evalLog` (the direct reading of the query, no SQL). Fragment: stream selector, line filters
`|= != |~ !~`, label filters on stream labels (before any parser), window, limit, direction. -/
namespace Qryn.C07
open Qryn Qryn.Sql Qryn.LogQL

/-- **plan_correct.** For every query of the fragment, every context (window, limit, direction, signal
    type, table layout) and every database, evaluating the generated statement returns exactly the rows
    of the direct reading: entries inside [start, end) of the logs signal whose stream satisfies every
    matcher (through its index rows), whose line passes every line filter in order and whose stream labels
    pass every label filter; each with its own stream's labels; newest first (oldest when forward) and
    cut at the limit. -/
theorem plan_correct (o : Oracles) (c : Ctx) (hn : c.namesOk) (d : LokiDb) (q : LogQuery)
    (hlim : 0 ≤ c.limit) (hm : q.matchers.length ≤ 63) :
    evalSel o (d.toDb c) (planLog c q) = evalLog o c d q :=
  planLog_correct o c hn d q hlim hm

/-- **stream_select_correct.** The `groupBitOr(Σ bitShiftLeft(toUInt64 condᵢ, i)) = 2ⁿ−1` HAVING selects
    exactly the fingerprints having, for every matcher, an admissible index row satisfying it (n ≤ 63). -/
theorem stream_select_correct (o : Oracles) (c : Ctx) (hn : c.namesOk) (d : LokiDb) (ms : List Matcher)
    (hm : ms.length ≤ 63) (env : Env) (v : Val) :
    v ∈ firstCol (evalBody o (d.toDb c) env (streamSelect c ms)) ↔
      ∃ fp, v = .int fp ∧ streamSelected o c d ms fp = true :=
  streamSelect_eval o c hn d ms hm env v

/-- **like_contains.** The LIKE pattern rendered for a needle matches exactly the lines containing it. -/
theorem like_contains (s v : Bytes) : like s (37 :: likeEscape v ++ [37]) = true ↔ v <:+: s :=
  Sql.like_contains s v

/-- **limit_newest.** ORDER BY timestamp + LIMIT k keeps k entries none of which is older (newer, when
    forward) than any entry that was cut. -/
theorem limit_newest (o : Oracles) (c : Ctx) (d : LokiDb) (q : LogQuery) (kept cut : Sample)
    (hk : kept ∈ limited o c d q)
    (hc : cut ∈ d.samples.filter (entryMatches o c d q)) (hcut : cut ∉ limited o c d q) :
    tsLe c kept cut = true :=
  LogQL.limit_newest o c d q kept cut hk hc hcut

/-- every returned entry matches, and nothing is invented: the limited list is a sub-multiset of the matching entries -/
theorem limited_sound (o : Oracles) (c : Ctx) (d : LokiDb) (q : LogQuery) (s : Sample)
    (h : s ∈ limited o c d q) : s ∈ d.samples ∧ entryMatches o c d q s = true :=
  LogQL.limited_sound o c d q s h

/-- without a limit every matching entry is returned exactly as often as it is stored -/
theorem unlimited_complete (o : Oracles) (c : Ctx) (d : LokiDb) (q : LogQuery) (h : c.limit = 0) :
    (limited o c d q).Perm (d.samples.filter (entryMatches o c d q)) :=
  LogQL.unlimited_complete o c d q h

end Qryn.C07
