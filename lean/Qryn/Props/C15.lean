import Qryn.Proofs.Encode
import Qryn.Gen.C15Enc
/-! # C15 — query responses are always one well-formed document of the documented shape

Property theorems only. Models: `Qryn.Json` (byte-level RFC 8259 parser, jsoniter `WriteString` and
`encoding/json` string writers, compact printer) and `Qryn.Encode` (the chunk machines of
`exportStreamsValue`, the matrix and vector writers, `Tail`, `GenericLabelReq`, `Series`, Tempo `Tags`/`Values`,
the PromQL scalar writer — all *after* the `fix:` commits listed in KNOWN_FINDINGS.txt).

Reading guide. `batches : List (List Entry)` is what arrives on the `chan []shared.LogEntry`, batch by batch:
any number of batches, empty ones included, series split across batches at any place, marker entries
(`io.EOF`) anywhere. The theorems say: the concatenation of everything the encoder sends parses — with the
RFC 8259 grammar `Json.parse`, leaving no rest — to the *expected document*, which is built from the rows
alone: one object per maximal run of equal fingerprint (`runs`), carrying the labels of the run's first row
and the run's rows in order. `runs` is characterised independently (`groups_*`), and with contiguous series
(`Contig`, what `ORDER BY fingerprint` delivers) no fingerprint has two objects. -/
namespace Qryn.C15
open Qryn Qryn.Json Qryn.Encode

/-! ## strings -/

/-- **string_escape_roundtrip** (jsoniter `Stream.WriteString`, used for every label name, label value, log
    line, timestamp string and float string of the query responses): for *every* byte string `s` — quotes,
    backslashes, control bytes, DEL, U+2028, bytes ≥ 0x80 that are not UTF-8 — the text `"…"` written for `s`
    is one JSON string token whose decoded bytes are exactly `s`; the scanner stops right behind it.
    (`WriteString` is the non-HTML variant: it copies bytes ≥ 0x80 unchanged, so the output is UTF-8 exactly
    when `s` is; it never produces the escape `\ufffd`.) -/
theorem string_escape_roundtrip (s rest : Bytes) :
    parseStrBody (escJ s ++ 34 :: rest) [] = some (s, rest) :=
  parseStrBody_jstr s rest

/-- the same as a value: `parse ("…" ++ rest) = (str s, rest)` -/
theorem string_value_roundtrip (s rest : Bytes) (h : Stop rest) :
    parse (jstr s ++ rest) = some (.str s, rest) :=
  parse_of_repr (repr_jstr s) rest h

/-- **string_escape_roundtrip_std** (`encoding/json.Marshal` of a string, used by `GenericLabelReq` and the
    Tempo tag endpoints): the text decodes to `sanitize s` = `s` with every byte that is not part of a
    well-formed UTF-8 sequence replaced by U+FFFD … -/
theorem string_escape_roundtrip_std (s rest : Bytes) :
    parseStrBody (escStd s ++ 34 :: rest) [] = some (sanitize s, rest) :=
  parseStrBody_stdstr s rest

/-- … which is `s` itself for valid UTF-8 (`utf8.ValidString`) -/
theorem std_lossless_on_utf8 (s : Bytes) (h : validUtf8 s = true) : sanitize s = s := sanitize_valid s h

/-- **print_parse**: the compact text of any value (number tokens being JSON numbers) is read back as that
    value, whatever follows (as long as it cannot extend a trailing number) -/
theorem print_parse (v : JVal) (h : v.wf = true) (rest : Bytes) (hs : Stop rest) :
    parse (print v ++ rest) = some (v, rest) :=
  parse_print v h rest hs

/-- decimal integers (`%d`, `WriteInt64`) and `%f` renderings are JSON numbers -/
theorem numbers_are_json (n : Int) (neg : Bool) (q : Nat) :
    isNumTok (decInt n) = true ∧ isNumTok (fixed6 neg q) = true :=
  ⟨isNumTok_decInt n, isNumTok_fixed6 neg q⟩

/-! ## grouping: what "one object per series, every row once" means -/

/-- every row is in exactly one group, order preserved -/
theorem groups_partition (rows : List Entry) : (runs rows).flatten = rows := runs_flatten rows

/-- no group is empty and all rows of a group have the fingerprint of its first row -/
theorem groups_constant_fp (rows : List Entry) :
    ∀ g ∈ runs rows, g ≠ [] ∧ ∀ e ∈ g, some e.fp = g.head?.map (·.fp) :=
  fun g hg => ⟨runs_ne_nil rows g hg, runs_const rows g hg⟩

/-- groups are maximal: neighbouring groups have different fingerprints -/
theorem groups_maximal (rows : List Entry) : AdjDiff (runFps rows) := runs_adjacent rows

/-- **one object per series**: if each series' rows are contiguous, no two groups share a fingerprint -/
theorem one_object_per_series (rows : List Entry) (h : Contig (rows.map (·.fp))) : (runFps rows).Nodup :=
  runFps_nodup rows h

/-- `ORDER BY fingerprint` gives contiguous series -/
theorem sorted_is_contiguous (l : List Nat) (h : l.Pairwise (· ≤ ·)) : Contig l := contig_of_sorted l h

/-- shape of one series object -/
theorem series_object_shape (sh : Shape) (e : Entry) (g : List Entry) :
    seriesObj sh (e :: g) = .obj [(sh.key, labelsObj e.labels), (kValues, .arr ((e :: g).map sh.value))] := rfl

/-! ## streams, matrix, tail -/

/-- **streams_doc** (`exportStreamsValue`, log queries of `/loki/api/v1/query_range` and `/query`): for all
    batchings without an error entry, the concatenated chunks are exactly one JSON document,
    `{"status":"success","data":{"resultType":"streams","result":[…]}}`, with one
    `{"stream":{labels},"values":[["<ts>","<line>"],…]}` per run of equal fingerprint — also when the first
    fingerprint is 0 — every row once, timestamps as exact decimals, lines and labels decoding to their
    original bytes. -/
theorem streams_doc (batches : List (List Entry)) (h : NoFail batches.flatten) :
    parse (streamsChunks batches).flatten =
      some (seriesDoc kStreamsRT streamsShape (rowsOf batches.flatten), []) := by
  have ht : (streamsChunks batches).flatten = print (seriesDoc kStreamsRT streamsShape (rowsOf batches.flatten)) := by
    rw [streamsChunks, go_rowsOf _ _ _ _ h]
    exact series_text _ _ _ (noErr_rowsOf _)
  rw [ht]
  exact parse_of_repr_nil (repr_print _ (seriesDoc_wf _ _ streamsShape_wf _))

/-- the rows the matrix/vector loops see are all rows when EOF markers only end batches -/
theorem matrix_rows_all (batches : List (List Entry))
    (h : ∀ b ∈ batches, ∀ pre e post, b = pre ++ e :: post → e.err = .eof → post = []) :
    batches.flatMap cutEof = batches.flatten.filter (fun e => e.err ≠ .eof) := by
  induction batches with
  | nil => rfl
  | cons b r ih =>
    simp only [List.flatMap_cons, List.flatten_cons, List.filter_append]
    rw [cutEof_eq_filter b (h b (by simp)), ih (fun b' hb' => h b' (by simp [hb']))]

/-- **matrix_doc** (matrix goroutine of `QueryRange`): same statement with
    `{"metric":{labels},"values":[[<ts/1e9 as %f>,"<value>"],…]}`; the rows are those the loop looks at
    (`break` at an EOF marker, see `matrix_rows_all`). The time is the JSON number `%f` prints (microsecond
    resolution — exact for the millisecond-aligned steps the planner produces), the value the
    `FormatFloat(-1)` token as a string. -/
theorem matrix_doc (batches : List (List Entry)) (h : NoFail (batches.flatMap cutEof)) :
    parse (matrixChunks batches).flatten =
      some (seriesDoc kMatrix matrixShape (batches.flatMap cutEof), []) := by
  have hne : NoErr (batches.flatMap cutEof) := noErr_of_noFail_noEof _ h (flatMap_cutEof_noEof batches)
  have ht : (matrixChunks batches).flatten = print (seriesDoc kMatrix matrixShape (batches.flatMap cutEof)) :=
    series_text _ _ _ hne
  rw [ht]
  exact parse_of_repr_nil (repr_print _ (seriesDoc_wf _ _ matrixShape_wf _))

/-- the document of one `Tail` frame -/
def tailDoc (rows : List Entry) : JVal := .obj [(kStreamsRT, .arr ((runs rows).map (seriesObj streamsShape)))]

/-- **tail_doc** (one websocket message of `Tail`): `{"streams":[…]}` with the same grouping -/
theorem tail_doc (batches : List (List Entry)) (h : NoFail batches.flatten) :
    parse (tailFrame batches) = some (tailDoc (rowsOf batches.flatten), []) := by
  have hk : jstr kStreamsRT = [34, 115, 116, 114, 101, 97, 109, 115, 34] := by decide
  have ht : tailFrame batches = print (tailDoc (rowsOf batches.flatten)) := by
    rw [tailFrame, go_rowsOf _ _ _ _ h, go_none _ _ _ (noErr_rowsOf _), whole]
    simp [tailDoc, print, printMembers, tailPre, hk]
  rw [ht]
  refine parse_of_repr_nil (repr_print _ ?_)
  simp only [tailDoc, JVal.wf, wfMembers, Bool.and_true]
  apply wfList_of_forall
  intro x hx
  obtain ⟨g, _, rfl⟩ := List.mem_map.mp hx
  exact seriesObj_wf _ streamsShape_wf g

/-! ## vector -/

/-- **vector_doc** (vector goroutine of `QueryInstant`): for all batchings without an error entry and every
    order in which Go visits the `lastValues` map, the chunks are one JSON document with one
    `{"metric":{labels},"value":[<ts/1e9>,"<value>"]}` per visited fingerprint that has a row. -/
theorem vector_doc (order : List Nat) (batches : List (List Entry)) (h : NoFail (vectorRows batches)) :
    parse (vectorChunks order batches).flatten =
      some (vectorDoc (order.filterMap (fun fp => lookupFp fp (lastValues (vectorRows batches)))), []) := by
  have hany : (vectorRows batches).any (fun e => decide (e.err = .fail)) = false := by
    rw [List.any_eq_false]
    intro e he
    simpa using h e he
  simp only [vectorChunks, hany, Bool.false_eq_true, if_false]
  rw [vector_text]
  exact parse_of_repr_nil (repr_print _ (vectorDoc_wf _))

/-- each object carries, for its fingerprint, a row with the greatest timestamp among that series' rows -/
theorem vector_latest (fp : Nat) (rows : List Entry) (e : Entry) (h : lookupFp fp (lastValues rows) = some e) :
    e ∈ rows ∧ e.fp = fp ∧ ∀ e' ∈ rows, e'.fp = fp → e'.ts ≤ e.ts := by
  have := latest_spec fp rows
  rw [← lookupFp_lastValues, h] at this
  exact this

/-- a fingerprint that has a row gets an object -/
theorem vector_total (fp : Nat) (rows : List Entry) (e : Entry) (he : e ∈ rows) (hfp : e.fp = fp) :
    (lookupFp fp (lastValues rows)).isSome = true := by
  have := latest_spec fp rows
  rw [← lookupFp_lastValues] at this
  cases hl : lookupFp fp (lastValues rows) with
  | some _ => rfl
  | none => rw [hl] at this; exact absurd hfp (this e he)

/-- **vector_one_per_series**: Go's `range` visits every key of `lastValues` once; for any such visiting order
    (every visited fingerprint has a row) the objects are, in that order, one per fingerprint -/
theorem vector_one_per_series (order : List Nat) (rows : List Entry)
    (h : ∀ fp ∈ order, ∃ e ∈ rows, e.fp = fp) :
    (order.filterMap (fun fp => lookupFp fp (lastValues rows))).map (·.fp) = order := by
  induction order with
  | nil => rfl
  | cons fp r ih =>
    obtain ⟨e, he, hfp⟩ := h fp (by simp)
    have ht := vector_total fp rows e he hfp
    cases hl : lookupFp fp (lastValues rows) with
    | none => rw [hl] at ht; cases ht
    | some x =>
      have hx := (vector_latest fp rows x hl).2.1
      simp only [List.filterMap_cons, hl, List.map_cons, hx]
      rw [ih (fun fp' hfp' => h fp' (by simp [hfp']))]

/-! ## labels, tags, series -/

/-- **labels_doc** (`GenericLabelReq`: label names and label values of Loki and Prometheus): for every list
    of scanned strings the chunks are one JSON document `{"status":"success","data":[…]}` whose elements are
    the strings (invalid UTF-8 bytes as U+FFFD, see `string_escape_roundtrip_std`), each once, in order. -/
theorem labels_doc (rows : List Bytes) :
    parse (labelsChunks rows).flatten = some (statusDataDoc (rows.map (fun s => .str (sanitize s))), []) := by
  rw [labelsChunks, listChunks_flatten, ← stdItems_texts, ← stdItems_vals]
  exact parse_of_repr_nil (labels_repr _ (stdItems_repr rows))

/-- **tags_doc** (Tempo `Tags` after the fix): `{"tagNames":[…]}` -/
theorem tags_doc (rows : List Bytes) :
    parse (tagsChunks rows).flatten = some (oneKeyDoc kTagNames (rows.map (fun s => .str (sanitize s))), []) := by
  rw [tagsChunks, listChunks_flatten, ← stdItems_texts, ← stdItems_vals]
  exact parse_of_repr_nil (tags_repr _ (stdItems_repr rows))

/-- **tagValues_doc** (Tempo `Values` after the fix): `{"tagValues":[…]}` -/
theorem tagValues_doc (rows : List Bytes) :
    parse (tagValuesChunks rows).flatten =
      some (oneKeyDoc kTagValues (rows.map (fun s => .str (sanitize s))), []) := by
  rw [tagValuesChunks, listChunks_flatten, ← stdItems_texts, ← stdItems_vals]
  exact parse_of_repr_nil (tagValues_repr _ (stdItems_repr rows))

/-- the full statement for `Series`: whatever label documents are stored, the response is a JSON document -/
def series_doc_full : Prop := ∀ rows : List Bytes, ∃ v, parseDoc (seriesChunks rows).flatten = some v

/-- **series_doc_partial** (`Series` passes the stored label documents through verbatim): if every stored
    document is a JSON text (`Repr`: it parses to a value in any context — e.g. any `print v`), the response is
    the JSON document `{"status":"success","data":[v₁,…]}`, each document once, in order. -/
theorem series_doc_partial (items : List (Bytes × JVal)) (h : ∀ p ∈ items, Repr p.1 p.2) :
    parse (seriesChunks (items.map (·.1))).flatten = some (statusDataDoc (items.map (·.2)), []) := by
  rw [seriesChunks, listChunks_flatten]
  exact parse_of_repr_nil (series_repr items h)

/-- a label document as the pinned writer stores it for the value `x\x01y` (Go `strconv.Quote` syntax):
    `{"a":"x\x01y"}` with a literal backslash-x -/
def quotedDoc : Bytes := [123, 34, 97, 34, 58, 34, 120, 92, 120, 48, 49, 121, 34, 125]

/-- **series_doc_counterexample**: with such a stored document the `Series` response is not JSON (finding
    `C15/series/stored-document-not-json`, Appendix A30) -/
theorem series_doc_counterexample : ¬ series_doc_full := by
  intro h
  obtain ⟨v, hv⟩ := h [quotedDoc]
  have : (parseDoc (seriesChunks [quotedDoc]).flatten).isNone = true := by decide +kernel
  rw [hv] at this
  cases this

/-! ## PromQL scalar -/

/-- **scalar_doc** (`writeResponse` + `writeScalar` after the fix): `"result":[<t/1000 as %f>, "<value>"]`
    is a JSON document whenever the `FormatFloat` token contains no quote, backslash or control byte (it
    consists of digits, `.`, `-`, `+Inf`, `NaN`). -/
theorem scalar_doc (t : Int) (val : Bytes) (h : plainTok val) :
    parse (scalarChunks t val).flatten = some (respDoc kScalar (.arr [.num (msF6 t), .str val]), []) :=
  parse_of_repr_nil (scalar_repr t val h)

/-! ## facts regenerated from the sources on every run (`Gen.C15Enc`) -/

/-- **gen_jsoniter_safe**: the model's `jsoniterSafe` is the `safeSet` table of the json-iterator version
    pinned by go.mod (so `escJ` escapes exactly the bytes `WriteString` escapes) -/
theorem gen_jsoniter_safe : ∀ n, n < 128 → jsoniterSafe (UInt8.ofNat n) = Gen.jsoniterSafeSet.getD n false := by
  decide

/-- **gen_opens_first**: `exportStreamsValue`, the matrix writer and `Tail` open a series object under the
    condition `i == 0 || lastFp != e.Fingerprint` — the model's state `none` always opens -/
theorem gen_opens_first :
    Gen.streamsOpensOnFirst = true ∧ Gen.matrixOpensOnFirst = true ∧ Gen.tailOpensOnFirst = true := by decide

/-- **gen_calls**: apart from the matrix writer's `WriteRaw` of the `%f` time, the encoders write only through
    the Stream methods the model covers, and strings only through `WriteString`/`WriteObjectField`
    (an unknown method fails the extraction itself) -/
theorem gen_calls :
    Gen.StreamCall.raw ∉ Gen.streamsCalls ∧ Gen.StreamCall.raw ∉ Gen.tailCalls ∧ Gen.StreamCall.raw ∉ Gen.vectorCalls ∧
    Gen.StreamCall.raw ∉ Gen.writeMapCalls ∧ Gen.StreamCall.str ∈ Gen.writeMapCalls ∧ Gen.StreamCall.field ∈ Gen.writeMapCalls := by
  decide

/-! ## non-vacuity -/
-- a batching with an empty batch, a series split over two batches, fingerprint 0 first, a marker entry
private def eg : List (List Entry) :=
  [[⟨.none, 0, [([97], [98])], 1, [108, 34], []⟩], [], [⟨.none, 0, [([97], [98])], 2, [0, 255], []⟩,
    ⟨.none, 7, [], 3, [], []⟩, ⟨.eof, 0, [], 0, [], []⟩]]
example : NoFail eg.flatten := by unfold NoFail; decide
example : NoFail (eg.flatMap cutEof) := by unfold NoFail; decide
example : Contig ((rowsOf eg.flatten).map (·.fp)) := by
  have : (rowsOf eg.flatten).map (·.fp) = [0, 0, 7] := by decide
  rw [this]; simp [Contig]
example : runFps (rowsOf eg.flatten) = [0, 7] := by decide
-- the A29 witness: without the fix the first chunk after the preamble had no `{"stream":…` (see notes)
example : (streamsChunks eg)[1]? = some (openObj streamsShape ⟨.none, 0, [([97], [98])], 1, [108, 34], []⟩ ++
    print (.arr [.str [49], .str [108, 34]])) := by decide
example : plainTok [43, 73, 110, 102] := by unfold plainTok; decide
example : Repr quotedDoc (.null) → False := by
  intro h
  have := parse_of_repr_nil h
  have h2 : (parse quotedDoc).isNone = true := by decide +kernel
  rw [this] at h2
  cases h2

end Qryn.C15
