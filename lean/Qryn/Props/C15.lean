import Qryn.Proofs.Encode
import Qryn.Proofs.EncodeMore
import Qryn.Proofs.EncoderCensus
import Qryn.Proofs.Regroup
import Qryn.Gen.C15Enc
/-! # C15 — query responses are always one well-formed document of the documented shape

Property theorems only. Models: `Qryn.Json` (byte-level RFC 8259 parser, jsoniter `WriteString` and
`encoding/json` string writers, compact printer) and `Qryn.Encode` (the chunk machines of
`exportStreamsValue`, the matrix and vector writers, `Tail`, `GenericLabelReq`, `Series`, Tempo `Tags`/`Values`,
the PromQL scalar writer — all *after* the `fix:` commits listed in KNOWN_FINDINGS.txt).

Second part (`## the guarded-separator machine` onwards): ONE generic refinement lemma for every list encoder of the
reader (`Qryn.SepEnc`: separator guarded by the global item counter, any input batching, a chunk buffer flushed by
any policy) with its instances, the shared-counter counter-pattern, the writers modelled in `Qryn/Read/EncodeMore.lean`
(Tempo search / TraceQL search / trace, Prometheus vector / matrix, straight-line documents) and the census that
ties the set of writers, their literal pieces, their separator guards and the batching constants to the source.

Reading guide. `batches : List (List Entry)` is what arrives on the `chan []shared.LogEntry`, batch by batch:
any number of batches, empty ones included, series split across batches at any place, marker entries
(`io.EOF`) anywhere. The theorems say: the concatenation of everything the encoder sends parses — with the
RFC 8259 grammar `Json.parse`, leaving no rest — to the *expected document*, which is built from the rows
alone: one object per maximal run of equal fingerprint (`runs`), carrying the labels of the run's first row
and the run's rows in order. `runs` is characterised independently (`groups_*`), and with contiguous series
(`Contig`, what `ORDER BY fingerprint` delivers) no fingerprint has two objects. -/
namespace Qryn.C15
open Qryn Qryn.Json Qryn.Encode

/-! ## strings -/

/-- **string_escape_roundtrip** (jsoniter `Stream.WriteString`, used for every label name, label value, log
    line, timestamp string and float string of the query responses): for *every* byte string `s` — quotes,
    backslashes, control bytes, DEL, U+2028, bytes ≥ 0x80 that are not UTF-8 — the text `"…"` written for `s`
    is one JSON string token whose decoded bytes are exactly `s`; the scanner stops right behind it.
    (`WriteString` is the non-HTML variant: it copies bytes ≥ 0x80 unchanged, so the output is UTF-8 exactly
    when `s` is; it never produces the escape `\ufffd`.) -/
theorem string_escape_roundtrip (s rest : Bytes) :
    parseStrBody (escJ s ++ 34 :: rest) [] = some (s, rest) :=
  parseStrBody_jstr s rest

/-- the same as a value: `parse ("…" ++ rest) = (str s, rest)` -/
theorem string_value_roundtrip (s rest : Bytes) (h : Stop rest) :
    parse (jstr s ++ rest) = some (.str s, rest) :=
  parse_of_repr (repr_jstr s) rest h

/-- **string_escape_roundtrip_std** (`encoding/json.Marshal` of a string, used by `GenericLabelReq` and the
    Tempo tag endpoints): the text decodes to `sanitize s` = `s` with every byte that is not part of a
    well-formed UTF-8 sequence replaced by U+FFFD … -/
theorem string_escape_roundtrip_std (s rest : Bytes) :
    parseStrBody (escStd s ++ 34 :: rest) [] = some (sanitize s, rest) :=
  parseStrBody_stdstr s rest

/-- … which is `s` itself for valid UTF-8 (`utf8.ValidString`) -/
theorem std_lossless_on_utf8 (s : Bytes) (h : validUtf8 s = true) : sanitize s = s := sanitize_valid s h

/-- **print_parse**: the compact text of any value (number tokens being JSON numbers) is read back as that
    value, whatever follows (as long as it cannot extend a trailing number) -/
theorem print_parse (v : JVal) (h : v.wf = true) (rest : Bytes) (hs : Stop rest) :
    parse (print v ++ rest) = some (v, rest) :=
  parse_print v h rest hs

/-- decimal integers (`%d`, `WriteInt64`) and `%f` renderings are JSON numbers -/
theorem numbers_are_json (n : Int) (neg : Bool) (q : Nat) :
    isNumTok (decInt n) = true ∧ isNumTok (fixed6 neg q) = true :=
  ⟨isNumTok_decInt n, isNumTok_fixed6 neg q⟩

/-! ## grouping: what "one object per series, every row once" means -/

/-- every row is in exactly one group, order preserved -/
theorem groups_partition (rows : List Entry) : (runs rows).flatten = rows := runs_flatten rows

/-- no group is empty and all rows of a group have the fingerprint of its first row -/
theorem groups_constant_fp (rows : List Entry) :
    ∀ g ∈ runs rows, g ≠ [] ∧ ∀ e ∈ g, some e.fp = g.head?.map (·.fp) :=
  fun g hg => ⟨runs_ne_nil rows g hg, runs_const rows g hg⟩

/-- groups are maximal: neighbouring groups have different fingerprints -/
theorem groups_maximal (rows : List Entry) : AdjDiff (runFps rows) := runs_adjacent rows

/-- **one object per series**: if each series' rows are contiguous, no two groups share a fingerprint -/
theorem one_object_per_series (rows : List Entry) (h : Contig (rows.map (·.fp))) : (runFps rows).Nodup :=
  runFps_nodup rows h

/-- `ORDER BY fingerprint` gives contiguous series -/
theorem sorted_is_contiguous (l : List Nat) (h : l.Pairwise (· ≤ ·)) : Contig l := contig_of_sorted l h

/-- shape of one series object -/
theorem series_object_shape (sh : Shape) (e : Entry) (g : List Entry) :
    seriesObj sh (e :: g) = .obj [(sh.key, labelsObj e.labels), (kValues, .arr ((e :: g).map sh.value))] := rfl

/-! ## streams, matrix, tail -/

/-- **streams_doc** (`exportStreamsValue`, log queries of `/loki/api/v1/query_range` and `/query`): for all
    batchings without an error entry, the concatenated chunks are exactly one JSON document,
    `{"status":"success","data":{"resultType":"streams","result":[…]}}`, with one
    `{"stream":{labels},"values":[["<ts>","<line>"],…]}` per run of equal fingerprint — also when the first
    fingerprint is 0 — every row once, timestamps as exact decimals, lines and labels decoding to their
    original bytes. -/
theorem streams_doc (batches : List (List Entry)) (h : NoFail batches.flatten) :
    parse (streamsChunks batches).flatten =
      some (seriesDoc kStreamsRT streamsShape (rowsOf batches.flatten), []) := by
  have ht : (streamsChunks batches).flatten = print (seriesDoc kStreamsRT streamsShape (rowsOf batches.flatten)) := by
    rw [streamsChunks, go_rowsOf _ _ _ _ h]
    exact series_text _ _ _ (noErr_rowsOf _)
  rw [ht]
  exact parse_of_repr_nil (repr_print _ (seriesDoc_wf _ _ streamsShape_wf _))

/-- the rows the matrix/vector loops see are all rows when EOF markers only end batches -/
theorem matrix_rows_all (batches : List (List Entry))
    (h : ∀ b ∈ batches, ∀ pre e post, b = pre ++ e :: post → e.err = .eof → post = []) :
    batches.flatMap cutEof = batches.flatten.filter (fun e => e.err ≠ .eof) := by
  induction batches with
  | nil => rfl
  | cons b r ih =>
    simp only [List.flatMap_cons, List.flatten_cons, List.filter_append]
    rw [cutEof_eq_filter b (h b (by simp)), ih (fun b' hb' => h b' (by simp [hb']))]

/-- **matrix_doc** (matrix goroutine of `QueryRange`): same statement with
    `{"metric":{labels},"values":[[<ts/1e9 as %f>,"<value>"],…]}`; the rows are those the loop looks at
    (`break` at an EOF marker, see `matrix_rows_all`). The time is the JSON number `%f` prints (microsecond
    resolution — exact for the millisecond-aligned steps the planner produces), the value the
    `FormatFloat(-1)` token as a string. -/
theorem matrix_doc (batches : List (List Entry)) (h : NoFail (batches.flatMap cutEof)) :
    parse (matrixChunks batches).flatten =
      some (seriesDoc kMatrix matrixShape (batches.flatMap cutEof), []) := by
  have hne : NoErr (batches.flatMap cutEof) := noErr_of_noFail_noEof _ h (flatMap_cutEof_noEof batches)
  have ht : (matrixChunks batches).flatten = print (seriesDoc kMatrix matrixShape (batches.flatMap cutEof)) :=
    series_text _ _ _ hne
  rw [ht]
  exact parse_of_repr_nil (repr_print _ (seriesDoc_wf _ _ matrixShape_wf _))

/-- the document of one `Tail` frame -/
def tailDoc (rows : List Entry) : JVal := .obj [(kStreamsRT, .arr ((runs rows).map (seriesObj streamsShape)))]

/-- **tail_doc** (one websocket message of `Tail`): `{"streams":[…]}` with the same grouping -/
theorem tail_doc (batches : List (List Entry)) (h : NoFail batches.flatten) :
    parse (tailFrame batches) = some (tailDoc (rowsOf batches.flatten), []) := by
  have hk : jstr kStreamsRT = [34, 115, 116, 114, 101, 97, 109, 115, 34] := by decide
  have ht : tailFrame batches = print (tailDoc (rowsOf batches.flatten)) := by
    rw [tailFrame, go_rowsOf _ _ _ _ h, go_none _ _ _ (noErr_rowsOf _), whole]
    simp [tailDoc, print, printMembers, tailPre, hk]
  rw [ht]
  refine parse_of_repr_nil (repr_print _ ?_)
  simp only [tailDoc, JVal.wf, wfMembers, Bool.and_true]
  apply wfList_of_forall
  intro x hx
  obtain ⟨g, _, rfl⟩ := List.mem_map.mp hx
  exact seriesObj_wf _ streamsShape_wf g

/-! ## vector -/

/-- **vector_doc** (vector goroutine of `QueryInstant`): for all batchings without an error entry and every
    order in which Go visits the `lastValues` map, the chunks are one JSON document with one
    `{"metric":{labels},"value":[<ts/1e9>,"<value>"]}` per visited fingerprint that has a row. -/
theorem vector_doc (order : List Nat) (batches : List (List Entry)) (h : NoFail (vectorRows batches)) :
    parse (vectorChunks order batches).flatten =
      some (vectorDoc (order.filterMap (fun fp => lookupFp fp (lastValues (vectorRows batches)))), []) := by
  have hany : (vectorRows batches).any (fun e => decide (e.err = .fail)) = false := by
    rw [List.any_eq_false]
    intro e he
    simpa using h e he
  simp only [vectorChunks, hany, Bool.false_eq_true, if_false]
  rw [vector_text]
  exact parse_of_repr_nil (repr_print _ (vectorDoc_wf _))

/-- each object carries, for its fingerprint, a row with the greatest timestamp among that series' rows -/
theorem vector_latest (fp : Nat) (rows : List Entry) (e : Entry) (h : lookupFp fp (lastValues rows) = some e) :
    e ∈ rows ∧ e.fp = fp ∧ ∀ e' ∈ rows, e'.fp = fp → e'.ts ≤ e.ts := by
  have := latest_spec fp rows
  rw [← lookupFp_lastValues, h] at this
  exact this

/-- a fingerprint that has a row gets an object -/
theorem vector_total (fp : Nat) (rows : List Entry) (e : Entry) (he : e ∈ rows) (hfp : e.fp = fp) :
    (lookupFp fp (lastValues rows)).isSome = true := by
  have := latest_spec fp rows
  rw [← lookupFp_lastValues] at this
  cases hl : lookupFp fp (lastValues rows) with
  | some _ => rfl
  | none => rw [hl] at this; exact absurd hfp (this e he)

/-- **vector_one_per_series**: Go's `range` visits every key of `lastValues` once; for any such visiting order
    (every visited fingerprint has a row) the objects are, in that order, one per fingerprint -/
theorem vector_one_per_series (order : List Nat) (rows : List Entry)
    (h : ∀ fp ∈ order, ∃ e ∈ rows, e.fp = fp) :
    (order.filterMap (fun fp => lookupFp fp (lastValues rows))).map (·.fp) = order := by
  induction order with
  | nil => rfl
  | cons fp r ih =>
    obtain ⟨e, he, hfp⟩ := h fp (by simp)
    have ht := vector_total fp rows e he hfp
    cases hl : lookupFp fp (lastValues rows) with
    | none => rw [hl] at ht; cases ht
    | some x =>
      have hx := (vector_latest fp rows x hl).2.1
      simp only [List.filterMap_cons, hl, List.map_cons, hx]
      rw [ih (fun fp' hfp' => h fp' (by simp [hfp']))]

/-! ## labels, tags, series -/

/-- **labels_doc** (`GenericLabelReq`: label names and label values of Loki and Prometheus): for every list
    of scanned strings the chunks are one JSON document `{"status":"success","data":[…]}` whose elements are
    the strings (invalid UTF-8 bytes as U+FFFD, see `string_escape_roundtrip_std`), each once, in order. -/
theorem labels_doc (rows : List Bytes) :
    parse (labelsChunks rows).flatten = some (statusDataDoc (rows.map (fun s => .str (sanitize s))), []) := by
  rw [labelsChunks, listChunks_flatten, ← stdItems_texts, ← stdItems_vals]
  exact parse_of_repr_nil (labels_repr _ (stdItems_repr rows))

/-- **tags_doc** (Tempo `Tags` after the fix): `{"tagNames":[…]}` -/
theorem tags_doc (rows : List Bytes) :
    parse (tagsChunks rows).flatten = some (oneKeyDoc kTagNames (rows.map (fun s => .str (sanitize s))), []) := by
  rw [tagsChunks, listChunks_flatten, ← stdItems_texts, ← stdItems_vals]
  exact parse_of_repr_nil (tags_repr _ (stdItems_repr rows))

/-- **tagValues_doc** (Tempo `Values` after the fix): `{"tagValues":[…]}` -/
theorem tagValues_doc (rows : List Bytes) :
    parse (tagValuesChunks rows).flatten =
      some (oneKeyDoc kTagValues (rows.map (fun s => .str (sanitize s))), []) := by
  rw [tagValuesChunks, listChunks_flatten, ← stdItems_texts, ← stdItems_vals]
  exact parse_of_repr_nil (tagValues_repr _ (stdItems_repr rows))

/-- the full statement for `Series`: whatever label documents are stored, the response is a JSON document -/
def series_doc_full : Prop := ∀ rows : List Bytes, ∃ v, parseDoc (seriesChunks rows).flatten = some v

/-- **series_doc_partial** (`Series` passes the stored label documents through verbatim): if every stored
    document is a JSON text (`Repr`: it parses to a value in any context — e.g. any `print v`), the response is
    the JSON document `{"status":"success","data":[v₁,…]}`, each document once, in order. -/
theorem series_doc_partial (items : List (Bytes × JVal)) (h : ∀ p ∈ items, Repr p.1 p.2) :
    parse (seriesChunks (items.map (·.1))).flatten = some (statusDataDoc (items.map (·.2)), []) := by
  rw [seriesChunks, listChunks_flatten]
  exact parse_of_repr_nil (series_repr items h)

/-- a label document as the pinned writer stores it for the value `x\x01y` (Go `strconv.Quote` syntax):
    `{"a":"x\x01y"}` with a literal backslash-x -/
def quotedDoc : Bytes := [123, 34, 97, 34, 58, 34, 120, 92, 120, 48, 49, 121, 34, 125]

/-- **series_doc_counterexample**: with such a stored document the `Series` response is not JSON (finding
    `C15/series/stored-document-not-json`, Appendix A30) -/
theorem series_doc_counterexample : ¬ series_doc_full := by
  intro h
  obtain ⟨v, hv⟩ := h [quotedDoc]
  have : (parseDoc (seriesChunks [quotedDoc]).flatten).isNone = true := by decide +kernel
  rw [hv] at this
  cases this

/-! ## PromQL scalar -/

/-- **scalar_doc** (`writeResponse` + `writeScalar` after the fix): `"result":[<t/1000 as %f>, "<value>"]`
    is a JSON document whenever the `FormatFloat` token contains no quote, backslash or control byte (it
    consists of digits, `.`, `-`, `+Inf`, `NaN`). -/
theorem scalar_doc (t : Int) (val : Bytes) (h : plainTok val) :
    parse (scalarChunks t val).flatten = some (respDoc kScalar (.arr [.num (msF6 t), .str val]), []) :=
  parse_of_repr_nil (scalar_repr t val h)

/-! ## facts regenerated from the sources on every run (`Gen.C15Enc`) -/

/-- **gen_jsoniter_safe**: the model's `jsoniterSafe` is the `safeSet` table of the json-iterator version
    pinned by go.mod (so `escJ` escapes exactly the bytes `WriteString` escapes) -/
theorem gen_jsoniter_safe : ∀ n, n < 128 → jsoniterSafe (UInt8.ofNat n) = Gen.jsoniterSafeSet.getD n false := by
  decide

/-- **gen_opens_first**: `exportStreamsValue`, the matrix writer and `Tail` open a series object under the
    condition `i == 0 || lastFp != e.Fingerprint` — the model's state `none` always opens -/
theorem gen_opens_first :
    Gen.streamsOpensOnFirst = true ∧ Gen.matrixOpensOnFirst = true ∧ Gen.tailOpensOnFirst = true := by decide

/-- **gen_calls**: apart from the matrix writer's `WriteRaw` of the `%f` time, the encoders write only through
    the Stream methods the model covers, and strings only through `WriteString`/`WriteObjectField`
    (an unknown method fails the extraction itself) -/
theorem gen_calls :
    Gen.StreamCall.raw ∉ Gen.streamsCalls ∧ Gen.StreamCall.raw ∉ Gen.tailCalls ∧ Gen.StreamCall.raw ∉ Gen.vectorCalls ∧
    Gen.StreamCall.raw ∉ Gen.writeMapCalls ∧ Gen.StreamCall.str ∈ Gen.writeMapCalls ∧ Gen.StreamCall.field ∈ Gen.writeMapCalls := by
  decide


/-! ## the guarded-separator machine: one lemma for every list encoder

`SepEnc.encode pre post pol batches` is the state machine of

    send pre; i := 0; for batch := range ch { for item := range batch { if i != 0 { "," }; item; i++; maybe flush } }; flush; send post

with BOTH counters a chunked writer has: `idx` (items written so far — what the guard reads) and `fill` (items in the
chunk buffer — what the flush policy may read as well). -/

/-- **sepenc_reference.** For every item list, every input batching and EVERY flush policy (a function of both
    counters: no buffer, chunks of n, any set of cut positions) the chunks concatenate to the reference rendering
    `pre ++ intercalate "," items ++ post`. -/
theorem sepenc_reference (pre post : Bytes) (pol : SepEnc.Policy) (batches : List (List Bytes)) :
    (SepEnc.encode pre post pol batches).flatten = pre ++ joinTexts batches.flatten ++ post :=
  SepEnc.encode_flatten pre post pol batches

/-- with `[` / `]` as the outer pieces: `[` ++ intercalate "," items ++ `]` -/
theorem sepenc_reference_array (pol : SepEnc.Policy) (batches : List (List Bytes)) :
    (SepEnc.encode [91] [93] pol batches).flatten = 91 :: List.intercalate [44] batches.flatten ++ [93] :=
  SepEnc.encode_refArr pol batches

/-- **sepenc_separator_reads_global_index.** Two runs of the machine that agree on the global counter and on the
    buffered bytes write the same concatenation whatever their fill counters and flush policies are: the separator
    decision depends on `idx` only. (A model of a chunked writer therefore has to say which counter its guard reads;
    one that reads `fill` is `SepEnc.sharedRun`, below.) -/
theorem sepenc_separator_reads_global_index (pol pol' : SepEnc.Policy) (st st' : SepEnc.St)
    (hi : st.idx = st'.idx) (hb : st.buf = st'.buf) (batches : List (List Bytes)) :
    (SepEnc.runBatches pol st batches).flatten = (SepEnc.runBatches pol' st' batches).flatten :=
  SepEnc.fill_irrelevant pol pol' st st' hi hb batches

/-- **sepenc_array_valid.** If every item text is a JSON text, the chunks are one JSON array with the items' values
    in order — for every batching and every flush policy. -/
theorem sepenc_array_valid (pol : SepEnc.Policy) (batches : List (List (Bytes × JVal)))
    (h : ∀ p ∈ batches.flatten, Repr p.1 p.2) :
    parse (SepEnc.encode [91] [93] pol (batches.map (·.map (·.1)))).flatten =
      some (.arr (batches.flatten.map (·.2)), []) := by
  rw [SepEnc.encode_flatten]
  have : (batches.map (·.map (·.1))).flatten = batches.flatten.map (·.1) := (List.map_flatten).symm
  rw [this]
  exact parse_of_repr_nil (by simpa using repr_arr batches.flatten h)

/-! ### the shared-counter variant (seeded change C15-4) -/

/-- the shared-counter writer (ONE counter: separator guard, fill count, reset at every flush) is right as long as the
    whole list fits into one chunk … -/
theorem shared_counter_ok_upto (pre post : Bytes) (size : Nat) (items : List Bytes) (h : items.length ≤ size) :
    (SepEnc.sharedEncode pre post size items).flatten = pre ++ joinTexts items ++ post :=
  SepEnc.shared_ok_upto pre post size items h

/-- … and the first item of the second chunk is taken for the first item of the list: the chunk after a full one is
    exactly what the writer produces for the remaining items alone -/
theorem shared_counter_restarts (size : Nat) (hs : 0 < size) (a : List Bytes) (ha : a.length = size) (t : Bytes)
    (r : List Bytes) : ∃ c cs, SepEnc.sharedRun size 0 [] (a ++ t :: r) = c :: cs ∧ c = joinTexts a ∧
      cs = SepEnc.sharedRun size 0 [] (t :: r) :=
  SepEnc.shared_second_chunk_no_comma size hs a ha t r

/-- **shared_counter_counterexample** (kernel-checked): `GenericLabelReq` with chunks of 100 and the chunk fill counter
    as separator guard, on 101 rows `"v"`: the body `…,"v""v"]}` is not a JSON document; on 100 rows it is. -/
theorem shared_counter_counterexample :
    (parseDoc (labelsSharedCounter 100 (List.replicate 101 [118])).flatten).isNone = true ∧
    (parseDoc (labelsSharedCounter 100 (List.replicate 100 [118])).flatten).isSome = true := by
  constructor <;> decide +kernel

/-! ### instances: the element lists under any chunking -/

/-- **labels_chunks_concat_valid** (`GenericLabelReq`): the rows arriving in any batching, sent through a chunk buffer
    flushed by any policy — the concatenation is the document of `labels_doc`. -/
theorem labels_chunks_concat_valid (pol : SepEnc.Policy) (batches : List (List Bytes)) :
    parse (listBuffered labelsPre pol (batches.map (·.map stdstr))).flatten =
      some (statusDataDoc (batches.flatten.map (fun s => .str (sanitize s))), []) := by
  have hf : (batches.map (·.map stdstr)).flatten = batches.flatten.map stdstr := (List.map_flatten).symm
  rw [listBuffered_flatten, hf, ← stdItems_texts, ← stdItems_vals]
  exact parse_of_repr_nil (labels_repr _ (stdItems_repr _))

/-- **series_chunks_concat_valid** (`Series`, stored documents that are JSON texts): any batching, any chunking -/
theorem series_chunks_concat_valid (pol : SepEnc.Policy) (batches : List (List (Bytes × JVal)))
    (h : ∀ p ∈ batches.flatten, Repr p.1 p.2) :
    parse (listBuffered seriesPre pol (batches.map (·.map (·.1)))).flatten =
      some (statusDataDoc (batches.flatten.map (·.2)), []) := by
  have hf : (batches.map (·.map (·.1))).flatten = batches.flatten.map (·.1) := (List.map_flatten).symm
  rw [listBuffered_flatten, hf]
  exact parse_of_repr_nil (series_repr _ h)

/-- **tags_chunks_concat_valid** / **tagValues_chunks_concat_valid** (Tempo `Tags`, `Values`) -/
theorem tags_chunks_concat_valid (pol : SepEnc.Policy) (rows : List Bytes) :
    parse (listBuffered tagsPre pol [rows.map stdstr]).flatten =
      some (oneKeyDoc kTagNames (rows.map (fun s => .str (sanitize s))), []) := by
  rw [listBuffered_flatten]
  simp only [List.flatten_cons, List.flatten_nil, List.append_nil]
  rw [← stdItems_texts, ← stdItems_vals]
  exact parse_of_repr_nil (tags_repr _ (stdItems_repr rows))

theorem tagValues_chunks_concat_valid (pol : SepEnc.Policy) (rows : List Bytes) :
    parse (listBuffered tagValuesPre pol [rows.map stdstr]).flatten =
      some (oneKeyDoc kTagValues (rows.map (fun s => .str (sanitize s))), []) := by
  rw [listBuffered_flatten]
  simp only [List.flatten_cons, List.flatten_nil, List.append_nil]
  rw [← stdItems_texts, ← stdItems_vals]
  exact parse_of_repr_nil (tagValues_repr _ (stdItems_repr rows))

/-- the chunk lists of the pinned element-list encoders (`listChunks`: every piece its own chunk) are the buffered
    machine under "flush every piece", in concatenation; likewise `emitComma` (the vector writer of `QueryInstant`) -/
theorem pinned_lists_are_sepenc (pre post : Bytes) (items : List Bytes) :
    (listChunks pre items).flatten = (listBuffered pre eachPiece [items]).flatten ∧
    (pre :: emitComma 0 items ++ [post]).flatten = (SepEnc.encode pre post eachPiece [items]).flatten :=
  ⟨listChunks_is_buffered pre items, emitComma_is_sepenc pre post items⟩

/-- **series_machine_is_two_level_sepenc**: the streams / matrix / tail machine `go` (flags `i`, `j`) writes, on the
    outer level, the guarded-separator rendering of the runs' object texts, and each object's `values` array is, on the
    inner level, the guarded-separator rendering of the rows' value texts (`printElems` = the machine at counter 0). -/
theorem series_machine_is_two_level_sepenc (rt : Bytes) (sh : Shape) (rows : List Entry) (h : NoErr rows) :
    (preamble rt :: Encode.go sh [93, 125, 125] none rows).flatten =
      (SepEnc.encode (preamble rt) [93, 125, 125] eachPiece [(runs rows).map (fun g => print (seriesObj sh g))]).flatten ∧
    ∀ e g, print (seriesObj sh (e :: g)) =
      [123] ++ jstr sh.key ++ [58] ++ print (labelsObj e.labels) ++ [44] ++ jstr kValues ++ [58] ++
        (91 :: SepEnc.seps 0 ((e :: g).map (fun x => print (sh.value x))) ++ [93]) ++ [125] := by
  refine ⟨?_, ?_⟩
  · rw [series_text rt sh rows h, SepEnc.encode_flatten, seriesDoc, print_respDoc, printElems_map]
    simp [List.map_map, Function.comp_def]
  · intro e g
    simp [seriesObj, print, printMembers, printElems_is_seps, List.map_map, Function.comp_def]

/-! ## writers modelled in `Qryn/Read/EncodeMore.lean` -/

/-- **search_chunks_concat_valid** (legacy Tempo `Search`): every element one `json.Marshal(trace)` (trusted to be a
    JSON text, `Repr`) — the body is `{"traces":[…]}` with the elements' values in order. -/
theorem search_chunks_concat_valid (items : List (Bytes × JVal)) (h : ∀ p ∈ items, Repr p.1 p.2) :
    parse (searchBody (items.map (·.1))) = some (oneKeyDoc kTraces (items.map (·.2)), []) := by
  rw [searchBody_eq]
  exact parse_of_repr_nil (search_repr items h)

/-- **searchQL_chunks_concat_valid** (TraceQL `Search`): the channel delivers BATCHES of traces (empty ones included);
    one counter over all batches — the body is `{"traces":[…]}` over the concatenation of the batches. -/
theorem searchQL_chunks_concat_valid (batches : List (List (Bytes × JVal))) (h : ∀ p ∈ batches.flatten, Repr p.1 p.2) :
    parse (searchQLBody (batches.map (·.map (·.1)))) = some (oneKeyDoc kTraces (batches.flatten.map (·.2)), []) := by
  have hf : (batches.map (·.map (·.1))).flatten = batches.flatten.map (·.1) := (List.map_flatten).symm
  rw [searchQLBody_eq, hf]
  exact parse_of_repr_nil (search_repr _ h)

/-- **trace_chunks_concat_valid** (JSON branch of Tempo `Trace`): the envelope with its blanks, newlines and tabs and
    the marshalled spans parse to
    `{"resourceSpans":[{"resource":{…collector…},"instrumentationLibrarySpans":[{"spans":[…]}]}]}`. -/
theorem trace_chunks_concat_valid (items : List (Bytes × JVal)) (h : ∀ p ∈ items, Repr p.1 p.2) :
    parse (traceBody (items.map (·.1))) = some (traceDoc (items.map (·.2)), []) := by
  rw [traceBody_eq]
  exact parse_of_repr_nil (trace_repr items h)

/-- **promVector_chunks_concat_valid** (`writeResponse` + `writeVector`): for every sample list whose time tokens are
    JSON numbers (what jsoniter `WriteFloat64` writes; trusted) the pieces are one document
    `{"status":"success","data":{"resultType":"vector","result":[{"metric":{…},"value":[t,"v"]},…]}}`. -/
theorem promVector_chunks_concat_valid (ss : List PromSample) (h : ∀ s ∈ ss, isNumTok s.t = true) :
    parse (promVectorBody ss) = some (promVectorDoc ss, []) := by
  rw [promVectorBody_eq]
  exact parse_of_repr_nil (repr_print _ (promVectorDoc_wf ss h))

/-- **promMatrix_chunks_concat_valid** (`writeResponse` + `writeMatrix`): three nested guarded loops (series, labels,
    points) -/
theorem promMatrix_chunks_concat_valid (ss : List PromSeries) (h : ∀ s ∈ ss, ∀ p ∈ s.points, isNumTok p.1 = true) :
    parse (promMatrixBody ss) = some (promMatrixDoc ss, []) := by
  rw [promMatrixBody_eq]
  exact parse_of_repr_nil (repr_print _ (promMatrixDoc_wf ss h))

/-- **straight_line_docs** (`PromError`, `Buildinfo`, the constant answer of `Query`): jsoniter calls without a loop -/
theorem straight_line_docs (msg ver : Bytes) (now : Int) :
    parse (print (promErrorDoc msg)) = some (promErrorDoc msg, []) ∧
    parse (print (buildinfoDoc ver)) = some (buildinfoDoc ver, []) ∧
    parse (print (queryConstDoc now)) = some (queryConstDoc now, []) :=
  ⟨parse_of_repr_nil (repr_print _ (promErrorDoc_wf msg)), parse_of_repr_nil (repr_print _ (buildinfoDoc_wf ver)),
   parse_of_repr_nil (repr_print _ (queryConstDoc_wf now))⟩

/-! ## the regrouping stage in front of the streams encoder (`ResponseOptimizerPlanner`)

`streams_doc` gives one object per RUN of equal fingerprint; `one_object_per_series` turns that into one object per
stream when each stream's rows are contiguous. On the ClickHouse path contiguity comes from `ORDER BY fingerprint`;
behind an in-process stage (`| json`, `| logfmt`, `| line_format`, `| label_format`) the rows arrive ordered by time and
it is `ResponseOptimizerPlanner` that regroups them per fingerprint. -/

/-- with a limit (`ctx.Limit != 0`) the stage sends nothing before its input ends: there is one portion, the whole
    (limited) result, whatever the threshold -/
theorem optimizer_holds_when_limited (thr : Nat) (batches : List (List Entry)) :
    optSegments true thr [] batches = if batches.flatten.length = 0 then [] else [batches.flatten] := by
  simpa using optSegments_hold thr [] batches

/-- the full statement: whatever the request, the rows the streams encoder receives from the regrouping stage give one
    object per stream -/
def optimizer_one_object_full : Prop :=
  ∀ (hold : Bool) (thr : Nat) (orders : List (List Nat)) (batches : List (List Entry)), (∀ o ∈ orders, o.Nodup) →
    (runFps (rowsOf (optimizerOut hold thr orders batches).flatten)).Nodup

/-- **optimizer_one_object_partial** (after the `fix:`): for a request WITH a limit — every input batching, every
    threshold, every order in which Go visits the map — the rows reach the encoder contiguous per fingerprint, so the
    response has exactly one object per stream (`streams_doc` + `one_object_per_series`). -/
theorem optimizer_one_object_partial (thr : Nat) (order : List Nat) (hn : order.Nodup) (batches : List (List Entry)) :
    (runFps (rowsOf (optimizerOut true thr [order] batches).flatten)).Nodup := by
  rw [optimizerOut, optimizer_holds_when_limited]
  split
  · simp [runFps, runs, rowsOf]
  · simp only [List.zipWith_cons_cons, List.zipWith_nil_right, List.flatten_cons, List.flatten_nil, List.append_nil]
    rw [regroup_flatten, rowsOf_grouped]
    exact runFps_nodup _ (contig_grouped order hn _)

/-- … and every stream's rows arrive once, in their order -/
theorem optimizer_keeps_streams (thr : Nat) (order : List Nat) (hn : order.Nodup) (batches : List (List Entry))
    (hne : batches.flatten.length ≠ 0) (fp : Nat) (hfp : fp ∈ order) :
    (optimizerOut true thr [order] batches).flatten.filter (fun e => decide (e.fp = fp)) =
      batches.flatten.filter (fun e => decide (e.fp = fp)) := by
  rw [optimizerOut, optimizer_holds_when_limited, if_neg hne]
  simp only [List.zipWith_cons_cons, List.zipWith_nil_right, List.flatten_cons, List.flatten_nil, List.append_nil]
  rw [regroup_flatten]
  exact grouped_keeps_stream order hn _ fp hfp

/-- **optimizer_one_object_counterexample** (finding `C15/inproc/unlimited-series-objects`): without a limit, two
    streams whose rows alternate across a portion boundary come out as four objects (threshold 2 here; 3000 in the
    code, regenerated in `Gen.C15Batch`) -/
theorem optimizer_one_object_counterexample : ¬ optimizer_one_object_full := by
  intro h
  have := h false 2 [[1, 2], [1, 2]]
    [[⟨.none, 1, [], 1, [], []⟩, ⟨.none, 2, [], 2, [], []⟩], [⟨.none, 1, [], 3, [], []⟩, ⟨.none, 2, [], 4, [], []⟩]]
    (by decide)
  revert this
  decide

/-- **gen_optimizer_hold**: the condition under which the stage sends nothing after an input batch is the one the model's
    `hold` flag stands for -/
theorem gen_optimizer_hold : Gen.optimizerHoldCond = "size < 3000 || ctx.Limit != 0" := by decide

/-! ## the census: which code the theorems above are about -/
open Qryn.EncoderCensus in
/-- **encoder_census.** `Gen.ResponseWriters.writers` lists every place under reader/ that writes (a piece of) a response
    body: sends on a `chan string` / `chan model.QueryRangeOutput` (or of a value that is syntactically a string chunk;
    a send the translator cannot type is listed as `send?`), `Write`/`Fprint*`/`Encode` on an `http.ResponseWriter`,
    websocket messages, calls on a jsoniter `Stream` (methods with their counts) — per (file, function, kind) with the
    pieces in source order. The theorem says that this regenerated list is EXACTLY the reviewed one, in which every entry
    is classified: modelled (with the model and the theorem), relay of a modelled encoder, delegated to ONE library
    marshalling call (encoding/json, protojson, proto — trusted), constant document, straight-line jsoniter document,
    element channel, error body, plain text. A new piecewise writer, a new piece or a reordered piece in an existing
    one, a new Stream method fails this theorem until the entry has been reviewed. -/
theorem encoder_census : Gen.ResponseWriters.writers = reviewed.map Entry.site := census_checked

open Qryn.EncoderCensus in
/-- **constant_docs_json**: the literal documents (`Rules`, `Metadata` ×2, `Values` with an empty name, `Series`
    without a request, the idle `Tail` frame) parse as JSON documents -/
theorem constant_docs_json :
    ∀ c ∈ constantPieces, ((litsOf c.1 c.2.1)[c.2.2]?.bind parseDoc).isSome = true := constants_parse

open Qryn.EncoderCensus in
/-- **gen_literals**: the string-literal pieces of the modelled writers in the source are the opening, separator and
    closing bytes the models use (`labelsPre`, `seriesPre`, `tagsPre`, `tagValuesPre`, `searchPre` in both branches,
    `tracePre`/`tracePost` with their whitespace, `,`, `]}`, `]}}`) -/
theorem gen_literals :
    litsOf "QueryLabelsService.GenericLabelReq" "send" = [labelsPre, [44], [93, 125]] ∧
    litsOf "QueryLabelsService.series" "send" = [seriesEmptyDoc, seriesPre, [44], [93, 125]] ∧
    litsOf "QueryLabelsService.Series" "send" = [seriesEmptyDoc] ∧
    litsOf "QueryLabelsService.values" "send" = [valuesEmptyDoc] ∧
    litsOf "TempoController.Tags" "write" = [tagsPre, [44], [93, 125]] ∧
    litsOf "TempoController.Values" "write" = [tagValuesPre, [44], [93, 125]] ∧
    litsOf "TempoController.Search" "write" = [searchPre, [44], [93, 125], searchPre, [44], [93, 125]] ∧
    litsOf "TempoController.Trace" "write" = [tracePre, [44], tracePost] ∧
    litsOf "writeResponse" "write" = [[93, 125, 125]] ∧
    litsOf "writeVector" "write" = [[44]] ∧
    litsOf "writeMatrix" "write" = [[44]] ∧
    litsOf "onErr" "send" = [[93, 125, 125]] ∧
    litsOf "QueryRangeController.Tail" "ws" = [tailEmptyDoc] := literals_checked

open Qryn.EncoderCensus in
/-- **sep_counters_never_reset.** Every `if <counter compared with 0> { write a piece }` of the writers is the reviewed
    one, with every assignment to the counter; and no such counter is ever put back to 0 after its initialisation except
    the per-object value counter `j` of the three two-level series machines. This is the hypothesis under which a
    writer is an instance of `SepEnc.run` and not of `SepEnc.sharedRun`: the guard reads the global index. -/
theorem sep_counters_never_reset :
    Gen.ResponseWriters.guards = reviewedGuards ∧
    ∀ g ∈ Gen.ResponseWriters.guards, g.2.2.2.2.any isReset = true → g.2.2.1 = "j > 0" ∧ g.2.1 ∈ twoLevel :=
  ⟨guards_checked, no_reset_checked⟩

open Qryn.EncoderCensus in
/-- **batch_constants_reviewed.** The integer literals ≥ 2 in comparisons and `make` sizes of the writers and of every
    function under reader/ that sends on a channel are the reviewed ones (each with its role); the getter's batch
    size is one number (`Gen.C15Batch.getterBatch`). The generators read this list from the driver and put size classes
    around every value. -/
theorem batch_constants_reviewed :
    Gen.C15Batch.consts = reviewedConsts.map (·.1) ∧
    ∀ c ∈ Gen.C15Batch.consts, (c.2.1 = "ClickhouseGetterPlanner.Scan" ∨ c.2.1 = "ClickhouseGetterPlanner.ScanMatrix") →
      c.2.2.2 = Gen.C15Batch.getterBatch :=
  ⟨consts_checked, getter_batch_checked⟩

/-! ## non-vacuity -/
-- a batching with an empty batch, a series split over two batches, fingerprint 0 first, a marker entry
private def eg : List (List Entry) :=
  [[⟨.none, 0, [([97], [98])], 1, [108, 34], []⟩], [], [⟨.none, 0, [([97], [98])], 2, [0, 255], []⟩,
    ⟨.none, 7, [], 3, [], []⟩, ⟨.eof, 0, [], 0, [], []⟩]]
example : NoFail eg.flatten := by unfold NoFail; decide
example : NoFail (eg.flatMap cutEof) := by unfold NoFail; decide
example : Contig ((rowsOf eg.flatten).map (·.fp)) := by
  have : (rowsOf eg.flatten).map (·.fp) = [0, 0, 7] := by decide
  rw [this]; simp [Contig]
example : runFps (rowsOf eg.flatten) = [0, 7] := by decide
-- the A29 witness: without the fix the first chunk after the preamble had no `{"stream":…` (see notes)
example : (streamsChunks eg)[1]? = some (openObj streamsShape ⟨.none, 0, [([97], [98])], 1, [108, 34], []⟩ ++
    print (.arr [.str [49], .str [108, 34]])) := by decide
example : plainTok [43, 73, 110, 102] := by unfold plainTok; decide
example : Repr quotedDoc (.null) → False := by
  intro h
  have := parse_of_repr_nil h
  have h2 : (parse quotedDoc).isNone = true := by decide +kernel
  rw [this] at h2
  cases h2

-- the generic machine with a real buffer: chunks of 2 over 5 items in batches [2,0,3] — three chunks, the last one short
example : SepEnc.runBatches (SepEnc.everyN 2) SepEnc.St.init [[[97], [98]], [], [[99], [100], [101]]] =
    [[97, 44, 98], [44, 99, 44, 100], [44, 101]] := by decide
-- … and the shared-counter writer on the same input drops the comma at every chunk start
example : SepEnc.sharedRun 2 0 [] [[97], [98], [99], [100], [101]] = [[97, 44, 98], [99, 44, 100], [101]] := by decide
example : isNumTok [49, 55, 48, 48, 46, 53] = true := by decide

end Qryn.C15
