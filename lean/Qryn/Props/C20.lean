import Qryn.Proofs.Router
import Qryn.Proofs.AuthConfig
import Qryn.Http.Exposure
import Qryn.Gen.Routes
import Qryn.Gen.AuthConfig
import Qryn.Gen.Exposure
/-! # C20 — with basic auth configured no route is reachable without the credentials

Property theorems only. Models: `Qryn.Http.authDecision` (= `BasicAuthMiddleware`, after the A34 fix),
`Qryn.B64` (Go's `base64.StdEncoding` decoder incl. its partial result on error), `Qryn.Http.Router`
(gorilla/mux matching + `Use` middlewares, gzip / CORS / logging wrappers at the level of
`http.ResponseWriter` calls), `Gen.Routes` (how `main.go` assembles the router, and the route table,
regenerated from source on every run), `Qryn.Http.AuthConfig` interpreting `Gen.AuthConfig` (the statements of
`portEnv` that decide the credentials and the guard in front of `Use(BasicAuthMiddleware…)`, regenerated as a plan). -/
namespace Qryn.C20
open Qryn Qryn.Http

/-! ## the credential decision -/

/-- **auth_exact.** `BasicAuthMiddleware(login, pass)` calls the next handler for exactly the headers
    `"Basic " ++ e` (that scheme spelling, one space) whose `e` decodes **without error** under
    `base64.StdEncoding` to `login ++ ":" ++ pass`; and only when `login` has no `:` (the payload is cut at
    its first colon). Nothing else passes: no prefix, no suffix, no partial decode. -/
theorem auth_exact (login pass : Bytes) (hdr : Option Bytes) :
    authDecision login pass hdr = .pass ↔
      ∃ e, hdr = some (basicWord ++ sp :: e) ∧ B64.decodeOk e = some (login ++ colon :: pass) ∧ colon ∉ login :=
  authDecision_pass_iff login pass hdr

/-- the same for a login without `:` (the only logins RFC 7617 allows) -/
theorem auth_exact_nocolon (login pass : Bytes) (hl : colon ∉ login) (hdr : Option Bytes) :
    authDecision login pass hdr = .pass ↔
      ∃ e, hdr = some (basicWord ++ sp :: e) ∧ B64.decodeOk e = some (login ++ colon :: pass) := by
  rw [auth_exact]
  exact ⟨fun ⟨e, h1, h2, _⟩ => ⟨e, h1, h2⟩, fun ⟨e, h1, h2⟩ => ⟨e, h1, h2, hl⟩⟩

/-- **400 exactly for the malformed class**: a non-empty header with no space, or whose first word is not
    `Basic`, or whose payload is not valid base64 (the A34 fix). -/
theorem auth_400_exact (login pass : Bytes) (hdr : Option Bytes) :
    authDecision login pass hdr = .status400 ↔
      ∃ a, hdr = some a ∧ a ≠ [] ∧
        (sp ∉ a ∨ ∃ scheme e, a = scheme ++ sp :: e ∧ sp ∉ scheme ∧ (scheme ≠ basicWord ∨ B64.decodeOk e = none)) :=
  authDecision_400_iff login pass hdr

/-- everything that neither passes nor is malformed is answered 401 — in particular a missing or empty header -/
theorem auth_401_otherwise (login pass : Bytes) (hdr : Option Bytes)
    (hp : authDecision login pass hdr ≠ .pass) (hm : authDecision login pass hdr ≠ .status400) :
    authDecision login pass hdr = .status401 := by
  rcases decision_cases (authDecision login pass hdr) with h | h | h
  · exact absurd h hp
  · exact h
  · exact absurd h hm

theorem auth_missing_401 (login pass : Bytes) :
    authDecision login pass none = .status401 ∧ authDecision login pass (some []) = .status401 := ⟨rfl, rfl⟩

/-- a header carries at most one pair of credentials: it cannot pass two differently configured middlewares -/
theorem auth_pass_unique {l₁ p₁ l₂ p₂ : Bytes} {hdr : Option Bytes}
    (h₁ : authDecision l₁ p₁ hdr = .pass) (h₂ : authDecision l₂ p₂ hdr = .pass) : l₁ = l₂ ∧ p₁ = p₂ := by
  obtain ⟨e₁, he₁, d₁, n₁⟩ := (auth_exact _ _ _).mp h₁
  obtain ⟨e₂, he₂, d₂, n₂⟩ := (auth_exact _ _ _).mp h₂
  rw [he₁] at he₂
  have : e₁ = e₂ := by simpa using he₂
  subst this
  rw [d₁] at d₂
  have c₁ : cut colon (l₁ ++ colon :: p₁) = some (l₁, p₁) := cut_some.mpr ⟨rfl, n₁⟩
  have c₂ : cut colon (l₂ ++ colon :: p₂) = some (l₂, p₂) := cut_some.mpr ⟨rfl, n₂⟩
  rw [Option.some.inj d₂, c₂] at c₁
  simpa using c₁.symm

/-- the standard encoding of the configured credentials is let through -/
theorem right_credentials_pass (login pass : Bytes) (hl : colon ∉ login) :
    authDecision login pass (some (basicWord ++ sp :: B64.encode (login ++ colon :: pass))) = .pass :=
  (auth_exact_nocolon login pass hl _).mpr ⟨_, rfl, B64.decodeOk_encode _⟩

/-! ## base64: what "decodes to" means -/

/-- **b64_decode_encode.** Go's decoder inverts Go's encoder, for every byte string. -/
theorem b64_decode_encode (s : Bytes) : B64.decodeOk (B64.encode s) = some s := B64.decodeOk_encode s

theorem b64_encode_injective {s t : Bytes} (h : B64.encode s = B64.encode t) : s = t := B64.encode_injective h

/-- **b64_canonical.** The only CR/LF-free string `StdEncoding.Strict()` decodes to `s` is `EncodeToString(s)`. -/
theorem b64_canonical (e s : Bytes) (h : B64.decode true e = (s, false)) (hn : ∀ c ∈ e, B64.isNL c = false) :
    e = B64.encode s := B64.strict_canonical e s h hn

/-- **b64_strict_injective.** On canonical strings decoding is injective: the other strings that decode to the same
    credentials differ only by embedded CR/LF and by the unused low bits of the last digit. -/
theorem b64_strict_injective {e₁ e₂ s₁ s₂ : Bytes}
    (h₁ : B64.decode true e₁ = (s₁, false)) (h₂ : B64.decode true e₂ = (s₂, false))
    (n₁ : ∀ c ∈ e₁, B64.isNL c = false) (n₂ : ∀ c ∈ e₂, B64.isNL c = false)
    (h : B64.decodeOk e₁ = B64.decodeOk e₂) : e₁ = e₂ := B64.canonical_injective h₁ h₂ n₁ n₂ h

/-- whatever the strict decoder accepts the lenient one decodes identically -/
theorem b64_strict_imp_std (e s : Bytes) (h : B64.decode true e = (s, false)) : B64.decodeOk e = some s := by
  have := B64.strict_imp_lenient e [] s h
  simp [B64.decodeOk, B64.decode, this]

/-- A34 on the model of the pinned code: `Basic dXNlcjpwYXNz!!!!`, `…=` and `… x` were accepted for user:pass
    (the decoder returns the decoded prefix together with its error); the fixed decision answers 400. -/
theorem a34_unfixed_accepted_garbage :
    let good : Bytes := [100, 88, 78, 108, 99, 106, 112, 119, 89, 88, 78, 122]     -- dXNlcjpwYXNz
    let user : Bytes := [117, 115, 101, 114]
    let pass : Bytes := [112, 97, 115, 115]
    (∀ junk ∈ [[33, 33, 33, 33], [61], [32, 120]],
        authDecisionUnfixed user pass (some (basicWord ++ sp :: (good ++ junk))) = .pass ∧
        authDecision user pass (some (basicWord ++ sp :: (good ++ junk))) = .status400) ∧
    authDecision user pass (some (basicWord ++ sp :: good)) = .pass := by
  decide

/-! ## the router -/

/-- **no_handler_without_creds.** For EVERY route table, every list of further middlewares, every path-cleaning
    rule: when the auth middleware is the first `Use` of the router, a request without the exact credentials
    causes no effect at all (no handler starts, no back-end call), whatever it is answered with; and if its
    path is clean and some registered route accepts it (path and method), the answer is 401, or 400 for the
    malformed class — produced by the auth middleware, not by anything behind it. -/
theorem no_handler_without_creds (login pass : Bytes) (rest : List Middleware) (routes : List Route)
    (clean : Bytes → Bool) (req : Req) (h : authDecision login pass req.auth ≠ .pass) :
    let R : Router := ⟨routes, authMw login pass :: rest, clean⟩
    (serve R req).effects = [] ∧
    (clean req.path = true → (∃ r ∈ routes, r.accepts req) →
      (serve R req).status = rejectCode (authDecision login pass req.auth) ∧
      ((serve R req).status = 401 ∨ (serve R req).status = 400) ∧
      serveRun R req = rejectRun req.auth (authDecision login pass req.auth)) := by
  intro R
  have hchain : ∀ hd : Handler, chain R.mws hd req = rejectRun req.auth (authDecision login pass req.auth) := by
    intro hd; simp only [R, chain_cons]; exact authMw_reject _ h
  constructor
  · simp only [serve, respond_effects, serveRun]
    split
    · rfl
    · split
      · rw [hchain]; exact rejectRun_effects _ _
      · rfl
      · rfl
  · intro hc ⟨r, hr, ha⟩
    obtain ⟨r', hr'⟩ := matchRoutes_complete (m := false) hr ha
    have hrun : serveRun R req = rejectRun req.auth (authDecision login pass req.auth) := by
      simp only [serveRun, hc, Bool.not_true, Bool.false_eq_true, if_false, R, hr']
      exact hchain _
    have hs : (serve R req).status = rejectCode (authDecision login pass req.auth) := by
      rw [serve, respond_status, hrun, rejectRun_status]
    exact ⟨hs, by rw [hs]; exact rejectCode_cases h, hrun⟩

/-- **creds_reach_handler.** With the right credentials, behind the auth middleware and any wrappers that are
    transparent (gzip, CORS, logging — `wrappers_transparent`), a clean request that some registered route accepts
    runs the handler of a registered route that accepts it (mux: the first one), with exactly that handler's
    effects and status. -/
theorem creds_reach_handler (login pass : Bytes) (wrappers : List Middleware) (hw : ∀ m ∈ wrappers, Transparent m)
    (routes : List Route) (clean : Bytes → Bool) (req : Req)
    (h : authDecision login pass req.auth = .pass) (hc : clean req.path = true) (hr : ∃ r ∈ routes, r.accepts req) :
    let R : Router := ⟨routes, authMw login pass :: wrappers, clean⟩
    ∃ r' ∈ routes, r'.accepts req ∧ (serve R req).effects = (r'.handler req).effects ∧
      (serve R req).status = statusOf (r'.handler req).ops := by
  intro R
  obtain ⟨r, hr, ha⟩ := hr
  obtain ⟨r', hr'⟩ := matchRoutes_complete (m := false) hr ha
  have hm := matchRoutes_route hr'
  refine ⟨r', hm.1, hm.2, ?_⟩
  have hrun : serveRun R req = chain wrappers r'.handler req := by
    simp only [serveRun, hc, Bool.not_true, Bool.false_eq_true, if_false, R, hr', chain_cons]
    exact authMw_pass _ h
  have t := chain_transparent wrappers hw r'.handler req
  rw [serve, respond_effects, respond_status, hrun]
  exact t

/-- the three wrappers `main.go` installs next to the auth middleware run the next handler exactly once with
    its effects and never change its status (gzip: whatever sequence of `WriteHeader`/`Write` calls it makes) -/
theorem wrappers_transparent (gz : Bytes → Bytes) (gzHdr : Bytes) (origin : String) :
    Transparent (gzipMw gz gzHdr) ∧ Transparent (corsMw origin) ∧ Transparent loggingMw :=
  ⟨gzipMw_transparent gz gzHdr, corsMw_transparent origin, loggingMw_transparent⟩

/-- **wrappers_preserve.** Wherever gzip / CORS / logging wrappers sit relative to the auth middleware — also in
    FRONT of it — a request without the credentials gets the auth middleware's 401/400 as status and no handler
    or back-end effect: compression and CORS handling never turn the refusal into something else and never run
    the handler (CORS has no preflight shortcut: it always calls the next handler). -/
theorem wrappers_preserve (login pass : Bytes) (pre : List Middleware) (hp : ∀ m ∈ pre, Transparent m)
    (rest : List Middleware) (handler : Handler) (req : Req) (h : authDecision login pass req.auth ≠ .pass) :
    let r := chain (pre ++ authMw login pass :: rest) handler req
    r.effects = [] ∧ (respond r).status = rejectCode (authDecision login pass req.auth) ∧
      ((respond r).status = 401 ∨ (respond r).status = 400) := by
  intro r
  have t := chain_transparent pre hp (chain (authMw login pass :: rest) handler) req
  have hr : chain (authMw login pass :: rest) handler req = rejectRun req.auth (authDecision login pass req.auth) := by
    rw [chain_cons]; exact authMw_reject _ h
  have hs : (respond r).status = rejectCode (authDecision login pass req.auth) := by
    rw [respond_status]; simp only [r, chain_append]; rw [t.2, hr, rejectRun_status]
  refine ⟨?_, hs, by rw [hs]; exact rejectCode_cases h⟩
  simp only [r, chain_append]; rw [t.1, hr, rejectRun_effects]

/-- the gzip writer alone: for every call sequence of the wrapped handler the status that reaches the client is
    the status the handler chose -/
theorem gzip_preserves_status (gz : Bytes → Bytes) (gzHdr : Bytes) (ops : List WOp) :
    statusOf (gzClose gz gzHdr (ops.foldl gzStep {})) = statusOf ops := gzip_status gz gzHdr ops

/-- **unmatched_no_handler.** What mux answers without running the middlewares (unclean path → 301, no route for
    the path → 404, route for the path but not the method → 405) runs no handler and no back-end call either,
    with or without credentials. -/
theorem unmatched_no_handler (R : Router) (req : Req) (h : ¬ ∃ r ∈ R.routes, r.accepts req) :
    (serve R req).effects = [] ∧ ((serve R req).status = 301 ∨ (serve R req).status = 404 ∨ (serve R req).status = 405) := by
  simp only [serve, respond_effects, respond_status, serveRun]
  split
  · exact ⟨rfl, .inl rfl⟩
  · split
    · rename_i r hr
      exact absurd ⟨r, matchRoutes_route hr⟩ h
    · exact ⟨rfl, .inr (.inr rfl)⟩
    · exact ⟨rfl, .inr (.inl rfl)⟩

/-! ## main.go and the route table (regenerated) -/

open Qryn.Gen.Routes in
/-- **main_order_ok.** The extractor recognised every use of the router value (`problems = []`). In `main()` the (conditional) `app.Use(BasicAuthMiddleware(Username, Password))` is the first
    statement that touches the router after `mux.NewRouter()`, hence the first `Use` (outermost wrapper) and before
    every call that registers routes; the guard is exactly "both configured"; gzip, CORS and logging follow in that
    order; every registration call and the serve call receive that same router (the extractor follows the one
    variable and rejects any other use), the serve call is last and `httpStart` serves its router parameter; there is
    no other router or listener in the module except the reader's own-server path, which is taken only for
    `reader.Init(cfg, nil)` (not by main) and installs the same chain, auth first; no route plugin is registered;
    the only run-time paths are the `view` build's static routes; and the table followed from that router contains the
    readiness, metrics, ingest (logs, metrics, traces, profiles) and query (logs, labels, metrics, traces, profiles)
    endpoints — none of them lives on another router. -/
theorem main_order_ok :
    problems = [] ∧ authPrecedesEverything mainEvents = true ∧ authIsFirstUse mainEvents = true ∧ authUsedOnce mainEvents = true ∧
    useOrder mainEvents = ["BasicAuthMiddleware", "AcceptEncodingMiddleware", "CorsMiddleware", "LoggingMiddleware"] ∧
    authGuard = "cfg.Setting.AUTH_SETTINGS.BASIC.Username != \"\" && cfg.Setting.AUTH_SETTINGS.BASIC.Password != \"\"" ∧
    authArgs = ["cfg.Setting.AUTH_SETTINGS.BASIC.Username", "cfg.Setting.AUTH_SETTINGS.BASIC.Password"] ∧
    registrations mainEvents = ["shared/commonroutes.RegisterCommonRoutes", "writer.Init", "reader.Init", "view.Init"] ∧
    servesLast mainEvents = true ∧
    routerSites = ["main.go:main", "reader/main.go:Init"] ∧
    listenSites = ["main.go:httpStart:http.Serve", "main.go:httpStart:net.Listen",
                   "reader/main.go:httpStart:http.Serve", "reader/main.go:httpStart:net.Listen"] ∧
    readerOwnRouterOnlyWhenNil = true ∧ readerApplyMiddlewaresGuarded = true ∧
    authPrecedesEverything readerOwnEvents = true ∧ servesLast readerOwnEvents = true ∧
    readerOwnAuthGuard = "config.Cloki.Setting.AUTH_SETTINGS.BASIC.Username != \"\" && config.Cloki.Setting.AUTH_SETTINGS.BASIC.Password != \"\"" ∧
    readerOwnAuthArgs = ["config.Cloki.Setting.AUTH_SETTINGS.BASIC.Username", "config.Cloki.Setting.AUTH_SETTINGS.BASIC.Password"] ∧
    routePluginRegistrations = 0 ∧
    dynamicRoutes.all (fun d => d.1 == "view.Init") = true ∧
    routes.length ≠ 0 ∧ routes.all (fun r => !r.methods.isEmpty && !r.pathPrefix) = true ∧
    ["/ready", "/metrics", "/loki/api/v1/push", "/api/v1/prom/remote/write", "/v1/traces", "/ingest", "/loki/api/v1/query_range",
     "/loki/api/v1/labels", "/api/v1/query_range", "/api/traces/{traceId}", "/querier.v1.QuerierService/SelectMergeStacktraces"].all
      (fun t => routes.any (fun r => r.tpl == t)) = true := by
  decide +kernel

open Qryn.Gen.Routes in
/-- **production_router_guarded.** The router `main.go` builds from the extracted table — whatever the handlers,
    whatever is installed behind the auth middleware — answers every request that lacks the credentials, on every
    registered route (path matching the template) and registered method, with the auth middleware's 401/400 and
    with no handler or back-end effect. -/
theorem production_router_guarded (login pass : Bytes) (rest : List Middleware) (hs : Nat → Handler)
    (clean : Bytes → Bool) (req : Req) (h : authDecision login pass req.auth ≠ .pass) (hc : clean req.path = true)
    (i : Nat) (spec : RouteSpec) (hi : routes[i]? = some spec)
    (hp : matchParts spec.pathPrefix spec.parts req.path = true) (hm : req.method ∈ spec.methods) :
    let R : Router := ⟨tableOf routes hs, authMw login pass :: rest, clean⟩
    (serve R req).effects = [] ∧ ((serve R req).status = 401 ∨ (serve R req).status = 400) := by
  intro R
  have hmem : spec.toRoute (hs i) ∈ tableOf routes hs := by
    simp only [tableOf, List.mem_map]
    refine ⟨(spec, i), ?_, rfl⟩
    rw [List.mem_iff_getElem?]
    exact ⟨i, by simp [List.getElem?_zipIdx, hi]⟩
  have hacc : (spec.toRoute (hs i)).accepts req := ⟨hp, .inr hm⟩
  have := no_handler_without_creds login pass rest (tableOf routes hs) clean req h
  exact ⟨this.1, (this.2 hc ⟨_, hmem, hacc⟩).2.1⟩


/-! ## the configuration path: which credentials are in force, and is the middleware installed at all

`Gen.AuthConfig.plan` is what `main.go` `portEnv` does to `cfg.Setting.AUTH_SETTINGS.BASIC` (regenerated);
`Gen.AuthConfig.install` is `main()`'s `if guard { app.Use(BasicAuthMiddleware(login, pass)) }`. The theorems
below are about the INTERPRETATION of that regenerated plan: for every environment (every variable absent, or
set to any byte string incl. the empty one), every pair of values left by the configuration file. -/

section config
open Qryn.Http.AuthConfig

/-- the variables documented to carry the login, lowest precedence first (`CLOKI_*` wins over `QRYN_*`) -/
def loginVars : List String := ["QRYN_LOGIN", "CLOKI_LOGIN"]
/-- the variables documented to carry the password, lowest precedence first -/
def passVars : List String := ["QRYN_PASSWORD", "CLOKI_PASSWORD"]
def varsOf : Field → List String
  | .user => loginVars
  | .pass => passVars

/-- the credentials after `cfg.ReadConfig(); portEnv(cfg)`: `file` = what the configuration file (ReadConfig) gave -/
def effective (env : Env) (file : Creds) : Creds := runPlan env Gen.AuthConfig.plan file

/-- `some (login, pass)` ⇔ `main()` installs `BasicAuthMiddleware(login, pass)` as the first middleware -/
def installedCreds (env : Env) (file : Creds) : Option (Bytes × Bytes) :=
  installed Gen.AuthConfig.plan Gen.AuthConfig.install env file

/-- the operator supplied a non-empty value for the field through SOME source: configuration file or one of its
    environment variables -/
def supplied (f : Field) (env : Env) (file : Creds) : Prop :=
  file.get f ≠ [] ∨ ∃ v ∈ varsOf f, getenv env v ≠ []

open Qryn.Gen.AuthConfig in
/-- **config_path_ok** (decide over `Gen.AuthConfig`). `portEnv`'s credential statements are exactly four
    independent overrides `if os.Getenv(K) != "" { field = os.Getenv(K) }` — `QRYN_LOGIN` then `CLOKI_LOGIN` on
    Username, `QRYN_PASSWORD` then `CLOKI_PASSWORD` on Password; before them `portEnv` only calls `portCHEnv` (which
    does not mention the credentials) and returns its error; `main()` runs `clconfig.New`, `ReadConfig`, `portEnv`
    (panic on error), creates the router and installs the middleware under exactly the guard "both fields non-empty"
    with the two fields as arguments — the same `if` statement `Gen.Routes.authGuard` was read from; the reader-owned
    server path uses the same guard and arguments over the same configuration object; in the whole module (non-test
    code) only `portEnv` writes `AUTH_SETTINGS`, only `main` and `reader.applyMiddlewares` read it, nothing replaces
    `.Setting`, `config.Cloki` is only ever assigned the `Init` parameter, and nothing changes the environment. -/
theorem config_path_ok :
    allOverrides plan = true ∧ sources plan .user = loginVars ∧ sources plan .pass = passVars ∧
    install = stdInstall ∧ readerInstall = install ∧ installGuardText = Qryn.Gen.Routes.authGuard ∧
    portEnvPrefix = ["call portCHEnv(cfg)", "if err != nil { return err }"] ∧
    mainSequence = ["clconfig.New", "ReadConfig", "portEnv", "panic on error", "mux.NewRouter", "guarded Use(BasicAuthMiddleware)"] ∧
    credentialWriters = ["main.go:portEnv"] ∧
    credentialReaders = ["main.go:main", "reader/main.go:applyMiddlewares"] ∧
    settingWrites = [] ∧ setenvSites = [] ∧
    clokiAssignments = ["reader/main.go:Init: cnf", "writer/main_dev.go:Init: cfg"] := by
  decide +kernel

/-- **effective_last_nonempty** (b). After `ReadConfig` + `portEnv` each credential is the LAST NON-EMPTY value in
    the precedence order *configuration file, `QRYN_…`, `CLOKI_…`*; an empty-but-set variable counts as absent. -/
theorem effective_last_nonempty (env : Env) (file : Creds) :
    effective env file =
      ⟨lastNonEmpty file.user (loginVars.map (getenv env)), lastNonEmpty file.pass (passVars.map (getenv env))⟩ := by
  obtain ⟨ho, hu, hp, _⟩ := config_path_ok
  apply Creds.ext'
  · rw [effective, runPlan_get env .user _ file ho, hu]; rfl
  · rw [effective, runPlan_get env .pass _ file ho, hp]; rfl

/-- the same, spelled out: `CLOKI_LOGIN` if non-empty, else `QRYN_LOGIN` if non-empty, else the file's value -/
theorem effective_explicit (env : Env) (file : Creds) :
    (effective env file).user =
      (if getenv env "CLOKI_LOGIN" ≠ [] then getenv env "CLOKI_LOGIN"
       else if getenv env "QRYN_LOGIN" ≠ [] then getenv env "QRYN_LOGIN" else file.user) ∧
    (effective env file).pass =
      (if getenv env "CLOKI_PASSWORD" ≠ [] then getenv env "CLOKI_PASSWORD"
       else if getenv env "QRYN_PASSWORD" ≠ [] then getenv env "QRYN_PASSWORD" else file.pass) := by
  rw [effective_last_nonempty]
  simp only [loginVars, passVars, List.map_cons, List.map_nil, lastNonEmpty, List.foldl_cons, List.foldl_nil]
  constructor <;> split <;> simp_all

/-- **override_independent** (a). Setting, changing or removing a variable leaves every credential it is not an
    override of untouched: a login variable never changes the password, a password variable never the login, any
    other variable neither — whatever the other variables and the file hold. -/
theorem override_independent (env : Env) (file : Creds) (v : String) (x : Option Bytes) :
    (v ∉ loginVars → (effective (env.update v x) file).user = (effective env file).user) ∧
    (v ∉ passVars → (effective (env.update v x) file).pass = (effective env file).pass) := by
  simp only [effective_last_nonempty, loginVars, passVars, List.map_cons, List.map_nil, getenv_update,
    List.mem_cons, List.not_mem_nil, or_false, not_or]
  constructor
  · rintro ⟨h1, h2⟩
    rw [if_neg (Ne.symm h1), if_neg (Ne.symm h2)]
  · rintro ⟨h1, h2⟩
    rw [if_neg (Ne.symm h1), if_neg (Ne.symm h2)]

/-- a variable changes only its own field: the override variables of the two fields are disjoint -/
theorem override_changes_only_own_field (env : Env) (file : Creds) (f g : Field) (hfg : g ≠ f)
    (v : String) (hv : v ∈ varsOf f) (x : Option Bytes) :
    (effective (env.update v x) file).get g = (effective env file).get g := by
  have hi := override_independent env file v x
  cases f <;> cases g <;> simp only [ne_eq, not_true_eq_false, reduceCtorEq, not_false_eq_true] at hfg
  · apply hi.2
    simp only [varsOf, loginVars, List.mem_cons, List.not_mem_nil, or_false] at hv
    rcases hv with rfl | rfl <;> decide
  · apply hi.1
    simp only [varsOf, passVars, List.mem_cons, List.not_mem_nil, or_false] at hv
    rcases hv with rfl | rfl <;> decide

/-- an empty-but-set variable is the same as an unset one -/
theorem empty_is_unset (env : Env) (file : Creds) (v : String) :
    effective (env.update v (some [])) file = effective (env.update v none) file := by
  simp only [effective_last_nonempty, loginVars, passVars, List.map_cons, List.map_nil, getenv_update_empty]

/-- the effective value of a field is non-empty iff some source supplied a non-empty one -/
theorem effective_nonempty_iff (f : Field) (env : Env) (file : Creds) :
    (effective env file).get f ≠ [] ↔ supplied f env file := by
  rw [effective_last_nonempty]
  cases f <;> simp only [Creds.get, lastNonEmpty_ne_nil, supplied, varsOf, List.mem_map] <;>
    exact or_congr Iff.rfl ⟨fun ⟨_, ⟨v, hv, rfl⟩, h⟩ => ⟨v, hv, h⟩, fun ⟨v, hv, h⟩ => ⟨_, ⟨v, hv, rfl⟩, h⟩⟩

/-- the effective value of a field is the file's value or the value of one of its variables — never anything else -/
theorem effective_from_a_source (f : Field) (env : Env) (file : Creds) :
    (effective env file).get f = file.get f ∨ ∃ v ∈ varsOf f, (effective env file).get f = getenv env v := by
  rw [effective_last_nonempty]
  cases f <;> simp only [Creds.get, varsOf]
  · rcases lastNonEmpty_mem (loginVars.map (getenv env)) file.user with h | h
    · exact .inl h
    · obtain ⟨v, hv, he⟩ := List.mem_map.mp h; exact .inr ⟨v, hv, he.symm⟩
  · rcases lastNonEmpty_mem (passVars.map (getenv env)) file.pass with h | h
    · exact .inl h
    · obtain ⟨v, hv, he⟩ := List.mem_map.mp h; exact .inr ⟨v, hv, he.symm⟩

/-- what `main()`'s guard does with the effective credentials -/
theorem installed_exact (env : Env) (file : Creds) :
    installedCreds env file =
      if (effective env file).user ≠ [] ∧ (effective env file).pass ≠ [] then
        some ((effective env file).user, (effective env file).pass) else none := by
  rw [installedCreds, installed, config_path_ok.2.2.2.1, stdInstall_eval]; rfl

/-- **both_supplied_installed** (c). If the operator supplied a non-empty login through ANY source and a non-empty
    password through ANY source (file + variable, `QRYN_*` + `CLOKI_*`, …), `main()` installs the middleware, with
    exactly the effective credentials (both non-empty). -/
theorem both_supplied_installed (env : Env) (file : Creds)
    (hu : supplied .user env file) (hp : supplied .pass env file) :
    installedCreds env file = some ((effective env file).user, (effective env file).pass) ∧
    (effective env file).user ≠ [] ∧ (effective env file).pass ≠ [] := by
  have h1 := (effective_nonempty_iff .user env file).mpr hu
  have h2 := (effective_nonempty_iff .pass env file).mpr hp
  simp only [Creds.get] at h1 h2
  exact ⟨by rw [installed_exact, if_pos ⟨h1, h2⟩], h1, h2⟩

/-- **not_installed_iff** (d). The middleware is NOT installed exactly when the login or the password was supplied
    by no source at all. -/
theorem not_installed_iff (env : Env) (file : Creds) :
    installedCreds env file = none ↔ ¬ supplied .user env file ∨ ¬ supplied .pass env file := by
  rw [installed_exact, ← effective_nonempty_iff, ← effective_nonempty_iff]
  simp only [Creds.get]
  by_cases h1 : (effective env file).user = [] <;> by_cases h2 : (effective env file).pass = [] <;> simp [h1, h2]

/-- the reader-owned server path (`reader.Init(cfg, nil)`) decides exactly like `main()` -/
theorem reader_own_path_same (env : Env) (file : Creds) :
    installed Gen.AuthConfig.plan Gen.AuthConfig.readerInstall env file = installedCreds env file := by
  rw [installedCreds, config_path_ok.2.2.2.2.1]

/-- **configured_end_to_end.** For EVERY configuration in which both parts were supplied by some source, every
    route table, every list of further middlewares, every request: if anything at all ran (a handler, a back-end
    call), the request carried `Basic` + a base64 string that decodes without error to exactly
    `effective login : effective password`; and on a registered route + method a request that does not is answered
    401/400 by the auth middleware. -/
theorem configured_end_to_end (env : Env) (file : Creds)
    (hu : supplied .user env file) (hp : supplied .pass env file)
    (rest : List Middleware) (routes : List Route) (clean : Bytes → Bool) (req : Req) :
    let eff := effective env file
    let R : Router := ⟨routes, mainChain (installedCreds env file) rest, clean⟩
    ((serve R req).effects ≠ [] →
      ∃ e, req.auth = some (basicWord ++ sp :: e) ∧ B64.decodeOk e = some (eff.user ++ colon :: eff.pass) ∧ colon ∉ eff.user) ∧
    (authDecision eff.user eff.pass req.auth ≠ .pass → clean req.path = true → (∃ r ∈ routes, r.accepts req) →
      (serve R req).effects = [] ∧ ((serve R req).status = 401 ∨ (serve R req).status = 400)) := by
  intro eff R
  have hi := (both_supplied_installed env file hu hp).1
  have hR : R = ⟨routes, authMw eff.user eff.pass :: rest, clean⟩ := by simp only [R, hi, mainChain]; rfl
  constructor
  · intro hne
    apply (auth_exact eff.user eff.pass req.auth).mp
    apply Classical.byContradiction
    intro hnp
    exact hne (by rw [hR]; exact (no_handler_without_creds eff.user eff.pass rest routes clean req hnp).1)
  · intro hnp hc hr
    have := no_handler_without_creds eff.user eff.pass rest routes clean req hnp
    rw [hR]
    exact ⟨this.1, (this.2 hc hr).2.1⟩

open Qryn.Gen.Routes in
/-- **configured_production_guarded.** The same on the route table extracted from the source: for every
    configuration with both parts supplied, every registered route × method, every request that does not carry the
    effective credentials: 401/400 and no handler or back-end effect. -/
theorem configured_production_guarded (env : Env) (file : Creds)
    (hu : supplied .user env file) (hp : supplied .pass env file)
    (rest : List Middleware) (hs : Nat → Handler) (clean : Bytes → Bool) (req : Req)
    (h : authDecision (effective env file).user (effective env file).pass req.auth ≠ .pass) (hc : clean req.path = true)
    (i : Nat) (spec : RouteSpec) (hi : routes[i]? = some spec)
    (hpm : matchParts spec.pathPrefix spec.parts req.path = true) (hm : req.method ∈ spec.methods) :
    let R : Router := ⟨tableOf routes hs, mainChain (installedCreds env file) rest, clean⟩
    (serve R req).effects = [] ∧ ((serve R req).status = 401 ∨ (serve R req).status = 400) := by
  intro R
  have hR : R = ⟨tableOf routes hs, authMw (effective env file).user (effective env file).pass :: rest, clean⟩ := by
    simp only [R, (both_supplied_installed env file hu hp).1, mainChain]
  rw [hR]
  exact production_router_guarded _ _ rest hs clean req h hc i spec hi hpm hm

/-- with the effective credentials (standard encoding) a registered route's handler runs — the configuration path
    does not lock the operator out (login without `:`) -/
theorem configured_right_credentials_served (env : Env) (file : Creds)
    (hu : supplied .user env file) (hp : supplied .pass env file) (hcol : colon ∉ (effective env file).user)
    (wrappers : List Middleware) (hw : ∀ m ∈ wrappers, Transparent m)
    (routes : List Route) (clean : Bytes → Bool) (req : Req)
    (ha : req.auth = some (basicWord ++ sp :: B64.encode ((effective env file).user ++ colon :: (effective env file).pass)))
    (hc : clean req.path = true) (hr : ∃ r ∈ routes, r.accepts req) :
    let R : Router := ⟨routes, mainChain (installedCreds env file) wrappers, clean⟩
    ∃ r' ∈ routes, r'.accepts req ∧ (serve R req).effects = (r'.handler req).effects := by
  intro R
  have hR : R = ⟨routes, authMw (effective env file).user (effective env file).pass :: wrappers, clean⟩ := by
    simp only [R, (both_supplied_installed env file hu hp).1, mainChain]
  have hpass : authDecision (effective env file).user (effective env file).pass req.auth = .pass := by
    rw [ha]; exact right_credentials_pass _ _ hcol
  obtain ⟨r', h1, h2, h3, _⟩ := creds_reach_handler _ _ wrappers hw routes clean req hpass hc hr
  exact ⟨r', h1, h2, by rw [hR]; exact h3⟩

/-- when nothing was configured (`not_installed_iff`) the router has no auth middleware: the chain is just the
    other middlewares — the open configuration is exactly the unconfigured one -/
theorem unconfigured_chain (env : Env) (file : Creds) (rest : List Middleware)
    (h : ¬ supplied .user env file ∨ ¬ supplied .pass env file) :
    mainChain (installedCreds env file) rest = rest := by
  rw [(not_installed_iff env file).mpr h]; rfl

/-! ### every listener, every mux, every MODE -/

open Qryn.Gen.Exposure in
/-- **exposure_ok** (decide over `Gen.Exposure`). In the whole module (non-test code) the only calls that open a
    listener or serve on one — by NAME, whatever the package or receiver: `Listen*`, `Serve`, `ServeTLS`,
    `ListenAndServe*`, `Accept*`, `New(Unstarted|TLS)Server` — are `net.Listen` + `http.Serve` in `main.httpStart` and in
    the reader's own `httpStart`, and both serve their router parameter (`Gen.Routes`: the router that carries the
    middlewares); the default mux only ever gets that same router under `/` and is never served (no serve call with a
    `nil`/`DefaultServeMux` handler, no mention of `http.DefaultServeMux`), no import registers handlers on it by side
    effect (`net/http/pprof`, `expvar`, `x/net/trace`), there is no `http.Server` literal; the only calls of `main()`
    that receive the router outside an `if` are `RegisterCommonRoutes` and `httpStart`, and the conditional ones are
    guarded by the MODE alone: `writer.Init` for all/writer/"", `reader.Init` and `view.Init` for all/reader/"". -/
theorem exposure_ok :
    listenCalls = ["main.go:httpStart:http.Serve", "main.go:httpStart:net.Listen",
                   "reader/main.go:httpStart:http.Serve", "reader/main.go:httpStart:net.Listen"] ∧
    listenCalls = Qryn.Gen.Routes.listenSites ∧
    serveHandlers = ["main.go:httpStart:http.Serve(handler server)", "reader/main.go:httpStart:http.Serve(handler server)"] ∧
    defaultMux = ["main.go:httpStart:http.Handle(/, server)", "reader/main.go:httpStart:http.Handle(/, server)"] ∧
    nilServes = [] ∧ sideImports = [] ∧ serverLits = [] ∧
    unconditionalRouterCalls = ["commonroutes.RegisterCommonRoutes", "httpStart"] ∧
    modeGuards = [("writer.Init", ["all", "writer", ""]), ("reader.Init", ["all", "reader", ""]), ("view.Init", ["all", "reader", ""])] ∧
    Qryn.Gen.Routes.routes.all (fun r => (initOf r.src).isSome || r.src == "shared/commonroutes.RegisterCommonRoutes") = true := by
  decide +kernel

/-- `production_router_guarded` for ANY list of route specs (any subset / any mode's table) -/
theorem spec_table_guarded (specs : List RouteSpec) (login pass : Bytes) (rest : List Middleware) (hs : Nat → Handler)
    (clean : Bytes → Bool) (req : Req) (h : authDecision login pass req.auth ≠ .pass) (hc : clean req.path = true)
    (i : Nat) (spec : RouteSpec) (hi : specs[i]? = some spec)
    (hp : matchParts spec.pathPrefix spec.parts req.path = true) (hm : req.method ∈ spec.methods) :
    let R : Router := ⟨tableOf specs hs, authMw login pass :: rest, clean⟩
    (serve R req).effects = [] ∧ ((serve R req).status = 401 ∨ (serve R req).status = 400) := by
  intro R
  have hmem : spec.toRoute (hs i) ∈ tableOf specs hs := by
    simp only [tableOf, List.mem_map]
    refine ⟨(spec, i), ?_, rfl⟩
    rw [List.mem_iff_getElem?]
    exact ⟨i, by simp [List.getElem?_zipIdx, hi]⟩
  have hacc : (spec.toRoute (hs i)).accepts req := ⟨hp, .inr hm⟩
  have := no_handler_without_creds login pass rest (tableOf specs hs) clean req h
  exact ⟨this.1, (this.2 hc ⟨_, hmem, hacc⟩).2.1⟩

/-- **configured_any_mode.** For EVERY value of MODE (all, writer, reader, the empty string, anything else), every
    configuration in which a login and a password were supplied by some source, every route that `main()` registers
    in that mode (per the regenerated guards) and every registered method: a request that does not carry the
    effective credentials is answered 401/400 and nothing runs. -/
theorem configured_any_mode (mode : String) (env : Env) (file : Creds)
    (hu : supplied .user env file) (hp : supplied .pass env file)
    (rest : List Middleware) (hs : Nat → Handler) (clean : Bytes → Bool) (req : Req)
    (h : authDecision (effective env file).user (effective env file).pass req.auth ≠ .pass) (hc : clean req.path = true)
    (i : Nat) (spec : RouteSpec)
    (hi : (routesIn Qryn.Gen.Exposure.modeGuards mode Qryn.Gen.Routes.routes)[i]? = some spec)
    (hpm : matchParts spec.pathPrefix spec.parts req.path = true) (hm : req.method ∈ spec.methods) :
    let R : Router := ⟨tableOf (routesIn Qryn.Gen.Exposure.modeGuards mode Qryn.Gen.Routes.routes) hs,
                       mainChain (installedCreds env file) rest, clean⟩
    (serve R req).effects = [] ∧ ((serve R req).status = 401 ∨ (serve R req).status = 400) := by
  intro R
  have hR : R = ⟨tableOf (routesIn Qryn.Gen.Exposure.modeGuards mode Qryn.Gen.Routes.routes) hs,
      authMw (effective env file).user (effective env file).pass :: rest, clean⟩ := by
    simp only [R, (both_supplied_installed env file hu hp).1, mainChain]
  rw [hR]
  exact spec_table_guarded _ _ _ rest hs clean req h hc i spec hi hpm hm

end config

/-! ## non-vacuity -/

section examples
def hOK (i : Nat) : Handler := fun _ => ⟨[.writeHeader 200, .write [111, 107]], [.handler i, .backend i]⟩
def user : Bytes := [117, 115, 101, 114]
def pw : Bytes := [112, 97, 115, 115]
def good : Bytes := [100, 88, 78, 108, 99, 106, 112, 119, 89, 88, 78, 122]
def R0 : Router :=
  ⟨tableOf Qryn.Gen.Routes.routes hOK, [authMw user pw, gzipMw id [], corsMw "", loggingMw], fun _ => true⟩
def ready : Bytes := [47, 114, 101, 97, 100, 121]
def rq (m : String) (p : Bytes) (a : Option Bytes) : Req := ⟨m, p, a, [103, 122, 105, 112], none⟩

-- no header: 401 and nothing ran; right header: the handler of route 0 ran; garbage after it: 400
example : ((serve R0 (rq "GET" ready none)).status, (serve R0 (rq "GET" ready none)).effects) = (401, []) := by decide
example : (serve R0 (rq "GET" ready (some (basicWord ++ sp :: good)))).effects = [.handler 0, .backend 0] := by decide
example : (serve R0 (rq "GET" ready (some (basicWord ++ sp :: (good ++ [33]))))).status = 400 := by decide
-- wrong method / unknown path: 405 / 404 without the middlewares, and nothing ran
example : ((serve R0 (rq "POST" ready none)).status, (serve R0 (rq "POST" ready none)).effects) = (405, []) := by decide
example : (serve R0 (rq "GET" [47, 120] none)).status = 404 := by decide
-- the hypotheses of `production_router_guarded` are satisfiable
example : ∃ spec, Qryn.Gen.Routes.routes[0]? = some spec ∧ matchParts spec.pathPrefix spec.parts ready = true ∧
    "GET" ∈ spec.methods := ⟨_, rfl, by decide, by decide⟩
-- strict ≠ lenient: `QR==` decodes like `QQ==` under StdEncoding but is not canonical
example : B64.decodeOk [81, 82, 61, 61] = some [65] ∧ B64.decode true [81, 82, 61, 61] = ([], true) := by decide

-- configuration path, mixed sources. `fu`/`fp` from the file, `qu`/`qp` from QRYN_*, `cp` from CLOKI_PASSWORD
section cfgExamples
open Qryn.Http.AuthConfig
def fu : Bytes := [102, 117]
def fp : Bytes := [102, 112]
def qu : Bytes := [113, 117]
def qp : Bytes := [113, 112]
def cp : Bytes := [99, 112]
/-- file username + QRYN_PASSWORD -/
def envA : Env := Env.ofList [("QRYN_PASSWORD", some qp)]
/-- QRYN_LOGIN + CLOKI_PASSWORD, QRYN_PASSWORD set but empty -/
def envB : Env := Env.ofList [("QRYN_LOGIN", some qu), ("CLOKI_PASSWORD", some cp), ("QRYN_PASSWORD", some [])]
example : installedCreds envA ⟨fu, []⟩ = some (fu, qp) := by decide
example : installedCreds envB ⟨[], []⟩ = some (qu, cp) := by decide
-- CLOKI_* wins over QRYN_* wins over the file
example : installedCreds (Env.ofList [("QRYN_LOGIN", some qu), ("CLOKI_LOGIN", some fu)]) ⟨qp, fp⟩ = some (fu, fp) := by decide
-- only a login anywhere: not installed; nothing anywhere: not installed; empty-but-set does not count
example : installedCreds (Env.ofList [("QRYN_LOGIN", some qu)]) ⟨[], []⟩ = none := by decide
example : installedCreds (Env.ofList [("QRYN_LOGIN", some qu), ("QRYN_PASSWORD", some [])]) ⟨[], []⟩ = none := by decide
-- the hypotheses of `configured_end_to_end` are satisfiable with mixed sources
example : supplied .user envA ⟨fu, []⟩ ∧ supplied .pass envA ⟨fu, []⟩ :=
  ⟨.inl (by decide), .inr ⟨"QRYN_PASSWORD", by decide, by decide⟩⟩
example : supplied .user envB ⟨[], []⟩ ∧ supplied .pass envB ⟨[], []⟩ :=
  ⟨.inr ⟨"QRYN_LOGIN", by decide, by decide⟩, .inr ⟨"CLOKI_PASSWORD", by decide, by decide⟩⟩
-- end to end on the extracted table: file username + QRYN_PASSWORD → /ready without credentials 401, nothing ran;
-- with fu:qp (ZnU6cXA=) the handler runs; with the FILE's would-be pair fu:fp (ZnU6ZnA=) 401
def R1 : Router :=
  ⟨tableOf Qryn.Gen.Routes.routes hOK, mainChain (installedCreds envA ⟨fu, []⟩) [gzipMw id [], loggingMw], fun _ => true⟩
example : ((serve R1 (rq "GET" ready none)).status, (serve R1 (rq "GET" ready none)).effects) = (401, []) := by decide
example : (serve R1 (rq "GET" ready (some (basicWord ++ sp :: [90, 110, 85, 54, 99, 88, 65, 61])))).effects =
    [.handler 0, .backend 0] := by decide
example : (serve R1 (rq "GET" ready (some (basicWord ++ sp :: [90, 110, 85, 54, 90, 110, 65, 61])))).status = 401 := by decide
-- modes: MODE=reader has no ingest route, MODE=writer no query route, an unknown mode only the common routes
example : ((routesIn Qryn.Gen.Exposure.modeGuards "reader" Qryn.Gen.Routes.routes).any (·.tpl == "/loki/api/v1/push"),
           (routesIn Qryn.Gen.Exposure.modeGuards "writer" Qryn.Gen.Routes.routes).any (·.tpl == "/loki/api/v1/push"),
           (routesIn Qryn.Gen.Exposure.modeGuards "writer" Qryn.Gen.Routes.routes).any (·.tpl == "/loki/api/v1/labels"),
           (routesIn Qryn.Gen.Exposure.modeGuards "gateway" Qryn.Gen.Routes.routes).map (·.tpl),
           routesIn Qryn.Gen.Exposure.modeGuards "all" Qryn.Gen.Routes.routes == Qryn.Gen.Routes.routes) =
    (false, true, false, ["/ready", "/config", "/metrics", "/api/status/buildinfo"], true) := by decide +kernel
end cfgExamples
end examples

end Qryn.C20
