import Qryn.Proofs.BatcherRect
import Qryn.Proofs.PromDecoder
import Qryn.Proofs.BatcherLocks
import Qryn.Gen.Inserts
import Qryn.Gen.BatcherLocks
/-! # C02 — every INSERT block is rectangular and made only of whole submitted rows

Property theorems only. Model: `Qryn.Ingest.Batcher` with concrete columns. Each `ProcessRequest` closure of
`writer/service/impl/*.go` is a *plan*: the statements of its body in source order, each appending one
request field to one column (`PStep`). `Gen.Inserts` is regenerated from the Go source on every run
(INSERT column lists, acquirer order, asserted payload type, statements, counted column, and the handler
wiring); the theorems below are stated for the regenerated plans. -/
namespace Qryn.C02
open Qryn.Ingest Qryn.Ingest.Batcher

/-- **plans_eq_gen.** The plans the model (and the driver) executes are the ones the source has now. -/
theorem plans_eq_gen (k : Kind) : planOf k = Gen.Inserts.planOf k := by cases k <;> decide

/-- **insert_cols_eq_acquired.** In every service the column list of the INSERT statement is the list of
    acquired columns in `serialize()/toIFace()` order (ch-go matches the `proto.Input` to the statement by
    position and name). -/
theorem insert_cols_eq_acquired (k : Kind) :
    (Gen.Inserts.planOf k).insertCols = (Gen.Inserts.planOf k).acquired := by cases k <;> decide

/-- every acquired column is appended to by exactly one statement, no statement targets a column that is
    not acquired, and the counted column is acquired — for the regenerated plans -/
theorem plans_ok (k : Kind) : planOK (Gen.Inserts.planOf k) = true := by cases k <;> decide

/-- **process_rect.** For every service: if the open columns are rectangular (`m` values each) and the
    request is rectangular with `n` rows (all per-row arrays of length `n`; a profile payload is one row)
    and of the asserted Go type, then `ProcessRequest` succeeds, returns `inserted = n`, leaves the columns
    rectangular with `m + n` values each, and every column received exactly the values the request holds
    for it — so row `m + i` of the block is row `i` of the request, field by field. -/
theorem process_rect (k : Kind) (r : Req) (n m : Nat) (cs : Columns)
    (hty : r.ptype = (Gen.Inserts.planOf k).ptype) (hr : ReqRect (Gen.Inserts.planOf k) r n)
    (hc : RectCols (Gen.Inserts.planOf k) cs m) :
    ∃ cs', processRequest (Gen.Inserts.planOf k) r (some cs) = .ok ⟨n, some cs', false⟩ ∧
      RectCols (Gen.Inserts.planOf k) cs' (m + n) ∧
      ∀ name ∈ (Gen.Inserts.planOf k).acquired,
        colData cs' name = colData cs name ++ contrib (Gen.Inserts.planOf k) r name :=
  processRequest_rect (plans_ok k) hty hr hc

/-- row form of `process_rect`: value `i` of the request in a column is value `m + i` of that column -/
theorem process_rect_rows (k : Kind) (r : Req) (n m : Nat) (cs cs' : Columns)
    (hc : RectCols (Gen.Inserts.planOf k) cs m)
    (h : ∀ name ∈ (Gen.Inserts.planOf k).acquired,
        colData cs' name = colData cs name ++ contrib (Gen.Inserts.planOf k) r name)
    (name : String) (hn : name ∈ (Gen.Inserts.planOf k).acquired) (i : Nat) :
    (colData cs' name)[m + i]? = (contrib (Gen.Inserts.planOf k) r name)[i]? := by
  rw [h name hn, List.getElem?_append_right (by rw [hc.2 name hn]; omega), hc.2 name hn]
  simp

/-- **block_is_concat.** For every service and every interleaving of (well-typed, rectangular) requests
    with triggers, connects, swaps, `Do` outcomes, pings and stops over any number of parallel
    sub-services: every block handed to `client.Do` has exactly the acquired columns, and each column is
    the concatenation — in the order of the promises the block resolves — of what those requests submitted
    for that column. Nothing of another request, nothing twice, nothing missing, no interleaving. -/
theorem block_is_concat (k : Kind) (maxQueue svcNum : Nat) (R : ReqId → Req) (ops : List SysOp)
    (hG : ∀ op ∈ ops, GoodSysOp (Gen.Inserts.planOf k) R op) :
    ∀ b w o, Event.insert b w o ∈ ((Multi.init (Gen.Inserts.planOf k) maxQueue svcNum).run ops).2 →
      BlockIsConcat (Gen.Inserts.planOf k) R b w := by
  intro b w o h
  exact ((multi_run_concat (plans_ok k) ops _ (multi_cinit maxQueue svcNum) hG).2 b w o h).1

/-- **block_rect.** Under the same hypotheses every block is rectangular: every column holds as many
    values as the resolved requests have rows in total. -/
theorem block_rect (k : Kind) (maxQueue svcNum : Nat) (R : ReqId → Req) (ops : List SysOp)
    (hG : ∀ op ∈ ops, GoodSysOp (Gen.Inserts.planOf k) R op) :
    ∀ b w o, Event.insert b w o ∈ ((Multi.init (Gen.Inserts.planOf k) maxQueue svcNum).run ops).2 →
      RectCols (Gen.Inserts.planOf k) b
        ((w.map (fun id => (contrib (Gen.Inserts.planOf k) (R id) (Gen.Inserts.planOf k).countCol).length)).sum) := by
  intro b w o h
  exact goodBlock_rect (plans_ok k) ((multi_run_concat (plans_ok k) ops _ (multi_cinit maxQueue svcNum) hG).2 b w o h)

/-- **no_nil_columns (service side).** The `return 0, nil, err` branch of `ProcessRequest` — which makes
    `Request` store nil columns, after which the next request or flush faults — is not taken, and no fault
    occurs, as long as every request has the Go type the service asserts and rectangular arrays: the shared
    columns are never nil and the sub-service never crashes. -/
theorem no_nil_columns (k : Kind) (maxQueue : Nat) (R : ReqId → Req) (ops : List Op)
    (hG : ∀ op ∈ ops, GoodOp (Gen.Inserts.planOf k) R op) :
    (run (Svc.init (Gen.Inserts.planOf k) maxQueue) ops).1.cols ≠ none ∧
    (run (Svc.init (Gen.Inserts.planOf k) maxQueue) ops).1.crashed = false := by
  obtain ⟨_, hcr, ⟨cs, hc, _⟩, _⟩ := (run_concat (plans_ok k) ops _ (cinit maxQueue) hG).1
  exact ⟨by rw [hc]; simp, hcr⟩

/-- the Go type `doParse` hands to the service bound to each response field, following the regenerated
    wiring: response field → context key (`doParse`) → registry getter (middleware) → constructor
    (registry, plugin, factory) → service kind → asserted type -/
def assertedTypeFor (field : String) : Option PType := do
  let key ← Gen.Inserts.pairings.lookup field
  let getter ← Gen.Inserts.ctxServices.lookup key
  let ctor ← Gen.Inserts.getterCtor.lookup getter
  let kind ← Gen.Inserts.ctorKind.lookup ctor
  pure (Gen.Inserts.planOf kind).ptype

/-- **no_nil_columns (wiring side).** Every parser-response field is pushed to a service whose
    `ProcessRequest` asserts exactly the Go type the parser builder stores in that field, and all five
    fields are wired. -/
theorem wiring_typed :
    Gen.Inserts.pairings.map (·.1) = ["TimeSeriesRequest", "SamplesRequest", "SpansAttrsRequest", "SpansRequest", "ProfileRequest"] ∧
    ∀ f ∈ Gen.Inserts.pairings.map (·.1), assertedTypeFor f = Gen.Inserts.fieldTypes.lookup f ∧ (assertedTypeFor f).isSome = true := by
  decide

/-- **parser_rect (Prometheus remote write).** Whatever the series, the flush limit and the carried-over
    point counter, every `onEntries` call of `promMetricsProtoDec.Decode` passes a type array as long as
    its sample arrays … -/
theorem parser_rect_prom_calls (limit : Nat) (series : List (List Cell)) (points : Nat) :
    ∀ c ∈ PromDecoder.decode limit true series points, c.types = c.rows.length :=
  PromDecoder.decode_rect limit series points

/-- … hence every samples request accumulated from any run of those calls is rectangular. -/
theorem parser_rect_prom (limit : Nat) (series : List (List Cell)) (id : ReqId) (fp ty : Cell) :
    GoodReq (Gen.Inserts.planOf .samples)
      (PromDecoder.reqOfCalls id fp ty (PromDecoder.decode limit true series 0)) := by
  rw [← plans_eq_gen]
  exact ⟨rfl, _, PromDecoder.reqOfCalls_rect id fp ty _ (PromDecoder.decode_rect limit series 0)⟩

/-- the pinned code (type array sized by the whole series at a mid-series flush) is *not* rectangular:
    one series of 3 samples with flush limit 2 gives a call with 2 samples and 3 types (with the real limit
    1000: 1 series × 1001 samples → 1001 timestamps, 1002 types; fixed in /repo, see KNOWN_FINDINGS) -/
theorem parser_rect_prom_pinned_counterexample :
    ¬ ∀ c ∈ PromDecoder.decode 2 false [[1, 2, 3]] 0, c.types = c.rows.length := by decide


/-! ## "code under one hold of `svc.mtx` is one atomic step": tied to the source, and what it is worth

`Gen.BatcherLocks` is regenerated from `writer/service/genericInsertService.go`: every method of `*InsertServiceV2` as
its sequence of lock holds / free stretches with the fields touched in each, and `swapBuffers`, `Request`,
`fetchLoopIteration` statement by statement. Model of the finer grain: `Qryn.Ingest.BatcherLocks` (`MSvc`, `mrun`):
`swapBuffers` runs hold by hold, requests and triggers of other goroutines come in between two holds. -/
section locks
open Qryn.Ingest.BatcherLocks

/-- **locks_atomic** (decided on the regenerated facts). No method touches `columns`/`results`/`size` outside a
    hold; `swapBuffers` and `Request` each touch them in exactly ONE hold that writes all three; `swapBuffers` renews
    the insert context, returns early on an empty batch and takes-and-replaces columns, size and results inside that
    one hold, its other holds (none today) touching nothing the model knows; `Request` is, statement by statement,
    what `stepRequest` mirrors: the stopped check outside the lock, then one hold with `processRequest` into
    `svc.columns`, the immediate completion, the size booking, the size trigger and the promise booking. -/
theorem locks_atomic :
    atomicSwap Gen.BatcherLocks.methods Gen.BatcherLocks.swapProgram Gen.BatcherLocks.requestProgram = true := by
  decide

/-- `fetchLoopIteration` has, in this order, the effects `stepConnect`/`stepSwap`/`stepDoResult` mirror: connect when
    there is no client (return on failure), swap, return when there is no portion, `OnBeforeInsert`, copy of the
    waiting promises, input built from the portion's columns, `Do`, release of exactly these promises with `Do`'s
    error, client dropped on error -/
theorem iteration_as_modelled : Gen.BatcherLocks.iterationProgram = iterationAsModelled := by decide

theorem swap_program_atomic : atomicProg Gen.BatcherLocks.swapProgram = true := by decide

/-- **swap_hold_by_hold_refines.** For EVERY `swapBuffers` program whose swap sits in one hold (whatever else is
    split off into further holds before or after it), every run of the hold-by-hold machine — any number of
    requests and flush triggers interleaved anywhere between the holds of any number of flushes, with any connect
    and `Do` outcomes, pings and stops — produces exactly the events of the run `absRun` of the atomic machine
    (same requests in the same order, one `swap` per completed swap). So every trace property of `Ingest.Batcher`
    holds of the finer-grained machine. -/
theorem swap_hold_by_hold_refines (prog : List (List Move)) (h : atomicProg prog = true) (p : Plan) (maxQueue : Nat)
    (ops : List MOp) :
    (mrun prog (MSvc.init p maxQueue) ops).2 = (run (Svc.init p maxQueue) (absRun prog (MSvc.init p maxQueue) ops)).2 :=
  (mrun_refines (shape_of_atomic prog h) ops _ _ (Rel.idle _)).1

/-- **block_is_concat, hold by hold**: for the regenerated `swapBuffers` program and the regenerated plans, every
    block of every hold-by-hold run is the column-wise concatenation, in promise order, of what the requests it
    resolves submitted. -/
theorem block_is_concat_locks (k : Kind) (maxQueue : Nat) (R : ReqId → Req) (ops : List MOp)
    (hG : ∀ op ∈ ops, MGoodOp (Gen.Inserts.planOf k) R op) :
    ∀ b w o, Event.insert b w o ∈ (mrun Gen.BatcherLocks.swapProgram (MSvc.init (Gen.Inserts.planOf k) maxQueue) ops).2 →
      BlockIsConcat (Gen.Inserts.planOf k) R b w := by
  intro b w o h
  rw [swap_hold_by_hold_refines _ swap_program_atomic] at h
  exact ((run_concat (plans_ok k) _ _ (cinit maxQueue) (absRun_good ops _ hG)).2 b w o h).1

/-- the program of seeded change C02-1: results and size are taken in a first hold, the columns in a second one -/
def splitProgram : List (List Move) := [[.renew, .checkEmpty, .other, .takeSize, .takeResults], [.takeCols]]

def splitReq (id : ReqId) (v : Nat) : Req :=
  { id := id, ptype := .timeSamplesData, size := 30,
    arrays := [("MTimestampNS", [v]), ("MFingerprint", [v + 1]), ("MType", [v + 2]), ("MValue", [v + 3]), ("MMessage", [v + 4])] }

/-- request 1 is queued, the flusher takes the first hold, request 2 arrives, the flusher takes the second hold; the
    INSERT fails; next flush, the INSERT succeeds -/
def splitOps : List MOp :=
  [.request (splitReq 1 10), .trigger .timer, .connect true, .hold, .request (splitReq 2 20), .hold, .doResult .err,
   .trigger .timer, .connect true, .hold, .hold, .doResult .ok]

/-- **two_hold_split_counterexample** (kernel-checked). With `swapBuffers` split into two holds the rows of request
    2 travel in the block whose outcome goes to request 1 only, and request 2 is resolved by the next — empty —
    block: the first block is not the concatenation of what it resolves, and request 2 is acknowledged although
    the only INSERT that carried its rows failed. The split program is rejected by `atomicProg`. -/
theorem two_hold_split_counterexample :
    atomicProg splitProgram = false ∧
    (mrun splitProgram (MSvc.init samplesPlan 0) splitOps).2 =
      [.insert [("type", [12, 22]), ("fingerprint", [11, 21]), ("timestamp_ns", [10, 20]), ("string", [14, 24]), ("value", [13, 23])] [1] .err,
       .resolved 1 .err,
       .insert [("type", []), ("fingerprint", []), ("timestamp_ns", []), ("string", []), ("value", [])] [2] .ok,
       .resolved 2 .ok] ∧
    ¬ BlockIsConcat samplesPlan (fun id => splitReq id (10 * id))
        [("type", [12, 22]), ("fingerprint", [11, 21]), ("timestamp_ns", [10, 20]), ("string", [14, 24]), ("value", [13, 23])] [1] := by
  refine ⟨by decide, by decide, ?_⟩
  intro h
  have := h.2 "type" (by decide)
  revert this
  decide

/-- the same run on the pinned program: request 2 waits for the swap, rides in the second block -/
example :
    (mrun Gen.BatcherLocks.swapProgram (MSvc.init samplesPlan 0)
        [.request (splitReq 1 10), .trigger .timer, .connect true, .hold, .request (splitReq 2 20), .hold, .doResult .err,
         .trigger .timer, .connect true, .hold, .hold, .doResult .ok]).2 =
      [.insert [("type", [12]), ("fingerprint", [11]), ("timestamp_ns", [10]), ("string", [14]), ("value", [13])] [1] .err,
       .resolved 1 .err,
       .insert [("type", [22]), ("fingerprint", [21]), ("timestamp_ns", [20]), ("string", [24]), ("value", [23])] [2] .ok,
       .resolved 2 .ok] := by
  decide

/-- a three-hold program that keeps the swap in one hold is accepted (non-vacuity of `swap_hold_by_hold_refines`
    beyond the one-hold case) -/
example : atomicProg [[.other], [.renew, .checkEmpty, .takeResults, .other, .takeCols, .takeSize], [.other, .other]] = true := by
  decide

end locks

/-! ## the model mirrors Go column by column: non-rectangular input gives non-rectangular columns -/

/-- a samples request with 2 timestamps and 1 value leaves the open columns non-rectangular (the service
    does not check) — this is why `parser_rect` matters -/
example :
    let r : Req := { id := 1, ptype := .timeSamplesData,
                     arrays := [("MTimestampNS", [1, 2]), ("MFingerprint", [3, 4]), ("MType", [5, 6]), ("MValue", [7]), ("MMessage", [8, 9])] }
    (processRequest_samples r (some (acquire samplesPlan))).toOption =
      some ⟨2, some [("type", [5, 6]), ("fingerprint", [3, 4]), ("timestamp_ns", [1, 2]), ("string", [8, 9]), ("value", [7])], false⟩ := by
  decide

/-- an empty profile payload (no `onProfile` call) appends one row to each array column and none to the
    scalar ones, and is acknowledged at once (`inserted == 0`) -/
example :
    ((processRequest_profile { id := 1, ptype := .profileData } (some (acquire profilePlan))).toOption.map
        (fun r => (r.inserted, r.cols.map (fun cs => ((colData cs "tags").length, (colData cs "timestamp_ns").length)))))
      = some (0, some (1, 0)) := by
  decide

/-- non-vacuity of `block_is_concat`: two rectangular requests, one block, concatenated in promise order -/
example :
    let r1 : Req := { id := 1, ptype := .timeSamplesData, size := 30,
                      arrays := [("MTimestampNS", [10]), ("MFingerprint", [11]), ("MType", [12]), ("MValue", [13]), ("MMessage", [14])] }
    let r2 : Req := { id := 2, ptype := .timeSamplesData, size := 60,
                      arrays := [("MTimestampNS", [20, 30]), ("MFingerprint", [21, 31]), ("MType", [22, 32]), ("MValue", [23, 33]), ("MMessage", [24, 34])] }
    ((Multi.init samplesPlan 0 1).run [.request .sync 0 r1, .request .sync 0 r2, .planFlush, .sub 0 (.connect true), .sub 0 .swap,
                                       .sub 0 (.doResult .ok)]).2
      = [.insert [("type", [12, 22, 32]), ("fingerprint", [11, 21, 31]), ("timestamp_ns", [10, 20, 30]), ("string", [14, 24, 34]),
                  ("value", [13, 23, 33])] [1, 2] .ok, .resolved 1 .ok, .resolved 2 .ok] := by
  decide

end Qryn.C02
