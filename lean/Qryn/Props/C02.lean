import Qryn.Proofs.BatcherRect
import Qryn.Proofs.PromDecoder
import Qryn.Proofs.BatcherLocks
import Qryn.Gen.Inserts
import Qryn.Gen.BatcherLocks
import Qryn.Proofs.HandoffCompose
import Qryn.Gen.ChunkReset
import Qryn.Gen.RequestCopy
import Qryn.Proofs.BatcherAlias
import Qryn.Gen.BatcherAlias
/-! # C02 — every INSERT block is rectangular and made only of whole submitted rows

Property theorems only. Model: `Qryn.Ingest.Batcher` with concrete columns. Each `ProcessRequest` closure of
`writer/service/impl/*.go` is a *plan*: the statements of its body in source order, each appending one
request field to one column (`PStep`). `Gen.Inserts` is regenerated from the Go source on every run
(INSERT column lists, acquirer order, asserted payload type, statements, counted column, and the handler
wiring); the theorems below are stated for the regenerated plans. -/
namespace Qryn.C02
open Qryn.Ingest Qryn.Ingest.Batcher

/-- **plans_eq_gen.** The plans the model (and the driver) executes are the ones the source has now. -/
theorem plans_eq_gen (k : Kind) : planOf k = Gen.Inserts.planOf k := by cases k <;> decide

/-- **insert_cols_eq_acquired.** In every service the column list of the INSERT statement is the list of
    acquired columns in `serialize()/toIFace()` order (ch-go matches the `proto.Input` to the statement by
    position and name). -/
theorem insert_cols_eq_acquired (k : Kind) :
    (Gen.Inserts.planOf k).insertCols = (Gen.Inserts.planOf k).acquired := by cases k <;> decide

/-- every acquired column is appended to by exactly one statement, no statement targets a column that is
    not acquired, and the counted column is acquired — for the regenerated plans -/
theorem plans_ok (k : Kind) : planOK (Gen.Inserts.planOf k) = true := by cases k <;> decide

/-- **process_rect.** For every service: if the open columns are rectangular (`m` values each) and the
    request is rectangular with `n` rows (all per-row arrays of length `n`; a profile payload is one row)
    and of the asserted Go type, then `ProcessRequest` succeeds, returns `inserted = n`, leaves the columns
    rectangular with `m + n` values each, and every column received exactly the values the request holds
    for it — so row `m + i` of the block is row `i` of the request, field by field. -/
theorem process_rect (k : Kind) (r : Req) (n m : Nat) (cs : Columns)
    (hty : r.ptype = (Gen.Inserts.planOf k).ptype) (hr : ReqRect (Gen.Inserts.planOf k) r n)
    (hc : RectCols (Gen.Inserts.planOf k) cs m) :
    ∃ cs', processRequest (Gen.Inserts.planOf k) r (some cs) = .ok ⟨n, some cs', false⟩ ∧
      RectCols (Gen.Inserts.planOf k) cs' (m + n) ∧
      ∀ name ∈ (Gen.Inserts.planOf k).acquired,
        colData cs' name = colData cs name ++ contrib (Gen.Inserts.planOf k) r name :=
  processRequest_rect (plans_ok k) hty hr hc

/-- row form of `process_rect`: value `i` of the request in a column is value `m + i` of that column -/
theorem process_rect_rows (k : Kind) (r : Req) (n m : Nat) (cs cs' : Columns)
    (hc : RectCols (Gen.Inserts.planOf k) cs m)
    (h : ∀ name ∈ (Gen.Inserts.planOf k).acquired,
        colData cs' name = colData cs name ++ contrib (Gen.Inserts.planOf k) r name)
    (name : String) (hn : name ∈ (Gen.Inserts.planOf k).acquired) (i : Nat) :
    (colData cs' name)[m + i]? = (contrib (Gen.Inserts.planOf k) r name)[i]? := by
  rw [h name hn, List.getElem?_append_right (by rw [hc.2 name hn]; omega), hc.2 name hn]
  simp

/-- **block_is_concat.** For every service and every interleaving of (well-typed, rectangular) requests
    with triggers, connects, swaps, `Do` outcomes, pings and stops over any number of parallel
    sub-services: every block handed to `client.Do` has exactly the acquired columns, and each column is
    the concatenation — in the order of the promises the block resolves — of what those requests submitted
    for that column. Nothing of another request, nothing twice, nothing missing, no interleaving. -/
theorem block_is_concat (k : Kind) (maxQueue svcNum : Nat) (R : ReqId → Req) (ops : List SysOp)
    (hG : ∀ op ∈ ops, GoodSysOp (Gen.Inserts.planOf k) R op) :
    ∀ b w o, Event.insert b w o ∈ ((Multi.init (Gen.Inserts.planOf k) maxQueue svcNum).run ops).2 →
      BlockIsConcat (Gen.Inserts.planOf k) R b w := by
  intro b w o h
  exact ((multi_run_concat (plans_ok k) ops _ (multi_cinit maxQueue svcNum) hG).2 b w o h).1

/-- **block_rect.** Under the same hypotheses every block is rectangular: every column holds as many
    values as the resolved requests have rows in total. -/
theorem block_rect (k : Kind) (maxQueue svcNum : Nat) (R : ReqId → Req) (ops : List SysOp)
    (hG : ∀ op ∈ ops, GoodSysOp (Gen.Inserts.planOf k) R op) :
    ∀ b w o, Event.insert b w o ∈ ((Multi.init (Gen.Inserts.planOf k) maxQueue svcNum).run ops).2 →
      RectCols (Gen.Inserts.planOf k) b
        ((w.map (fun id => (contrib (Gen.Inserts.planOf k) (R id) (Gen.Inserts.planOf k).countCol).length)).sum) := by
  intro b w o h
  exact goodBlock_rect (plans_ok k) ((multi_run_concat (plans_ok k) ops _ (multi_cinit maxQueue svcNum) hG).2 b w o h)

/-- **no_nil_columns (service side).** The `return 0, nil, err` branch of `ProcessRequest` — which makes
    `Request` store nil columns, after which the next request or flush faults — is not taken, and no fault
    occurs, as long as every request has the Go type the service asserts and rectangular arrays: the shared
    columns are never nil and the sub-service never crashes. -/
theorem no_nil_columns (k : Kind) (maxQueue : Nat) (R : ReqId → Req) (ops : List Op)
    (hG : ∀ op ∈ ops, GoodOp (Gen.Inserts.planOf k) R op) :
    (run (Svc.init (Gen.Inserts.planOf k) maxQueue) ops).1.cols ≠ none ∧
    (run (Svc.init (Gen.Inserts.planOf k) maxQueue) ops).1.crashed = false := by
  obtain ⟨_, hcr, ⟨cs, hc, _⟩, _⟩ := (run_concat (plans_ok k) ops _ (cinit maxQueue) hG).1
  exact ⟨by rw [hc]; simp, hcr⟩

/-- the Go type `doParse` hands to the service bound to each response field, following the regenerated
    wiring: response field → context key (`doParse`) → registry getter (middleware) → constructor
    (registry, plugin, factory) → service kind → asserted type -/
def assertedTypeFor (field : String) : Option PType := do
  let key ← Gen.Inserts.pairings.lookup field
  let getter ← Gen.Inserts.ctxServices.lookup key
  let ctor ← Gen.Inserts.getterCtor.lookup getter
  let kind ← Gen.Inserts.ctorKind.lookup ctor
  pure (Gen.Inserts.planOf kind).ptype

/-- **no_nil_columns (wiring side).** Every parser-response field is pushed to a service whose
    `ProcessRequest` asserts exactly the Go type the parser builder stores in that field, and all five
    fields are wired. -/
theorem wiring_typed :
    Gen.Inserts.pairings.map (·.1) = ["TimeSeriesRequest", "SamplesRequest", "SpansAttrsRequest", "SpansRequest", "ProfileRequest"] ∧
    ∀ f ∈ Gen.Inserts.pairings.map (·.1), assertedTypeFor f = Gen.Inserts.fieldTypes.lookup f ∧ (assertedTypeFor f).isSome = true := by
  decide

/-! ## The hand-off: from the parser's chunk buffers to `svc.Request(obj)`

`block_is_concat` speaks of the payload `R id` a `Request` call *receives*. In Go that payload is a pointer
the parser goroutine made, sent over the response channel, and `doPush` submits it later — after the parser
has moved on to the next chunk — and again after every failed INSERT. `Ingest.Handoff` models this with an
explicit heap (request objects hold slice headers into backing arrays); the theorems below close the gap
between "the rows of a chunk as parsed" and "the rows a submission appends". -/

/-- **chunk_reset_fresh** (regenerated from `shared.go` / `builder.go`). For each of the five request types,
    the reset that follows a flush makes a NEW object (`&model.T{…}`) and every per-row array of it is
    fresh (`make`, `nil`, left out): nothing of the object just handed off is reachable from the parser. -/
theorem chunk_reset_fresh (pt : PType) : (Gen.ChunkReset.cfgOf pt).disciplined = true := by
  cases pt <;> decide

/-- every place that sends request objects either resets all of them right afterwards or closes the
    channel (nothing is parsed any more); and there is such a place -/
theorem flush_then_reset :
    Gen.ChunkReset.flushSites.all Handoff.FlushSite.ok = true ∧ Gen.ChunkReset.flushSites ≠ [] := by decide

/-- what the model's object holds is what the code writes and what the services read: every write through
    a current-chunk pointer is an `append` to / assignment of one of the regenerated per-row fields of that
    type, or `Size` accounting; every field a `ProcessRequest` plan reads is one of those fields -/
theorem chunk_fields_cover :
    (Gen.ChunkReset.writes.all (fun w =>
      w.2.2.2 == "size" ||
      ((w.2.2.2 == "append" || w.2.2.2 == "assign") &&
        [Gen.ChunkReset.timeSeriesData, Gen.ChunkReset.timeSamplesData, Gen.ChunkReset.tempoSamples,
         Gen.ChunkReset.tempoTag, Gen.ChunkReset.profileData].any (fun c => (c.fields.map (·.1)).contains w.2.2.1))) = true) ∧
    ∀ k : Kind, ((Gen.Inserts.planOf k).steps.all (fun st =>
      ((Gen.ChunkReset.cfgOf (Gen.Inserts.planOf k).ptype).fields.map (·.1)).contains
        (match st with | .arr _ f => f | .zip _ f _ => f | .one _ f => f)) = true) := by
  refine ⟨by decide, fun k => by cases k <;> decide⟩

/-- **request_copies** (regenerated from `genericInsertService.go`, `colAdaptors.go`, `helper.go`).
    `InsertServiceV2.Request` uses `req` for `GetSize()` and for ONE synchronous `processRequest(req, columns)`
    call under the lock and nowhere else; the round-robin and multimodal wrappers only pass it on; every
    adaptor that receives request data appends element by element or by `append(col, arr...)` — so after
    `Request` returns the service holds copies, no reference into the request's arrays (the ch-go `Append`
    methods themselves are trusted base). -/
theorem request_copies :
    Gen.RequestCopy.requestUses.lookup "InsertServiceV2" = some ["getSize", "process"] ∧
    (Gen.RequestCopy.requestUses.all (fun u => u.1 == "InsertServiceV2" || u.2.all (· == "forward")) = true) ∧
    (Gen.RequestCopy.adaptors.all (fun a => ["spread", "rangeAppend", "fieldAppend"].contains a.2) = true) := by decide

/-- **handoff_frozen.** If every reset allocates a new object with fresh arrays, then for every schedule —
    any interleaving of parser appends (in place or re-allocating), flushes, resets, `doPush` submissions,
    promise results and retries, any number of chunks — every object that was handed off reads, in the
    state reached, exactly as the rows it held when it was sent. (So a `Request` whose reads of the arrays
    are spread over several steps sees the same rows as an atomic one.) -/
theorem handoff_frozen (cfg : Handoff.Cfg) (hd : cfg.disciplined = true) (attempts : Nat) (ops : List Handoff.HOp) :
    ∀ c ∈ (Handoff.run cfg attempts ops).chunks,
      Handoff.readRows (Handoff.run cfg attempts ops).heap ((Handoff.run cfg attempts ops).objs c.obj) = c.rows :=
  Handoff.frozen hd attempts ops

/-- **handoff_immutable.** Under the same discipline, for every schedule, every `svc.Request(obj)` call —
    first attempt or retry, however late — hands the service exactly the rows of its chunk as parsed. -/
theorem handoff_immutable (cfg : Handoff.Cfg) (hd : cfg.disciplined = true) (attempts : Nat) (ops : List Handoff.HOp) :
    ∀ sub ∈ (Handoff.run cfg attempts ops).subs,
      (∃ c, (Handoff.run cfg attempts ops).chunks[sub.chunk]? = some c) ∧
      sub.read = (Handoff.run cfg attempts ops).chunkOf sub :=
  Handoff.immutable hd attempts ops

/-- the same for the code as it is now (the regenerated reset facts) -/
theorem handoff_immutable_gen (pt : PType) (attempts : Nat) (ops : List Handoff.HOp) :
    ∀ sub ∈ (Handoff.run (Gen.ChunkReset.cfgOf pt) attempts ops).subs,
      sub.read = (Handoff.run (Gen.ChunkReset.cfgOf pt) attempts ops).chunkOf sub :=
  fun sub h => (Handoff.immutable (chunk_reset_fresh pt) attempts ops sub h).2

/-- **handoff_block_is_concat** — `block_is_concat` from the parsed chunks on. For every service, every
    hand-off schedule `hops` of the parser/doPush side (with the regenerated reset behaviour) whose chunks
    are rectangular as parsed (C03 `chunks_rectangular`; one append per column per span), and every
    schedule `ops` of the insert service whose `Request` calls are submissions made in `hops` (any order,
    any sub-service): every block handed to `client.Do` is, column by column, the concatenation in promise
    order of the rows AS PARSED of the chunks whose submissions it resolves. -/
theorem handoff_block_is_concat (k : Kind) (attempts : Nat) (hops : List Handoff.HOp)
    (hrect : ∀ c ∈ (Handoff.run (Gen.ChunkReset.cfgOf (Gen.Inserts.planOf k).ptype) attempts hops).chunks,
      ∀ id, GoodReq (Gen.Inserts.planOf k) (Handoff.reqOfRows (Gen.Inserts.planOf k).ptype id c.rows))
    (maxQueue svcNum : Nat) (ops : List SysOp)
    (hreq : ∀ op ∈ ops, match op with
      | .request _ _ r => ∃ sub ∈ (Handoff.run (Gen.ChunkReset.cfgOf (Gen.Inserts.planOf k).ptype) attempts hops).subs,
          r = sub.req (Gen.Inserts.planOf k).ptype
      | _ => True) :
    ∀ b w o, Event.insert b w o ∈ ((Multi.init (Gen.Inserts.planOf k) maxQueue svcNum).run ops).2 →
      BlockIsConcat (Gen.Inserts.planOf k)
        ((Handoff.run (Gen.ChunkReset.cfgOf (Gen.Inserts.planOf k).ptype) attempts hops).parsedReq (Gen.Inserts.planOf k).ptype) b w :=
  Handoff.compose (plans_ok k) (chunk_reset_fresh _) attempts hops hrect maxQueue svcNum ops hreq

/-- a reset that re-slices the previous chunk's arrays (`old.F[:0]`) for four of the six sample fields, as an
    "allocation optimisation" would -/
def resliceCfg : Handoff.Cfg :=
  { obj := .newObj
    fields := [("MFingerprint", .reslice), ("MTimestampNS", .reslice), ("MMessage", .reslice), ("MValue", .reslice),
               ("MTTLDays", .fresh), ("MType", .fresh)] }

def appendRow (ts fp ty v m : Cell) : List Handoff.HOp :=
  [.append "MMessage" [m] false, .append "MValue" [v] false, .append "MTimestampNS" [ts] false,
   .append "MFingerprint" [fp] false, .append "MTTLDays" [0] false, .append "MType" [ty] false]

/-- two chunks (rows A, B | row C); chunk 2 is submitted at once, chunk 1 only after chunk 2 was parsed -/
def lateSubmission : List Handoff.HOp :=
  appendRow 10 11 12 13 14 ++ appendRow 20 21 22 23 24 ++ [.flush, .reset] ++ appendRow 30 31 32 33 34 ++
  [.flush, .reset, .submit 1, .submit 0]

/-- **handoff_reslice_counterexample.** With the re-slicing reset the late submission of chunk 1 does not
    append the rows of chunk 1: its first row has timestamp/fingerprint/string/value of row C and the type
    of row A. -/
theorem handoff_reslice_counterexample :
    ¬ ∀ sub ∈ (Handoff.run resliceCfg 2 lateSubmission).subs,
        sub.read = (Handoff.run resliceCfg 2 lateSubmission).chunkOf sub := by decide

/-- … and the samples block built from those two submissions holds a row that was never submitted
    (`type 12` of row A with `fingerprint 31, timestamp_ns 30, string 34, value 33` of row C), row C twice,
    row A nowhere -/
theorem handoff_reslice_block_counterexample :
    ((Multi.init samplesPlan 0 1).run
        (((Handoff.run resliceCfg 2 lateSubmission).subs.map (fun sub => SysOp.request .sync 0 (sub.req .timeSamplesData))) ++
         [.planFlush, .sub 0 (.connect true), .sub 0 .swap, .sub 0 (.doResult .ok)])).2
      = [.insert [("type", [32, 12, 22]), ("fingerprint", [31, 31, 21]), ("timestamp_ns", [30, 30, 20]),
                  ("string", [34, 34, 24]), ("value", [33, 33, 23])] [0, 1] .ok, .resolved 0 .ok, .resolved 1 .ok] := by
  decide

/-- the same schedule with the code's reset: chunk 1 arrives as parsed -/
example :
    ((Handoff.run (Gen.ChunkReset.cfgOf .timeSamplesData) 2 lateSubmission).subs.map (fun s => (s.chunk, s.read))) =
      [(1, [("MFingerprint", [31]), ("MTimestampNS", [30]), ("MMessage", [34]), ("MValue", [33]), ("MTTLDays", [0]), ("MType", [32])]),
       (0, [("MFingerprint", [11, 21]), ("MTimestampNS", [10, 20]), ("MMessage", [14, 24]), ("MValue", [13, 23]),
            ("MTTLDays", [0, 0]), ("MType", [12, 22])])] := by decide

/-- refilling the object that was handed off in place (fresh arrays, same object) loses chunk 1 entirely for
    a retry after the reset: the slice headers the pending request reads are the next chunk's -/
theorem handoff_sameobj_counterexample :
    ¬ ∀ sub ∈ (Handoff.run { obj := .sameObj, fields := [("MTraceId", .fresh)] } 2
                 [.append "MTraceId" [1, 2] false, .flush, .reset, .append "MTraceId" [3] true, .submit 0]).subs,
        sub.read = (Handoff.run { obj := .sameObj, fields := [("MTraceId", .fresh)] } 2
                 [.append "MTraceId" [1, 2] false, .flush, .reset, .append "MTraceId" [3] true, .submit 0]).chunkOf sub := by
  decide

/-- non-vacuity of `handoff_block_is_concat`'s hypotheses: a failed first attempt, chunk 2 parsed meanwhile,
    then the retry — the retried chunk 1 and chunk 2 in one block, concatenated as parsed -/
example :
    let s := Handoff.run (Gen.ChunkReset.cfgOf .timeSamplesData) 2
      (appendRow 10 11 12 13 14 ++ [.flush, .reset, .submit 0] ++ appendRow 30 31 32 33 34 ++
       [.result 0 false, .flush, .reset, .submit 1, .submit 0])
    (s.subs.map (·.chunk) = [0, 1, 0]) ∧
    ((Multi.init samplesPlan 0 1).run
        ([.request .sync 0 ((s.subs.getD 0 ⟨0, 0, []⟩).req .timeSamplesData), .planFlush, .sub 0 (.connect true), .sub 0 .swap,
          .sub 0 (.doResult .err), .request .sync 0 ((s.subs.getD 1 ⟨0, 0, []⟩).req .timeSamplesData),
          .request .sync 0 ((s.subs.getD 2 ⟨0, 0, []⟩).req .timeSamplesData), .planFlush, .sub 0 (.connect true),
          .sub 0 .swap, .sub 0 (.doResult .ok)])).2
      = [.insert [("type", [12]), ("fingerprint", [11]), ("timestamp_ns", [10]), ("string", [14]), ("value", [13])] [0] .err,
         .resolved 0 .err,
         .insert [("type", [32, 12]), ("fingerprint", [31, 11]), ("timestamp_ns", [30, 10]), ("string", [34, 14]),
                  ("value", [33, 13])] [1, 2] .ok, .resolved 1 .ok, .resolved 2 .ok] := by
  decide

/-- **parser_rect (Prometheus remote write).** Whatever the series, the flush limit and the carried-over
    point counter, every `onEntries` call of `promMetricsProtoDec.Decode` passes a type array as long as
    its sample arrays … -/
theorem parser_rect_prom_calls (limit : Nat) (series : List (List Cell)) (points : Nat) :
    ∀ c ∈ PromDecoder.decode limit true series points, c.types = c.rows.length :=
  PromDecoder.decode_rect limit series points

/-- … hence every samples request accumulated from any run of those calls is rectangular. -/
theorem parser_rect_prom (limit : Nat) (series : List (List Cell)) (id : ReqId) (fp ty : Cell) :
    GoodReq (Gen.Inserts.planOf .samples)
      (PromDecoder.reqOfCalls id fp ty (PromDecoder.decode limit true series 0)) := by
  rw [← plans_eq_gen]
  exact ⟨rfl, _, PromDecoder.reqOfCalls_rect id fp ty _ (PromDecoder.decode_rect limit series 0)⟩

/-- the pinned code (type array sized by the whole series at a mid-series flush) is *not* rectangular:
    one series of 3 samples with flush limit 2 gives a call with 2 samples and 3 types (with the real limit
    1000: 1 series × 1001 samples → 1001 timestamps, 1002 types; fixed in /repo, see KNOWN_FINDINGS) -/
theorem parser_rect_prom_pinned_counterexample :
    ¬ ∀ c ∈ PromDecoder.decode 2 false [[1, 2, 3]] 0, c.types = c.rows.length := by decide


/-! ## "code under one hold of `svc.mtx` is one atomic step": tied to the source, and what it is worth

`Gen.BatcherLocks` is regenerated from `writer/service/genericInsertService.go`: every method of `*InsertServiceV2` as
its sequence of lock holds / free stretches with the fields touched in each, and `swapBuffers`, `Request`,
`fetchLoopIteration` statement by statement. Model of the finer grain: `Qryn.Ingest.BatcherLocks` (`MSvc`, `mrun`):
`swapBuffers` runs hold by hold, requests and triggers of other goroutines come in between two holds. -/
section locks
open Qryn.Ingest.BatcherLocks

/-- **locks_atomic** (decided on the regenerated facts). No method touches `columns`/`results`/`size` outside a
    hold; `swapBuffers` and `Request` each touch them in exactly ONE hold that writes all three; `swapBuffers` renews
    the insert context, returns early on an empty batch and takes-and-replaces columns, size and results inside that
    one hold, its other holds (none today) touching nothing the model knows; `Request` is, statement by statement,
    what `stepRequest` mirrors: the stopped check outside the lock, then one hold with `processRequest` into
    `svc.columns`, the immediate completion, the size booking, the size trigger and the promise booking. -/
theorem locks_atomic :
    atomicSwap Gen.BatcherLocks.methods Gen.BatcherLocks.swapProgram Gen.BatcherLocks.requestProgram = true := by
  decide

/-- `fetchLoopIteration` has, in this order, the effects `stepConnect`/`stepSwap`/`stepDoResult` mirror: connect when
    there is no client (return on failure), swap, return when there is no portion, `OnBeforeInsert`, copy of the
    waiting promises, input built from the portion's columns, `Do`, release of exactly these promises with `Do`'s
    error, client dropped on error -/
theorem iteration_as_modelled : Gen.BatcherLocks.iterationProgram = iterationAsModelled := by decide

theorem swap_program_atomic : atomicProg Gen.BatcherLocks.swapProgram = true := by decide

/-- **swap_hold_by_hold_refines.** For EVERY `swapBuffers` program whose swap sits in one hold (whatever else is
    split off into further holds before or after it), every run of the hold-by-hold machine — any number of
    requests and flush triggers interleaved anywhere between the holds of any number of flushes, with any connect
    and `Do` outcomes, pings and stops — produces exactly the events of the run `absRun` of the atomic machine
    (same requests in the same order, one `swap` per completed swap). So every trace property of `Ingest.Batcher`
    holds of the finer-grained machine. -/
theorem swap_hold_by_hold_refines (prog : List (List Move)) (h : atomicProg prog = true) (p : Plan) (maxQueue : Nat)
    (ops : List MOp) :
    (mrun prog (MSvc.init p maxQueue) ops).2 = (run (Svc.init p maxQueue) (absRun prog (MSvc.init p maxQueue) ops)).2 :=
  (mrun_refines (shape_of_atomic prog h) ops _ _ (Rel.idle _)).1

/-- **block_is_concat, hold by hold**: for the regenerated `swapBuffers` program and the regenerated plans, every
    block of every hold-by-hold run is the column-wise concatenation, in promise order, of what the requests it
    resolves submitted. -/
theorem block_is_concat_locks (k : Kind) (maxQueue : Nat) (R : ReqId → Req) (ops : List MOp)
    (hG : ∀ op ∈ ops, MGoodOp (Gen.Inserts.planOf k) R op) :
    ∀ b w o, Event.insert b w o ∈ (mrun Gen.BatcherLocks.swapProgram (MSvc.init (Gen.Inserts.planOf k) maxQueue) ops).2 →
      BlockIsConcat (Gen.Inserts.planOf k) R b w := by
  intro b w o h
  rw [swap_hold_by_hold_refines _ swap_program_atomic] at h
  exact ((run_concat (plans_ok k) _ _ (cinit maxQueue) (absRun_good ops _ hG)).2 b w o h).1

/-- the program of seeded change C02-1: results and size are taken in a first hold, the columns in a second one -/
def splitProgram : List (List Move) := [[.renew, .checkEmpty, .other, .takeSize, .takeResults], [.takeCols]]

def splitReq (id : ReqId) (v : Nat) : Req :=
  { id := id, ptype := .timeSamplesData, size := 30,
    arrays := [("MTimestampNS", [v]), ("MFingerprint", [v + 1]), ("MType", [v + 2]), ("MValue", [v + 3]), ("MMessage", [v + 4])] }

/-- request 1 is queued, the flusher takes the first hold, request 2 arrives, the flusher takes the second hold; the
    INSERT fails; next flush, the INSERT succeeds -/
def splitOps : List MOp :=
  [.request (splitReq 1 10), .trigger .timer, .connect true, .hold, .request (splitReq 2 20), .hold, .doResult .err,
   .trigger .timer, .connect true, .hold, .hold, .doResult .ok]

/-- **two_hold_split_counterexample** (kernel-checked). With `swapBuffers` split into two holds the rows of request
    2 travel in the block whose outcome goes to request 1 only, and request 2 is resolved by the next — empty —
    block: the first block is not the concatenation of what it resolves, and request 2 is acknowledged although
    the only INSERT that carried its rows failed. The split program is rejected by `atomicProg`. -/
theorem two_hold_split_counterexample :
    atomicProg splitProgram = false ∧
    (mrun splitProgram (MSvc.init samplesPlan 0) splitOps).2 =
      [.insert [("type", [12, 22]), ("fingerprint", [11, 21]), ("timestamp_ns", [10, 20]), ("string", [14, 24]), ("value", [13, 23])] [1] .err,
       .resolved 1 .err,
       .insert [("type", []), ("fingerprint", []), ("timestamp_ns", []), ("string", []), ("value", [])] [2] .ok,
       .resolved 2 .ok] ∧
    ¬ BlockIsConcat samplesPlan (fun id => splitReq id (10 * id))
        [("type", [12, 22]), ("fingerprint", [11, 21]), ("timestamp_ns", [10, 20]), ("string", [14, 24]), ("value", [13, 23])] [1] := by
  refine ⟨by decide, by decide, ?_⟩
  intro h
  have := h.2 "type" (by decide)
  revert this
  decide

/-- the same run on the pinned program: request 2 waits for the swap, rides in the second block -/
example :
    (mrun Gen.BatcherLocks.swapProgram (MSvc.init samplesPlan 0)
        [.request (splitReq 1 10), .trigger .timer, .connect true, .hold, .request (splitReq 2 20), .hold, .doResult .err,
         .trigger .timer, .connect true, .hold, .hold, .doResult .ok]).2 =
      [.insert [("type", [12]), ("fingerprint", [11]), ("timestamp_ns", [10]), ("string", [14]), ("value", [13])] [1] .err,
       .resolved 1 .err,
       .insert [("type", [22]), ("fingerprint", [21]), ("timestamp_ns", [20]), ("string", [24]), ("value", [23])] [2] .ok,
       .resolved 2 .ok] := by
  decide

/-- a three-hold program that keeps the swap in one hold is accepted (non-vacuity of `swap_hold_by_hold_refines`
    beyond the one-hold case) -/
example : atomicProg [[.other], [.renew, .checkEmpty, .takeResults, .other, .takeCols, .takeSize], [.other, .other]] = true := by
  decide

end locks

/-! ## requests that arrive WHILE AN INSERT IS IN FLIGHT: the promise arrays over an explicit heap

In `Ingest.Batcher` the promises of the open batch (`svc.results`) and those of the portion in flight are values. In Go
they are slice headers into backing arrays, and `Request` appends to `svc.results` while `client.Do` runs.
`Ingest.BatcherAlias` (`ASvc`, `arun`) has the heap, and the flusher's iteration in three steps — `swap`, `insertBegin`
(the copy of the promises, if the code makes one, is made; `client.Do` is entered), `insertEnd o` (the promises are read
NOW and completed with `o`) — with requests possible between any two. `Gen.BatcherAlias.cfg` is regenerated from
`writer/service/genericInsertService.go`. -/
section inflight
open Qryn.Ingest.BatcherAlias

/-- **results_array_not_shared** (decided on the regenerated facts). After `swapBuffers` the open batch does not share a
    backing array with the portion handed to the flusher: `svc.results` restarts on `nil` (or a new array), or the portion
    got its own copy inside the hold. -/
theorem results_array_not_shared : Gen.BatcherAlias.cfg.disciplined = true := by decide

/-- **inflight_refines.** For EVERY configuration in which the two never share an array, every run of the heap machine
    from `Init()` — requests before the swap, between the swap and the entry into `client.Do`, and while the INSERT is in
    flight, any number of them, `append` growing or writing in place as the runtime pleases, any `Do` outcomes, pings,
    stops — has exactly the events of the value machine `Ingest.Batcher` on the same requests with `swap`/`doResult` where
    the heap machine has `swap`/`insertEnd` (`absRun`). So every trace property of `Ingest.Batcher` holds with the INSERT
    as a window. -/
theorem inflight_refines (cfg : Cfg) (hd : cfg.disciplined = true) (p : Plan) (maxQueue : Nat) (ops : List AOp) :
    (arun cfg (ASvc.init p maxQueue) ops).2 =
      (run (Svc.init p maxQueue) (BatcherAlias.absRun cfg (ASvc.init p maxQueue) ops)).2 :=
  (arun_refines cfg hd ops _ (ainv_init p maxQueue)).1

/-- **block_is_concat with requests during the INSERT**: for the regenerated configuration and plans, every block of
    every run of the heap machine is the column-wise concatenation, in promise order, of what the requests whose
    promises it completes submitted — whatever arrived while it was being inserted is in a later block and is completed
    by that block. -/
theorem block_is_concat_inflight (k : Kind) (maxQueue : Nat) (R : ReqId → Req) (ops : List AOp)
    (hG : ∀ op ∈ ops, AGoodOp (Gen.Inserts.planOf k) R op) :
    ∀ b w o, Event.insert b w o ∈ (arun Gen.BatcherAlias.cfg (ASvc.init (Gen.Inserts.planOf k) maxQueue) ops).2 →
      BlockIsConcat (Gen.Inserts.planOf k) R b w := by
  intro b w o h
  rw [inflight_refines _ results_array_not_shared] at h
  exact ((run_concat (plans_ok k) _ _ (cinit maxQueue) (BatcherAlias.absRun_good ops _ hG)).2 b w o h).1

/-- the seeded variant: `svc.results = results[:0]`, the portion keeps the same array, `releaseWaiting` ranges over
    `portion.res` -/
def sharedCfg : Cfg := { afterSwap := .reslice, portionRes := .moved, release := .portion }

/-- `results[:0]` with the copy of `fetchLoopIteration` still in place: the window shrinks to the instructions (and the
    `OnBeforeInsert` callback) between the unlock of `swapBuffers` and the copy -/
def lateCopyCfg : Cfg := { afterSwap := .reslice, portionRes := .moved, release := .copy }

def flightReq (id : ReqId) (v : Nat) : Req :=
  { id := id, ptype := .timeSamplesData, size := 30,
    arrays := [("MTimestampNS", [v]), ("MFingerprint", [v + 1]), ("MType", [v + 2]), ("MValue", [v + 3]), ("MMessage", [v + 4])] }

/-- request 1, flush: INSERT 0 in flight; request 2 arrives during the INSERT (`append` finds room in the old array);
    INSERT 0 is accepted; next flush: INSERT 1 (the rows of request 2) fails -/
def duringInsert : List AOp :=
  [.request (flightReq 1 10) true, .trigger .timer, .connect true, .swap, .insertBegin, .request (flightReq 2 20) false,
   .insertEnd .ok, .trigger .timer, .swap, .insertBegin, .insertEnd .err]

/-- the same with request 2 arriving between `swapBuffers` and the entry into `client.Do` -/
def beforeCopy : List AOp :=
  [.request (flightReq 1 10) true, .trigger .timer, .connect true, .swap, .request (flightReq 2 20) false, .insertBegin,
   .insertEnd .ok, .trigger .timer, .swap, .insertBegin, .insertEnd .err]

/-- **shared_results_array_counterexample** (kernel-checked). With the shared array the promise of request 2 overwrites
    slot 0, where the promise of request 1 was: the block with the rows of request 1 completes request 2 (with "ok"),
    request 1 is never answered, and the block with the rows of request 2 — which fails — finds the promise already
    completed. The first block is not the concatenation of what it resolves. -/
theorem shared_results_array_counterexample :
    sharedCfg.disciplined = false ∧
    (arun sharedCfg (ASvc.init samplesPlan 0) duringInsert).2 =
      [.insert [("type", [12]), ("fingerprint", [11]), ("timestamp_ns", [10]), ("string", [14]), ("value", [13])] [2] .ok,
       .resolved 2 .ok,
       .insert [("type", [22]), ("fingerprint", [21]), ("timestamp_ns", [20]), ("string", [24]), ("value", [23])] [2] .err,
       .resolved 2 .err] ∧
    1 ∉ resolvedIds (arun sharedCfg (ASvc.init samplesPlan 0) duringInsert).2 ∧
    ¬ BlockIsConcat samplesPlan (fun id => flightReq id (10 * id))
        [("type", [12]), ("fingerprint", [11]), ("timestamp_ns", [10]), ("string", [14]), ("value", [13])] [2] := by
  refine ⟨by decide, by decide, by decide, ?_⟩
  intro h
  have := h.2 "type" (by decide)
  revert this
  decide

/-- **late_copy_counterexample** (kernel-checked). Keeping the copy in `fetchLoopIteration` does not help when
    `svc.results` re-slices the old array: a request between `swapBuffers` and the copy does the same damage; one that
    arrives after the copy does not (second conjunct). -/
theorem late_copy_counterexample :
    lateCopyCfg.disciplined = false ∧
    (arun lateCopyCfg (ASvc.init samplesPlan 0) beforeCopy).2 = (arun sharedCfg (ASvc.init samplesPlan 0) duringInsert).2 ∧
    (arun lateCopyCfg (ASvc.init samplesPlan 0) duringInsert).2 =
      [.insert [("type", [12]), ("fingerprint", [11]), ("timestamp_ns", [10]), ("string", [14]), ("value", [13])] [1] .ok,
       .resolved 1 .ok,
       .insert [("type", [22]), ("fingerprint", [21]), ("timestamp_ns", [20]), ("string", [24]), ("value", [23])] [2] .err,
       .resolved 2 .err] := by
  refine ⟨by decide, by decide, by decide⟩

/-- the two schedules on the code as it is (regenerated configuration): request 1 is told the outcome of INSERT 0,
    request 2 that of INSERT 1 — also when `append` writes in place (non-vacuity of `block_is_concat_inflight`) -/
example :
    (arun Gen.BatcherAlias.cfg (ASvc.init samplesPlan 0) duringInsert).2 =
      [.insert [("type", [12]), ("fingerprint", [11]), ("timestamp_ns", [10]), ("string", [14]), ("value", [13])] [1] .ok,
       .resolved 1 .ok,
       .insert [("type", [22]), ("fingerprint", [21]), ("timestamp_ns", [20]), ("string", [24]), ("value", [23])] [2] .err,
       .resolved 2 .err] ∧
    (arun Gen.BatcherAlias.cfg (ASvc.init samplesPlan 0) beforeCopy).2 =
      (arun Gen.BatcherAlias.cfg (ASvc.init samplesPlan 0) duringInsert).2 := by
  refine ⟨by decide, by decide⟩

/-- a re-slice is harmless when the portion got its own copy inside the hold: accepted by `disciplined` -/
example : ({ afterSwap := .reslice, portionRes := .copied, release := .portion } : Cfg).disciplined = true := by decide

end inflight

/-! ## the model mirrors Go column by column: non-rectangular input gives non-rectangular columns -/

/-- a samples request with 2 timestamps and 1 value leaves the open columns non-rectangular (the service
    does not check) — this is why `parser_rect` matters -/
example :
    let r : Req := { id := 1, ptype := .timeSamplesData,
                     arrays := [("MTimestampNS", [1, 2]), ("MFingerprint", [3, 4]), ("MType", [5, 6]), ("MValue", [7]), ("MMessage", [8, 9])] }
    (processRequest_samples r (some (acquire samplesPlan))).toOption =
      some ⟨2, some [("type", [5, 6]), ("fingerprint", [3, 4]), ("timestamp_ns", [1, 2]), ("string", [8, 9]), ("value", [7])], false⟩ := by
  decide

/-- an empty profile payload (no `onProfile` call) appends one row to each array column and none to the
    scalar ones, and is acknowledged at once (`inserted == 0`) -/
example :
    ((processRequest_profile { id := 1, ptype := .profileData } (some (acquire profilePlan))).toOption.map
        (fun r => (r.inserted, r.cols.map (fun cs => ((colData cs "tags").length, (colData cs "timestamp_ns").length)))))
      = some (0, some (1, 0)) := by
  decide

/-- non-vacuity of `block_is_concat`: two rectangular requests, one block, concatenated in promise order -/
example :
    let r1 : Req := { id := 1, ptype := .timeSamplesData, size := 30,
                      arrays := [("MTimestampNS", [10]), ("MFingerprint", [11]), ("MType", [12]), ("MValue", [13]), ("MMessage", [14])] }
    let r2 : Req := { id := 2, ptype := .timeSamplesData, size := 60,
                      arrays := [("MTimestampNS", [20, 30]), ("MFingerprint", [21, 31]), ("MType", [22, 32]), ("MValue", [23, 33]), ("MMessage", [24, 34])] }
    ((Multi.init samplesPlan 0 1).run [.request .sync 0 r1, .request .sync 0 r2, .planFlush, .sub 0 (.connect true), .sub 0 .swap,
                                       .sub 0 (.doResult .ok)]).2
      = [.insert [("type", [12, 22, 32]), ("fingerprint", [11, 21, 31]), ("timestamp_ns", [10, 20, 30]), ("string", [14, 24, 34]),
                  ("value", [13, 23, 33])] [1, 2] .ok, .resolved 1 .ok, .resolved 2 .ok] := by
  decide

end Qryn.C02
