import Qryn.Proofs.Migrate
import Qryn.Gen.Migrations
/-! # C18 — schema initialisation survives failure at any statement and can simply be re-run

The model is `Qryn.Ctrl.Migrate` (`InitDBTry` + `Update`/`updateScripts` over a catalogue with ClickHouse's
DDL outcomes); the statements are the regenerated table `Qryn.Gen.Migrations` (the six .sql files split with
`getSQLFile`'s rule and instantiated per mode, the bootstrap statements of `updateScripts`, `CREATE DATABASE`).
`prog m` is what one start executes in mode `m`; `table m` is every extracted statement of mode `m`,
including the cluster-only files in the modes that do not run them. -/
namespace Qryn.C18
open Qryn.Ctrl.Migrate Qryn.Gen.Migrations

/-- The decidable re-runnability criterion holds for **every statement of the regenerated table**, in all
    three modes, and so does the criterion that no statement removes an object a bootstrap statement
    (`CREATE DATABASE`, `CREATE TABLE IF NOT EXISTS ver[_dist]`) provides. Kernel-evaluated over the whole
    table; an unguarded `RENAME`/`ADD COLUMN`/`CREATE`/`DROP` added to a .sql file makes this fail. -/
theorem table_criteria (m : Mode) :
    (table m).all Stmt.rerunnableB = true ∧
    (initdb m ++ boot m).all (fun b => (table m).all (fun s => preservesB s b)) = true := by
  cases m <;> decide +kernel

/-- **stmt_idempotent.** Every extracted statement, in every mode, can be executed again right after it
    succeeded — on any catalogue whatsoever — and then succeeds without changing anything. (This is the
    property a crash between a script and its version row relies on; it is derived from the syntactic
    criterion by `rerunnable_of_criterion`, which is proved for all catalogues.) -/
theorem stmt_idempotent (m : Mode) : ∀ s ∈ table m, Rerunnable s := by
  intro s hs
  have h := (table_criteria m).1
  rw [List.all_eq_true] at h
  exact rerunnable_of_criterion s (h s hs)

/-- The shape of `updateScripts` the model's `phaseRun`/`loopRun` mirror, re-read from update.go on every run:
    the version is read with `max(ver)` for the stream key, the loop runs `for i := ver; i < len(scripts); i++`,
    executes `scripts[i]`, returns on error, then inserts `(k, i+1)`, returns on error. Moving the version
    write before the script, ignoring the script's error, or recording another number breaks this. -/
theorem loop_shape :
    versionRead = "SELECT max(ver) as ver FROM %s WHERE k = $1 FORMAT JSON" ∧
    loopShape = ["i := ver; i < uint64(len(scripts)); i++",
      "err = exec(scripts[i])",
      "if err != nil { return err }",
      "err = db.Exec(context.Background(), \"INSERT INTO ver (k, ver) VALUES ($1, $2)\", k, i+1)",
      "if err != nil { return err }"] := ⟨rfl, rfl⟩

/-- the same two criteria for exactly the statements a start executes in each mode (`wfB`, kernel-evaluated) -/
theorem prog_criteria (m : Mode) : wfB (prog m) = true := by
  cases m <;> decide +kernel

/-- the program of every mode satisfies what the convergence proof needs -/
theorem prog_wf (m : Mode) : WF (prog m) := wf_of_wfB (prog m) (prog_criteria m)

/-- **rerun_converges.** In every mode, from every database state `db` from which an uninterrupted start
    succeeds with final state `fin` (catalogue and `ver` rows): after **any finite sequence of failed starts**
    — each stopped at an arbitrary call (`CREATE DATABASE`, a bootstrap statement, the version read, a script,
    a version write), with the failing call either having had no effect or having been applied without the
    caller seeing it — a further start succeeds and ends in exactly `fin`. -/
theorem rerun_converges (m : Mode) (db fin : Db) (faults : List Fault)
    (h : run (prog m) db = .ok fin) :
    run (prog m) (sched (prog m) db faults) = .ok fin :=
  sched_converges (prog m) (prog_wf m) faults db fin h

/-- the same, spelled out for a single failure point: every state a start can be stopped in -/
theorem rerun_from_any_point (m : Mode) (db fin : Db) (h : run (prog m) db = .ok fin) :
    ∀ mid ∈ points (prog m) db, run (prog m) mid = .ok fin :=
  run_from_point (prog m) db fin (prog_wf m) h

/-- non-vacuity: on an empty server the uninterrupted start succeeds in every mode -/
theorem fresh_start_succeeds (m : Mode) : ∃ fin, run (prog m) emptyDb = .ok fin := by
  have h : (match run (prog m) emptyDb with | .ok _ => true | .error _ => false) = true := by
    cases m <;> decide +kernel
  cases hr : run (prog m) emptyDb with
  | ok fin => exact ⟨fin, rfl⟩
  | error e => simp [hr] at h

/-- the stream keys under which versions are recorded are pairwise different (two streams sharing a key would
    make the second one start at the first one's version and skip scripts) -/
theorem stream_keys_distinct (m : Mode) : ((prog m).filterMap (fun ph => ph.scripts.map (·.1))).Nodup := by
  cases m <;> decide +kernel

def scriptIndex : Call → Option (Nat × Nat)
  | .script k i _ => some (k, i)
  | _ => none

/-- **none skipped, file order** on an empty server: the uninterrupted start executes script 0, 1, 2, … of
    every stream of the mode, stream after stream in the order of `Update` (kernel-evaluated on the regenerated
    program). Together with `rerun_converges` (same final state after any failures) and `version_sound`
    (a loop continues at the recorded version, in order) this is the "every migration script in file order
    with none skipped" clause. -/
theorem fresh_start_runs_every_script (m : Mode) :
    (calls (prog m) emptyDb).filterMap scriptIndex =
      (prog m).flatMap (fun ph => match ph.scripts with
        | some (k, ss) => (List.range ss.length).map (fun i => (k, i))
        | none => []) := by
  cases m <;> decide +kernel

/-- **version_sound.** For every stream (key `k`, scripts `ss`) and every state `d` in which its version
    loop starts (`v = max(ver)` read from `d`):
    1. the calls the loop issues are a prefix of `script v, record v+1, script v+1, record v+2, …` over
       `ss` from index `v` on — file order, none skipped, a version row only right after its own script;
    2. at the `j`-th call the recorded version is `v + j/2`: it counts exactly the completed pairs;
    3. a `record k' v'` call is issued only in the state produced by the *successful* execution of script
       `v' - 1` in the call just before it. -/
theorem version_sound (k : Nat) (ss : List Stmt) (d : Db) :
    let v := getVer d.vers k
    let loop := loopSteps k (ss.drop v) v d
    loop.map (·.2) <+: altCalls k (ss.drop v) v ∧
    (∀ j st, loop[j]? = some st → getVer st.1.vers k = v + j / 2) ∧
    (∀ j d' k' v', loop[j]? = some (d', .record k' v') →
      ∃ j0 d0 s, j = j0 + 1 ∧ loop[j0]? = some (d0, .script k' (v' - 1) s) ∧ 1 ≤ v' ∧
        exec d0.cat s = .ok d'.cat ∧ d'.vers = d0.vers) := by
  refine ⟨loop_calls_prefix k _ _ d, ?_, ?_⟩
  · intro j st h; exact loop_ver_at k _ _ d rfl j st h
  · intro j d' k' v' h; exact loop_record_after_script k _ _ d j d' k' v' h

/-- the recorded version of a stream never goes back during a start, whatever the program -/
theorem version_never_decreases (P : List Phase) (db : Db) (k : Nat) :
    (∀ st ∈ steps P db, getVer db.vers k ≤ getVer st.1.vers k) ∧
    (∀ fin, run P db = .ok fin → getVer db.vers k ≤ getVer fin.vers k) :=
  inv_run (verGe_invOK k (getVer db.vers k)) P db (fun _ _ => trivial) (Nat.le_refl _)

/-- **uptodate_noop.** On a database whose recorded versions are at (or beyond) the end of every stream, a
    start issues no script and no version write — only the guarded bootstrap statements and the version
    reads — and leaves the `ver` rows as they are. For any program, hence for every mode. -/
theorem uptodate_noop (P : List Phase) (db : Db) (h : UpToDate P db.vers) :
    (∀ c ∈ calls P db, c.isMigration = false) ∧ (∀ fin, run P db = .ok fin → fin.vers = db.vers) := by
  have ⟨a, b⟩ := uptodate_run P db h
  refine ⟨?_, b⟩
  intro c hc
  simp only [calls, List.mem_map] at hc
  obtain ⟨st, hst, rfl⟩ := hc
  exact a st hst

/-- after a successful start the database is up to date and a further start changes nothing at all -/
theorem after_success_uptodate (m : Mode) (db fin : Db) (h : run (prog m) db = .ok fin) :
    UpToDate (prog m) fin.vers ∧ run (prog m) fin = .ok fin := by
  refine ⟨?_, run_fixpoint (prog m) db fin (prog_wf m) h⟩
  intro ph hp k ss hs
  exact (all_complete (prog m) db fin (prog_wf m) h ph hp).2 k ss hs

/-- non-vacuity of `uptodate_noop` for the real programs: the state a fresh start ends in is up to date -/
example (m : Mode) : ∃ fin, run (prog m) emptyDb = .ok fin ∧ UpToDate (prog m) fin.vers := by
  obtain ⟨fin, h⟩ := fresh_start_succeeds m
  exact ⟨fin, h, (after_success_uptodate m emptyDb fin h).1⟩

/-- the criterion is not trivially true: the unguarded forms are rejected, and for a reason — an unguarded
    RENAME executed a second time fails (this is the shape A38 reported in log.sql) -/
example : Stmt.rerunnableB (.rename 1 2 false) = false ∧ Stmt.rerunnableB (.alter 1 [.addColumn 2 false]) = false := by
  decide
example : ¬ Rerunnable (.rename 1 2 false) := by
  intro h
  have := h ⟨true, [⟨1, .table, [], 0, 0⟩]⟩ ⟨true, [⟨2, .table, [], 0, 0⟩]⟩ (by rfl)
  revert this; simp [exec, Cat.has, hasName]
example : ¬ Rerunnable (.alter 1 [.addColumn 2 false]) := by
  intro h
  have := h ⟨true, [⟨1, .table, [], 0, 0⟩]⟩ ⟨true, [⟨1, .table, [2], 0, 0⟩]⟩ (by rfl)
  revert this; simp [exec, Cat.find, hasName, applyOps, applyOp]

end Qryn.C18
