import Qryn.Proofs.Migrate
import Qryn.Proofs.MigrateParams
import Qryn.Gen.Migrations
import Qryn.Gen.CtrlFlow
/-! # C18 — schema initialisation survives failure at any statement and can simply be re-run

The model is `Qryn.Ctrl.Migrate` (`InitDBTry` + `Update`/`updateScripts` over a catalogue with ClickHouse's
DDL outcomes); the statements are the regenerated table `Qryn.Gen.Migrations` (the six .sql files split with
`getSQLFile`'s rule and instantiated per mode, the bootstrap statements of `updateScripts`, `CREATE DATABASE`).
`prog m` is what one start executes in mode `m`; `table m` is every extracted statement of mode `m`,
including the cluster-only files in the modes that do not run them. -/
namespace Qryn.C18
open Qryn.Ctrl.Migrate Qryn.Gen.Migrations

/-- The decidable re-runnability criterion holds for **every statement of the regenerated table**, in all
    three modes, and so does the criterion that no statement removes an object a bootstrap statement
    (`CREATE DATABASE`, `CREATE TABLE IF NOT EXISTS ver[_dist]`) provides. Kernel-evaluated over the whole
    table; an unguarded `RENAME`/`ADD COLUMN`/`CREATE`/`DROP` added to a .sql file makes this fail. -/
theorem table_criteria (m : Mode) :
    (table m).all Stmt.rerunnableB = true ∧
    (initdb m ++ boot m).all (fun b => (table m).all (fun s => preservesB s b)) = true := by
  cases m <;> decide +kernel

/-- **stmt_idempotent.** Every extracted statement, in every mode, can be executed again right after it
    succeeded — on any catalogue whatsoever — and then succeeds without changing anything. (This is the
    property a crash between a script and its version row relies on; it is derived from the syntactic
    criterion by `rerunnable_of_criterion`, which is proved for all catalogues.) -/
theorem stmt_idempotent (m : Mode) : ∀ s ∈ table m, Rerunnable s := by
  intro s hs
  have h := (table_criteria m).1
  rw [List.all_eq_true] at h
  exact rerunnable_of_criterion s (h s hs)

/-- The shape of `updateScripts` the model's `phaseRun`/`loopRun` mirror, re-read from update.go on every run:
    the version is read with `max(ver)` for the stream key, the loop runs `for i := ver; i < len(scripts); i++`,
    executes `scripts[i]`, returns on error, then inserts `(k, i+1)`, returns on error. Moving the version
    write before the script, ignoring the script's error, or recording another number breaks this. -/
theorem loop_shape :
    versionRead = "SELECT max(ver) as ver FROM %s WHERE k = $1 FORMAT JSON" ∧
    loopShape = ["i := ver; i < uint64(len(scripts)); i++",
      "err = exec(scripts[i])",
      "if err != nil { return err }",
      "err = db.Exec(context.Background(), \"INSERT INTO ver (k, ver) VALUES ($1, $2)\", k, i+1)",
      "if err != nil { return err }"] := ⟨rfl, rfl⟩

/-- the same two criteria for exactly the statements a start executes in each mode (`wfB`, kernel-evaluated) -/
theorem prog_criteria (m : Mode) : wfB (prog m) = true := by
  cases m <;> decide +kernel

/-- the program of every mode satisfies what the convergence proof needs -/
theorem prog_wf (m : Mode) : WF (prog m) := wf_of_wfB (prog m) (prog_criteria m)

/-- **rerun_converges.** In every mode, from every database state `db` from which an uninterrupted start
    succeeds with final state `fin` (catalogue and `ver` rows): after **any finite sequence of failed starts**
    — each stopped at an arbitrary call (`CREATE DATABASE`, a bootstrap statement, the version read, a script,
    a version write), with the failing call either having had no effect or having been applied without the
    caller seeing it — a further start succeeds and ends in exactly `fin`. -/
theorem rerun_converges (m : Mode) (db fin : Db) (faults : List Fault)
    (h : run (prog m) db = .ok fin) :
    run (prog m) (sched (prog m) db faults) = .ok fin :=
  sched_converges (prog m) (prog_wf m) faults db fin h

/-- the same, spelled out for a single failure point: every state a start can be stopped in -/
theorem rerun_from_any_point (m : Mode) (db fin : Db) (h : run (prog m) db = .ok fin) :
    ∀ mid ∈ points (prog m) db, run (prog m) mid = .ok fin :=
  run_from_point (prog m) db fin (prog_wf m) h

/-- non-vacuity: on an empty server the uninterrupted start succeeds in every mode -/
theorem fresh_start_succeeds (m : Mode) : ∃ fin, run (prog m) emptyDb = .ok fin := by
  have h : (match run (prog m) emptyDb with | .ok _ => true | .error _ => false) = true := by
    cases m <;> decide +kernel
  cases hr : run (prog m) emptyDb with
  | ok fin => exact ⟨fin, rfl⟩
  | error e => simp [hr] at h

/-- the stream keys under which versions are recorded are pairwise different (two streams sharing a key would
    make the second one start at the first one's version and skip scripts) -/
theorem stream_keys_distinct (m : Mode) : ((prog m).filterMap (fun ph => ph.scripts.map (·.1))).Nodup := by
  cases m <;> decide +kernel

def scriptIndex : Call → Option (Nat × Nat)
  | .script k i _ => some (k, i)
  | _ => none

/-- **none skipped, file order** on an empty server: the uninterrupted start executes script 0, 1, 2, … of
    every stream of the mode, stream after stream in the order of `Update` (kernel-evaluated on the regenerated
    program). Together with `rerun_converges` (same final state after any failures) and `version_sound`
    (a loop continues at the recorded version, in order) this is the "every migration script in file order
    with none skipped" clause. -/
theorem fresh_start_runs_every_script (m : Mode) :
    (calls (prog m) emptyDb).filterMap scriptIndex =
      (prog m).flatMap (fun ph => match ph.scripts with
        | some (k, ss) => (List.range ss.length).map (fun i => (k, i))
        | none => []) := by
  cases m <;> decide +kernel

/-- **version_sound.** For every stream (key `k`, scripts `ss`) and every state `d` in which its version
    loop starts (`v = max(ver)` read from `d`):
    1. the calls the loop issues are a prefix of `script v, record v+1, script v+1, record v+2, …` over
       `ss` from index `v` on — file order, none skipped, a version row only right after its own script;
    2. at the `j`-th call the recorded version is `v + j/2`: it counts exactly the completed pairs;
    3. a `record k' v'` call is issued only in the state produced by the *successful* execution of script
       `v' - 1` in the call just before it. -/
theorem version_sound (k : Nat) (ss : List Stmt) (d : Db) :
    let v := getVer d.vers k
    let loop := loopSteps k (ss.drop v) v d
    loop.map (·.2) <+: altCalls k (ss.drop v) v ∧
    (∀ j st, loop[j]? = some st → getVer st.1.vers k = v + j / 2) ∧
    (∀ j d' k' v', loop[j]? = some (d', .record k' v') →
      ∃ j0 d0 s, j = j0 + 1 ∧ loop[j0]? = some (d0, .script k' (v' - 1) s) ∧ 1 ≤ v' ∧
        exec d0.cat s = .ok d'.cat ∧ d'.vers = d0.vers) := by
  refine ⟨loop_calls_prefix k _ _ d, ?_, ?_⟩
  · intro j st h; exact loop_ver_at k _ _ d rfl j st h
  · intro j d' k' v' h; exact loop_record_after_script k _ _ d j d' k' v' h

/-- the recorded version of a stream never goes back during a start, whatever the program -/
theorem version_never_decreases (P : List Phase) (db : Db) (k : Nat) :
    (∀ st ∈ steps P db, getVer db.vers k ≤ getVer st.1.vers k) ∧
    (∀ fin, run P db = .ok fin → getVer db.vers k ≤ getVer fin.vers k) :=
  inv_run (verGe_invOK k (getVer db.vers k)) P db (fun _ _ => trivial) (Nat.le_refl _)

/-- **uptodate_noop.** On a database whose recorded versions are at (or beyond) the end of every stream, a
    start issues no script and no version write — only the guarded bootstrap statements and the version
    reads — and leaves the `ver` rows as they are. For any program, hence for every mode. -/
theorem uptodate_noop (P : List Phase) (db : Db) (h : UpToDate P db.vers) :
    (∀ c ∈ calls P db, c.isMigration = false) ∧ (∀ fin, run P db = .ok fin → fin.vers = db.vers) := by
  have ⟨a, b⟩ := uptodate_run P db h
  refine ⟨?_, b⟩
  intro c hc
  simp only [calls, List.mem_map] at hc
  obtain ⟨st, hst, rfl⟩ := hc
  exact a st hst

/-- after a successful start the database is up to date and a further start changes nothing at all -/
theorem after_success_uptodate (m : Mode) (db fin : Db) (h : run (prog m) db = .ok fin) :
    UpToDate (prog m) fin.vers ∧ run (prog m) fin = .ok fin := by
  refine ⟨?_, run_fixpoint (prog m) db fin (prog_wf m) h⟩
  intro ph hp k ss hs
  exact (all_complete (prog m) db fin (prog_wf m) h ph hp).2 k ss hs

/-- non-vacuity of `uptodate_noop` for the real programs: the state a fresh start ends in is up to date -/
example (m : Mode) : ∃ fin, run (prog m) emptyDb = .ok fin ∧ UpToDate (prog m) fin.vers := by
  obtain ⟨fin, h⟩ := fresh_start_succeeds m
  exact ⟨fin, h, (after_success_uptodate m emptyDb fin h).1⟩

/-- the criterion is not trivially true: the unguarded forms are rejected, and for a reason — an unguarded
    RENAME executed a second time fails (this is the shape A38 reported in log.sql) -/
example : Stmt.rerunnableB (.rename 1 2 false) = false ∧ Stmt.rerunnableB (.alter 1 [.addColumn 2 false]) = false := by
  decide
example : ¬ Rerunnable (.rename 1 2 false) := by
  intro h
  have := h ⟨true, [⟨1, .table, [], 0, 0⟩]⟩ ⟨true, [⟨2, .table, [], 0, 0⟩]⟩ (by rfl)
  revert this; simp [exec, Cat.has, hasName]
example : ¬ Rerunnable (.alter 1 [.addColumn 2 false]) := by
  intro h
  have := h ⟨true, [⟨1, .table, [], 0, 0⟩]⟩ ⟨true, [⟨1, .table, [2], 0, 0⟩]⟩ (by rfl)
  revert this; simp [exec, Cat.find, hasName, applyOps, applyOp]

/-! # The cluster: N nodes, `ON CLUSTER` applied node by node, any connection, every parameter instance

Model `Qryn.Ctrl.MigrateCluster`: every node has its own catalogue and its own `ver` table; a statement whose
instantiated text carries `ON CLUSTER` (regenerated per statement: `Gen.Migrations.*_oc`) is executed by every node
independently, any other statement by the connected node only; with a configured cluster versions are read from
`ver_dist` = the `ver` rows of ALL nodes; every start may be connected to another node; a failure point is a call +
the set of nodes on which it still took effect + killed/error. `InitDB` is inside with its own control flow: the error
of `CREATE DATABASE` is overwritten by `SHOW CREATE DATABASE`'s. `cprog m skip` is what `ctrl.Init` does for one
database in mode `m` (`skip`: the database is `default`/unnamed and `InitDB` returns at once), `.mapBody g` is the same
under an arbitrary parameter instance (see `params_enter_text_only`). -/

/-- the cluster program is the single-catalogue program plus `ON CLUSTER` flags (kernel-evaluated) -/
theorem cprog_is_prog (m : Mode) : (cprog m false).toProg = prog m ∧ (cprog m true).toProg = (prog m).tail := by
  cases m <;> decide +kernel

/-- **Which statements carry `ON CLUSTER`** (kernel-evaluated over the regenerated flags, all four modes, with and
    without `InitDB`): with a configured cluster EVERY statement that can change a catalogue carries it — only the
    `INSERT`s do not —, `CREATE DATABASE` is issued by `InitDBTry` alone and is guarded, and the first statement of
    `Update` goes to every node; without a cluster no statement carries it. On the pinned tree this is false: the eight
    `type_v2` ALTERs of log.sql / log_dist.sql had no `{{.OnCluster}}` (`pinned_tree_counterexample`). -/
theorem cluster_table_criteria (m : Mode) (skip : Bool) : (cprog m skip).wfB = true := by
  cases m <;> cases skip <;> decide +kernel

/-- the single-catalogue criteria for what a node experiences when `InitDB` is skipped -/
theorem prog_criteria_skip (m : Mode) : wfB (cprog m true).toProg = true := by
  cases m <;> decide +kernel

/-- **Template parameters only change text.** Re-instantiating every bootstrap statement and every script of every
    mode with each template variable varied alone over the forms `updateScripts` can assign (`tplAlternatives`:
    ttl days incl. negative and 2³¹−1, storage policy absent/present, ordering variants, `skip_unavailable_shards`,
    cluster and database names, engine families) changes, for every variable but `OnCluster`, nothing except the
    identity of the text of `CREATE` statements (`shapeVars`); `DefaultTtlDays` is set but used by no statement; every
    variable a statement uses is one `updateScripts` sets. Hence a parameter instance is a re-numbering `g` of text
    identities (`mapBody g`), and `OnCluster` is the mode. -/
theorem params_enter_text_only :
    shapeVars = ["OnCluster"] ∧ shapeVarsWhere = [] ∧ tplUnused = ["DefaultTtlDays"] ∧
    (tplUses.all fun u => u.2.all fun v => tplVars.contains v) = true := by
  decide +kernel

/-- the criteria do not depend on the parameter instance -/
theorem param_wf (m : Mode) (skip : Bool) (g : Nat → Nat) :
    CWf ((cprog m skip).mapBody g) ∧ WF ((cprog m skip).mapBody g).toProg := by
  constructor
  · exact cwf_of_wfB _ (by rw [cwfB_mapBody]; exact cluster_table_criteria m skip)
  · apply wf_of_wfB
    rw [toProg_mapBody, wfB_mapBody]
    cases skip
    · rw [(cprog_is_prog m).1]; exact prog_criteria m
    · exact prog_criteria_skip m

/-- **`InitDB`, `ctrl.Init` as the model reads them** (re-extracted statement by statement): `InitDB` returns at once
    for the database `""`/`default`; otherwise it calls `InitDBTry` (one `CREATE DATABASE IF NOT EXISTS … [ON CLUSTER]`,
    `Gen.Migrations.createDb`), assigns its error to `err` and — without looking at it — overwrites `err` with the
    result of `SHOW CREATE DATABASE`, whose error it returns; `ctrl.Init` panics on that error and otherwise goes on
    to `UpgradeAll`. `cstart`'s first two calls are this. -/
theorem initdb_shape :
    Qryn.Gen.CtrlFlow.initDB =
      ["if dbObject.Name == \"\" || dbObject.Name == \"default\" { return nil }",
       "conn, err := maintenance.ConnectV2(dbObject, false)",
       "if err != nil { return err }",
       "defer conn.Close()",
       "err = maintenance.InitDBTry(conn, dbObject.ClusterName, dbObject.Name, dbObject.Cloud, logger)",
       "rows, err := conn.Query(maintenance.MakeTimeout(), fmt.Sprintf(\"SHOW CREATE DATABASE `%s`\", dbObject.Name))",
       "if err != nil { return err }",
       "defer rows.Close()",
       "rows.Next()",
       "var create string",
       "err = rows.Scan(&create)",
       "if err != nil { return err }",
       "logger.Info(create)",
       "return nil"] ∧
    Qryn.Gen.CtrlFlow.initDBTry =
      ["engine := \"\"", "onCluster := \"\"",
       "if clusterName != \"\" { onCluster = fmt.Sprintf(\"ON CLUSTER `%s`\", clusterName) }",
       "query := fmt.Sprintf(\"CREATE DATABASE IF NOT EXISTS `%s` %s %s\", dbName, onCluster, engine)",
       "logger.Info(\"Creating database: \", query)",
       "err := conn.Exec(MakeTimeout(), query)",
       "if err == nil { return nil }",
       "return err"] ∧
    Qryn.Gen.CtrlFlow.ctrlInit =
      ["var err error", "proj, ok := projects[project]",
       "if !ok { return fmt.Errorf(\"project %s not found\", project) }",
       "for _, db := range config.Setting.DATABASE_DATA { err = proj.init(&db, logger.Logger) if err != nil { panic(err) } }",
       "err = proj.upgrade(config.Setting.DATABASE_DATA, logger.Logger)",
       "return err"] ∧
    Qryn.Gen.CtrlFlow.project = ["maintenance.InitDB", "maintenance.UpgradeAll", "maintenance.RotateAll"] ∧
    Qryn.Gen.CtrlFlow.connectAddr = "[]string{fmt.Sprintf(\"%s:%d\", dbObject.Host, dbObject.Port)}" := by
  refine ⟨rfl, rfl, rfl, rfl, rfl⟩

/-- **Where the version is read from** (re-extracted): `ver` without a cluster, `ver_dist` — the rows of all nodes —
    with one (`CProg.dist`); the version row is always written to the connected node's `ver` (`loop_shape`). -/
theorem version_read_tables : verTables = ["ver", "ver_dist"] := rfl

/-- **cluster_start_refines.** For every mode, every parameter instance, every cluster of any size in any state,
    every connection and every failure point (any call, taking effect on any set of nodes, killed or error): on every
    node that takes part (the connected node; with a configured cluster every node) whose own single-catalogue start
    would succeed, the state the cluster start leaves behind is one of the states that node's OWN start can be stopped
    in (`points`). So everything proved about restarting a single catalogue holds node by node. -/
theorem cluster_start_refines (m : Mode) (skip : Bool) (g : Nat → Nat) (cl : Cluster) (conn : Nat) (f : Option CFault) (i : Nat)
    (hi : i < cl.n) (hpart : i = conn ∨ isDist m = true) (fin : Db)
    (h : run ((cprog m skip).mapBody g).toProg (view (isDist m) cl i) = .ok fin) :
    view (isDist m) (cstart ((cprog m skip).mapBody g) cl conn f).cl i ∈
      points ((cprog m skip).mapBody g).toProg (view (isDist m) cl i) :=
  cstart_points _ (param_wf m skip g).1 cl conn f i ⟨hi, hpart⟩ fin h

/-- **cluster_start_converges.** Mode `m`, `InitDB` skipped or not, ANY parameter instance `g`, a cluster of ANY size
    `cl.n` in any state in which every node's own uninterrupted start would succeed (ending in `fin i` on node `i`; the
    nodes need not be alike): after ANY sequence of starts — each connected to any node (or to none), each either
    uninterrupted or stopped at any call (of `InitDB` or `Update`) after that call took effect on any set of nodes,
    by a kill or by an error — one more uninterrupted start, connected to any node `conn`, completes, and it leaves
    EVERY node that takes part exactly at `fin i`: catalogue and visible version rows. With a configured cluster
    (`isDist m`) that is every node of the cluster; without one, the node connected to (the others are untouched:
    `local_start_frame`). -/
theorem cluster_start_converges (m : Mode) (skip : Bool) (g : Nat → Nat) (cl : Cluster) (fin : Nat → Db)
    (h : ∀ i, i < cl.n → run ((cprog m skip).mapBody g).toProg (view (isDist m) cl i) = .ok (fin i))
    (sch : List (Nat × Option CFault)) (conn : Nat) (hc : conn < cl.n) :
    (cstart ((cprog m skip).mapBody g) (csched ((cprog m skip).mapBody g) cl sch) conn none).status = .done ∧
    ∀ i, i < cl.n → (i = conn ∨ isDist m = true) →
      view (isDist m) (cstart ((cprog m skip).mapBody g) (csched ((cprog m skip).mapBody g) cl sch) conn none).cl i = fin i := by
  obtain ⟨a, b⟩ := csched_converges _ (param_wf m skip g).1 (param_wf m skip g).2 cl fin h sch conn hc
  exact ⟨a, fun i hi hp => b i ⟨hi, hp⟩⟩

/-- **Every node ends in the same schema.** A cluster whose nodes start alike (same catalogue on every node — a fresh
    cluster, or one an older release initialised everywhere; the version rows may live on any nodes) ends, after any
    sequence of failed starts and one uninterrupted start, with the SAME catalogue on every node: that of the
    uninterrupted single-catalogue start. -/
theorem cluster_nodes_agree (m : Mode) (hd : isDist m = true) (skip : Bool) (g : Nat → Nat) (cl : Cluster) (c0 : Cat)
    (hsame : ∀ i, i < cl.n → cl.cat i = c0) (fin : Db)
    (h : run ((cprog m skip).mapBody g).toProg ⟨c0, visible true 0 cl.rows⟩ = .ok fin)
    (sch : List (Nat × Option CFault)) (conn : Nat) (hc : conn < cl.n) :
    ∀ i, i < cl.n →
      (cstart ((cprog m skip).mapBody g) (csched ((cprog m skip).mapBody g) cl sch) conn none).cl.cat i = fin.cat := by
  intro i hi
  have hv : ∀ j, j < cl.n → view (isDist m) cl j = ⟨c0, visible true 0 cl.rows⟩ := by
    intro j hj
    rw [hd]
    simp only [view, hsame j hj, visible, Bool.true_or]
  have := (cluster_start_converges m skip g cl (fun _ => fin) (fun j hj => by rw [hv j hj]; exact h) sch conn hc).2 i hi (Or.inr hd)
  exact congrArg Db.cat this

/-- without a configured cluster a start leaves the nodes it is not connected to exactly as they were -/
theorem local_start_frame (m : Mode) (hd : isDist m = false) (skip : Bool) (g : Nat → Nat) (cl : Cluster) (conn : Nat)
    (f : Option CFault) (i : Nat) (hi : i ≠ conn) :
    view false (cstart ((cprog m skip).mapBody g) cl conn f).cl i = view false cl i :=
  cstart_frame _ (by simp [CProg.mapBody, cprog, hd]) (good_noOc (param_wf m skip g).1 (by simp [CProg.mapBody, cprog, hd])) cl conn f i hi

/-- **A version row is written only after EVERY node executed its script**: in the version loop of a cluster start
    the call in front of `INSERT INTO ver (k, v)` is script `v − 1` of stream `k`, it succeeded on every node it was
    sent to, and the row is written in the state that left. -/
theorem cluster_version_sound (conn k : Nat) (l : List CStmt) (i0 : Nat) (cl : Cluster) (j : Nat) (cl' : Cluster) (k' v' : Nat)
    (h : (cloopSteps conn k l i0 cl)[j]? = some (cl', .record k' v')) :
    ∃ j0 cl0 s, j = j0 + 1 ∧ (cloopSteps conn k l i0 cl)[j0]? = some (cl0, .script k' (v' - 1) s) ∧ 1 ≤ v' ∧
      okAll cl0.n conn s cl0.cat = true ∧ cl' = { cl0 with cat := stepCat cl0.n conn allSel s cl0.cat } :=
  cloop_record_after_all conn k l i0 cl j cl' k' v' h

/-- **Up to date ⇒ no migration call, on a cluster too**: when the version rows the connected node reads are at the
    end of every stream (and its own start would succeed), the `Update` part of a cluster start issues no script and
    no version row. -/
theorem cluster_uptodate_noop (m : Mode) (g : Nat → Nat) (cl : Cluster) (conn : Nat) (hc : conn < cl.n) (fin : Db)
    (hJ : run (((cprog m true).mapBody g).phases.map CPhase.toPhase) (view (isDist m) cl conn) = .ok fin)
    (hup : UpToDate (((cprog m true).mapBody g).phases.map CPhase.toPhase) (view (isDist m) cl conn).vers) :
    ∀ st ∈ csteps (isDist m) conn ((cprog m true).mapBody g).phases cl, st.2.toCall.isMigration = false :=
  csteps_uptodate _ cl rfl hc (good_phases (param_wf m true g).1) fin hJ hup

/-- non-vacuity: on a fresh cluster of any size every node's own start succeeds (default parameters) -/
theorem cluster_fresh_start_succeeds (m : Mode) (N : Nat) :
    ∀ i, i < N → ∃ fin, run ((cprog m false).mapBody id).toProg (view (isDist m) (emptyCluster N) i) = .ok fin := by
  intro i _
  have hv : view (isDist m) (emptyCluster N) i = emptyDb := by simp [view, emptyCluster, visible, emptyDb]
  rw [hv]
  have h : (match run ((cprog m false).mapBody id).toProg emptyDb with | .ok _ => true | .error _ => false) = true := by
    cases m <;> decide +kernel
  cases hr : run ((cprog m false).mapBody id).toProg emptyDb with
  | ok fin => exact ⟨fin, rfl⟩
  | error e => simp [hr] at h

/-! ## the pinned tree: `ALTER … ADD COLUMN type_v2` without `ON CLUSTER` -/

/-- `ALTER TABLE t (ADD COLUMN IF NOT EXISTS type_v2 …)` -/
def isTypeV2 : Stmt → Bool
  | .alter _ [.addColumn c true] => names[c]? == some "type_v2"
  | _ => false

/-- the program of the pinned tree: the `type_v2` ALTERs carry no `ON CLUSTER` -/
def pinned (P : CProg) : CProg :=
  let f : CStmt → CStmt := fun s => if isTypeV2 s.stmt then { s with oc := false } else s
  { P with phases := P.phases.map fun ph =>
      ⟨ph.boot.map f, match ph.scripts with
        | none => none
        | some (k, ss) => some (k, ss.map f)⟩ }

/-- **Counterexample for the pinned tree** (kernel-evaluated, no failure at all): on a fresh cluster of two nodes an
    uninterrupted start connected to node 0 completes, and node 1 does NOT have node 0's catalogue — the eight `type_v2`
    columns exist on the connected node only, for good (their versions are recorded). The criterion
    `cluster_table_criteria` rejects that program. Fixed in the repository by adding `{{.OnCluster}}` to the eight
    statements. -/
theorem pinned_tree_counterexample :
    (pinned (cprog .clustered false)).wfB = false ∧
    (cstart (pinned (cprog .clustered false)) (emptyCluster 2) 0 none).status = .done ∧
    (cstart (pinned (cprog .clustered false)) (emptyCluster 2) 0 none).cl.cat 1 ≠
      (cstart (pinned (cprog .clustered false)) (emptyCluster 2) 0 none).cl.cat 0 ∧
    (cstart (cprog .clustered false) (emptyCluster 2) 0 none).cl.cat 1 =
      (cstart (cprog .clustered false) (emptyCluster 2) 0 none).cl.cat 0 := by
  decide +kernel

end Qryn.C18
