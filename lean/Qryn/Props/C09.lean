import Qryn.Proofs.InternalEngines
import Qryn.Proofs.InternalOpt
import Qryn.Proofs.InternalJsonPath
import Qryn.Proofs.InternalParams
import Qryn.Proofs.InternalCompose
import Qryn.Proofs.InternalEndToEnd
import Qryn.Proofs.InternalPathSyntax
import Qryn.Proofs.InternalMetricBridge
import Qryn.Proofs.InternalAggBridge
import Qryn.Gen.InternalAgg
import Qryn.Proofs.InternalPlanCompose
import Qryn.Proofs.InternalVecCompose
import Qryn.Props.C08
import Qryn.Read.JsonPathSyntax
import Qryn.LogQL.PostMetric
import Qryn.Gen.InternalPlanner
import Qryn.Gen.InternalParams
import Qryn.Gen.PlannerGlobals
/-! # C09 — a LogQL result does not depend on which engine ran each pipeline stage

Model: `Read.*` (Qryn/Read/Internal.lean) — every stage of reader/logql/logql_transpiler_v2/internal_planner as a
function on the list of channel messages, with the state it carries between messages explicit; tied to the Go
code by the `run` correspondence stream (real `Plan` + scripted upstream vs `Read.runPlan`) and by
`Gen.InternalPlanner`. Specification: `LogQL.Stages.*` (Qryn/LogQL/SemStages.lean) on the flat entry list, and
`LogQL.Sem` (`entryMatches`, `limited`, `lineHolds`, `labelCondHolds`) for what ClickHouse returns.
`V` is float64 as an abstract type with operations `N`; RE2, the JSON/logfmt decoders, templates and CityHash64
are the uninterpreted functions of `Env`. "Proper" entries are those without `Err` (the getter's end-of-stream
marker and upstream errors are entries with `Err` set). -/
namespace Qryn.C09
open Qryn Qryn.Sql Qryn.LogQL Qryn.LogQL.Stages Qryn.Read

variable {V : Type}

/-! ## 1. batching invariance: `flatten (stage bs) = stageFlat (flatten bs)` for every batching -/

/-- **Every pipeline stage** (line filter, label filter, json/logfmt with and without parameters, label_format,
    line_format, drop, unwrap): the concatenation of what the stage sends equals its per-entry function applied
    to the concatenation of what it received — for every way of cutting the stream into messages, empty
    messages and marker entries included. -/
theorem batching_invariant_stage (E : Env V) (s : StageK V) (bs : Batches V) :
    (runStage E s bs).flatten = stageFlat E s bs.flatten := runStage_flatten E s bs

theorem batching_invariant_lineFilter (E : Env V) (op : LineOp) (val : Bytes) (bs : Batches V) :
    (run E.num (accOps (lineFilterFn E.o op val)) [] bs).flatten = bs.flatten.filterMap (lineFilterFn E.o op val) := by
  rw [run_accOps, flatten_map_filterMap]

theorem batching_invariant_labelFilter (E : Env V) (c : LabelCond) (bs : Batches V) :
    (run E.num (accOps (labelFilterFn E.o c)) [] bs).flatten = bs.flatten.filterMap (labelFilterFn E.o c) := by
  rw [run_accOps, flatten_map_filterMap]

theorem batching_invariant_parser (E : Env V) (k : ParserKind) (bs : Batches V) :
    (run E.num (mapOps (parserFn E k)) () bs).flatten = bs.flatten.map (parserFn E k) := by
  rw [run_mapOps, flatten_map_map]

theorem batching_invariant_labelFormat (E : Env V) (ops : List FormatOp) (bs : Batches V) :
    (run E.num (mapOps (labelFormatFn E ops)) () bs).flatten = bs.flatten.map (labelFormatFn E ops) := by
  rw [run_mapOps, flatten_map_map]

theorem batching_invariant_lineFormat (E : Env V) (t : Bytes) (bs : Batches V) :
    (run E.num (accOps (lineFormatFn E t)) [] bs).flatten = bs.flatten.filterMap (lineFormatFn E t) := by
  rw [run_accOps, flatten_map_filterMap]

theorem batching_invariant_drop (E : Env V) (ns vs : List Bytes) (bs : Batches V) :
    (run E.num (mapOps (dropFn E ns vs)) () bs).flatten = bs.flatten.map (dropFn E ns vs) := by
  rw [run_mapOps, flatten_map_map]

theorem batching_invariant_unwrap (E : Env V) (l : Bytes) (bs : Batches V) :
    (run E.num (mapOps (unwrapFn E l)) () bs).flatten = bs.flatten.map (unwrapFn E l) := by
  rw [run_mapOps, flatten_map_map]

theorem batching_invariant_byWithout (E : Env V) (isBy : Bool) (names : List Bytes) (bs : Batches V) :
    (run E.num (mapOps (byWithoutFn E isBy names)) () bs).flatten = bs.flatten.map (byWithoutFn E isBy names) := by
  rw [run_mapOps, flatten_map_map]

theorem batching_invariant_comparison (N : NumOps V) (op : CmpOp) (v : V) (bs : Batches V) :
    (run N (accOps (comparisonFn N op v)) [] bs).flatten = bs.flatten.filterMap (comparisonFn N op v) := by
  rw [run_accOps, flatten_map_filterMap]

/-- **limit**, with its counter `sent` carried across messages: the first `limit` entries of the stream, all of
    them when `limit = 0`, none when it is negative. -/
theorem batching_invariant_limit (N : NumOps V) (limit : Int) (bs : Batches V) :
    (run N (limitOps limit) 0 bs).flatten = limitStage limit bs.flatten := by
  rw [run_limitOps_flatten, limit_meets]

/-- **response optimizer**, with its map and counter carried across messages, for every flush threshold: each
    series' entries come out exactly as they went in — same entries, same order, whatever the batching. (Across
    series the order depends on the batching and on Go's map order; the property does not constrain it.) -/
theorem batching_invariant_optimizer (N : NumOps V) (threshold : Nat) (bs : Batches V) (f : UInt64) :
    (run N (optimizerOps threshold) ⟨[], 0⟩ bs).flatten.filter (fun e => e.fp == f) =
      bs.flatten.filter (fun e => e.fp == f) := by
  have := run_optimizerOps_filter N threshold ⟨[], 0⟩ ⟨⟨by simp, by simp⟩, by simp [groupsFlat]⟩ bs f
  simpa [groupsFlat] using this

/-- **generic aggregator** (range, unwrap and vector aggregation), with its series map carried across messages,
    for every series cap: the output — data, `Too many time-series`, or an upstream error passed on — is the
    one it produces when everything arrives in a single message. -/
theorem batching_invariant_aggregator (N : NumOps V) (maxSeries : Nat) (g : Grid) (fn : AggFn V) (bs : Batches V) :
    run N (aggOps N maxSeries g fn) [] bs = run N (aggOps N maxSeries g fn) [] [bs.flatten] := by
  rw [run_collect N _ (aggOps_afterSlice N maxSeries g fn), run_collect N _ (aggOps_afterSlice N maxSeries g fn)]
  simp

/-- a whole pipeline of stages -/
def stagesFlat (E : Env V) (ss : List (StageK V)) (es : List (Entry V)) : List (Entry V) :=
  ss.foldl (fun acc s => stageFlat E s acc) es

theorem batching_invariant_stages (E : Env V) (ss : List (StageK V)) (bs : Batches V) :
    (runStages E ss bs).flatten = stagesFlat E ss bs.flatten := by
  induction ss generalizing bs with
  | nil => rfl
  | cons s ss ih =>
    simp only [runStages, stagesFlat, List.foldl_cons] at ih ⊢
    rw [ih, batching_invariant_stage]

/-- **log query plan** (stages, limit, optimizer): every series of the result is the same for every batching
    of the upstream entries. -/
theorem batching_invariant_logPlan (E : Env V) (c : Read.Ctx) (p : Plan V) (hlog : p.agg = none) (bs : Batches V) (f : UInt64) :
    (runPlan E c p bs).flatten.filter (fun e => e.fp == f) =
      (limitStage c.limit (stagesFlat E p.stages bs.flatten)).filter (fun e => e.fp == f) := by
  simp only [runPlan, hlog]
  rw [batching_invariant_optimizer, batching_invariant_limit, batching_invariant_stages]

/-- **metric query plan**: the output batches themselves do not depend on the batching of the upstream entries. -/
theorem batching_invariant_metricPlan (E : Env V) (c : Read.Ctx) (p : Plan V) (hm : p.agg.isSome = true) (bs : Batches V) :
    runPlan E c p bs = runPlan E c p [bs.flatten] := by
  obtain ⟨⟨k, dur⟩, hk⟩ := Option.isSome_iff_exists.mp hm
  have hst : (runStages E p.stages bs).flatten = (runStages E p.stages [bs.flatten]).flatten := by
    rw [batching_invariant_stages, batching_invariant_stages]; simp
  have hbw : ∀ b, (runByWithout E b (runStages E p.stages bs)).flatten =
      (runByWithout E b (runStages E p.stages [bs.flatten])).flatten := by
    intro b
    cases b with
    | none => exact hst
    | some bw => simp only [runByWithout, run_mapOps, flatten_map_map, hst]
  cases k with
  | range fn =>
    have : run E.num (aggOps E.num c.maxSeries (Grid.of c.fromNs c.toNs dur) (lraFn E.num dur fn)) [] (runStages E p.stages bs) =
        run E.num (aggOps E.num c.maxSeries (Grid.of c.fromNs c.toNs dur) (lraFn E.num dur fn)) [] (runStages E p.stages [bs.flatten]) := by
      rw [batching_invariant_aggregator, hst, ← batching_invariant_aggregator]
    simp only [runPlan, hk, this]
  | unwrap fn =>
    have : run E.num (aggOps E.num c.maxSeries (Grid.of c.fromNs c.toNs dur) (unwrapAggFn E.num dur (dirFn c.orderAsc fn))) []
          (runByWithout E p.aggBy (runStages E p.stages bs)) =
        run E.num (aggOps E.num c.maxSeries (Grid.of c.fromNs c.toNs dur) (unwrapAggFn E.num dur (dirFn c.orderAsc fn))) []
          (runByWithout E p.aggBy (runStages E p.stages [bs.flatten])) := by
      rw [batching_invariant_aggregator, hbw, ← batching_invariant_aggregator]
    simp only [runPlan, hk, this]

/-! ## 2. each stage is its LogQL definition (on proper entries) -/

/-- line filter = `LogQL.lineHolds` (the reading C07 proves the SQL against), regex by the same RE2 oracle -/
theorem stage_meets_logql_lineFilter (E : Env V) (op : LineOp) (val : Bytes) (es : List (Entry V))
    (hp : ∀ e ∈ es, e.err = none) : stageFlat E (.line op val) es = lineStage E op val es := line_meets E op val es hp

/-- label filter = `LogQL.labelCondHolds`; the only assumption: the empty string is not a number -/
theorem stage_meets_logql_labelFilter (E : Env V) (h0 : E.o.isNum [] = false) (c : LabelCond) (es : List (Entry V)) :
    stageFlat E (.labelFilter c) es = labelStage E c es := label_meets E h0 c es

/-- **every parser stage the in-process engine runs** — `| json`, `| json n₁="p₁", …` (any number of parameters),
    `| logfmt`, `| logfmt n₁="k₁", …` — on every line, well-formed or not: the extracted labels are those of the
    definition and the entry moves to the series of its new label set. For `| json`: one label per scalar outside
    arrays, named by the `_`-joined sanitised path, later values replacing earlier ones, up to the point where the
    decoder fails. The parameterised forms are spelled out in the next two theorems. -/
theorem stage_meets_logql_parser (E : Env V) (k : ParserKind) (es : List (Entry V))
    (hp : ∀ e ∈ es, e.err = none) : stageFlat E (.parser k) es = parserStage E k es := parser_meets_all E k es hp

/-- **`| json n₁="p₁", n₂="p₂", …`, general case**: any number of parameters, names that repeat, names of
    existing stream labels, paths that are prefixes of each other, array indexes, keys occurring twice, lines that are
    no JSON document. What `jsonWithParams` leaves in the label map is `jsonPathLabels`: **every named label is set**.
    On a line that is one readable JSON document, go through the values of the document in document order (an object
    or an array before its members); a value whose address (keys and indexes from the root) is the path of a parameter
    gives that parameter's label its text — the content of a string, the source text of a number / true / false /
    null, the JSON text of an object or an array. Hence a name used by several parameters ends with the value that
    comes last *in the document* (not in the parameter list). A parameter no value was found for sets its label to the
    empty string, also when a stream label has that name; on a line that is not one JSON document (`jx.Valid` says no,
    e.g. text after the document) every named label becomes the empty string. This is what the ClickHouse planner's
    `mapUpdate(labels, mapFromArrays(names, [JSONExtract…]))` does for the same stage (`engines_agree_jsonParams`). -/
theorem stage_meets_logql_jsonParams (E : Env V) (ps : List Ahead) (es : List (Entry V))
    (hp : ∀ e ∈ es, e.err = none) :
    stageFlat E (.parser (.jsonParams ps)) es =
      es.map (fun e => relabel E e
        (jsonPathLabels (E.jsonValid e.msg && !hasBad (E.jsonDecode e.msg)) ps (E.jsonDecode e.msg) e.labels)) :=
  parser_meets_all E (.jsonParams ps) es hp

/-- **`| logfmt n₁="k₁", …`**: the map `ParserPlanner.Process` fills from the parameters (first path segment ↦
    name, skipping empty paths and leading indexes, a later parameter overwriting an earlier one with the same
    key) sends every logfmt key to the label of the *last* parameter whose expression starts with that key; keys
    no parameter names are not extracted. -/
theorem stage_meets_logql_logfmtParams (E : Env V) (ps : List Ahead) (es : List (Entry V))
    (hp : ∀ e ∈ es, e.err = none) :
    stageFlat E (.parser (.logfmtParams ps)) es =
      es.map (fun e => relabel E e (logfmtParamLabels ps (E.logfmtDecode e.msg) e.labels)) :=
  parser_meets_all E (.logfmtParams ps) es hp

/-- one parameter: the general definition is the reading by lookup — the label is the text the path leads to (for a
    key that occurs twice the last occurrence that leads somewhere), "" when it leads nowhere or the line is not a
    readable document; other labels untouched. -/
theorem jsonParam_single_is_lookup (readable : Bool) (n : Bytes) (p : List PathSeg) (doc : JVal) (l : Read.Labels) :
    jsonPathLabels readable [(n, p)] doc l = l.set n (if readable then (lookupPath doc p).getD [] else []) := by
  rw [jsonParams_distinct_lookup readable [(n, p)] (by simp) doc l]
  rfl

/-- **parameters with pairwise different names**: the general definition coincides with the reading by lookup —
    every parameter's label is the text `lookupPath` finds for its path ("" when nothing), whatever the order of the
    parameters and of the members of the document (`jsonParamLabels` goes through the parameters in order; the engine
    goes through the document). -/
theorem jsonParams_distinct_is_lookup (readable : Bool) (ps : List Ahead) (hd : (ps.map (·.1)).Nodup) (doc : JVal)
    (l : Read.Labels) : jsonPathLabels readable ps doc l = jsonParamLabels readable ps doc l :=
  jsonParams_distinct_lookup readable ps hd doc l

/-- following a path finds the LAST value of the document (document order, a composite before its members) that has
    this address: the recursive reading and the document-order reading are the same function -/
theorem lookup_is_last_value_at_path (n : Bytes) (p : List PathSeg) (doc : JVal) :
    jsonPathFound [(n, p)] doc = (match lookupPath doc p with | some v => [(n, v)] | none => []) := by
  rw [jsonPathFound_single]
  cases lookupPath doc p <;> rfl

/-- the hypothesis "different names" is needed: `p="a", p="b"` on `{"b":"1","a":"2"}` gives `p=2` (the later member of
    the document), the parameter-order reading would give `p=1` -/
theorem jsonParams_repeated_name_document_order :
    let doc := JVal.obj [] (.cons [98] (.str [49]) (.cons [97] (.str [50]) .nil))
    let ps : List Ahead := [([112], [.key [97]]), ([112], [.key [98]])]
    jsonParams true ps doc [] = [([112], [50])] ∧ jsonPathLabels true ps doc [] = [([112], [50])] ∧
    jsonParamLabels true ps doc [] = [([112], [49])] := by decide

/-- **`JsonPathParamToTypedArray`, exact characterisation** (on the texts of the modelled token syntax): the model returns a
    typed path exactly for the texts whose tokens the grammar of path_parser.go derives — `Path = Part+`,
    `Part = "."? Ident | "[" (String | RawString) "]" | "[" Int "]"`, as the derivation relation `Read.Parts` — and the
    path is the one the derivation denotes (identifier / unquoted string ↦ key, integer ↦ index); every other text of the
    fragment is a parse error, texts outside the fragment are `outside` (reported apart by the `path` stream, which runs
    the real parser on the same texts). The grammar is unambiguous: the typed path is a function of the text. -/
theorem parsePath_characterised (text : Bytes) (p : List PathSeg) :
    parsePath text = .ok p ↔ ∃ ts, ptoks text.length text = some ts ∧ Parts ts p ∧ p ≠ [] := by
  unfold parsePath
  cases ht : ptoks text.length text with
  | none => simp
  | some ts =>
    simp only [Option.some.injEq, exists_eq_left']
    cases hp : pparts ts [] with
    | none =>
      constructor
      · intro h; cases h
      · intro h
        have := (pparts_iff ts p).mpr h
        rw [hp] at this
        cases this
    | some q =>
      constructor
      · intro h
        have hq : q = p := PathParse.ok.inj h
        subst hq
        exact (pparts_iff ts q).mp hp
      · intro h
        have := (pparts_iff ts p).mpr h
        rw [hp] at this
        rw [Option.some.inj this]

/-- **round trip**: every non-empty typed path — keys of printable ASCII without `"`, `\`, `` ` ``, indexes below 10¹⁸ —
    is written by the parameter text `printPath p` (`["key"][7]…`), and the parser reads exactly `p` back: the parser is
    onto the typed paths the in-process walk (`jppVal`) and the ClickHouse planner (`toJArg`) are defined on -/
theorem parsePath_roundtrip (p : List PathSeg) (hne : p ≠ []) (hp : ∀ s ∈ p, SegOk s) :
    parsePath (printPath p) = .ok p := parsePath_printPath p hne hp

/-- `["a b"][10][0]` -/
example : printPath [.key [97, 32, 98], .idx 10, .idx 0] = [91, 34, 97, 32, 98, 34, 93, 91, 49, 48, 93, 91, 48, 93] ∧
    parsePath (printPath [.key [97, 32, 98], .idx 10, .idx 0]) = .ok [.key [97, 32, 98], .idx 10, .idx 0] := by
  constructor
  · decide
  · decide

/-- which parsers the in-process engine has: `json` and `logfmt`; `regexp`, `pattern`, `unpack` are answered
    `NotSupported` (the switch of `ParserPlanner.Process`, regenerated) -/
theorem parser_ops_modelled :
    Gen.InternalParams.parserOpCases = ["json", "logfmt"] ∧
    (∀ ps, planParser .other ps = none) ∧
    (∀ ps, planParser .json ps = some (if ps.isEmpty then .json else .jsonParams ps)) ∧
    (∀ ps, planParser .logfmt ps = some (if ps.isEmpty then .logfmt else .logfmtParams ps)) :=
  ⟨rfl, fun _ => rfl, fun _ => rfl, fun _ => rfl⟩

theorem stage_meets_logql_labelFormat (E : Env V) (ops : List FormatOp) (es : List (Entry V))
    (hp : ∀ e ∈ es, e.err = none) : stageFlat E (.labelFormat ops) es = labelFormatStage E ops es :=
  labelFormat_meets E ops es hp

theorem stage_meets_logql_lineFormat (E : Env V) (t : Bytes) (es : List (Entry V)) :
    stageFlat E (.lineFormat t) es = lineFormatStage E t es := lineFormat_meets E t es

theorem stage_meets_logql_drop (E : Env V) (ns vs : List Bytes) (es : List (Entry V))
    (hp : ∀ e ∈ es, e.err = none) : stageFlat E (.drop ns vs) es = dropStage E ns vs es := drop_meets E ns vs es hp

theorem stage_meets_logql_unwrap (E : Env V) (l : Bytes) (es : List (Entry V))
    (hp : ∀ e ∈ es, e.err = none) : stageFlat E (.unwrap l) es = unwrapStage E l es := unwrap_meets E l es hp

theorem stage_meets_logql_byWithout (E : Env V) (isBy : Bool) (names : List Bytes) (es : List (Entry V))
    (hp : ∀ e ∈ es, e.err = none) : es.map (byWithoutFn E isBy names) = byWithoutStage E isBy names es :=
  byWithout_meets E isBy names es hp

theorem stage_meets_logql_comparison (N : NumOps V) (op : CmpOp) (v : V) (es : List (Entry V)) :
    es.filterMap (comparisonFn N op v) = compareStage N op v es := comparison_meets N op v es

/-- **range aggregation** (`rate`, `count_over_time`, `bytes_rate`, `bytes_over_time`): for any batching of
    proper entries whose fingerprints identify their label sets and whose series fit under the cap, the bucket
    arrays yield exactly one sample per series and non-empty window `[start + i·d, start + (i+1)·d)`, `i < n`,
    with the LogQL value of the entries of that series in that window. -/
theorem stage_meets_logql_rangeAgg (N : NumOps V) (maxSeries : Nat) (g : Grid) (dur : Int) (fn : Read.RangeFn)
    (hfn : rangeCounts fn = true) (bs : Batches V) (hp : ∀ e ∈ bs.flatten, e.err = none)
    (hcap : (Stages.firstBy (fun e : Entry V => e.fp) bs.flatten).length ≤ maxSeries) (hf : FpFaithful bs.flatten) :
    run N (aggOps N maxSeries g (lraFn N dur fn)) [] bs =
      aggregate (fun e : Entry V => e.labels) g (rangeValue N dur fn) bs.flatten := by
  rw [run_aggOps N maxSeries g _ (lraFn_counts N dur fn hfn) bs hp hcap,
    aggregate_value_congr _ g _ _ (fun l _ => lra_value N dur fn l),
    aggregate_key_congr (fun e : Entry V => e.fp) (fun e : Entry V => e.labels) g _ _ hf]

/-- **unwrapped range aggregation** (`sum/avg/min/max/first/last_over_time`, `rate` of an unwrapped value):
    `min_over_time` is the minimum, `first_over_time` the value of the first entry, also when it is 0. -/
theorem stage_meets_logql_unwrapAgg (N : NumOps V) (maxSeries : Nat) (g : Grid) (dur : Int) (fn : Read.UnwrapFn)
    (hfn : unwrapCounts fn = true) (bs : Batches V) (hp : ∀ e ∈ bs.flatten, e.err = none)
    (hcap : (Stages.firstBy (fun e : Entry V => e.fp) bs.flatten).length ≤ maxSeries) (hf : FpFaithful bs.flatten) :
    run N (aggOps N maxSeries g (unwrapAggFn N dur fn)) [] bs =
      aggregate (fun e : Entry V => e.labels) g (Stages.unwrapValue N dur fn) bs.flatten := by
  rw [run_aggOps N maxSeries g _ (unwrapAggFn_counts N dur fn hfn) bs hp hcap,
    aggregate_value_congr _ g _ _ (fun l hl => unwrap_value N dur fn l hl hfn),
    aggregate_key_congr (fun e : Entry V => e.fp) (fun e : Entry V => e.labels) g _ _ hf]

/-- **vector aggregation** (`sum/min/max/avg/count by|without`), after `by/without` has cut the labels -/
theorem stage_meets_logql_vectorAgg (N : NumOps V) (maxSeries : Nat) (g : Grid) (fn : VecFn)
    (bs : Batches V) (hp : ∀ e ∈ bs.flatten, e.err = none)
    (hcap : (Stages.firstBy (fun e : Entry V => e.fp) bs.flatten).length ≤ maxSeries) (hf : FpFaithful bs.flatten) :
    run N (aggOps N maxSeries g (vecFn N fn)) [] bs =
      aggregate (fun e : Entry V => e.labels) g (vecValue N fn) bs.flatten := by
  rw [run_aggOps N maxSeries g _ (vecFn_counts N fn) bs hp hcap,
    aggregate_value_congr _ g _ _ (fun l hl => vec_value N fn l hl),
    aggregate_key_congr (fun e : Entry V => e.fp) (fun e : Entry V => e.labels) g _ _ hf]

/-- the order in which the ClickHouse part of a split script delivers its rows: ORDER BY timestamp_ns in the direction of the
    request — ascending when `direction=forward` (`ctx.OrderASC`), descending otherwise (the default) -/
def TsOrdered (asc : Bool) (l : List (Entry V)) : Prop :=
  l.Pairwise (fun a b => if asc then a.ts ≤ b.ts else b.ts ≤ a.ts)

theorem getLast_val_map (N : NumOps V) (l : List (Entry V)) (hl : l ≠ []) :
    ((l.map (·.val)).getLast?).getD N.zero = (l.getLast hl).val := by
  rw [List.getLast?_map, List.getLast?_eq_some_getLast hl]
  rfl

/-- **`first_over_time` is the value of an earliest entry of the window, whatever the direction of the request** (after
    the `fix:`: with the default direction the rows arrive newest first and the function used to return the value of
    the *latest* entry; ClickHouse computes `argMin(value, timestamp_ns)`). Among entries with the same least timestamp
    the choice is open on both engines. -/
theorem first_over_time_is_earliest (N : NumOps V) (d : Int) (asc : Bool) (l : List (Entry V)) (hl : l ≠ [])
    (hs : TsOrdered asc l) :
    ∃ e ∈ l, Stages.unwrapValue N d (dirFn asc .firstOverTime) l = e.val ∧ ∀ x ∈ l, e.ts ≤ x.ts := by
  cases asc with
  | true =>
    cases l with
    | nil => exact absurd rfl hl
    | cons e rest =>
      refine ⟨e, List.mem_cons_self, rfl, ?_⟩
      intro x hx
      rcases List.mem_cons.mp hx with h | h
      · rw [h]; exact Int.le_refl _
      · have := (List.pairwise_cons.mp hs).1 x h
        simpa using this
  | false =>
    refine ⟨l.getLast hl, List.getLast_mem hl, ?_, ?_⟩
    · simp only [dirFn, Bool.false_eq_true, if_false, Stages.unwrapValue]
      exact getLast_val_map N l hl
    · intro x hx
      have hsplit := List.dropLast_concat_getLast hl
      rw [← hsplit] at hx hs
      rcases List.mem_append.mp hx with h | h
      · have := (List.pairwise_append.mp hs).2.2 x h (l.getLast hl) (by simp)
        simpa using this
      · simp only [List.mem_singleton] at h
        rw [h]; exact Int.le_refl _

/-- **`last_over_time` is the value of a latest entry of the window** (ClickHouse: `argMax(value, timestamp_ns)`) -/
theorem last_over_time_is_latest (N : NumOps V) (d : Int) (asc : Bool) (l : List (Entry V)) (hl : l ≠ [])
    (hs : TsOrdered asc l) :
    ∃ e ∈ l, Stages.unwrapValue N d (dirFn asc .lastOverTime) l = e.val ∧ ∀ x ∈ l, x.ts ≤ e.ts := by
  cases asc with
  | false =>
    cases l with
    | nil => exact absurd rfl hl
    | cons e rest =>
      refine ⟨e, List.mem_cons_self, rfl, ?_⟩
      intro x hx
      rcases List.mem_cons.mp hx with h | h
      · rw [h]; exact Int.le_refl _
      · have := (List.pairwise_cons.mp hs).1 x h
        simpa using this
  | true =>
    refine ⟨l.getLast hl, List.getLast_mem hl, ?_, ?_⟩
    · simp only [dirFn, if_true, Stages.unwrapValue]
      exact getLast_val_map N l hl
    · intro x hx
      have hsplit := List.dropLast_concat_getLast hl
      rw [← hsplit] at hx hs
      rcases List.mem_append.mp hx with h | h
      · have := (List.pairwise_append.mp hs).2.2 x h (l.getLast hl) (by simp)
        simpa using this
      · simp only [List.mem_singleton] at h
        rw [h]; exact Int.le_refl _

/-- **any sequence of the modelled stages** (line filter, label filter, the four parser forms, label_format,
    line_format, drop, unwrap) is the LogQL definition applied stage by stage — induction over the stage list -/
theorem stages_meet_logql (E : Env V) (h0 : E.o.isNum [] = false) (ss : List (StageK V))
    (es : List (Entry V)) (hp : ∀ e ∈ es, e.err = none) :
    stagesFlat E ss es = Stages.stages E ss es ∧ ∀ e ∈ stagesFlat E ss es, e.err = none := by
  induction ss generalizing es with
  | nil => exact ⟨rfl, hp⟩
  | cons s ss ih =>
    have hs : stageFlat E s es = Stages.stage E s es := by
      cases s with
      | line op val => exact line_meets E op val es hp
      | labelFilter c => exact label_meets E h0 c es
      | parser k => exact parser_meets_all E k es hp
      | labelFormat ops => exact labelFormat_meets E ops es hp
      | lineFormat t => exact lineFormat_meets E t es
      | drop ns vs => exact drop_meets E ns vs es hp
      | unwrap l => exact unwrap_meets E l es hp
    have := ih (stageFlat E s es) (stageFlat_proper E s es hp)
    simp only [stagesFlat, Stages.stages, List.foldl_cons] at this ⊢
    rw [← hs]
    exact this

/-- **a whole log query plan is its LogQL reading**: for every batching of proper upstream entries, every series
    of the engine's output is that series of `LogQL.Stages.evalPlan` (stages in order, then the limit). -/
theorem logPlan_meets_logql (E : Env V) (h0 : E.o.isNum [] = false) (c : Read.Ctx) (p : Plan V) (hlog : p.agg = none)
    (bs : Batches V) (hp : ∀ e ∈ bs.flatten, e.err = none) (f : UInt64) :
    (runPlan E c p bs).flatten.filter (fun e => e.fp == f) =
      (evalPlan E c p bs.flatten).flatten.filter (fun e => e.fp == f) := by
  rw [batching_invariant_logPlan E c p hlog bs f, (stages_meet_logql E h0 p.stages bs.flatten hp).1]
  simp [evalPlan, hlog]

/-- **a whole metric query plan is its LogQL reading.** For every plan `internal_planner.Plan` builds around a range
    aggregation — any sequence of the modelled stages (line filter, label filter, `json`, `json` with parameters,
    `logfmt`, `logfmt` with parameters, `label_format`, `line_format`, `drop`, `unwrap`), then `by/without` and the
    range aggregation (`rate`, `count_over_time`, `bytes_rate`, `bytes_over_time`; over an unwrapped value `rate`,
    `sum/avg/min/max/first/last_over_time`), an optional comparison, an optional vector aggregation
    (`sum/min/max/avg/count` with `by/without`) with its optional comparison — and for **every batching** of proper
    upstream entries, the messages the engine sends are exactly `LogQL.Stages.evalPlan` of the flat entry list: the
    definition applied stage by stage (for a function name the engine has no case for — `stddev/stdvar_over_time` —
    both sides are empty). Hypotheses (`MetricOk`, stated on the specification side): the series reaching each
    aggregator fit under the cap, and fingerprints identify label sets there (`metricOk_from_noCollision` derives
    that from the hash-collision hypothesis).
    Proof: `stages_meet_logql` (induction over the stage list) then the per-stage theorems in plan order. -/
theorem metricPlan_meets_logql (E : Env V) (h0 : E.o.isNum [] = false) (c : Read.Ctx) (p : Plan V)
    (hm : p.agg.isSome = true) (bs : Batches V) (hp : ∀ e ∈ bs.flatten, e.err = none)
    (hok : MetricOk E c p bs.flatten) :
    runPlan E c p bs = evalPlan E c p bs.flatten := by
  obtain ⟨⟨k, dur⟩, hk⟩ := Option.isSome_iff_exists.mp hm
  obtain ⟨hcap, hf, hcapV, hfV⟩ := hok
  have hst := stages_meet_logql E h0 p.stages bs.flatten hp
  have hflat : (runStages E p.stages bs).flatten = stages E p.stages bs.flatten := by
    rw [batching_invariant_stages]; exact hst.1
  have hprop : ∀ e ∈ (runStages E p.stages bs).flatten, e.err = none := by
    rw [batching_invariant_stages]; exact hst.2
  have hsp : ∀ e ∈ stages E p.stages bs.flatten, e.err = none := by
    rw [← hst.1]; exact hst.2
  -- the range aggregation
  have hrange : (match k with
      | .range fn => run E.num (aggOps E.num c.maxSeries (Grid.of c.fromNs c.toNs dur) (lraFn E.num dur fn)) [] (runStages E p.stages bs)
      | .unwrap fn => run E.num (aggOps E.num c.maxSeries (Grid.of c.fromNs c.toNs dur) (unwrapAggFn E.num dur (dirFn c.orderAsc fn))) []
          (runByWithout E p.aggBy (runStages E p.stages bs))) =
      (match k with
      | .range fn => if rangeCounts fn then aggregate (·.labels) (Grid.of c.fromNs c.toNs dur) (rangeValue E.num dur fn) (stages E p.stages bs.flatten) else []
      | .unwrap fn => if unwrapCounts fn then aggregate (·.labels) (Grid.of c.fromNs c.toNs dur) (Stages.unwrapValue E.num dur (dirFn c.orderAsc fn))
          (optByWithout E p.aggBy (stages E p.stages bs.flatten)) else []) := by
    cases k with
    | range fn =>
      simp only [aggInput, hk] at hcap hf
      by_cases hfn : rangeCounts fn = true
      · simp only [hfn, if_true]
        rw [stage_meets_logql_rangeAgg E.num c.maxSeries _ dur fn hfn _ hprop (by rw [hflat]; exact hcap) (by rw [hflat]; exact hf), hflat]
      · -- a name `LRAPlanner.addValue` has no case for: nothing is counted, nothing is emitted
        have hfo : fn = .other := by cases fn <;> simp [rangeCounts] at hfn ⊢
        subst hfo
        simp only [rangeCounts, Bool.false_eq_true, if_false]
        exact run_aggOps_idle E.num c.maxSeries _ _ (fun _ _ => rfl) _ hprop (by rw [hflat]; exact hcap)
    | unwrap fn =>
      simp only [aggInput, hk] at hcap hf
      have hbw := runByWithout_flatten E p.aggBy _ hprop
      rw [hflat] at hbw
      have hprop' : ∀ e ∈ (runByWithout E p.aggBy (runStages E p.stages bs)).flatten, e.err = none := by
        rw [hbw]
        intro e he
        cases hb : p.aggBy with
        | none => rw [hb] at he; exact hsp e he
        | some bw =>
          rw [hb] at he
          simp only [optByWithout, byWithoutStage, List.mem_map] at he
          obtain ⟨x, hx, rfl⟩ := he
          exact hsp x hx
      by_cases hfn : unwrapCounts fn = true
      · simp only [hfn, if_true]
        have hfn' : unwrapCounts (dirFn c.orderAsc fn) = true := by
          cases fn <;> cases c.orderAsc <;> simp [dirFn, unwrapCounts] at hfn ⊢
        rw [stage_meets_logql_unwrapAgg E.num c.maxSeries _ dur (dirFn c.orderAsc fn) hfn' _ hprop' (by rw [hbw]; exact hcap) (by rw [hbw]; exact hf), hbw]
      · have hfo : fn = .other := by cases fn <;> simp [unwrapCounts] at hfn ⊢
        subst hfo
        simp only [unwrapCounts, Bool.false_eq_true, if_false]
        exact run_aggOps_idle E.num c.maxSeries _ _ (fun _ _ => rfl) _ hprop' (by rw [hbw]; exact hcap)
  cases hv : p.vec with
  | none =>
    simp only [runPlan, evalPlan, hk, hv, runCmp_eq]
    cases k <;> simp only [] at hrange ⊢ <;> rw [hrange]
  | some fbc =>
    obtain ⟨fn, bw, cmp⟩ := fbc
    -- the stream reaching the vector aggregation, on the specification side
    have hin : vecInput E c p bs.flatten = optByWithout E bw (rangeResult E c p bs.flatten).flatten := by
      simp only [vecInput, hv]
    rw [hin] at hcapV hfV
    have hres : ∀ e ∈ (rangeResult E c p bs.flatten).flatten, e.err = none :=
      fun e he => (rangeResult_mem E c p bs.flatten hm e he).1
    have hbw := runByWithout_flatten E bw (rangeResult E c p bs.flatten) hres
    have hprop' : ∀ e ∈ (runByWithout E bw (rangeResult E c p bs.flatten)).flatten, e.err = none := by
      rw [hbw]
      intro e he
      cases bw with
      | none => exact hres e he
      | some b =>
        simp only [optByWithout, byWithoutStage, List.mem_map] at he
        obtain ⟨x, hx, rfl⟩ := he
        exact hres x hx
    have hvec := stage_meets_logql_vectorAgg E.num c.maxSeries (Grid.of c.fromNs c.toNs dur) fn
      (runByWithout E bw (rangeResult E c p bs.flatten)) hprop' (by rw [hbw]; exact hcapV) (by rw [hbw]; exact hfV)
    rw [hbw] at hvec
    have hrr : rangeResult E c p bs.flatten = optCompare E.num p.aggCmp (match k with
      | .range fn => if rangeCounts fn then aggregate (·.labels) (Grid.of c.fromNs c.toNs dur) (rangeValue E.num dur fn) (stages E p.stages bs.flatten) else []
      | .unwrap fn => if unwrapCounts fn then aggregate (·.labels) (Grid.of c.fromNs c.toNs dur) (Stages.unwrapValue E.num dur (dirFn c.orderAsc fn))
          (optByWithout E p.aggBy (stages E p.stages bs.flatten)) else []) := by
      simp only [rangeResult, evalPlan, hk]
      cases k <;> rfl
    simp only [runPlan, evalPlan, hk, hv, runCmp_eq]
    cases k <;> simp only [] at hrange hrr ⊢ <;> rw [hrange, ← hrr, hvec]

/-- **ONE composition theorem: every plan `internal_planner.Plan` can build is its LogQL reading, whatever the
    batching.** Stages in the list: line filter, label filter, `json`, `json` with any parameters, `logfmt`, `logfmt`
    with parameters, `label_format`, `line_format`, `drop`, `unwrap`; then either limit + response optimizer (log
    query) or by/without → range aggregation → comparison → by/without → vector aggregation → comparison (metric
    query; each part optional as in the plan). For every batching `bs` of proper upstream entries, every series of
    what the engine sends is that series of `evalPlan` on the flat list. (For metric plans the messages themselves
    are equal: `metricPlan_meets_logql`; for log plans the response optimizer regroups entries by series, so only
    the order across series is left open.) Not in the list: `absent_over_time`, `topk`, `quantile_over_time`,
    `stddev/stdvar` (the engine answers NotSupported or never counts), the matrix post-processors. -/
theorem plan_meets_logql (E : Env V) (h0 : E.o.isNum [] = false) (c : Read.Ctx) (p : Plan V) (bs : Batches V)
    (hp : ∀ e ∈ bs.flatten, e.err = none) (hok : p.agg.isSome = true → MetricOk E c p bs.flatten) (f : UInt64) :
    (runPlan E c p bs).flatten.filter (fun e => e.fp == f) =
      (evalPlan E c p bs.flatten).flatten.filter (fun e => e.fp == f) := by
  cases hagg : p.agg with
  | none => exact logPlan_meets_logql E h0 c p hagg bs hp f
  | some kd =>
    have hm : p.agg.isSome = true := by rw [hagg]; rfl
    rw [metricPlan_meets_logql E h0 c p hm bs hp (hok hm)]

/-- the result of a plan does not depend on how the upstream cut the entries into messages: two batchings of the
    same entries give, series by series, the same output (corollary of `plan_meets_logql`) -/
theorem plan_batching_independent (E : Env V) (h0 : E.o.isNum [] = false) (c : Read.Ctx) (p : Plan V) (bs bs' : Batches V)
    (hflat : bs.flatten = bs'.flatten) (hp : ∀ e ∈ bs.flatten, e.err = none)
    (hok : p.agg.isSome = true → MetricOk E c p bs.flatten) (f : UInt64) :
    (runPlan E c p bs).flatten.filter (fun e => e.fp == f) = (runPlan E c p bs').flatten.filter (fun e => e.fp == f) := by
  rw [plan_meets_logql E h0 c p bs hp hok f, plan_meets_logql E h0 c p bs' (hflat ▸ hp) (hflat ▸ hok) f, hflat]

/-- the hash-collision hypothesis instead of `FpFaithful`: for a plan whose in-process stages contain one that
    rewrites labels (true of every split at `json`/`logfmt`), `MetricOk` follows from: series under the cap, and no two different label sets reaching an aggregator have the same fingerprint -/
theorem metricOk_from_noCollision (E : Env V) (c : Read.Ctx) (p : Plan V) (es : List (Entry V)) (hm : p.agg.isSome = true)
    (hr : ∃ s ∈ p.stages, s.relabels = true)
    (hcap : (Stages.firstBy (fun e : Entry V => e.fp) (aggInput E p es)).length ≤ c.maxSeries)
    (hcapVec : (Stages.firstBy (fun e : Entry V => e.fp) (vecInput E c p es)).length ≤ c.maxSeries)
    (hnc : NoCollision E ((aggInput E p es).map (·.labels)))
    (hncVec : NoCollision E ((vecInput E c p es).map (·.labels))) : MetricOk E c p es :=
  metricOk_of_noCollision E c p es hm hr hcap hcapVec hnc hncVec

/-! ## 3. the two engines agree on the stages both implement, at every split point -/

/-- **line filter.** Let ClickHouse run the prefix `q` of a pipeline (any prefix: any split point) and hand its
    rows over in any batching; the in-process line filter then yields exactly the rows ClickHouse returns for
    `q` extended by that filter. `hlike`: the LIKE shortcut C07 models for literal patterns agrees with RE2. -/
theorem engines_agree_lineFilter (E : Env V) (c : LogQL.Ctx) (d : LokiDb) (q : LogQuery) (f : LineFilter)
    (hlike : ∀ line, lineHolds E.o f line = lineHolds E.o ⟨f.op, f.val, none⟩ line)
    (bs : Batches V) (hbs : bs.flatten = upstream E.num E.o c d q) :
    (runStage E (.line f.op f.val) bs).flatten = upstream E.num E.o c d (withStage q (.line f)) := by
  have hp : ∀ e ∈ bs.flatten, e.err = none := by
    rw [hbs]; intro e he
    simp only [upstream, List.mem_map] at he
    obtain ⟨s, _, rfl⟩ := he
    rfl
  rw [batching_invariant_stage, line_meets E f.op f.val _ hp, hbs, ← upstream_line]
  simp only [lineStage, hlike]

/-- **label filter**, under `SeriesTableOk` (one label document per fingerprint, rows inside the index window,
    a row for every sample's stream — what C04 establishes for the writer). -/
theorem engines_agree_labelFilter (E : Env V) (h0 : E.o.isNum [] = false) (c : LogQL.Ctx) (d : LokiDb)
    (hd : SeriesTableOk c d) (q : LogQuery) (lc : LabelCond) (bs : Batches V)
    (hbs : bs.flatten = upstream E.num E.o c d q) :
    (runStage E (.labelFilter lc) bs).flatten = upstream E.num E.o c d (withStage q (.label lc)) := by
  rw [batching_invariant_stage, label_meets E h0, hbs, ← upstream_label E.num E.o c d hd]
  rfl

/-- **limit_same_meaning.** The in-process limit stage applied to the prefix result (any batching) returns the
    rows `LogQL.limited` selects — the newest `limit` entries (oldest when forward), all of them when the
    request has `limit = 0` or no `limit` parameter (the controller's default), exactly as
    `MainLimitPlanner` does on the ClickHouse path. -/
theorem limit_same_meaning (N : NumOps V) (o : Oracles) (c : LogQL.Ctx) (d : LokiDb) (q : LogQuery)
    (bs : Batches V) (hbs : bs.flatten = upstream N o c d q) :
    (run N (limitOps c.limit) 0 bs).flatten = (limited o c d q).map (toEntry N o c d q) := by
  rw [batching_invariant_limit, hbs, upstream_limit]

theorem limit_zero_is_unlimited (N : NumOps V) (bs : Batches V) : (run N (limitOps 0) 0 bs).flatten = bs.flatten := by
  rw [batching_invariant_limit]; rfl

/-- `engines_agree`: the three together -/
theorem engines_agree (E : Env V) (h0 : E.o.isNum [] = false) (c : LogQL.Ctx) (d : LokiDb) (hd : SeriesTableOk c d)
    (q : LogQuery) (bs : Batches V) (hbs : bs.flatten = upstream E.num E.o c d q) :
    (∀ f : LineFilter, (∀ line, lineHolds E.o f line = lineHolds E.o ⟨f.op, f.val, none⟩ line) →
      (runStage E (.line f.op f.val) bs).flatten = upstream E.num E.o c d (withStage q (.line f))) ∧
    (∀ lc, (runStage E (.labelFilter lc) bs).flatten = upstream E.num E.o c d (withStage q (.label lc))) ∧
    (run E.num (limitOps c.limit) 0 bs).flatten = (limited E.o c d q).map (toEntry E.num E.o c d q) :=
  ⟨fun f hl => engines_agree_lineFilter E c d q f hl bs hbs,
   fun lc => engines_agree_labelFilter E h0 c d hd q lc bs hbs,
   limit_same_meaning E.num E.o c d q bs hbs⟩

/-- **the split point** (`GetBreakpoint` + `breakScript`): ClickHouse gets exactly the stages before the first one
    it cannot run (`json` without parameters, `logfmt`, `line_format`), the in-process engine that stage and
    everything after it; without such a stage nothing is split. -/
theorem split_sound (tags : List Read.StageTag) :
    match breakScript (getBreakpoint tags false) tags with
    | (ch, some internal) => ch ++ internal = tags ∧ (∀ t ∈ ch, t.breaks = false) ∧ ∃ t rest, internal = t :: rest ∧ t.breaks = true
    | (ch, none) => ch = tags ∧ ∀ t ∈ tags, t.breaks = false := by
  simp only [getBreakpoint, Bool.false_and, Bool.false_eq_true, if_false]
  rcases breakIndex_spec tags 0 with ⟨h1, h2⟩ | ⟨k, t, hk, h1, h2, h3, h4⟩
  · simp only [breakScript, h1]
    simp
    exact h2
  · simp only [Nat.zero_add] at h1
    have hne : ¬ ((k : Int) = -2) := by omega
    have hge : ¬ ((k : Int) < 0) := by omega
    simp only [breakScript, h1, hne, hge, if_false, Int.toNat_natCast, List.take_append_drop, true_and]
    refine ⟨h4, t, tags.drop (k + 1), ?_, h3⟩
    rw [List.drop_eq_getElem_cons hk]
    congr 1
    have := List.getElem?_eq_getElem hk
    rw [this] at h2
    exact Option.some.inj h2

/-! ### the split with its meaning: ClickHouse prefix, then in-process suffix = the whole pipeline -/

theorem stages_append (E : Env V) (a b : List (StageK V)) (es : List (Entry V)) :
    Stages.stages E (a ++ b) es = Stages.stages E b (Stages.stages E a es) := by
  simp only [Stages.stages, List.foldl_append]

theorem stages_proper (E : Env V) (h0 : E.o.isNum [] = false) (ss : List (StageK V)) (es : List (Entry V))
    (hp : ∀ e ∈ es, e.err = none) : ∀ e ∈ Stages.stages E ss es, e.err = none := by
  have := stages_meet_logql E h0 ss es hp
  rw [← this.1]; exact this.2

/-- **what the split function produces** (`GetBreakpoint` + `breakScript` on a pipeline of modelled stages): either
    nothing is split and no stage is one ClickHouse cannot run, or the pipeline is cut into `ch ++ internal` where no
    stage of `ch` breaks and `internal` starts with the first breaking stage (`json` without parameters, `logfmt`
    with or without parameters, `line_format`) -/
theorem split_shape (ss : List (StageK V)) :
    match splitPipeline ss with
    | (ch, some internal) => ch ++ internal = ss ∧ (∀ s ∈ ch, s.tag.breaks = false) ∧
        ∃ s rest, internal = s :: rest ∧ s.tag.breaks = true
    | (ch, none) => ch = ss ∧ ∀ s ∈ ss, s.tag.breaks = false := by
  simp only [splitPipeline, getBreakpoint, Bool.false_and, Bool.false_eq_true, if_false]
  rcases breakIndex_spec (ss.map StageK.tag) 0 with ⟨h1, h2⟩ | ⟨k, t, hk, h1, h2, h3, h4⟩
  · simp only [h1, show ((-1 : Int) < 0) from by decide, if_true, true_and]
    intro s hs
    exact h2 s.tag (List.mem_map_of_mem hs)
  · simp only [Nat.zero_add] at h1
    have hge : ¬ ((k : Int) < 0) := by omega
    have hk' : k < ss.length := by simpa using hk
    simp only [h1, hge, if_false, Int.toNat_natCast, List.take_append_drop, true_and]
    refine ⟨?_, ss[k], ss.drop (k + 1), List.drop_eq_getElem_cons hk', ?_⟩
    · intro s hs
      apply h4 s.tag
      rw [← List.map_take]
      exact List.mem_map_of_mem hs
    · have : (ss.map StageK.tag)[k]? = some (ss[k].tag) := by
        rw [List.getElem?_map, List.getElem?_eq_getElem hk']; rfl
      rw [this] at h2
      rw [Option.some.inj h2]; exact h3

/-- **split_sound, with its meaning.** Take any pipeline `ss` of modelled stages over the entries `base` the stream
    selector yields, and any split `(ch, internal)` the split function produces. Let ClickHouse return what the
    LogQL definition says for the prefix `ch` (the specification side of C07/C08), cut into messages in any way.
    Then the in-process stages `internal` applied to those messages give the LogQL definition of the **whole**
    pipeline `ss`. -/
theorem split_sound_pipeline (E : Env V) (h0 : E.o.isNum [] = false) (ss ch internal : List (StageK V))
    (hsplit : splitPipeline ss = (ch, some internal)) (base : List (Entry V)) (hp : ∀ e ∈ base, e.err = none)
    (bs : Batches V) (hbs : bs.flatten = Stages.stages E ch base) :
    (runStages E internal bs).flatten = Stages.stages E ss base := by
  have hcat : ch ++ internal = ss := by
    have := split_shape ss
    rw [hsplit] at this
    exact this.1
  have hpb : ∀ e ∈ bs.flatten, e.err = none := by rw [hbs]; exact stages_proper E h0 ch base hp
  rw [batching_invariant_stages, (stages_meet_logql E h0 internal bs.flatten hpb).1, hbs, ← stages_append, hcat]

/-- **split_sound for whole plans**: the in-process plan over the ClickHouse result of the prefix is, series by
    series, the LogQL reading of the *unsplit* query (all stages, then the aggregations / the limit) over `base` -/
theorem split_sound_plan (E : Env V) (h0 : E.o.isNum [] = false) (c : Read.Ctx) (p : Plan V) (ch internal : List (StageK V))
    (hsplit : splitPipeline p.stages = (ch, some internal)) (base : List (Entry V)) (hp : ∀ e ∈ base, e.err = none)
    (bs : Batches V) (hbs : bs.flatten = Stages.stages E ch base)
    (hok : p.agg.isSome = true → MetricOk E c { p with stages := internal } bs.flatten) (f : UInt64) :
    (runPlan E c { p with stages := internal } bs).flatten.filter (fun e => e.fp == f) =
      (evalPlan E c p base).flatten.filter (fun e => e.fp == f) := by
  have hcat : ch ++ internal = p.stages := by
    have := split_shape p.stages
    rw [hsplit] at this
    exact this.1
  have hpb : ∀ e ∈ bs.flatten, e.err = none := by rw [hbs]; exact stages_proper E h0 ch base hp
  rw [plan_meets_logql E h0 c { p with stages := internal } bs hpb hok f]
  have : evalPlan E c { p with stages := internal } bs.flatten = evalPlan E c p base := by
    simp only [evalPlan, hbs, ← stages_append, hcat]
  rw [this]

/-- a modelled stage as a stage of `LogQL.Sem` (the fragment C07 proves the SQL against): line and label filters -/
def semStage? : StageK V → Option LogQL.Stage
  | .line op val => some (.line ⟨op, val, none⟩)
  | .labelFilter lc => some (.label lc)
  | _ => none

/-- the ClickHouse side of the split for the fragment C07 covers: a prefix of line and label filters (the reading
    without the LIKE shortcut) applied to what the selector yields is what ClickHouse returns for the query extended
    by those filters (`LogQL.Sem`, under `SeriesTableOk`) — so in `split_sound_pipeline` the hypothesis `hbs` is
    "the messages are the ClickHouse result of the prefix query" -/
theorem prefix_is_clickhouse_query (E : Env V) (c : LogQL.Ctx) (d : LokiDb) (hd : SeriesTableOk c d)
    (ch : List (StageK V)) (sem : List LogQL.Stage) (hsem : ch.mapM semStage? = some sem) (q : LogQuery) :
    Stages.stages E ch (upstream E.num E.o c d q) = upstream E.num E.o c d (sem.foldl withStage q) := by
  induction ch generalizing q sem with
  | nil =>
    simp only [List.mapM_nil, Option.pure_def, Option.some.injEq] at hsem
    subst hsem; rfl
  | cons s rest ih =>
    simp only [List.mapM_cons, Option.pure_def, Option.bind_eq_bind] at hsem
    cases hs : semStage? s with
    | none => simp [hs] at hsem
    | some st =>
      cases hr : rest.mapM semStage? with
      | none => simp [hs, hr] at hsem
      | some sem' =>
        simp only [hs, hr, Option.bind_some, Option.some.injEq] at hsem
        subst hsem
        simp only [Stages.stages, List.foldl_cons]
        have hstep : Stages.stage E s (upstream E.num E.o c d q) = upstream E.num E.o c d (withStage q st) := by
          cases s with
          | line op val =>
            simp only [semStage?, Option.some.injEq] at hs; subst hs
            simp only [Stages.stage, lineStage]
            exact upstream_line E.num E.o c d q ⟨op, val, none⟩
          | labelFilter lc =>
            simp only [semStage?, Option.some.injEq] at hs; subst hs
            simp only [Stages.stage, labelStage]
            exact upstream_label E.num E.o c d hd q lc
          | parser k => simp [semStage?] at hs
          | labelFormat ops => simp [semStage?] at hs
          | lineFormat t => simp [semStage?] at hs
          | drop ns vs => simp [semStage?] at hs
          | unwrap l => simp [semStage?] at hs
        rw [hstep]
        exact ih sem' hr (withStage q st)

/-- **why the split needs a freshly parsed script.** `breakScript` cuts the pipeline of the script object it is given
    (`splitSlices`, `splitMutations`); after `Plan` that object holds only `internal`. Splitting it again — which is
    what planning the same object a second time would do — sends *nothing* of the original prefix to ClickHouse:
    the filters in `ch` would silently disappear from the query. -/
theorem resplit_loses_prefix (ss ch internal : List (StageK V)) (hsplit : splitPipeline ss = (ch, some internal)) :
    splitPipeline internal = ([], some internal) := by
  have hsh := split_shape ss
  rw [hsplit] at hsh
  obtain ⟨_, _, s, rest, hint, hbr⟩ := hsh
  subst hint
  simp [splitPipeline, getBreakpoint, breakIndex, hbr]

/-- the assumption under which that cannot happen, as the source has it now: the only caller of `Plan` is
    `Transpile`, which parses the query text and plans the fresh script once; `logql_parser.Parse` builds a parser
    and parses, it keeps nothing; the package-level variables of `logql_parser` are the two lexer definitions (no
    cache of parsed scripts); `Plan` calls `GetBreakpoint`, then `breakScript` once, and plans the two halves. -/
theorem split_assumption_fresh_script :
    Gen.InternalParams.splitSlices = ["_script.Pipelines[:breakpoint]", "_script.Pipelines[breakpoint:]"] ∧
    Gen.InternalParams.splitMutations = ["_script.Pipelines = _script.Pipelines[breakpoint:]",
      "_script.StrSel = logql_parser.StrSelector{}"] ∧
    Gen.InternalParams.planCalls = ["GetBreakpoint(script)", "clickhouse_planner.Plan(script, true)",
      "breakScript(breakpoint, script, script)", "clickhouse_planner.Plan(chScript, false)",
      "internal_planner.Plan(internalScript, proc)"] ∧
    Gen.InternalParams.planCallers = ["transpiler.go:Transpile"] ∧
    Gen.InternalParams.planCallersOutside = [] ∧
    Gen.InternalParams.transpileBody = ["oScript, err := logql_parser.Parse(script)", "if err != nil { return nil, err }",
      "return Plan(oScript)"] ∧
    Gen.InternalParams.parseBody = ["if len(str) > MaxQueryLength { return nil, fmt.Errorf(\"query too long: %d bytes (maximum %d)\", len(str), MaxQueryLength) }",
      "parser, err := participle.Build[LogQLScript](participle.Lexer(LogQLLexerDefinition), participle.UseLookahead(2))",
      "if err != nil { return nil, err }", "res, err := parser.ParseString(\"\", str+\" \")", "return res, err"] ∧
    Gen.plannerGlobals.filter (fun g => g.startsWith "reader/logql/logql_parser.") =
      ["reader/logql/logql_parser.LogQLLexerDefinition", "reader/logql/logql_parser.LogQLLexerRulesV2"] := by
  refine ⟨rfl, rfl, rfl, rfl, rfl, rfl, rfl, ?_⟩
  decide +kernel

/-! ## 3b. the two engines on the same data: SQL semantics of the REAL statement, then the in-process stage

`Sql.evalSelX` on `LogQL.planLogX` is the semantics of the statement `clickhouse_planner` really builds (byte-equal text and
reflection dump: C07's `textx` / `semx` streams; `plan_correct_ext`). `scanRows` is what `ClickhouseGetterPlanner.Scan` makes
of its rows. The theorems below run the in-process model (`Read.runStage(s)`) on those rows and compare with the rows of
the statement for the longer pipeline — "the same entries whichever engine ran the stage". Fingerprint *values* differ by
construction (cityHash64 of the sorted pairs vs `internal_planner.fingerprint`): `core` forgets them; entries with equal
timestamps come in an order ClickHouse leaves open: the statements say "a permutation, both ordered by timestamp". -/

/-- the rows ClickHouse returns for the stream selector followed by the stages `q` when the script is handed over
    (`finalize = false`: ORDER BY timestamp, no LIMIT), as the getter scans them -/
def chRows (N : NumOps V) (o : Oracles) (c : LogQL.Ctx) (d : LokiDb) (ms : List Matcher) (q : List StageX) : List (Entry V) :=
  scanRows N (evalSelX o (d.toDb c) (planLogX c false ⟨ms, q⟩))

/-- `planScript` (what `logql_transpiler_v2.Plan` sends to ClickHouse) of a script that is handed over after `q` -/
theorem planScript_handover (c : LogQL.Ctx) (ms : List Matcher) (q : List StageX) (tag : String) (rest : List ScriptStage) :
    planScript c ms (q.map .sql ++ .inproc tag :: rest) = planLogX c false ⟨ms, q⟩ := by
  have h1 : sqlPrefix (q.map ScriptStage.sql ++ .inproc tag :: rest) = q := by
    induction q with
    | nil => rfl
    | cons s r ih => simp only [List.map_cons, List.cons_append, sqlPrefix, ih]
  have h2 : finalizes (q.map ScriptStage.sql ++ .inproc tag :: rest) = false := by
    simp [finalizes, ScriptStage.breaks]
  simp only [planScript, h1, h2]

theorem chRows_proper (N : NumOps V) (o : Oracles) (c : LogQL.Ctx) (d : LokiDb) (ms : List Matcher) (q : List StageX) :
    ∀ e ∈ chRows N o c d ms q, e.err = none := by
  intro e he
  simp only [chRows, scanRows, List.mem_map] at he
  obtain ⟨r, _, rfl⟩ := he
  rfl

/-- one stage is its LogQL definition (the step of `stages_meet_logql`) -/
theorem stage_meets_logql (E : Env V) (h0 : E.o.isNum [] = false) (s : StageK V) (es : List (Entry V))
    (hp : ∀ e ∈ es, e.err = none) : stageFlat E s es = Stages.stage E s es :=
  (stages_meet_logql E h0 [s] es hp).1

/-- **engines_agree_stage — every stage both engines implement, any split point, all data.** Let ClickHouse run the stages
    `q` (any pipeline of the C07 fragment whose label maps have no key twice) and hand its rows over in any batching; let
    the in-process engine run `s` — a line filter `|= != |~ !~`, a label filter (string / numeric, and / or), `| json`
    with path parameters naming pairwise different labels, or `| drop`. The entries it sends are a permutation of the rows
    ClickHouse returns for `q` followed by that stage, both ordered by timestamp: the same lines with the same
    timestamps and the same label sets. Hypotheses: `Bridge` (same RE2 / number oracles; ClickHouse's JSON path extraction
    reads the decoder's tree), `LikeOk` (the LIKE shortcut decides as RE2), `SeriesTableOk` (label filters before the
    first parser are decided on the series table), at most 63 matchers and distinct table names (`plan_correct_ext`). -/
theorem engines_agree_stage (o : Oracles) (E : Env V) (hb : Bridge o E) (h0 : E.o.isNum [] = false)
    (like : Bytes → Option LikeInfo) (hl : LikeOk o like) (c : LogQL.Ctx) (hn : c.namesOk) (d : LokiDb) (hd : SeriesTableOk c d)
    (ms : List Matcher) (hm : ms.length ≤ 63) (q : List StageX) (hnd : ∀ e ∈ baseX o c d ms q, NodupKeys e.labels)
    (s : StageK V) (sx : StageX) (hs : toStageX like s = some sx) (hok : SharedOk s)
    (bs : Batches V) (hbs : bs.flatten = chRows E.num o c d ms q) :
    ((runStage E s bs).flatten.map core).Perm ((chRows E.num o c d ms (q ++ [sx])).map core) ∧
    (runStage E s bs).flatten.Pairwise (fun a b => entLe c a b = true) ∧
    (chRows E.num o c d ms (q ++ [sx])).Pairwise (fun a b => entLe c a b = true) := by
  have hrows : ∀ q', chRows E.num o c d ms q' = scanRows E.num (evalLogX o c false d ⟨ms, q'⟩) := by
    intro q'
    simp only [chRows, planLogX_correct o c hn d ⟨ms, q'⟩ false hm]
  rw [batching_invariant_stage, hbs, stage_meets_logql E h0 s _ (chRows_proper E.num o c d ms q)]
  refine ⟨?_, ?_, ?_⟩
  · rw [hrows, hrows]
    have h1 := (stage_perm E s _ _ (scanRows_evalLogX_perm E.num o c d ms q)).map core
    have h2 := (bridge_stage o E hb like hl s sx hs hok (baseX o c d ms q) hnd).1
    have h3 := ((scanRows_evalLogX_perm E.num o c d ms (q ++ [sx])).map core).symm
    rw [baseX_snoc o c d hd] at h3
    exact h1.trans (h2 ▸ h3)
  · rw [hrows]
    exact stage_sorted E c s _ (scanRows_evalLogX_sorted E.num o c d ms q)
  · rw [hrows]
    exact scanRows_evalLogX_sorted E.num o c d ms (q ++ [sx])

/-- a prefix of shared stages over stored label documents without a repeated name yields no label map with a key twice -/
theorem shared_prefix_nodup (o : Oracles) (E : Env V) (hb : Bridge o E) (like : Bytes → Option LikeInfo) (hl : LikeOk o like)
    (c : LogQL.Ctx) (d : LokiDb) (hd : SeriesStoreOk o c d) (ms : List Matcher)
    (ch : List (StageK V)) (chX : List StageX) (hch : ch.mapM (toStageX like) = some chX) (hok : ∀ s ∈ ch, SharedOk s) :
    ∀ e ∈ baseX o c d ms chX, NodupKeys e.labels := by
  rw [baseX_stages o c d hd.toSeriesTableOk]
  exact (bridge_stages o E hb like hl ch chX hch hok _ (selX_nodup o c d hd ms)).2

/-- **line filters** `|=`, `!=`, `|~`, `!~` — for `|~` / `!~` whichever way the ClickHouse planner renders the pattern
    (`match(…)`, or LIKE / position when regexp/syntax reduces it to one literal: `like val`) -/
theorem engines_agree_lineFilter_sql (o : Oracles) (E : Env V) (hb : Bridge o E) (h0 : E.o.isNum [] = false)
    (like : Bytes → Option LikeInfo) (hl : LikeOk o like) (c : LogQL.Ctx) (hn : c.namesOk) (d : LokiDb) (hd : SeriesTableOk c d)
    (ms : List Matcher) (hm : ms.length ≤ 63) (q : List StageX) (hnd : ∀ e ∈ baseX o c d ms q, NodupKeys e.labels)
    (op : LineOp) (val : Bytes) (bs : Batches V) (hbs : bs.flatten = chRows E.num o c d ms q) :
    ((runStage E (.line op val) bs).flatten.map core).Perm
      ((chRows E.num o c d ms (q ++ [.fl (.line ⟨op, val, match op with | .re | .nre => like val | _ => none⟩)])).map core) :=
  (engines_agree_stage o E hb h0 like hl c hn d hd ms hm q hnd (.line op val) _ rfl trivial bs hbs).1

/-- **label filters** (string `= != =~ !~`, numeric `== != > >= < <=`, `and` / `or`), on stored or extracted labels -/
theorem engines_agree_labelFilter_sql (o : Oracles) (E : Env V) (hb : Bridge o E) (h0 : E.o.isNum [] = false)
    (like : Bytes → Option LikeInfo) (hl : LikeOk o like) (c : LogQL.Ctx) (hn : c.namesOk) (d : LokiDb) (hd : SeriesTableOk c d)
    (ms : List Matcher) (hm : ms.length ≤ 63) (q : List StageX) (hnd : ∀ e ∈ baseX o c d ms q, NodupKeys e.labels)
    (lc : LabelCond) (bs : Batches V) (hbs : bs.flatten = chRows E.num o c d ms q) :
    ((runStage E (.labelFilter lc) bs).flatten.map core).Perm ((chRows E.num o c d ms (q ++ [.fl (.label lc)])).map core) :=
  (engines_agree_stage o E hb h0 like hl c hn d hd ms hm q hnd (.labelFilter lc) _ rfl trivial bs hbs).1

/-- **`| drop a, b="v"`** -/
theorem engines_agree_drop (o : Oracles) (E : Env V) (hb : Bridge o E) (h0 : E.o.isNum [] = false)
    (like : Bytes → Option LikeInfo) (hl : LikeOk o like) (c : LogQL.Ctx) (hn : c.namesOk) (d : LokiDb) (hd : SeriesTableOk c d)
    (ms : List Matcher) (hm : ms.length ≤ 63) (q : List StageX) (hnd : ∀ e ∈ baseX o c d ms q, NodupKeys e.labels)
    (ns vs : List Bytes) (bs : Batches V) (hbs : bs.flatten = chRows E.num o c d ms q) :
    ((runStage E (.drop ns vs) bs).flatten.map core).Perm ((chRows E.num o c d ms (q ++ [.ch (.drop (ns.zip vs))])).map core) :=
  (engines_agree_stage o E hb h0 like hl c hn d hd ms hm q hnd (.drop ns vs) _ rfl trivial bs hbs).1

/-- **`| json n₁="p₁", …`: the statement both engines must satisfy** — whatever the parameter names -/
def engines_agree_jsonParams_full : Prop :=
  ∀ (o : Oracles) (E : Env Int) (_ : Bridge o E) (ps : List Ahead) (es : List EntryX) (_ : ∀ e ∈ es, NodupKeys e.labels),
    ((stageX o es (.ch (.json (ps.map (fun a => (a.1, a.2.map toJArg)))))).map (scanX E.num)).map core =
      (Stages.stage E (.parser (.jsonParams ps)) (es.map (scanX E.num))).map core

/-- **`| json` with parameters naming pairwise different labels**: the two engines agree (after the three `fix:` commits:
    every named label set, "" when the path leads nowhere or the line is not one JSON document, objects and arrays as
    their JSON text) -/
theorem engines_agree_jsonParams_partial (o : Oracles) (E : Env V) (hb : Bridge o E) (h0 : E.o.isNum [] = false)
    (like : Bytes → Option LikeInfo) (hl : LikeOk o like) (c : LogQL.Ctx) (hn : c.namesOk) (d : LokiDb) (hd : SeriesTableOk c d)
    (ms : List Matcher) (hm : ms.length ≤ 63) (q : List StageX) (hnd : ∀ e ∈ baseX o c d ms q, NodupKeys e.labels)
    (ps : List Ahead) (hnames : (ps.map (·.1)).Nodup) (bs : Batches V) (hbs : bs.flatten = chRows E.num o c d ms q) :
    ((runStage E (.parser (.jsonParams ps)) bs).flatten.map core).Perm
      ((chRows E.num o c d ms (q ++ [.ch (.json (ps.map (fun a => (a.1, a.2.map toJArg))))])).map core) :=
  (engines_agree_stage o E hb h0 like hl c hn d hd ms hm q hnd (.parser (.jsonParams ps)) _ rfl hnames bs hbs).1

/-! ### the recorded finding: a label named by two parameters of one `| json` -/
def cxDoc : JVal := .obj [] (.cons [98] (.str [49]) (.cons [97] (.str [50]) .nil))     -- {"b":"1","a":"2"}

def fromJArg : JArg → PathSeg
  | .key k => .key k
  | .idx i => .idx (i - 1).toNat

theorem fromJArg_toJArg (s : PathSeg) : fromJArg (toJArg s) = s := by
  cases s with
  | key k => rfl
  | idx i => simp [toJArg, fromJArg]

/-- a ClickHouse whose JSON functions read the document `{"b":"1","a":"2"}` out of every line -/
def cxO : Oracles :=
  { reMatch := fun _ _ => false, jsonLabels := fun _ => [], isNum := fun _ => false, numCmp := fun _ _ _ => false, lower := id,
    jsonField := fun _ js => (lookupPath cxDoc (js.map fromJArg)).getD [] }

def cxOps : NumOps Int :=
  { zero := 0, one := 1, add := (· + ·), div := (· / ·), lt := fun a b => decide (a < b), le := fun a b => decide (a ≤ b),
    eq := fun a b => decide (a = b), ofNat := fun n => n, parse := fun _ => none, durSeconds := fun d => d / 1000000000 }

def cxE : Env Int :=
  { o := cxO, num := cxOps, jsonDecode := fun _ => cxDoc, jsonValid := fun _ => true, logfmtDecode := fun _ => [],
    tpl := fun _ _ => none, hash := fun _ => 0 }

theorem cxBridge : Bridge cxO cxE := by
  refine ⟨rfl, fun line p => ?_⟩
  have hmap : (p.map toJArg).map fromJArg = p := by
    rw [List.map_map]
    conv => rhs; rw [← List.map_id p]
    apply List.map_congr_left
    intro s _
    exact fromJArg_toJArg s
  have hb : hasBad cxDoc = false := by decide
  simp only [cxO, cxE, hmap, hb, Bool.not_false, Bool.and_self, if_true]

/-- **engines_agree_jsonParams_counterexample** (kernel-checked): `| json p="a", p="b"` over `{"b":"1","a":"2"}`. ClickHouse
    builds `mapFromArrays(['p','p'], ['2','1'])` — a Map holding `p` twice, which the getter's Go map reads as `p=1` — the
    in-process engine ends with the value that comes last in the document, `p=2`. -/
theorem engines_agree_jsonParams_counterexample : ¬ engines_agree_jsonParams_full := by
  intro h
  have h1 := h cxO cxE cxBridge [([112], [.key [97]]), ([112], [.key [98]])] [⟨7, 1, [], []⟩]
    (by intro e he; simp only [List.mem_singleton] at he; subst he; simp [NodupKeys])
  have h2 := congrArg (List.map (fun e : Entry Int => e.labels)) h1
  revert h2
  decide

/-- what each engine yields in the counterexample -/
example : (stageX cxO [⟨7, 1, [], []⟩] (.ch (.json [([112], [.key [97]]), ([112], [.key [98]])]))).map (·.labels) =
      [[([112], [50]), ([112], [49])]] ∧
    (Stages.stage cxE (.parser (.jsonParams [([112], [.key [97]]), ([112], [.key [98]])])) [scanX cxOps ⟨7, 1, [], []⟩]).map (·.labels) =
      [[([112], [50])]] := by decide

/-! ### (b) the split, end to end: SQL semantics of the real prefix statement, then the in-process suffix -/

/-- **split_end_to_end.** Take any pipeline `ss` and the split `(ch, internal)` the split function produces, with `ch` in
    the fragment both engines have and C07 proves the SQL of (line filters, label filters, `| json` with path parameters
    naming pairwise different labels, `| drop`; `chX` = the same stages as the ClickHouse planner sees them). Let ClickHouse
    evaluate the statement the real planner builds for the selector and `ch` (`planScript` of the script, `finalize = false`:
    `planScript_handover`) by the SQL semantics, let the getter scan the rows and cut them into messages in any way, and let
    the in-process engine run `internal` on them. The entries it sends are — as a multiset, both sides ordered by
    timestamp, fingerprint values apart — the LogQL definition of the WHOLE pipeline `ss` (`LogQL.Stages.stages`) applied
    to the entries the selector alone yields. One named hypothesis about the stored data: `SeriesStoreOk`. -/
theorem split_end_to_end (o : Oracles) (E : Env V) (hb : Bridge o E) (h0 : E.o.isNum [] = false)
    (like : Bytes → Option LikeInfo) (hl : LikeOk o like) (c : LogQL.Ctx) (hn : c.namesOk) (d : LokiDb) (hd : SeriesStoreOk o c d)
    (ms : List Matcher) (hm : ms.length ≤ 63)
    (ss ch internal : List (StageK V)) (hsplit : splitPipeline ss = (ch, some internal))
    (chX : List StageX) (hch : ch.mapM (toStageX like) = some chX) (hok : ∀ s ∈ ch, SharedOk s)
    (bs : Batches V) (hbs : bs.flatten = chRows E.num o c d ms chX) :
    ((runStages E internal bs).flatten.map core).Perm ((Stages.stages E ss (chRows E.num o c d ms [])).map core) ∧
    (runStages E internal bs).flatten.Pairwise (fun a b => entLe c a b = true) ∧
    (Stages.stages E ss (chRows E.num o c d ms [])).Pairwise (fun a b => entLe c a b = true) := by
  have hcat : ch ++ internal = ss := by
    have := split_shape ss
    rw [hsplit] at this
    exact this.1
  have hrows : ∀ q', chRows E.num o c d ms q' = scanRows E.num (evalLogX o c false d ⟨ms, q'⟩) := by
    intro q'
    simp only [chRows, planLogX_correct o c hn d ⟨ms, q'⟩ false hm]
  have hpb : ∀ e ∈ bs.flatten, e.err = none := by rw [hbs]; exact chRows_proper E.num o c d ms chX
  rw [batching_invariant_stages, (stages_meet_logql E h0 internal bs.flatten hpb).1, hbs]
  refine ⟨?_, ?_, ?_⟩
  · rw [hrows, hrows]
    -- the rows of the prefix are C07's entries, stage by stage; C07's reading of the shared stages is C09's
    have hpre := scanRows_evalLogX_perm E.num o c d ms chX
    rw [baseX_stages o c d hd.toSeriesTableOk] at hpre
    have hbr := (bridge_stages o E hb like hl ch chX hch hok (selX o c d ms) (selX_nodup o c d hd ms)).1
    have hsel := scanRows_evalLogX_perm E.num o c d ms []
    have h1 := (stages_perm E internal _ _ hpre).map core
    have h2 := stages_core E internal _ _ hbr
    have h3 : Stages.stages E internal (Stages.stages E ch ((selX o c d ms).map (scanX E.num))) =
        Stages.stages E ss ((selX o c d ms).map (scanX E.num)) := by
      rw [← stages_append, hcat]
    have h4 := ((stages_perm E ss _ _ hsel).map core).symm
    rw [h2, h3] at h1
    exact h1.trans h4
  · rw [hrows]
    exact stages_sorted E c internal _ (scanRows_evalLogX_sorted E.num o c d ms chX)
  · rw [hrows]
    exact stages_sorted E c ss _ (scanRows_evalLogX_sorted E.num o c d ms [])

/-- **split_end_to_end for ANY prefix of the C07 fragment** (also `| regexp`, repeated json names, … — stages the in-process
    engine does not have, so the whole pipeline has no `LogQL.Stages` reading): the in-process suffix over the rows of the
    real prefix statement is, as a multiset ordered by timestamp, C09's reading of the suffix applied to C07's reading of
    the prefix (`stagesX`, stage by stage over the selector's entries — `baseX_stages`) as the getter scans it -/
theorem split_end_to_end_any_prefix (o : Oracles) (E : Env V) (h0 : E.o.isNum [] = false)
    (c : LogQL.Ctx) (hn : c.namesOk) (d : LokiDb) (hd : SeriesTableOk c d) (ms : List Matcher) (hm : ms.length ≤ 63)
    (chX : List StageX) (internal : List (StageK V)) (bs : Batches V) (hbs : bs.flatten = chRows E.num o c d ms chX) :
    ((runStages E internal bs).flatten).Perm
      (Stages.stages E internal ((stagesX o chX (selX o c d ms)).map (scanX E.num))) ∧
    (runStages E internal bs).flatten.Pairwise (fun a b => entLe c a b = true) := by
  have hrows : chRows E.num o c d ms chX = scanRows E.num (evalLogX o c false d ⟨ms, chX⟩) := by
    simp only [chRows, planLogX_correct o c hn d ⟨ms, chX⟩ false hm]
  have hpb : ∀ e ∈ bs.flatten, e.err = none := by rw [hbs]; exact chRows_proper E.num o c d ms chX
  rw [batching_invariant_stages, (stages_meet_logql E h0 internal bs.flatten hpb).1, hbs, hrows]
  constructor
  · have hpre := scanRows_evalLogX_perm E.num o c d ms chX
    rw [baseX_stages o c d hd] at hpre
    exact stages_perm E internal _ _ hpre
  · exact stages_sorted E c internal _ (scanRows_evalLogX_sorted E.num o c d ms chX)

/-- **(a) `FpFaithful` of the upstream, derived.** When the ClickHouse part of a split pipeline consists of filters (so the
    rows carry their stream's fingerprint and labels: one `time_series` row per fingerprint), the fingerprint identifies
    the label set among the rows the getter hands over — under `SeriesStoreOk` alone. This is the hypothesis
    `metricPlan_meets_logql` / `plan_meets_logql` make about the upstream when the in-process part (split at
    `line_format`) rewrites no labels; with a label-rewriting stage in process it follows from `NoCollision`
    (`metricOk_from_noCollision`). -/
theorem upstream_fpFaithful (N : NumOps V) (o : Oracles) (c : LogQL.Ctx) (hn : c.namesOk) (d : LokiDb) (hd : SeriesStoreOk o c d)
    (ms : List Matcher) (hm : ms.length ≤ 63) (fs : List Stage) : FpFaithful (chRows N o c d ms (fs.map .fl)) := by
  simp only [chRows, planLogX_correct o c hn d ⟨ms, fs.map .fl⟩ false hm]
  exact rows_fpFaithful N o c d hd ms fs

/-- **(a) end to end, under the single hypothesis `SeriesStoreOk`.** A metric query split at `line_format` whose in-process
    part rewrites no labels (filters, `line_format`, `unwrap`; no `by`/`without` in process), its ClickHouse part a
    prefix of filters: for every batching of the rows the real statement returns (SQL semantics), the messages the engine
    sends are the LogQL reading of the in-process plan over those rows — "fingerprint ↔ label set", which
    `metricPlan_meets_logql` assumed of the upstream, is now derived from the stored data (one label document per
    fingerprint, fingerprint a function of the label set). Left as hypotheses: the series cap. -/
theorem split_end_to_end_metric (o : Oracles) (E : Env V) (h0 : E.o.isNum [] = false) (c : LogQL.Ctx) (hn : c.namesOk) (d : LokiDb)
    (hd : SeriesStoreOk o c d) (ms : List Matcher) (hm : ms.length ≤ 63) (fs : List Stage)
    (rc : Read.Ctx) (p : Plan V) (hagg : p.agg.isSome = true)
    (hnr : ∀ s ∈ p.stages, s.relabels = false) (hby : p.aggBy = none)
    (hvec : ∀ fn bw cmp, p.vec = some (fn, bw, cmp) → bw = none)
    (hcap : (Stages.firstBy (fun e : Entry V => e.fp) (aggInput E p (chRows E.num o c d ms (fs.map .fl)))).length ≤ rc.maxSeries)
    (hcapVec : (Stages.firstBy (fun e : Entry V => e.fp) (vecInput E rc p (chRows E.num o c d ms (fs.map .fl)))).length ≤ rc.maxSeries)
    (bs : Batches V) (hbs : bs.flatten = chRows E.num o c d ms (fs.map .fl)) :
    runPlan E rc p bs = evalPlan E rc p (chRows E.num o c d ms (fs.map .fl)) := by
  have hok : MetricOk E rc p bs.flatten := by
    rw [hbs]
    exact metricOk_of_upstream E rc p _ hagg hnr hby hvec hcap hcapVec (upstream_fpFaithful E.num o c hn d hd ms hm fs)
  rw [metricPlan_meets_logql E h0 rc p hagg bs (by rw [hbs]; exact chRows_proper E.num o c d ms _) hok, hbs]

/-! ### range aggregations: the in-process engine over ClickHouse's rows vs ClickHouse alone -/

/-- **engines_agree_rangeAgg — `rate`, `count_over_time`, `bytes_rate`, `bytes_over_time`.** The same metric query
    `fn({sel} filters [d])` answered two ways. In process: ClickHouse evaluates the statement of `{sel} filters` (SQL
    semantics of the real statement, hand-over form), the getter scans the rows, any batching, `internal_planner` runs the
    range aggregation (`Read.runPlan`). ClickHouse alone: its statement for the whole metric query returns
    `LogQL.evalMetric` (C08 `plan_metric_correct`), whose points before the step stage are `LogQL.rangePoints`. For every
    label set, bucket start and value the first has that sample iff the second has it for the stream with those labels.
    Float64 idealised as exact rationals on both sides (as in C08); window of whole range buckets starting at a multiple
    of the range (`FixPeriodPlanner` widens every request to such a window before either engine sees it,
    C08 `window_widened_to_whole_buckets`); `SeriesStoreOk`; the series cap. -/
theorem engines_agree_rangeAgg (parse : Bytes → Option Rat) (o : Oracles) (E : Env Rat) (hE : E.num = ratOps parse)
    (h0 : E.o.isNum [] = false) (c : LogQL.Ctx) (hn : c.namesOk) (d : LokiDb) (hd : SeriesStoreOk o c d)
    (ms : List Matcher) (hm : ms.length ≤ 63) (fs : List Stage)
    (fn : Read.RangeFn) (fn' : LogQL.RangeFn) (hfn : toLra fn = some fn')
    (dur k n : Nat) (hdur : 0 < dur) (hfrom : c.fromNs = (k : Int) * dur) (hto : c.toNs = c.fromNs + (n : Int) * dur)
    (rc : Read.Ctx) (hrf : rc.fromNs = c.fromNs) (hrt : rc.toNs = c.toNs)
    (hcap : (Stages.firstBy (fun e : Entry Rat => e.fp) (chRows E.num o c d ms (fs.map .fl))).length ≤ rc.maxSeries)
    (bs : Batches Rat) (hbs : bs.flatten = chRows E.num o c d ms (fs.map .fl))
    (l : Read.Labels) (t : Int) (v : Rat) :
    (∃ e ∈ (runPlan E rc ⟨[], some (.range fn, dur), none, none, none⟩ bs).flatten, e.labels = l ∧ e.ts = t ∧ e.val = v) ↔
    (∃ pt ∈ rangePoints o c d ⟨.lra fn', ⟨ms, fs⟩, dur, none, none, none⟩ c.fromNs c.toNs,
        ∃ fp, pt.key = .int fp ∧ canonLabels (asMap (labelsOf o c d ⟨ms, fs⟩ fp)) = l ∧ pt.ts = t ∧ pt.value = v) := by
  have hcounts : rangeCounts fn = true := by cases fn <;> simp [toLra, rangeCounts] at hfn ⊢
  have hrun := split_end_to_end_metric o E h0 c hn d hd ms hm fs rc ⟨[], some (.range fn, dur), none, none, none⟩ rfl
    (by intro s hs; cases hs) rfl (by intro _ _ _ h; cases h)
    (by simpa [aggInput, Stages.stages] using hcap) (by simp [vecInput, Stages.firstBy]) bs hbs
  rw [hrun]
  have hrows : (chRows E.num o c d ms (fs.map .fl)).Perm ((baseX o c d ms (fs.map .fl)).map (scanX (ratOps parse))) := by
    simp only [chRows, planLogX_correct o c hn d ⟨ms, fs.map .fl⟩ false hm, hE]
    exact scanRows_evalLogX_perm (ratOps parse) o c d ms (fs.map .fl)
  have := range_agree parse o c d hd ms fs fn fn' hfn dur k n hdur hfrom hto _ hrows l t v
  simp only [evalPlan, Stages.stages, List.foldl_nil, hcounts, if_true, optCompare, hrf, hrt, hE] at this ⊢
  exact this

theorem compareVal_rat (parse : Bytes → Option Rat) (op : CmpOp) (x y : Rat) :
    compareVal (ratOps parse) op x y = cmpHoldsR op x y := by
  cases op <;> simp only [compareVal, cmpHoldsR, ratOps] <;> by_cases h : x = y <;> simp [h]

/-- **… followed by a comparison** (`rate(…) > 2`): the in-process comparison stage keeps exactly the samples C08's
    `cmpStage` keeps of `rangePoints` (the threshold read as the number the literal denotes) -/
theorem engines_agree_rangeAgg_cmp (parse : Bytes → Option Rat) (o : Oracles) (E : Env Rat) (hE : E.num = ratOps parse)
    (h0 : E.o.isNum [] = false) (c : LogQL.Ctx) (hn : c.namesOk) (d : LokiDb) (hd : SeriesStoreOk o c d)
    (ms : List Matcher) (hm : ms.length ≤ 63) (fs : List Stage)
    (fn : Read.RangeFn) (fn' : LogQL.RangeFn) (hfn : toLra fn = some fn')
    (dur k n : Nat) (hdur : 0 < dur) (hfrom : c.fromNs = (k : Int) * dur) (hto : c.toNs = c.fromNs + (n : Int) * dur)
    (rc : Read.Ctx) (hrf : rc.fromNs = c.fromNs) (hrt : rc.toNs = c.toNs)
    (hcap : (Stages.firstBy (fun e : Entry Rat => e.fp) (chRows E.num o c d ms (fs.map .fl))).length ≤ rc.maxSeries)
    (cm : Comparison) (bs : Batches Rat) (hbs : bs.flatten = chRows E.num o c d ms (fs.map .fl))
    (l : Read.Labels) (t : Int) (v : Rat) :
    (∃ e ∈ (runPlan E rc ⟨[], some (.range fn, dur), none, some (cm.op, numOf cm.val), none⟩ bs).flatten,
        e.labels = l ∧ e.ts = t ∧ e.val = v) ↔
    (∃ pt ∈ cmpStage (some cm) (rangePoints o c d ⟨.lra fn', ⟨ms, fs⟩, dur, none, none, none⟩ c.fromNs c.toNs),
        ∃ fp, pt.key = .int fp ∧ canonLabels (asMap (labelsOf o c d ⟨ms, fs⟩ fp)) = l ∧ pt.ts = t ∧ pt.value = v) := by
  have hcounts : rangeCounts fn = true := by cases fn <;> simp [toLra, rangeCounts] at hfn ⊢
  have hrun := split_end_to_end_metric o E h0 c hn d hd ms hm fs rc ⟨[], some (.range fn, dur), none, some (cm.op, numOf cm.val), none⟩ rfl
    (by intro s hs; cases hs) rfl (by intro _ _ _ h; cases h)
    (by simpa [aggInput, Stages.stages] using hcap) (by simp [vecInput, Stages.firstBy]) bs hbs
  rw [hrun]
  have hrows : (chRows E.num o c d ms (fs.map .fl)).Perm ((baseX o c d ms (fs.map .fl)).map (scanX (ratOps parse))) := by
    simp only [chRows, planLogX_correct o c hn d ⟨ms, fs.map .fl⟩ false hm, hE]
    exact scanRows_evalLogX_perm (ratOps parse) o c d ms (fs.map .fl)
  have hagree := range_agree parse o c d hd ms fs fn fn' hfn dur k n hdur hfrom hto _ hrows l t v
  simp only [hE] at hagree
  simp only [evalPlan, Stages.stages, List.foldl_nil, hcounts, if_true, optCompare, hrf, hrt, hE, cmpStage]
  constructor
  · rintro ⟨e, he, hel, het, hev⟩
    simp only [List.mem_flatten, List.mem_map] at he
    obtain ⟨b, ⟨b0, hb0, rfl⟩, heb⟩ := he
    simp only [compareStage, List.mem_filter] at heb
    obtain ⟨pt, hpt, fp, h1, h2, h3, h4⟩ := hagree.mp ⟨e, List.mem_flatten.mpr ⟨b0, hb0, heb.1⟩, hel, het, hev⟩
    refine ⟨pt, List.mem_filter.mpr ⟨hpt, ?_⟩, fp, h1, h2, h3, h4⟩
    rw [h4, ← hev, ← compareVal_rat parse]
    exact heb.2
  · rintro ⟨pt, hpt, fp, h1, h2, h3, h4⟩
    obtain ⟨hpt1, hpt2⟩ := List.mem_filter.mp hpt
    obtain ⟨e, he, hel, het, hev⟩ := hagree.mpr ⟨pt, hpt1, fp, h1, h2, h3, h4⟩
    obtain ⟨b0, hb0, heb0⟩ := List.mem_flatten.mp he
    refine ⟨e, ?_, hel, het, hev⟩
    simp only [List.mem_flatten, List.mem_map]
    refine ⟨_, ⟨b0, hb0, rfl⟩, ?_⟩
    simp only [compareStage, List.mem_filter]
    refine ⟨heb0, ?_⟩
    rw [compareVal_rat parse, hev, ← h4]
    exact hpt2

/-! ### unwrap functions and `by`/`without`: the in-process engine over ClickHouse's rows vs ClickHouse alone (extension c09y) -/

/-- first/last_over_time on corresponding groups. In process: the value of the entry that arrives first / last in the
    direction of the request (`dirFn`), i.e. of an entry with the least / greatest timestamp (`first_over_time_is_earliest`);
    ClickHouse: `argMin/argMax(value, timestamp_ns)` = C08's `firstBy`/`lastBy`. They agree when entries of one output
    series that share a timestamp share the value — with a real tie both engines follow the order their rows are read in
    (C08 `first_last_any_order_counterexample`, finding C08/first-last-tie-follows-row-order): the engines cannot differ
    without a tie. -/
theorem valAgree_firstLast (o : Oracles) (parse : Bytes → Option Rat) (dur : Nat) (asc : Bool) (fn : Read.UnwrapFn) (fn' : LogQL.UnwrapFn)
    (hfn : toUnwrap fn = some fn') (hfl : fn = .firstOverTime ∨ fn = .lastOverTime)
    (rows : List (Entry Rat)) (hs : TsOrdered asc rows)
    (hnt : ∀ e ∈ rows, ∀ e' ∈ rows, e.labels = e'.labels → e.ts = e'.ts → e.val = e'.val) :
    ValAgree o parse dur (dirFn asc fn) fn' rows := by
  intro grp l hsub hne hsame hp
  have hsl : TsOrdered asc l := List.Pairwise.sublist hsub hs
  have hmem : ∀ p, p ∈ grp ↔ ∃ e ∈ l, (e.ts, e.val) = p := by
    intro p; rw [← hp.mem_iff]; simp [List.mem_map]
  have hin : ∀ e ∈ l, e ∈ rows := fun e he => hsub.subset he
  cases hg : grp with
  | nil =>
    rw [hg] at hp
    have := hp.eq_nil
    simp at this
    exact absurd this hne
  | cons p ps =>
    rw [← hg]
    rcases hfl with rfl | rfl
    · simp only [toUnwrap, Option.some.injEq] at hfn; subst hfn
      obtain ⟨e, he, hval, hmin⟩ := first_over_time_is_earliest (ratOps parse) dur asc l hne hsl
      rw [hval]
      have hv : unwrapVal o .firstOT dur grp = LogQL.firstBy grp := by rw [hg]; rfl
      rw [hv]
      cases hf : LogQL.firstBy grp with
      | none => rw [hg] at hf; simp [LogQL.firstBy] at hf
      | some v0 =>
        obtain ⟨t, htm, htmin⟩ := firstBy_spec grp v0 hf
        obtain ⟨e', he', hee⟩ := (hmem _).mp htm
        have h1 : t ≤ e.ts := htmin (e.ts, e.val) ((hmem _).mpr ⟨e, he, rfl⟩)
        have h2 : e.ts ≤ e'.ts := hmin e' he'
        have h3 : e'.ts = t := (Prod.mk.inj hee).1
        have h4 : e'.val = v0 := (Prod.mk.inj hee).2
        have : e.val = e'.val := hnt e (hin e he) e' (hin e' he') (hsame e he e' he') (by omega)
        rw [this, h4]
    · simp only [toUnwrap, Option.some.injEq] at hfn; subst hfn
      obtain ⟨e, he, hval, hmax⟩ := last_over_time_is_latest (ratOps parse) dur asc l hne hsl
      rw [hval]
      have hv : unwrapVal o .lastOT dur grp = LogQL.lastBy grp := by rw [hg]; rfl
      rw [hv]
      cases hf : LogQL.lastBy grp with
      | none => rw [hg] at hf; simp [LogQL.lastBy] at hf
      | some v0 =>
        obtain ⟨t, htm, htmax⟩ := lastBy_spec grp v0 hf
        obtain ⟨e', he', hee⟩ := (hmem _).mp htm
        have h1 : e.ts ≤ t := htmax (e.ts, e.val) ((hmem _).mpr ⟨e, he, rfl⟩)
        have h2 : e'.ts ≤ e.ts := hmax e' he'
        have h3 : e'.ts = t := (Prod.mk.inj hee).1
        have h4 : e'.val = v0 := (Prod.mk.inj hee).2
        have : e.val = e'.val := hnt e (hin e he) e' (hin e' he') (hsame e he e' he') (by omega)
        rw [this, h4]

/-- the value functions agree on corresponding groups, for every unwrap function both engines implement: the five
    order-free ones outright, first/last under the order of arrival and the tie condition -/
theorem valAgree_all (o : Oracles) (parse : Bytes → Option Rat) (dur : Nat) (asc : Bool) (fn : Read.UnwrapFn) (fn' : LogQL.UnwrapFn)
    (hfn : toUnwrap fn = some fn') (rows : List (Entry Rat))
    (hord : (fn = .firstOverTime ∨ fn = .lastOverTime) → TsOrdered asc rows ∧
      ∀ e ∈ rows, ∀ e' ∈ rows, e.labels = e'.labels → e.ts = e'.ts → e.val = e'.val) :
    ValAgree o parse dur (dirFn asc fn) fn' rows := by
  by_cases hfl : fn = .firstOverTime ∨ fn = .lastOverTime
  · exact valAgree_firstLast o parse dur asc fn fn' hfn hfl rows (hord hfl).1 (hord hfl).2
  · intro grp l _ hne _ hp
    exact valAgree_orderFree o parse dur asc fn fn' hfn (fun h => hfl (Or.inl h)) (fun h => hfl (Or.inr h)) grp l hne hp

/-- the in-process plan of `fn({sel} filters | unwrap lbl [d]) [by/without (…)]` when the hand-over is at the selector:
    `| unwrap`, the by/without planner, `UnwrapAggPlanner` -/
def unwrapPlan (lbl : Bytes) (fn : Read.UnwrapFn) (dur : Nat) (g? : Option Grouping) : Plan Rat :=
  ⟨[.unwrap lbl], some (.unwrap fn, dur), g?.map toBW, none, none⟩

/-- **engines_agree_unwrapAgg — rate, sum/avg/min/max/first/last_over_time over `| unwrap`, with or without a grouping
    clause on the range aggregation** (every unwrap function both engines implement; stddev/stdvar_over_time are refused
    in process: `unsupported_functions_refused`). The same query answered two ways. In process: ClickHouse evaluates the
    statement of `{sel} filters` (SQL semantics of the real statement), the getter scans the rows, any batching,
    `internal_planner` unwraps, cuts the labels (`by`/`without`) and aggregates (`Read.runPlan`; its reading `evalPlan` by
    `metricPlan_meets_logql` under `MetricOk`). ClickHouse alone: the statement of the whole query returns C08's direct
    reading (`plan_metric_correct_unwrap`), whose points before the step stage are `LogQL.rangePoints`. For every label set,
    bucket start and value the first has that sample iff the second has it. Idealisation and hypotheses: Float64 = exact
    rationals on both sides (C08's); the two number parsers read the same number (`hnum`: `strconv.ParseFloat` — not applied
    to the empty text — vs `toFloat64OrZero`); window of whole range buckets (what `FixPeriodPlanner` hands to both
    engines); `SeriesStoreOk`; `MetricOk` (series cap, and the in-process fingerprint separates the kept label sets);
    with a grouping clause `GroupHashOk` (cityHash64 separates the kept label sets); for first/last the rows arrive in
    timestamp order in the direction of the request (ORDER BY of the statement) and entries of one output series sharing a
    timestamp share the value (the tie finding of C08). -/
theorem engines_agree_unwrapAgg (parse : Bytes → Option Rat) (o : Oracles) (E : Env Rat) (hE : E.num = ratOps parse)
    (h0 : E.o.isNum [] = false) (c : LogQL.Ctx) (hn : c.namesOk) (d : LokiDb) (hd : SeriesStoreOk o c d)
    (ms : List Matcher) (hm : ms.length ≤ 63) (fs : List Stage)
    (label : String) (lbl : Bytes) (hlbl : label.toUTF8.toList = lbl) (hent : label = "_entry" ↔ lbl = entryKey)
    (hnum : ∀ s : Bytes, o.toFloat s = ((if s = [] then none else parse s).getD 0))
    (fn : Read.UnwrapFn) (fn' : LogQL.UnwrapFn) (hfn : toUnwrap fn = some fn') (g? : Option Grouping)
    (hgk : ∀ gg, g? = some gg → GroupHashOk o c d ⟨ms, fs⟩ gg)
    (dur k n : Nat) (hdur : 0 < dur) (hfrom : c.fromNs = (k : Int) * dur) (hto : c.toNs = c.fromNs + (n : Int) * dur)
    (rc : Read.Ctx) (hrf : rc.fromNs = c.fromNs) (hrt : rc.toNs = c.toNs)
    (hok : MetricOk E rc (unwrapPlan lbl fn dur g?) (chRows E.num o c d ms (fs.map .fl)))
    (hord : (fn = .firstOverTime ∨ fn = .lastOverTime) →
      TsOrdered rc.orderAsc (optByWithout E (g?.map toBW) (unwrapStage E lbl (chRows E.num o c d ms (fs.map .fl)))) ∧
      ∀ e ∈ optByWithout E (g?.map toBW) (unwrapStage E lbl (chRows E.num o c d ms (fs.map .fl))),
        ∀ e' ∈ optByWithout E (g?.map toBW) (unwrapStage E lbl (chRows E.num o c d ms (fs.map .fl))),
        e.labels = e'.labels → e.ts = e'.ts → e.val = e'.val)
    (bs : Batches Rat) (hbs : bs.flatten = chRows E.num o c d ms (fs.map .fl))
    (l : Read.Labels) (t : Int) (v : Rat) :
    (∃ e ∈ (runPlan E rc (unwrapPlan lbl fn dur g?) bs).flatten, e.labels = l ∧ e.ts = t ∧ e.val = v) ↔
    (∃ pt ∈ rangePoints o c d ⟨.unwrap fn' label, ⟨ms, fs⟩, dur, none, g?, none⟩ c.fromNs c.toNs,
        canonLabels (asMap pt.labels) = l ∧ pt.ts = t ∧ pt.value = v) := by
  have hcounts : unwrapCounts fn = true := by cases fn <;> simp [toUnwrap, unwrapCounts] at hfn ⊢
  have hrun := metricPlan_meets_logql E h0 rc (unwrapPlan lbl fn dur g?) rfl bs
    (by rw [hbs]; exact chRows_proper E.num o c d ms _) (by rw [hbs]; exact hok)
  rw [hrun, hbs]
  have hrows : (chRows E.num o c d ms (fs.map .fl)).Perm ((baseX o c d ms (fs.map .fl)).map (scanX (ratOps parse))) := by
    simp only [chRows, planLogX_correct o c hn d ⟨ms, fs.map .fl⟩ false hm, hE]
    exact scanRows_evalLogX_perm (ratOps parse) o c d ms (fs.map .fl)
  have hva := valAgree_all o parse dur rc.orderAsc fn fn' hfn _ hord
  have := unwrap_agree parse o c d hd ms fs E hE label lbl hlbl hent hnum (dirFn rc.orderAsc fn) fn' g? hgk dur k n hdur hfrom hto
    _ hrows hva l t v
  have hdc : unwrapCounts (dirFn rc.orderAsc fn) = true ∨ True := Or.inr trivial
  simp only [evalPlan, unwrapPlan, Stages.stages, List.foldl_cons, List.foldl_nil, Stages.stage, hcounts, if_true, optCompare,
    hrf, hrt, hE] at this ⊢
  exact this

/-- **engines_agree_byWithout** — the instance of `engines_agree_unwrapAgg` with a grouping clause written on the range
    aggregation (`sum_over_time(… | unwrap x [d]) by (a)`; on a plain range function the clause is ignored by both
    engines): the in-process `ByWithoutPlanner` (cut the labels, recompute the fingerprint, series = kept label set) and
    ClickHouse's `ByWithoutPlanner.processSimple` (`mapFilter` + `cityHash64`, series = hash of the kept labels) produce
    the same series with the same samples. A `without` read as `by` in process changes the kept sets, hence the left side. -/
theorem engines_agree_byWithout (parse : Bytes → Option Rat) (o : Oracles) (E : Env Rat) (hE : E.num = ratOps parse)
    (h0 : E.o.isNum [] = false) (c : LogQL.Ctx) (hn : c.namesOk) (d : LokiDb) (hd : SeriesStoreOk o c d)
    (ms : List Matcher) (hm : ms.length ≤ 63) (fs : List Stage)
    (label : String) (lbl : Bytes) (hlbl : label.toUTF8.toList = lbl) (hent : label = "_entry" ↔ lbl = entryKey)
    (hnum : ∀ s : Bytes, o.toFloat s = ((if s = [] then none else parse s).getD 0))
    (fn : Read.UnwrapFn) (fn' : LogQL.UnwrapFn) (hfn : toUnwrap fn = some fn') (gg : Grouping)
    (hgk : GroupHashOk o c d ⟨ms, fs⟩ gg)
    (dur k n : Nat) (hdur : 0 < dur) (hfrom : c.fromNs = (k : Int) * dur) (hto : c.toNs = c.fromNs + (n : Int) * dur)
    (rc : Read.Ctx) (hrf : rc.fromNs = c.fromNs) (hrt : rc.toNs = c.toNs)
    (hok : MetricOk E rc (unwrapPlan lbl fn dur (some gg)) (chRows E.num o c d ms (fs.map .fl)))
    (hord : (fn = .firstOverTime ∨ fn = .lastOverTime) →
      TsOrdered rc.orderAsc (optByWithout E (some (toBW gg)) (unwrapStage E lbl (chRows E.num o c d ms (fs.map .fl)))) ∧
      ∀ e ∈ optByWithout E (some (toBW gg)) (unwrapStage E lbl (chRows E.num o c d ms (fs.map .fl))),
        ∀ e' ∈ optByWithout E (some (toBW gg)) (unwrapStage E lbl (chRows E.num o c d ms (fs.map .fl))),
        e.labels = e'.labels → e.ts = e'.ts → e.val = e'.val)
    (bs : Batches Rat) (hbs : bs.flatten = chRows E.num o c d ms (fs.map .fl))
    (l : Read.Labels) (t : Int) (v : Rat) :
    (∃ e ∈ (runPlan E rc ⟨[.unwrap lbl], some (.unwrap fn, dur), some ⟨gg.isBy, groupingKeys gg⟩, none, none⟩ bs).flatten,
        e.labels = l ∧ e.ts = t ∧ e.val = v) ↔
    (∃ pt ∈ rangePoints o c d ⟨.unwrap fn' label, ⟨ms, fs⟩, dur, none, some gg, none⟩ c.fromNs c.toNs,
        canonLabels (asMap pt.labels) = l ∧ pt.ts = t ∧ pt.value = v) :=
  engines_agree_unwrapAgg parse o E hE h0 c hn d hd ms hm fs label lbl hlbl hent hnum fn fn' hfn (some gg)
    (fun g' hg' => by cases hg'; exact hgk) dur k n hdur hfrom hto rc hrf hrt hok hord bs hbs l t v

/-- **engines_agree_vectorAgg — sum / min / max / avg / count, with `by`, `without` or no grouping clause** (the vector
    aggregations both engines implement; `stddev`/`stdvar` and `topk`/`bottomk` exist only in ClickHouse and are refused in
    process: `gen_facts_agg`). The stage on the same matrix: `pts` is the matrix ClickHouse has in front of `AggOpPlanner`
    (C08: the points of the range stage after its comparison — `rangePoints`, which `engines_agree_rangeAgg` /
    `engines_agree_unwrapAgg` relate to the in-process range aggregation), `rows` the same samples as entries of the
    in-process engine, in any order. In process: the by/without planner `planAggregators` puts in front of the aggregation
    — `by ()` when no clause is written (`Read.planVecGrouping`, after the `fix:`) — and `AggOpPlanner`'s reading
    (`aggregate` by label set with `vecValue`, which `stage_meets_logql_vectorAgg` / `metricPlan_meets_logql` prove the bucket
    machine computes); ClickHouse: `LogQL.aggStage`, which C08 `plan_metric_correct` / `vector_agg` prove the SQL of
    `ByWithoutPlanner` + `AggOpPlanner` computes. Same series (kept label set), same timestamps, same values. Hypotheses:
    exact rationals; the points lie on the bucket grid; label documents without a repeated name; cityHash64 separates the
    kept label sets (`hgk`). Not a whole-plan statement: the composition with the inner range aggregation (a permutation
    between the two inner matrices) is checked by the `engines-metric` stream only. -/
theorem engines_agree_vectorAgg (parse : Bytes → Option Rat) (o : Oracles) (c : LogQL.Ctx) (d : LokiDb) (q : LogQuery) (E : Env Rat)
    (a : VecAgg) (fn : VecFn) (hfn : toVec fn = a.fn) (pts : List Pt) (grid : Grid)
    (hgridpts : ∀ p ∈ pts, ∃ i, i < grid.n ∧ grid.bucket p.ts = some i ∧ p.ts = grid.start + (i : Int) * grid.dur)
    (hinj : ∀ i j : Nat, grid.start + (i : Int) * grid.dur = grid.start + (j : Int) * grid.dur → i = j)
    (hnd : ∀ p ∈ pts, ∃ m, ptLabels o c d q p = .map m ∧ NodupKeys m)
    (hgk : ∀ p ∈ pts, ∀ p' ∈ pts,
      ((canonLabels (asMap (ptLabels o c d q p))).filter (fun kv => (groupingKeys (aggGrouping a)).contains kv.1 == (aggGrouping a).isBy) =
       (canonLabels (asMap (ptLabels o c d q p'))).filter (fun kv => (groupingKeys (aggGrouping a)).contains kv.1 == (aggGrouping a).isBy)) ↔
      (regroup o (aggGrouping a) (ptLabels o c d q p)).1 = (regroup o (aggGrouping a) (ptLabels o c d q p')).1)
    (rows : List (Entry Rat)) (hrows : rows.Perm (pts.map (scanPt o c d q)))
    (l : Read.Labels) (t : Int) (v : Rat) :
    (∃ e ∈ (aggregate (fun e : Entry Rat => e.labels) grid (vecValue (ratOps parse) fn)
        (optByWithout E (planVecGrouping ((chosenGrouping a.byPrefix a.bySuffix).map toBW)) rows)).flatten,
        e.labels = l ∧ e.ts = t ∧ e.val = v) ↔
    (∃ pt ∈ aggStage o c d q a pts, canonLabels (asMap pt.labels) = l ∧ pt.ts = t ∧ pt.value = v) :=
  vec_agree parse o c d q E a fn hfn pts grid hgridpts hinj hnd hgk rows hrows l t v

/-- non-vacuity: `sum(…)` without clause over two streams' points at one timestamp — one series `{}` with the sum, on both
    sides (the in-process side computed with the planned `by ()`) -/
example :
    let pts : List Pt := [⟨.int 1, .map [([97], [98])], 0, 2⟩, ⟨.int 2, .map [([97], [99])], 0, 3⟩]
    (aggStage cxO ⟨0, 1, 0, false, 1, false, "g", "s", "t", "t"⟩ ⟨[], [], []⟩ ⟨[], []⟩ ⟨.sum, none, ⟨.lra .rate, ⟨[], []⟩, 1, none, none, none⟩, none, none⟩ pts).map
        (fun p => (p.labels, p.ts, p.value)) = [(.map [], 0, 5)] ∧
    ((aggregate (fun e : Entry Rat => e.labels) ⟨0, 1, 1⟩ (vecValue (ratOps (fun _ => none)) .sum)
        (optByWithout ⟨cxO, ratOps (fun _ => none), fun _ => .bad, fun _ => false, fun _ => [], fun _ _ => none, fun _ => 0⟩
          (planVecGrouping none)
          (pts.map (scanPt cxO ⟨0, 1, 0, false, 1, false, "g", "s", "t", "t"⟩ ⟨[], [], []⟩ ⟨[], []⟩)))).flatten.map
        (fun e => (e.labels, e.ts, e.val))) = [([], 0, 5)] := by
  decide +kernel

/-! ### the two ends joined: the real whole-query statement vs log rows + aggregation in process (extension c09p)

`engines_agree_rangeAgg / _unwrapAgg / _byWithout` end in C08's `rangePoints`; C08's plan theorems say the SQL semantics of the
REAL whole-query statement (`evalSelA (planMetric …)`, value column read as a number) is `evalMetric`, built from those points.
The corollaries below compose the two literally: left, the in-process engine over any batching of the rows of the real selector
statement; right, `MatrixHas` of the answer of the real whole-query statement. Only the named data hypotheses remain. -/

/-- **`fn({sel} filters [d])`, fn ∈ rate / count_over_time / bytes_rate / bytes_over_time, one theorem from statement to
    statement.** Left: ClickHouse evaluates the real statement of `{sel} filters` (`chRows`), the getter scans, any batching,
    `internal_planner` aggregates. Right: ClickHouse evaluates the real statement of the whole metric query
    (`planMetric`, samples path or metrics_15s shortcut). Same samples: label set, bucket start, value. Composition of
    `engines_agree_rangeAgg` with C08 `plan_metric_correct`. Hypotheses: exact rationals; distinct table names; `SeriesStoreOk`;
    ≤ 63 matchers; window of whole range buckets; step ≤ range (above: the recorded finding); the series cap; on the
    metrics_15s path C08's `ShortcutOk`. -/
theorem engines_agree_rangeAgg_sql (parse : Bytes → Option Rat) (o : Oracles) (E : Env Rat) (hE : E.num = ratOps parse)
    (h0 : E.o.isNum [] = false) (mc : MCtx) (hn : mc.namesOk) (d : LokiDb) (hd : SeriesStoreOk o mc.toCtx d)
    (ms : List Matcher) (hm : ms.length ≤ 63) (fs : List Stage)
    (fn : Read.RangeFn) (fn' : LogQL.RangeFn) (hfn : toLra fn = some fn')
    (dur k n : Nat) (hdur : 0 < dur) (hfrom : mc.fromNs = (k : Int) * dur) (hto : mc.toNs = mc.fromNs + (n : Int) * dur)
    (hstep : mc.stepNs ≤ (dur : Int))
    (hsc : takesShortcut (.range ⟨.lra fn', ⟨ms, fs⟩, dur, none, none, none⟩) = true →
      ShortcutOk o d (.range ⟨.lra fn', ⟨ms, fs⟩, dur, none, none, none⟩))
    (rc : Read.Ctx) (hrf : rc.fromNs = mc.fromNs) (hrt : rc.toNs = mc.toNs)
    (hcap : (Stages.firstBy (fun e : Entry Rat => e.fp) (chRows E.num o mc.toCtx d ms (fs.map .fl))).length ≤ rc.maxSeries)
    (bs : Batches Rat) (hbs : bs.flatten = chRows E.num o mc.toCtx d ms (fs.map .fl))
    (l : Read.Labels) (t : Int) (v : Rat) :
    (∃ e ∈ (runPlan E rc ⟨[], some (.range fn, dur), none, none, none⟩ bs).flatten, e.labels = l ∧ e.ts = t ∧ e.val = v) ↔
    MatrixHas ((evalSelA o (d.toDbM mc) (planMetric mc (.range ⟨.lra fn', ⟨ms, fs⟩, dur, none, none, none⟩))).map normRow) l t v := by
  rw [engines_agree_rangeAgg parse o E hE h0 mc.toCtx hn.1 d hd ms hm fs fn fn' hfn dur k n hdur hfrom hto rc hrf hrt hcap bs hbs l t v]
  rw [C08.plan_metric_correct o mc hn d _ (by simp [supported, MetricQuery.rangeAgg, hdur, hm]) hsc, matrixHas_evalMetric,
    effWindow_whole mc (.range ⟨.lra fn', ⟨ms, fs⟩, dur, none, none, none⟩) k n hfrom hto, metricPoints_range o mc d _ rfl hstep]
  have hnull : ∀ pt ∈ rangePoints o mc.toCtx d ⟨.lra fn', ⟨ms, fs⟩, dur, none, none, none⟩ mc.fromNs mc.toNs,
      ∃ fp, pt.key = .int fp ∧ ptLabels o mc.toCtx d ⟨ms, fs⟩ pt = labelsOf o mc.toCtx d ⟨ms, fs⟩ fp := by
    intro pt hpt
    simp only [rangePoints, List.mem_map] at hpt
    obtain ⟨kk, _, rfl⟩ := hpt
    exact ⟨kk.1, rfl, rfl⟩
  constructor
  · rintro ⟨pt, hpt, fp, hkey, hl, ht, hv⟩
    obtain ⟨fp', hkey', hpl⟩ := hnull pt hpt
    have : fp' = fp := by rw [hkey] at hkey'; exact (Val.int.inj hkey').symm
    subst this
    exact ⟨_, List.mem_map.mpr ⟨pt, hpt, rfl⟩, by simp only [hpl]; exact hl, ht, hv⟩
  · rintro ⟨p, hp, hl, ht, hv⟩
    obtain ⟨pt, hpt, rfl⟩ := List.mem_map.mp hp
    obtain ⟨fp, hkey, hpl⟩ := hnull pt hpt
    exact ⟨pt, hpt, fp, hkey, by simp only [hpl] at hl; exact hl, ht, hv⟩

/-- **`fn({sel} filters | unwrap l [d]) [by/without (…)]`, every unwrap function both engines implement, one theorem from
    statement to statement.** Left: as in `engines_agree_unwrapAgg` (rows of the real selector statement over the table as
    stored, any batching, `| unwrap`, by/without planner, `UnwrapAggPlanner`). Right: the answer of the real whole-query
    statement (C08 `plan_metric_correct_unwrap`: the direct reading over the table read in timestamp order — composed here
    with the cross-engine lemma taken at that order: the data hypotheses and the multiset of selector rows do not depend on
    it, `seriesStoreOk_sortedDb`, `groupHashOk_sortedDb`, `baseX_sortedDb_perm`). Hypotheses: those of
    `engines_agree_unwrapAgg`, distinct table names, step ≤ range. -/
theorem engines_agree_unwrapAgg_sql (parse : Bytes → Option Rat) (o : Oracles) (E : Env Rat) (hE : E.num = ratOps parse)
    (h0 : E.o.isNum [] = false) (mc : MCtx) (hn : mc.namesOk) (d : LokiDb) (hd : SeriesStoreOk o mc.toCtx d)
    (ms : List Matcher) (hm : ms.length ≤ 63) (fs : List Stage)
    (label : String) (lbl : Bytes) (hlbl : label.toUTF8.toList = lbl) (hent : label = "_entry" ↔ lbl = entryKey)
    (hnum : ∀ s : Bytes, o.toFloat s = ((if s = [] then none else parse s).getD 0))
    (fn : Read.UnwrapFn) (fn' : LogQL.UnwrapFn) (hfn : toUnwrap fn = some fn') (g? : Option Grouping)
    (hgk : ∀ gg, g? = some gg → GroupHashOk o mc.toCtx d ⟨ms, fs⟩ gg)
    (dur k n : Nat) (hdur : 0 < dur) (hfrom : mc.fromNs = (k : Int) * dur) (hto : mc.toNs = mc.fromNs + (n : Int) * dur)
    (hstep : mc.stepNs ≤ (dur : Int))
    (rc : Read.Ctx) (hrf : rc.fromNs = mc.fromNs) (hrt : rc.toNs = mc.toNs)
    (hok : MetricOk E rc (unwrapPlan lbl fn dur g?) (chRows E.num o mc.toCtx d ms (fs.map .fl)))
    (hord : (fn = .firstOverTime ∨ fn = .lastOverTime) →
      TsOrdered rc.orderAsc (optByWithout E (g?.map toBW) (unwrapStage E lbl (chRows E.num o mc.toCtx d ms (fs.map .fl)))) ∧
      ∀ e ∈ optByWithout E (g?.map toBW) (unwrapStage E lbl (chRows E.num o mc.toCtx d ms (fs.map .fl))),
        ∀ e' ∈ optByWithout E (g?.map toBW) (unwrapStage E lbl (chRows E.num o mc.toCtx d ms (fs.map .fl))),
        e.labels = e'.labels → e.ts = e'.ts → e.val = e'.val)
    (bs : Batches Rat) (hbs : bs.flatten = chRows E.num o mc.toCtx d ms (fs.map .fl))
    (l : Read.Labels) (t : Int) (v : Rat) :
    (∃ e ∈ (runPlan E rc (unwrapPlan lbl fn dur g?) bs).flatten, e.labels = l ∧ e.ts = t ∧ e.val = v) ↔
    MatrixHas ((evalSelA o (d.toDbM mc) (planMetric mc (.range ⟨.unwrap fn' label, ⟨ms, fs⟩, dur, none, g?, none⟩))).map normRow) l t v := by
  have hcounts : unwrapCounts fn = true := by cases fn <;> simp [toUnwrap, unwrapCounts] at hfn ⊢
  have hrun := metricPlan_meets_logql E h0 rc (unwrapPlan lbl fn dur g?) rfl bs
    (by rw [hbs]; exact chRows_proper E.num o mc.toCtx d ms _) (by rw [hbs]; exact hok)
  rw [hrun, hbs]
  have hrows : (chRows E.num o mc.toCtx d ms (fs.map .fl)).Perm
      ((baseX o mc.toCtx (sortedDb mc.toCtx d) ms (fs.map .fl)).map (scanX (ratOps parse))) := by
    simp only [chRows, planLogX_correct o mc.toCtx hn.1 d ⟨ms, fs.map .fl⟩ false hm, hE]
    exact (scanRows_evalLogX_perm (ratOps parse) o mc.toCtx d ms (fs.map .fl)).trans
      ((baseX_sortedDb_perm o mc.toCtx d ms fs).map _)
  have hva := valAgree_all o parse dur rc.orderAsc fn fn' hfn _ hord
  have hsd := seriesStoreOk_sortedDb o mc.toCtx d hd
  have := unwrap_agree parse o mc.toCtx (sortedDb mc.toCtx d) hsd ms fs E hE label lbl hlbl hent hnum
    (dirFn rc.orderAsc fn) fn' g? (fun gg hg => groupHashOk_sortedDb o mc.toCtx d ⟨ms, fs⟩ gg (hgk gg hg))
    dur k n hdur (by simpa [sortedDb] using hfrom) (by simpa [sortedDb] using hto) _ hrows hva l t v
  rw [C08.plan_metric_correct_unwrap o mc hn d _ (by simp [supportedU, MetricQuery.rangeAgg, hdur, hm]), matrixHas_evalMetric,
    effWindow_whole mc (.range ⟨.unwrap fn' label, ⟨ms, fs⟩, dur, none, g?, none⟩) k n hfrom hto, metricPoints_range o mc _ _ rfl hstep]
  simp only [evalPlan, unwrapPlan, Stages.stages, List.foldl_cons, List.foldl_nil, Stages.stage, hcounts, if_true, optCompare,
    hrf, hrt, hE] at this ⊢
  rw [this]
  have hmap : ∀ pt ∈ rangePoints o mc.toCtx (sortedDb mc.toCtx d) ⟨.unwrap fn' label, ⟨ms, fs⟩, dur, none, g?, none⟩ mc.fromNs mc.toNs,
      ptLabels o mc.toCtx (sortedDb mc.toCtx d) ⟨ms, fs⟩ pt = pt.labels := by
    intro pt hpt
    obtain ⟨m, hm'⟩ := rangePoints_unwrap_labels o mc.toCtx (sortedDb mc.toCtx d) hsd fn' label ⟨ms, fs⟩ dur none g? none pt hpt
    exact ptLabels_of_map o mc.toCtx _ _ pt m hm'
  constructor
  · rintro ⟨pt, hpt, hl, ht, hv⟩
    exact ⟨_, List.mem_map.mpr ⟨pt, hpt, rfl⟩, by simp only [hmap pt hpt]; exact hl, ht, hv⟩
  · rintro ⟨p, hp, hl, ht, hv⟩
    obtain ⟨pt, hpt, rfl⟩ := List.mem_map.mp hp
    exact ⟨pt, hpt, by simp only [hmap pt hpt] at hl; exact hl, ht, hv⟩

/-- **…with a grouping clause on the range aggregation** (`sum_over_time(… | unwrap x [d]) by (a)`): the instance of
    `engines_agree_unwrapAgg_sql` for `engines_agree_byWithout`'s class — in-process `ByWithoutPlanner` (cut labels, own
    fingerprint) + `UnwrapAggPlanner` over the rows of the real selector statement vs the answer of the real whole-query
    statement (`ByWithoutPlanner.processSimple`: `mapFilter` + `cityHash64`). -/
theorem engines_agree_byWithout_sql (parse : Bytes → Option Rat) (o : Oracles) (E : Env Rat) (hE : E.num = ratOps parse)
    (h0 : E.o.isNum [] = false) (mc : MCtx) (hn : mc.namesOk) (d : LokiDb) (hd : SeriesStoreOk o mc.toCtx d)
    (ms : List Matcher) (hm : ms.length ≤ 63) (fs : List Stage)
    (label : String) (lbl : Bytes) (hlbl : label.toUTF8.toList = lbl) (hent : label = "_entry" ↔ lbl = entryKey)
    (hnum : ∀ s : Bytes, o.toFloat s = ((if s = [] then none else parse s).getD 0))
    (fn : Read.UnwrapFn) (fn' : LogQL.UnwrapFn) (hfn : toUnwrap fn = some fn') (gg : Grouping)
    (hgk : GroupHashOk o mc.toCtx d ⟨ms, fs⟩ gg)
    (dur k n : Nat) (hdur : 0 < dur) (hfrom : mc.fromNs = (k : Int) * dur) (hto : mc.toNs = mc.fromNs + (n : Int) * dur)
    (hstep : mc.stepNs ≤ (dur : Int))
    (rc : Read.Ctx) (hrf : rc.fromNs = mc.fromNs) (hrt : rc.toNs = mc.toNs)
    (hok : MetricOk E rc (unwrapPlan lbl fn dur (some gg)) (chRows E.num o mc.toCtx d ms (fs.map .fl)))
    (hord : (fn = .firstOverTime ∨ fn = .lastOverTime) →
      TsOrdered rc.orderAsc (optByWithout E (some (toBW gg)) (unwrapStage E lbl (chRows E.num o mc.toCtx d ms (fs.map .fl)))) ∧
      ∀ e ∈ optByWithout E (some (toBW gg)) (unwrapStage E lbl (chRows E.num o mc.toCtx d ms (fs.map .fl))),
        ∀ e' ∈ optByWithout E (some (toBW gg)) (unwrapStage E lbl (chRows E.num o mc.toCtx d ms (fs.map .fl))),
        e.labels = e'.labels → e.ts = e'.ts → e.val = e'.val)
    (bs : Batches Rat) (hbs : bs.flatten = chRows E.num o mc.toCtx d ms (fs.map .fl))
    (l : Read.Labels) (t : Int) (v : Rat) :
    (∃ e ∈ (runPlan E rc ⟨[.unwrap lbl], some (.unwrap fn, dur), some ⟨gg.isBy, groupingKeys gg⟩, none, none⟩ bs).flatten,
        e.labels = l ∧ e.ts = t ∧ e.val = v) ↔
    MatrixHas ((evalSelA o (d.toDbM mc) (planMetric mc (.range ⟨.unwrap fn' label, ⟨ms, fs⟩, dur, none, some gg, none⟩))).map normRow) l t v :=
  engines_agree_unwrapAgg_sql parse o E hE h0 mc hn d hd ms hm fs label lbl hlbl hent hnum fn fn' hfn (some gg)
    (fun g' hg' => by cases hg'; exact hgk) dur k n hdur hfrom hto hstep rc hrf hrt hok hord bs hbs l t v

/-! ### the vector aggregation at plan level (extension c09p) -/

/-- the in-process plan of `vfn [by/without (…)] (fn({sel} filters [d]))` when the hand-over is at the selector: the range
    aggregation, the by/without planner `planAggregators` plans (`by ()` for no clause), `AggOpPlanner` -/
def vecPlan (fn : Read.RangeFn) (dur : Nat) (vfn : VecFn) (bp bsuf : Option Grouping) : Plan Rat :=
  ⟨[], some (.range fn, dur), none, none, some (vfn, planVecGrouping ((chosenGrouping bp bsuf).map toBW), none)⟩

/-- the whole query as C08 has it -/
def vecQuery (fn' : LogQL.RangeFn) (ms : List Matcher) (fs : List Stage) (dur : Nat) (vfn : VecFn) (bp bsuf : Option Grouping) : VecAgg :=
  ⟨toVec vfn, bp, ⟨.lra fn', ⟨ms, fs⟩, dur, none, none, none⟩, bsuf, none⟩

/-- cityHash64 of the kept labels (ClickHouse's series of the vector aggregation) separates exactly the kept label sets of the
    streams that have a point in the window — `GroupHashOk` for the grouping of the vector aggregation, stated on the points -/
def VecHashOk (o : Oracles) (c : LogQL.Ctx) (d : LokiDb) (a : VecAgg) : Prop :=
  ∀ p ∈ rangePoints o c d a.inner c.fromNs c.toNs, ∀ p' ∈ rangePoints o c d a.inner c.fromNs c.toNs,
    ((canonLabels (asMap (ptLabels o c d a.inner.sel p))).filter (fun kv => (groupingKeys (aggGrouping a)).contains kv.1 == (aggGrouping a).isBy) =
     (canonLabels (asMap (ptLabels o c d a.inner.sel p'))).filter (fun kv => (groupingKeys (aggGrouping a)).contains kv.1 == (aggGrouping a).isBy)) ↔
    (regroup o (aggGrouping a) (ptLabels o c d a.inner.sel p)).1 = (regroup o (aggGrouping a) (ptLabels o c d a.inner.sel p')).1

/-- **engines_agree_vectorAgg_plan — `sum|min|max|avg|count [by/without (…)] (rate|count_over_time|bytes_rate|bytes_over_time({sel} filters [d]))`
    as a whole plan.** In process: the rows of the real selector statement, any batching, the in-process range stage, the by/without
    planner, `AggOpPlanner` (`Read.runPlan` of `vecPlan`). ClickHouse alone: C08's `aggStage ∘ rangePoints`. Same series (kept label
    set), timestamps, values. The stage-level `engines_agree_vectorAgg` composed with the inner range aggregation: the two inner
    matrices are the same entries up to order (`range_rows_perm`: `engines_agree_rangeAgg`'s membership statement + both sides
    duplicate-free + the shape of the entries), the range points lie on the grid and carry a label document without a repeated name
    (`SeriesStoreOk`). Hypotheses: exact rationals; `SeriesStoreOk`; whole-bucket window; `MetricOk` (series caps; the in-process
    fingerprints separate the label sets at both aggregators); `VecHashOk`. -/
theorem engines_agree_vectorAgg_plan (parse : Bytes → Option Rat) (o : Oracles) (E : Env Rat) (hE : E.num = ratOps parse)
    (h0 : E.o.isNum [] = false) (c : LogQL.Ctx) (hn : c.namesOk) (d : LokiDb) (hd : SeriesStoreOk o c d)
    (ms : List Matcher) (hm : ms.length ≤ 63) (fs : List Stage)
    (fn : Read.RangeFn) (fn' : LogQL.RangeFn) (hfn : toLra fn = some fn') (vfn : VecFn) (bp bsuf : Option Grouping)
    (dur k n : Nat) (hdur : 0 < dur) (hfrom : c.fromNs = (k : Int) * dur) (hto : c.toNs = c.fromNs + (n : Int) * dur)
    (hgk : VecHashOk o c d (vecQuery fn' ms fs dur vfn bp bsuf))
    (rc : Read.Ctx) (hrf : rc.fromNs = c.fromNs) (hrt : rc.toNs = c.toNs)
    (hok : MetricOk E rc (vecPlan fn dur vfn bp bsuf) (chRows E.num o c d ms (fs.map .fl)))
    (bs : Batches Rat) (hbs : bs.flatten = chRows E.num o c d ms (fs.map .fl))
    (l : Read.Labels) (t : Int) (v : Rat) :
    (∃ e ∈ (runPlan E rc (vecPlan fn dur vfn bp bsuf) bs).flatten, e.labels = l ∧ e.ts = t ∧ e.val = v) ↔
    (∃ pt ∈ aggStage o c d ⟨ms, fs⟩ (vecQuery fn' ms fs dur vfn bp bsuf)
        (rangePoints o c d ⟨.lra fn', ⟨ms, fs⟩, dur, none, none, none⟩ c.fromNs c.toNs),
        canonLabels (asMap pt.labels) = l ∧ pt.ts = t ∧ pt.value = v) := by
  have hcounts : rangeCounts fn = true := by cases fn <;> simp [toLra, rangeCounts] at hfn ⊢
  have hrun := metricPlan_meets_logql E h0 rc (vecPlan fn dur vfn bp bsuf) rfl bs
    (by rw [hbs]; exact chRows_proper E.num o c d ms _) (by rw [hbs]; exact hok)
  rw [hrun, hbs]
  have hrows : (chRows E.num o c d ms (fs.map .fl)).Perm ((baseX o c d ms (fs.map .fl)).map (scanX (ratOps parse))) := by
    simp only [chRows, planLogX_correct o c hn d ⟨ms, fs.map .fl⟩ false hm, hE]
    exact scanRows_evalLogX_perm (ratOps parse) o c d ms (fs.map .fl)
  have hinner := range_rows_perm parse o c d hd ms fs fn fn' hfn dur k n hdur hfrom hto _ hrows
  have := vec_agree parse o c d ⟨ms, fs⟩ E (vecQuery fn' ms fs dur vfn bp bsuf) vfn rfl
    (rangePoints o c d ⟨.lra fn', ⟨ms, fs⟩, dur, none, none, none⟩ c.fromNs c.toNs) (Grid.of c.fromNs c.toNs dur)
    (fun p hp => rangePoints_on_grid o c d ⟨ms, fs⟩ fn' dur k n hdur hfrom hto p hp)
    (fun i j h => grid_inj c.fromNs dur hdur i j h)
    (fun p hp => rangePoints_labels_doc o c d hd ⟨ms, fs⟩ fn' dur p hp)
    hgk _ hinner l t v
  simp only [evalPlan, vecPlan, vecQuery, Stages.stages, List.foldl_nil, hcounts, if_true, optCompare, hrf, hrt, hE] at this ⊢
  exact this

/-- **…from statement to statement**: composed with C08 `plan_metric_correct` for the real statement of the whole query
    (`pre_without`, `labels_<id>`, `lra_main`, … on the samples path, or the metrics_15s shortcut under `ShortcutOk`), step ≤ range.
    Left: the in-process engine over any batching of the rows of the real selector statement; right: the answer of the real
    whole-query statement. -/
theorem engines_agree_vectorAgg_sql (parse : Bytes → Option Rat) (o : Oracles) (E : Env Rat) (hE : E.num = ratOps parse)
    (h0 : E.o.isNum [] = false) (mc : MCtx) (hn : mc.namesOk) (d : LokiDb) (hd : SeriesStoreOk o mc.toCtx d)
    (ms : List Matcher) (hm : ms.length ≤ 63) (fs : List Stage)
    (fn : Read.RangeFn) (fn' : LogQL.RangeFn) (hfn : toLra fn = some fn') (vfn : VecFn) (bp bsuf : Option Grouping)
    (dur k n : Nat) (hdur : 0 < dur) (hfrom : mc.fromNs = (k : Int) * dur) (hto : mc.toNs = mc.fromNs + (n : Int) * dur)
    (hgk : VecHashOk o mc.toCtx d (vecQuery fn' ms fs dur vfn bp bsuf))
    (hstep : mc.stepNs ≤ (dur : Int))
    (hsc : takesShortcut (.agg (vecQuery fn' ms fs dur vfn bp bsuf)) = true → ShortcutOk o d (.agg (vecQuery fn' ms fs dur vfn bp bsuf)))
    (rc : Read.Ctx) (hrf : rc.fromNs = mc.fromNs) (hrt : rc.toNs = mc.toNs)
    (hok : MetricOk E rc (vecPlan fn dur vfn bp bsuf) (chRows E.num o mc.toCtx d ms (fs.map .fl)))
    (bs : Batches Rat) (hbs : bs.flatten = chRows E.num o mc.toCtx d ms (fs.map .fl))
    (l : Read.Labels) (t : Int) (v : Rat) :
    (∃ e ∈ (runPlan E rc (vecPlan fn dur vfn bp bsuf) bs).flatten, e.labels = l ∧ e.ts = t ∧ e.val = v) ↔
    MatrixHas ((evalSelA o (d.toDbM mc) (planMetric mc (.agg (vecQuery fn' ms fs dur vfn bp bsuf)))).map normRow) l t v := by
  rw [engines_agree_vectorAgg_plan parse o E hE h0 mc.toCtx hn.1 d hd ms hm fs fn fn' hfn vfn bp bsuf dur k n hdur hfrom hto hgk
    rc hrf hrt hok bs hbs l t v]
  rw [C08.plan_metric_correct o mc hn d _ (by simp [supported, vecQuery, MetricQuery.rangeAgg, hdur, hm]) hsc, matrixHas_evalMetric,
    effWindow_whole mc (.agg (vecQuery fn' ms fs dur vfn bp bsuf)) k n hfrom hto,
    metricPoints_agg o mc d (vecQuery fn' ms fs dur vfn bp bsuf) rfl rfl hstep]
  have hmap : ∀ pt ∈ aggStage o mc.toCtx d ⟨ms, fs⟩ (vecQuery fn' ms fs dur vfn bp bsuf)
        (rangePoints o mc.toCtx d ⟨.lra fn', ⟨ms, fs⟩, dur, none, none, none⟩ mc.fromNs mc.toNs),
      ptLabels o mc.toCtx d ⟨ms, fs⟩ pt = pt.labels := by
    intro pt hpt
    obtain ⟨m, hm'⟩ := aggStage_labels o mc.toCtx d ⟨ms, fs⟩ _ _
      (fun p hp => (rangePoints_labels_doc o mc.toCtx d hd ⟨ms, fs⟩ fn' dur p hp).imp (fun _ h => h.1)) pt hpt
    exact ptLabels_of_map o mc.toCtx d _ pt m hm'
  simp only [vecQuery] at hmap ⊢
  constructor
  · rintro ⟨pt, hpt, hl, ht, hv⟩
    exact ⟨_, List.mem_map.mpr ⟨pt, hpt, rfl⟩, by simp only [hmap pt hpt]; exact hl, ht, hv⟩
  · rintro ⟨p, hp, hl, ht, hv⟩
    obtain ⟨pt, hpt, rfl⟩ := List.mem_map.mp hp
    exact ⟨pt, hpt, by simp only [hmap pt hpt] at hl; exact hl, ht, hv⟩

/-! ### the recorded finding: a step above the range -/
/-- `clickhouse_planner.StepFixPlanner` on the matrix of the range / vector aggregation (rows ordered by series, then time):
    when the step is greater than the range, one row per (series, step bucket `intDiv(ts, step) * step`) with the value of
    the earliest row of the bucket (`argMin(value, timestamp_ns)`), re-timed to the start of the bucket. The in-process
    engine has no such stage (`internal_planner.MatrixStepPlanner` is never planned). -/
def stepFixM (step d : Int) (es : List MEntry) : List MEntry :=
  if step ≤ d then es
  else es.foldl (fun acc e =>
    match acc.getLast? with
    | some l => if l.fp = e.fp ∧ l.ts = Int.tdiv e.ts step * step then acc
                else acc ++ [{ e with ts := Int.tdiv e.ts step * step }]
    | none => [{ e with ts := Int.tdiv e.ts step * step }]) []

/-- the statement the property makes about the response of a metric query: after the matrix post-processors
    (`ZeroEaterPlanner`, `FixPeriodPlanner`) it does not matter whether the matrix went through ClickHouse's step
    re-bucketing (ClickHouse ran the whole query) or not (the aggregation ran in process) -/
def step_independent_of_engine_full : Prop :=
  ∀ (fromNs toNs step d : Int) (es : List MEntry),
    postProcess fromNs toNs step d (stepFixM step d es) = postProcess fromNs toNs step d es

/-- it holds whenever the step does not exceed the range (`StepFixPlanner` returns its input) -/
theorem step_independent_of_engine_partial (fromNs toNs step d : Int) (hs : step ≤ d) (es : List MEntry) :
    postProcess fromNs toNs step d (stepFixM step d es) = postProcess fromNs toNs step d es := by
  simp [stepFixM, hs]

/-- **step_independent_of_engine_counterexample** (kernel-checked): range 2, step 4, window [0, 8), one series with the
    values 5 at 0 and 7 at 2. ClickHouse alone: the step bucket 0 keeps its earliest value — response `5 @ 0`. In process:
    both range buckets reach `FixPeriodPlanner`, the later one overwrites — response `7 @ 0, 7 @ 4`. -/
theorem step_independent_of_engine_counterexample : ¬ step_independent_of_engine_full := by
  intro h
  have := h 0 8 4 2 [⟨1, 0, 0, 5⟩, ⟨1, 0, 2, 7⟩]
  revert this
  decide

example : postProcess 0 8 4 2 (stepFixM 4 2 [⟨1, 0, 0, 5⟩, ⟨1, 0, 2, 7⟩]) = [⟨1, 0, 0, 5⟩] ∧
    postProcess 0 8 4 2 [⟨1, 0, 0, 5⟩, ⟨1, 0, 2, 7⟩] = [⟨1, 0, 0, 7⟩, ⟨1, 0, 4, 7⟩] := by decide

/-! ## 4. series identity -/

/-- **distinct_sets_distinct_series.** The texts handed to CityHash for the labels of a set determine the set:
    two label lists whose hashed texts agree as multisets (the fingerprint only sees the multiset: it sums, xors
    and multiplies the hashes) are the same set of labels. So distinct label sets can get the same fingerprint
    only through a collision of the hash itself. (Names shorter than 2⁶⁴ bytes: every Go string.) -/
theorem distinct_sets_distinct_series (a b : Read.Labels)
    (ha : ∀ kv ∈ a, kv.1.length < 2 ^ 64) (hb : ∀ kv ∈ b, kv.1.length < 2 ^ 64)
    (h : (a.map encodePair).Perm (b.map encodePair)) : a.Perm b :=
  perm_of_map_perm encodePair a b (fun x hx y hy e => encodePair_inj x y (ha x hx) (hb y hy) e) h

theorem encodePair_injective (a b : Bytes × Bytes) (ha : a.1.length < 2 ^ 64) (hb : b.1.length < 2 ^ 64)
    (h : encodePair a = encodePair b) : a = b := encodePair_inj a b ha hb h

/-- the hashing before the fix (`key + value`) maps the distinct sets {ab:"c"} and {a:"bc"} to the same text -/
theorem old_encoding_collides :
    encodePairOld ([97, 98], [99]) = encodePairOld ([97], [98, 99]) ∧ (([97, 98], [99]) : Bytes × Bytes) ≠ ([97], [98, 99]) := by
  decide

/-- after a stage that changes labels (parser, label_format, drop, by/without) the fingerprint of a proper entry
    is a function of its label set: equal label sets are one series -/
theorem same_labels_same_series (E : Env V) (s : StageK V)
    (hs : match s with | .parser _ | .labelFormat _ | .drop _ _ => True | _ => False)
    (es : List (Entry V)) (hp : ∀ e ∈ es, e.err = none) :
    ∀ a ∈ stageFlat E s es, ∀ b ∈ stageFlat E s es, a.labels = b.labels → a.fp = b.fp := by
  have key : ∀ a ∈ stageFlat E s es, a.fp = fingerprint E.hash a.labels := by
    intro a ha
    cases s with
    | parser k =>
      simp only [stageFlat, List.mem_map] at ha
      obtain ⟨x, hx, hxa⟩ := ha
      subst hxa
      simp [parserFn, hp x hx]
    | labelFormat ops =>
      simp only [stageFlat, List.mem_map] at ha
      obtain ⟨x, hx, hxa⟩ := ha
      subst hxa
      simp [labelFormatFn, hp x hx]
    | drop ns vs =>
      simp only [stageFlat, List.mem_map] at ha
      obtain ⟨x, hx, hxa⟩ := ha
      subst hxa
      simp [dropFn, hp x hx]
    | line _ _ => exact absurd hs id
    | labelFilter _ => exact absurd hs id
    | lineFormat _ => exact absurd hs id
    | unwrap _ => exact absurd hs id
  intro a ha b hb hab
  rw [key a ha, key b hb, hab]

/-! ## 5. facts regenerated from the source (T) -/

/-- the decisive tests of the Go code are the ones the model mirrors: `min_over_time` replaces on `>`, `max` on
    `<`, `first_over_time` on an empty bucket and on every entry when the rows arrive newest first (`!ctx.OrderASC`),
    `last_over_time` on an empty bucket and on every entry when they arrive oldest first (`dirFn`); the range aggregations skip buckets outside the array (the vector
    aggregation's own test is not listed: its input timestamps are bucket starts of the same grid); limit 0 passes
    everything; the fingerprint hashes length, name, value; the split tests; the switch cases. The thresholds
    (`optimizerFlush`, `maxSeries`) are parameters of the theorems above, which hold for every value. -/
theorem gen_facts :
    Gen.InternalPlanner.unwrapCond_min_over_time = "stream.values[idx] > entry.Value || stream.values[idx+1] == 0" ∧
    Gen.InternalPlanner.unwrapCond_max_over_time = "stream.values[idx] < entry.Value || stream.values[idx+1] == 0" ∧
    Gen.InternalPlanner.unwrapCond_first_over_time = "stream.values[idx+1] == 0 || !ctx.OrderASC" ∧
    Gen.InternalPlanner.unwrapCond_last_over_time = "stream.values[idx+1] == 0 || ctx.OrderASC" ∧
    Gen.InternalPlanner.vecCond_min = "stream.values[idx*2] > entry.Value || stream.values[idx*2+1] == 0" ∧
    Gen.InternalPlanner.vecCond_max = "stream.values[idx*2] < entry.Value || stream.values[idx*2+1] == 0" ∧
    Gen.InternalPlanner.lraBounds = "idx < 0 || idx+1 >= int64(len(stream.values))" ∧
    Gen.InternalPlanner.unwrapBounds = "idx < 0 || idx+1 >= int64(len(stream.values))" ∧
    Gen.InternalPlanner.emitCond = "v.values[i+1] > 0" ∧
    Gen.InternalPlanner.limitConds = ["limit == 0", "sent >= limit", "sent+len(entries) < limit", "ctx.CancelCtx != nil"] ∧
    Gen.InternalPlanner.hashedText = "string(klen[:]) + k + v" ∧
    Gen.InternalPlanner.lraCases = ["rate", "count_over_time", "bytes_rate", "bytes_over_time"] ∧
    Gen.InternalPlanner.unwrapCases = ["rate", "sum_over_time", "avg_over_time", "max_over_time", "min_over_time",
      "first_over_time", "last_over_time"] ∧
    Gen.InternalPlanner.vecCases = ["sum", "min", "max", "avg", "count"] ∧
    Gen.InternalPlanner.breakConds = ["n != nil && !reflect.ValueOf(n).IsNil()",
      "ppl.Parser != nil && ((ppl.Parser.Fn == \"json\" && len(ppl.Parser.ParserParams) == 0) || ppl.Parser.Fn == \"logfmt\")",
      "ppl.LineFormat != nil", "ppl.LabelFormat != nil"] :=
  ⟨rfl, rfl, rfl, rfl, rfl, rfl, rfl, rfl, rfl, rfl, rfl, rfl, rfl, rfl, rfl⟩

/-- **no query answers with an empty matrix for lack of a case.** The function names `LRAPlanner.Process` and
    `UnwrapAggPlanner.Process` admit are exactly the names `addValue` has a case for — the ones the bucket machine counts
    (`rangeCounts` / `unwrapCounts`, for which `metricPlan_meets_logql` gives the LogQL value); every other name
    (`stddev_over_time`, `stdvar_over_time`, which ClickHouse computes with `stddevPop` / `varPop`; `sum_over_time`
    without `| unwrap`, …) is refused with NotSupported, like `stddev` / `stdvar` / `topk` / `quantile_over_time`. -/
theorem unsupported_functions_refused :
    Gen.InternalPlanner.lraAdmitted = Gen.InternalPlanner.lraCases ∧
    Gen.InternalPlanner.unwrapAdmitted = Gen.InternalPlanner.unwrapCases ∧
    Gen.InternalPlanner.lraRefusal = ["return nil, &shared.NotSupportedError{Msg: l.Func + \" without | unwrap is not supported yet.\"}"] ∧
    Gen.InternalPlanner.unwrapRefusal = ["return nil, &shared.NotSupportedError{Msg: l.Function + \" over an unwrapped value is not supported yet.\"}"] ∧
    (∀ (p : Plan V) fn dur, p.agg = some (.range fn, dur) → (p.accepted = rangeCounts fn)) ∧
    (∀ (p : Plan V) fn dur, p.agg = some (.unwrap fn, dur) → (p.accepted = unwrapCounts fn)) := by
  refine ⟨rfl, rfl, rfl, rfl, ?_, ?_⟩
  · intro p fn dur h
    cases fn <;> simp [Plan.accepted, h, rangeCounts]
  · intro p fn dur h
    cases fn <;> simp [Plan.accepted, h, unwrapCounts]

/-- **what only ClickHouse implements is refused in process, and the two engines divide and group alike** (regenerated
    from `internal_planner`): `topk`/`bottomk` and `quantile_over_time` are refused by `planAggregators`, `stddev`/`stdvar` by
    `AggOpPlanner.Process` (NotSupported: a script handed over with one of them fails instead of answering differently —
    no `engines_agree_*` for them); the three per-second functions divide by the range in nanoseconds / 1e9 (what
    `ratOps.durSeconds` and C08's `perSecond` say; the millisecond truncation is fixed); a vector aggregation without
    by/without is planned behind `ByWithoutPlanner{By: true}` — `by ()`, one series with the empty label set, as
    `clickhouse_planner.planAgg` does (`Read.planVecGrouping`, C08 `vector_agg_ungrouped`). -/
theorem gen_facts_agg :
    Gen.InternalAgg.rateDivisions =
      ["LRAPlanner:rate:stream.values[i] /= float64(l.Duration.Nanoseconds()) / 1e9",
       "LRAPlanner:bytes_rate:stream.values[i] /= float64(l.Duration.Nanoseconds()) / 1e9",
       "UnwrapAggPlanner:rate:stream.values[i] /= float64(l.Duration.Nanoseconds()) / 1e9"] ∧
    Gen.InternalAgg.vecGrouping =
      ["script.ByOrWithoutPrefix == nil && script.ByOrWithoutSuffix == nil",
       "proc = &ByWithoutPlanner{GenericPlanner: GenericPlanner{proc}, By: true}",
       "proc = planByWithout(proc, script.ByOrWithoutPrefix, script.ByOrWithoutSuffix)"] ∧
    Gen.InternalAgg.planRefusals =
      ["*logql_parser.QuantileOverTime: return nil, &shared.NotSupportedError{Msg: \"quantile_over_time is not supported\"}",
       "*logql_parser.TopK: return nil, &shared.NotSupportedError{Msg: \"topk is not supported for the current request\"}"] ∧
    Gen.InternalAgg.vecRefused = ["stddev", "stdvar"] ∧
    Gen.InternalPlanner.vecCases = ["sum", "min", "max", "avg", "count"] ∧
    (∀ w : Option ByWithout, planVecGrouping w = some (w.getD ⟨true, []⟩)) ∧
    (∀ parse : Bytes → Option Rat, ∀ d : Nat, (ratOps parse).durSeconds (d : Int) = secondsOf d) :=
  ⟨rfl, rfl, rfl, rfl, rfl, fun _ => rfl, fun _ _ => by simp [ratOps, secondsOf]⟩

/-- the parameter handling of the parser stage as the source has it now — what `paramFields`, `jsonParams`,
    `aheadsFor`, `setAll`, `logfmtFields`, `parserFn` mirror: `logfmtFields` is filled only when there are parameters,
    for every parameter in order, skipping empty paths, only for a leading *string* segment, by map assignment
    (later wins); `jsonWithParams` makes one ahead per parameter in parameter order, walks only a line `jx.Valid` accepts,
    writes what it finds to a map of its own and then assigns `found[label]` ("" when absent) to every named label;
    `filterAhead` drops aheads whose path is exhausted and compares the first segment by type and value; an object or
    an array some path ends at is read as a whole (`dec.Raw()`), its text given to the exhausted aheads, the others
    followed inside it; a scalar is given to the aheads whose path is exhausted; members nobody asks for are skipped;
    paths are cut by one segment on the way down; `HandleLogfmt`
    consults the map when it is non-nil and ignores unnamed keys; `OnEntry` passes marker entries, keeps the labels
    extracted before a parse error and recomputes the fingerprint in every case. -/
theorem gen_facts_params :
    Gen.InternalParams.fieldsGuard = "len(p.ParameterNames) > 0" ∧
    Gen.InternalParams.fieldsRange = "i, name := range p.ParameterNames" ∧
    Gen.InternalParams.fieldsSkip = ["len(p.parameterTypedValues[i]) == 0"] ∧
    Gen.InternalParams.fieldsTypeCases = ["string"] ∧
    Gen.InternalParams.fieldsAssign = ["p.logfmtFields = make(map[string]string, len(p.ParameterNames))",
      "p.logfmtFields[p.parameterTypedValues[i][0].(string)] = name"] ∧
    Gen.InternalParams.aheadsRange = "i, path := range p.parameterTypedValues" ∧
    Gen.InternalParams.aheadsBody = ["name := p.ParameterNames[i]", "pa = append(pa, pathAhead{label: name, path: path})"] ∧
    Gen.InternalParams.filterAheadConds = ["len(a.path) == 0", "typeCmp[int](a.path[0], key) || typeCmp[string](a.path[0], key)"] ∧
    Gen.InternalParams.jsonParamsConds = ["jx.Valid([]byte(str))", "err != nil"] ∧
    Gen.InternalParams.jsonParamsFound = ["found := make(map[string]string, len(pa))", "found = nil",
      "jpp := &jsonPathProcessor{labels: &found}"] ∧
    Gen.InternalParams.jsonParamsFinalRange = "_, a := range pa" ∧
    Gen.InternalParams.jsonParamsFinalBody = ["(*labels)[a.label] = found[a.label]"] ∧
    Gen.InternalParams.processConds = ["next == jx.Object || next == jx.Array", "len(a.path) > 0", "len(deeper) < len(aheads)",
      "err != nil", "len(a.path) == 0", "len(deeper) == 0", "err != nil", "len(a.path) == 0", "err != nil", "len(a.path) == 0"] ∧
    Gen.InternalParams.processDeeper = ["deeper = append(deeper, a)", "raw, err := dec.Raw()",
      "dec, aheads = jx.DecodeBytes(raw), deeper", "raw, err := dec.Raw()"] ∧
    Gen.InternalParams.setConds = ["len(a.path) > 0", "len(a.path) == 0", "len(a.path) == 0", "len(a.path) == 0"] ∧
    Gen.InternalParams.setAssigns = ["(*j.labels)[a.label] = raw.String()", "(*j.labels)[a.label] = val", "(*j.labels)[a.label] = val"] ∧
    Gen.InternalParams.processObjectConds = ["len(aheads) == 0", "len(_aheads) == 0"] ∧
    Gen.InternalParams.processArrayConds = ["len(aheads) == 0", "len(_aheads) == 0"] ∧
    Gen.InternalParams.processObjectCut = ["pathAhead{label: a.label, path: a.path[1:]}"] ∧
    Gen.InternalParams.processArrayCut = ["pathAhead{label: a.label, path: a.path[1:]}"] ∧
    Gen.InternalParams.handleLogfmtConds = ["p.fields != nil", "l != \"\""] ∧
    Gen.InternalParams.handleLogfmtAssigns = ["l := p.fields[string(key)]", "(*p.labels)[l] = string(val)",
      "(*p.labels)[sanitizeLabel(string(key))] = string(val)"] ∧
    Gen.InternalParams.parserOnEntry = ["if entry.Err != nil { return nil }",
      "labels, err := parser(entry.Message, &entry.Labels)", "if err == nil { entry.Labels = labels }",
      "entry.Fingerprint = fingerprint(entry.Labels)", "return nil"] :=
  ⟨rfl, rfl, rfl, rfl, rfl, rfl, rfl, rfl, rfl, rfl, rfl, rfl, rfl, rfl, rfl, rfl, rfl, rfl, rfl, rfl, rfl, rfl, rfl⟩

/-! ## non-vacuity -/
section examples
def intOps : NumOps Int where
  zero := 0
  one := 1
  add := (· + ·)
  div := (· / ·)
  lt a b := decide (a < b)
  le a b := decide (a ≤ b)
  eq a b := decide (a = b)
  ofNat n := n
  parse _ := none
  durSeconds d := d / 1000000000

def ent (ts : Int) (fp : UInt64) (v : Int) : Entry Int := ⟨ts, fp, [([97], [98])], [], v, none⟩

/-- limit 2 over three entries in two different batchings (one with empty messages) -/
example : ((run intOps (limitOps 2) 0 [[ent 1 7 0], [], [ent 2 7 0, ent 3 7 0]]).flatten.map (·.ts) = [1, 2]) ∧
          ((run intOps (limitOps 2) 0 [[ent 1 7 0, ent 2 7 0, ent 3 7 0]]).flatten.map (·.ts) = [1, 2]) ∧
          ((run intOps (limitOps 0) 0 [[ent 1 7 0], [ent 2 7 0, ent 3 7 0]]).flatten.map (·.ts) = [1, 2, 3]) := by decide

/-- values 5, 3, 9 in one window: `min_over_time` is 3, `first_over_time` of 0, 3, 9 is 0 (A19) -/
example : ((run intOps (aggOps intOps 2000 ⟨0, 60, 2⟩ (unwrapAggFn intOps 60 .minOverTime)) []
            [[ent 10 7 5], [ent 20 7 3, ent 30 7 9]]).flatten.map (·.val) = [3]) ∧
          ((run intOps (aggOps intOps 2000 ⟨0, 60, 2⟩ (unwrapAggFn intOps 60 .firstOverTime)) []
            [[ent 10 7 0, ent 20 7 3], [ent 30 7 9]]).flatten.map (·.val) = [0]) := by decide

/-- an entry at or after the end of the last whole bucket is skipped, not a fault (A21) -/
example : (run intOps (aggOps intOps 2000 ⟨0, 60, 2⟩ (lraFn intOps 60 .countOverTime)) []
            [[ent 10 7 0, ent 130 7 0, ent 120 7 0]]).flatten.map (fun e => (e.ts, e.val)) = [(0, 1)] := by decide

/-- the hypotheses of `split_sound` and the series-table assumption are satisfiable -/
example : getBreakpoint [.line, .jsonParams, .jsonNoParams, .labelFilter] false = 2 := by decide
example : SeriesTableOk ⟨0, 1, 0, false, 1, false, "g", "s", "t", "t"⟩ ⟨[], [], []⟩ :=
  ⟨by simp, by simp, by simp⟩
/-- the hypotheses of the composition theorem are satisfiable: a plan `| json | json p="a", p="b"` then
    `count_over_time[60]` then `sum`, two lines whose keys come in different order — one series `p=2` and one `p=1`
    (document order decides), fingerprints identify the label sets -/
def exEnv : Env Int where
  o := { reMatch := fun _ _ => false, jsonLabels := fun _ => [], isNum := fun _ => false, numCmp := fun _ _ _ => false, lower := id }
  num := intOps
  jsonDecode m := if m = [1] then .obj [] (.cons [98] (.raw [49]) (.cons [97] (.raw [50]) .nil))
                  else .obj [] (.cons [97] (.raw [50]) (.cons [98] (.raw [49]) .nil))
  jsonValid _ := true
  logfmtDecode _ := []
  tpl _ _ := none
  hash b := b.foldl (fun h c => h * 31 + c.toUInt64) 7

def exPlan (vec : Option (VecFn × Option ByWithout × Option (CmpOp × Int))) : Plan Int :=
  ⟨[.parser .json, .parser (.jsonParams [([112], [.key [97]]), ([112], [.key [98]])])], some (.range .countOverTime, 60), none, none, vec⟩

def exE1 : Entry Int := ⟨10, 7, [([120], [121])], [1], 0, none⟩
def exE2 : Entry Int := ⟨20, 7, [([120], [121])], [2], 0, none⟩
def exInput : List (Entry Int) := [exE1, exE2]

example : MetricOk exEnv ⟨0, 120, 0, 3000, 2000, true⟩ (exPlan (some (.sum, none, none))) exInput := by
  refine ⟨by decide +kernel, ?_, by decide +kernel, ?_⟩ <;> unfold FpFaithful <;> decide +kernel

example : ((runPlan exEnv ⟨0, 120, 0, 3000, 2000, true⟩ (exPlan none) [[exE1], [], [exE2]]).flatten.map
    (fun e => (e.labels.get [112], e.val))) = [([50], 1), ([49], 1)] := by decide +kernel

/-- `JsonPathParamToTypedArray` as modelled (`Read.parsePath`): `x.z[0]`, `["k 1"]`, `a b` (the dot is optional), and
    the errors: empty text, trailing dot, an unclosed bracket; `a.1` (a float to the Go scanner) is outside the fragment -/
example : parsePath [120, 46, 122, 91, 48, 93] = .ok [.key [120], .key [122], .idx 0] ∧
    parsePath [91, 34, 107, 32, 49, 34, 93] = .ok [.key [107, 32, 49]] ∧
    parsePath [97, 32, 98] = .ok [.key [97], .key [98]] ∧
    parsePath [] = .err ∧ parsePath [97, 46] = .err ∧ parsePath [97, 91] = .err ∧
    parsePath [97, 46, 49] = .outside := by decide

/-- the parameters as `Process` gets them: source order kept, an unparsable path fails the stage -/
example : planParams [([112], [97]), ([113], [98, 91, 49, 93])] = some (some [([112], [.key [97]]), ([113], [.key [98], .idx 1])]) ∧
    planParams [([112], [97]), ([113], [91])] = some none := by decide

end examples

end Qryn.C09
