import Qryn.Proofs.TraceQLLimit
import Qryn.Proofs.TraceQLWf
import Qryn.Gen.TraceQLOps
/-! # C11 — the SQL generated for TraceQL selects exactly the traces the query describes

Model: `TraceQL.plan` (tied byte-for-byte to `clickhouse_transpiler.Plan → Process → String` by the `text`
correspondence stream), `Sql.evalSelG` (semantics of the structured SQL subset — a documented model of
ClickHouse), `TraceQL.traceMatches` (the direct reading of the script over the attribute index, no SQL).
The theorems are about `rootSel` — the select that becomes `index_grouped` and decides which traces are
returned — and its LIMIT (`indexGrouped`). Fragment (`SelOk`): selectors with conditions, ≤ 64 distinct
conditions per selector; no portion filter. Not covered: `{}`, the join with the span table
(`TracesDataPlanner`), the order among equally recent traces, `PlanTagsV2` / `PlanValuesV2`. -/
namespace Qryn.C11
open Qryn Qryn.Sql Qryn.TraceQL

/-! ## operator maps (regenerated from the switches of the Go code) -/

def allOps : List Op := [.eq, .neq, .lt, .le, .gt, .ge, .re, .nre]

/-- `getComparisonFn` and the switch of `getTermNum` map every TraceQL operator to the SQL operator the model uses -/
theorem ops_match_gen :
    (∀ op ∈ allOps, Gen.traceqlCmpOps.lookup op.text = cmpSql op) ∧
    (∀ op ∈ allOps, Gen.traceqlNumOps.lookup op.text = cmpSql op) := by decide

/-- `getTermStr` handles exactly `=`, `!=`, `=~`, `!~`, as `val ==`, `val !=`, `match == 1`, `match == 0` -/
theorem str_ops_match_gen :
    Gen.traceqlStrOps = [("=", "val =="), ("!=", "val !="), ("=~", "match == 1"), ("!~", "match == 0")] := by decide

/-- `getAggregator`: the outermost SQL function of every TraceQL aggregate is the one the model writes -/
theorem aggs_match_gen :
    Gen.traceqlAggHeads =
      [AggFn.count, .avg, .max, .min, .sum].map (fun fn => (fn.text, match aggregatorSql "" fn with | .call h _ => h | _ => "")) := by
  decide

/-! ## one condition -/

/-- **term_sql_correct.** For every condition the planner accepts (string `= != =~ !~`, numeric
    `= != < <= > >=` through `toFloat64OrNull`, duration comparisons) and every row of the attribute index:
    the SQL text of the condition is true of the row iff the row witnesses the condition. -/
theorem term_sql_correct (o : Oracles) (env : Env) (t : Term) (e : Expr) (h : termSql t = .ok e) (a : AttrRow) :
    evalB o env a.qrow e = termHolds o t a :=
  termSql_correct o env t e h a

/-! ## the bit set -/

/-- **bitset_tree_correct.** For a group of rows, `getCond`'s HAVING over
    `bitAnd(groupBitOr(Σ bitShiftLeft(toUInt64(cᵢ), i)) as bsCond, 2ⁱ) != 0` holds iff the boolean tree holds of
    "some row of the group satisfies condition i" — for trees over indices below 64, whichever leaf carries
    the alias definition. -/
theorem bitset_tree_correct (o : Oracles) (ao : AggOracles) (env : Env) (g : List Row) (es : List Expr)
    (al : Bool) (c : Cond) (hlt : c.bounded 64) :
    evalHavG o ao env g (groupOr (g.map (fun r => es.map (evalB o env r)))) (condSql es al c).1 =
      c.eval (fun i => g.any (fun r => (es.map (evalB o env r)).getD i false)) := by
  rw [evalHavG_condSql o ao env g es _ al c hlt]
  refine Cond.eval_congr (n := 64) _ _ (fun i hi => ?_) c hlt
  rw [testBit_groupOr _ _ hi, List.any_map]
  rfl

/-- the statement without the bound on the indices: **false** — the planner's bit masks are `int64(1) << i`
    and ClickHouse's `bitShiftLeft(toUInt64(c), i)` is 0 from bit 64 on, so condition number 65 and later of
    one selector can never hold (finding `over-64-conditions`) -/
def bitset_tree_correct_full : Prop :=
  ∀ (o : Oracles) (ao : AggOracles) (env : Env) (g : List Row) (es : List Expr) (al : Bool) (c : Cond),
    evalHavG o ao env g (groupOr (g.map (fun r => es.map (evalB o env r)))) (condSql es al c).1 =
      c.eval (fun i => g.any (fun r => (es.map (evalB o env r)).getD i false))

/-- 65 conditions that all hold of the only row of a group: the leaf for the 65th is false -/
theorem bitset_tree_correct_counterexample : ¬ bitset_tree_correct_full := by
  intro h
  have := h { reMatch := fun _ _ => false, jsonLabels := fun _ => [], isNum := fun _ => false, numCmp := fun _ _ _ => false, lower := id } ⟨fun _ _ _ _ => false⟩ [] [[]]
    (List.replicate 65 (.int 1)) false (.leaf 64)
  revert this
  decide

/-- the alias `bsCond` is defined by the first leaf of the tree: HAVING finds the bit set it refers to -/
theorem bitset_alias_defined (es : List Expr) (c : Cond) : findBitSet (condSql es false c).1 = some es :=
  findBitSet_condSql es c

/-- de-duplication of conditions into bit indices keeps the meaning of the selector: the tree over the
    indices, read over the de-duplicated list, is the boolean combination as written -/
theorem analyze_correct (f : Term → Bool) (e : AttrExp) (hinj : KeyInj (termsOf e)) :
    (analyzeCond [] e).2.eval (fun i => (((analyzeCond [] e).1[i]?).map f).getD false) = expHolds f e := by
  obtain ⟨extra, h1, _, _, h4⟩ := analyzeCond_spec f e [] (by simpa using hinj)
  have := h4 []
  simp only [List.nil_append, List.append_nil] at h1 this
  rw [h1]; exact this

/-- **span_having_correct.** In the index scan of a selector, the group of a span (its index rows inside
    the window that pass WHERE) passes HAVING iff the selector's boolean combination holds of the span. -/
theorem span_having_correct (o : Oracles) (ao : AggOracles) (env : Env) (c : Ctx) (d : TraceDb) (e : AttrExp)
    (es wh : List Expr) (hinj : KeyInj (termsOf e)) (hm : mapOk termSql (analyzeCond [] e).1 = .ok es)
    (hsub : ∀ x ∈ es, x ∈ wh) (h64 : (analyzeCond [] e).1.length ≤ 64) (k : SpanKey) :
    havingG o ao env (grpA o env c d wh k) (some (and_ [(condSql es false (analyzeCond [] e).2).1])) =
      spanHolds o c d e k :=
  having_grpA o ao env c d e es wh hinj hm hsub h64 k

/-! ## aggregates -/

/-- **aggregate_filter.** The HAVING `AggregatorPlanner` adds compares, per trace: for `count` the number of
    distinct selected span ids, otherwise the aggregate over the non-NULL `agg_val` of the selected spans. -/
theorem aggregate_filter (o : Oracles) (ao : AggOracles) (env : Env) (pfx : String) (fn : AggFn) (op : Op) (f v : String)
    (hf : cmpSql op = some f) (g : List Row) :
    havingG o ao env g (aggHaving pfx fn f v) =
      (match fn with
       | .count => o.numCmp f (natDigits (dedup (g.map (fun r => r.get (pfx ++ "index_search.span_id")))).length) v
       | fn => ao.aggCmp (aggName fn) (aggTexts o (g.map (fun r => r.get "agg_val"))) f v) :=
  havingG_agg o ao env pfx fn op f v hf g

/-- **selector_correct.** The select planned for one selector (conditions, optional aggregate) returns
    exactly one row per trace the selector matches: some span of the trace satisfies the conditions and the
    matched spans pass the aggregate comparison. -/
theorem selector_correct (o : Oracles) (ao : AggOracles) (hp : PermInv ao) (c : Ctx) (d : TraceDb)
    (hcons : DurConsistent (d.seen o c)) (pfx : String) (s : Selector) (op : ScriptOp) (rest : Script) (X : Sel)
    (h : simpleSel c pfx ((s, op) :: rest) = .ok X) (hs : SelOk s) (env : Env) (tr : Bytes) :
    (∃ r ∈ evalSelG o ao (d.toDb c) true env X, r.get "trace_id" = .str tr) ↔ selMatches o ao c (d.seen o c) s tr = true := by
  have := (simple_traceRows o ao hp c d hcons pfx s op rest X h hs [] env).mem tr
  have hX : X.addCols [] = X := by obtain ⟨ws, d', c', f, j, p, w, g, h', ob, l⟩ := X; simp [Sel.addCols]
  rwa [hX] at this

/-! ## `&&` and `||` -/

/-- **and_is_intersection.** A `&&` node over two selects that return traces returns the traces both return. -/
theorem and_is_intersection (o : Oracles) (ao : AggOracles) (db : Db) (pfx : String) (L R : Sel) (PL PR : Bytes → Prop)
    (hL : TraceSel o ao db L PL) (hR : TraceSel o ao db R PR) :
    TraceSel o ao db (complexSel true pfx [L, R]) (fun tr => PL tr ∧ PR tr) :=
  (complex_traceSel o ao db true pfx L R PL PR hL hR).congr (fun tr => by simp [comb])

/-- **or_is_union.** A `||` node returns the traces either operand returns. -/
theorem or_is_union (o : Oracles) (ao : AggOracles) (db : Db) (pfx : String) (L R : Sel) (PL PR : Bytes → Prop)
    (hL : TraceSel o ao db L PL) (hR : TraceSel o ao db R PR) :
    TraceSel o ao db (complexSel false pfx [L, R]) (fun tr => PL tr ∨ PR tr) :=
  (complex_traceSel o ao db false pfx L R PL PR hL hR).congr (fun tr => by simp [comb])

/-- the tree `planComplex` builds means the script with `&&` binding tighter than `||`, and every selector
    of the script is planned -/
theorem tree_means_script (f : Selector → Bool) (script : Script) (gs : List (List Script)) (h : groupsS script = .ok gs) :
    treeHolds f (orFold 0 none gs) = scriptHolds f script := by
  obtain ⟨e1, h2, h3, _⟩ := groupsS_spec f script gs h
  rw [(orFold_spec f gs 0 none h3 h2).1]
  simp only [Bool.false_or, scriptHolds]
  have e2 := congrArg (fun ll : List (List Bool) => ll.any (fun bs => bs.all id)) e1
  simp only [List.any_map, List.all_map, Function.comp_def, id] at e2
  exact e2

/-! ## the whole script -/

/-- **plan_correct.** For every script of the fragment that the planner accepts, every context without
    portion filter and every attribute index (whose rows agree on a span's duration): the select that decides
    which traces are returned yields one row per trace, and a trace is among them iff the script describes it
    — some selector group joined by `&&` has all its selectors matching the trace, where a selector matches
    iff some span inside the time window satisfies the boolean combination of its conditions and the matched
    spans pass its aggregate comparison. -/
theorem plan_correct (o : Oracles) (ao : AggOracles) (hp : PermInv ao) (c : Ctx) (d : TraceDb)
    (hcons : DurConsistent (d.seen o c)) (script : Script) (X : Sel) (h : rootSel c script = .ok X)
    (hok : ∀ p ∈ script, SelOk p.1) (env : Env) :
    ((evalSelG o ao (d.toDb c) true env X).map (fun r => r.get "trace_id")).Nodup ∧
    ∀ tr, (∃ r ∈ evalSelG o ao (d.toDb c) true env X, r.get "trace_id" = .str tr) ↔
      traceMatches o ao c (d.seen o c) script tr = true := by
  have hT := (root_traceSel o ao hp c d hcons script X h hok).rows [] env
  have hX : X.addCols [] = X := by obtain ⟨ws, d', c', f, j, p, w, g, h', ob, l⟩ := X; simp [Sel.addCols]
  rw [hX] at hT
  exact ⟨hT.nodup, hT.mem⟩

/-! ## window and limit -/

/-- the full statement about LIMIT: the kept traces are the most recent ones — any matching trace that was cut
    is not newer (by its newest matched span) than a kept one. Compiled, **not proved**: the order `ORDER BY
    max(timestamp_ns) DESC` induces among the groups is outside the proved fragment (see notes). -/
def limit_most_recent_full : Prop :=
  ∀ (o : Oracles) (ao : AggOracles) (c : Ctx) (d : TraceDb) (script : Script) (X : Sel) (recency : Bytes → Int),
    rootSel c script = .ok X →
    (∀ tr, recency tr = (((spans c d).filter (fun k => k.1 == tr)).foldl
        (fun m k => max m (((d.attrs.find? (fun a => a.span == k && admissible c a)).map (·.ts)).getD 0)) 0)) →
    ∀ kept cut : Bytes,
      (∃ r ∈ evalSelG o ao (d.toDb c) true [] (indexLimit c X), r.get "trace_id" = .str kept) →
      traceMatches o ao c d script cut = true →
      (¬ ∃ r ∈ evalSelG o ao (d.toDb c) true [] (indexLimit c X), r.get "trace_id" = .str cut) →
      recency cut ≤ recency kept

/-- **window_and_limit_partial.** (1) Index rows outside [start, end) or stored under a day outside the
    window never change which traces a script describes. (2) The LIMIT of `IndexLimitPlanner` keeps a prefix of
    the unlimited result: no trace twice, at most `limit` traces, every kept trace is described by the script,
    and when fewer than `limit` are returned every described trace is returned. -/
theorem window_and_limit_partial (o : Oracles) (ao : AggOracles) (hp : PermInv ao) (c : Ctx) (d : TraceDb)
    (hcons : DurConsistent (d.seen o c)) (script : Script) (X : Sel) (h : rootSel c script = .ok X)
    (hok : ∀ p ∈ script, SelOk p.1) (env : Env) (hlim : 0 < c.limit) :
    (∀ tr, traceMatches o ao c (d.inWindow c) script tr = traceMatches o ao c d script tr) ∧
    evalSelG o ao (d.toDb c) true env (indexLimit c X) = (evalSelG o ao (d.toDb c) true env X).take c.limit.toNat ∧
    ((evalSelG o ao (d.toDb c) true env (indexLimit c X)).map (fun r => r.get "trace_id")).Nodup ∧
    (evalSelG o ao (d.toDb c) true env (indexLimit c X)).length ≤ c.limit.toNat ∧
    (∀ r ∈ evalSelG o ao (d.toDb c) true env (indexLimit c X),
        ∃ tr, r.get "trace_id" = .str tr ∧ traceMatches o ao c (d.seen o c) script tr = true) ∧
    ((evalSelG o ao (d.toDb c) true env (indexLimit c X)).length < c.limit.toNat →
        ∀ tr, traceMatches o ao c (d.seen o c) script tr = true →
          ∃ r ∈ evalSelG o ao (d.toDb c) true env (indexLimit c X), r.get "trace_id" = .str tr) := by
  have hT := (root_traceSel o ao hp c d hcons script X h hok).rows [] env
  have hX : X.addCols [] = X := by obtain ⟨ws, d', c', f, j, p, w, g, h', ob, l⟩ := X; simp [Sel.addCols]
  rw [hX] at hT
  have hl : evalSelG o ao (d.toDb c) true env (indexLimit c X) = (evalSelG o ao (d.toDb c) true env X).take c.limit.toNat := by
    rw [indexLimit_eval o ao (d.toDb c) true env c X (rootSel_grouped c script X h)]
    have : c.limit ≠ 0 := by omega
    simp [this]
  obtain ⟨t1, t2, t3, t4⟩ := hT.take c.limit.toNat
  rw [hl]
  exact ⟨traceMatches_window o ao c d script, rfl, t1, t2, t3, t4⟩

/-! ## well-formed statements -/

/-- **render_wellformed.** For every script and context the planner model accepts, the whole statement
    (`plan`: index search, grouping, `&&`/`||` nodes, limit, span-table join) is structurally well formed:
    no `and`/`or`/comparison, `IN`, function call, bit set or set operation has an empty operand list — which
    is what rendered `… and ()` for `{duration > 1s}` — and every SELECT list is non-empty. -/
theorem render_wellformed (c : Ctx) (script : Script) (X : Sel) (h : plan c script = .ok X) : wfS X = true :=
  plan_wf c script X h

/-- the byte-level half of well-formedness: balanced parentheses of the rendered statement whenever no request
    string contains a parenthesis (for other strings the token structure is the same, C10). Compiled,
    **not proved**; every real statement is lexed and checked by the `syntax` stream instead. -/
def render_balanced_full : Prop :=
  ∀ (c : Ctx) (script : Script) (X : Sel), plan c script = .ok X →
    (∀ s ∈ [c.attrsTable, c.tracesTable, c.tracesDistTable] ++ c.cached, balancedB (b s) = true ∧ ¬ (b s).contains 40) →
    balancedB (renderSel X) = true

/-- the shape of the defect A22: a conjunction with an empty disjunction as operand is not well formed -/
theorem empty_clause_not_wellformed (x : Expr) : wfE (and_ [x, or_ []]) = false := by
  simp [and_, or_, wfE, wfEs]

/-! ## the hypotheses are satisfiable -/

def ctx0 : Ctx := ⟨1700000000000000000, 1700003600000000000, 0, 20, false, "tempo_traces_attrs_gin",
  "tempo_traces_attrs_gin_dist", "tempo_traces", "tempo_traces_dist", 0, 0, []⟩
def termA : Term := ⟨".a", .eq, .str [34, 120, 34] (some [120])⟩
def termD : Term := ⟨"duration", .gt, .dur ⟨false, [1], false, []⟩ .s⟩
def sel0 : Selector := ⟨some (.leafOp termA .or (.leaf termD)), some ⟨.count, "", .gt, ⟨false, [2], false, []⟩, none⟩⟩
def script0 : Script := [(sel0, .and), (⟨some (.leaf termD), none⟩, .none)]

example : PermInv ⟨fun _ _ _ _ => true⟩ := fun _ _ _ _ _ _ => rfl
example : DurConsistent { attrs := [] } := fun a ha => by simp at ha
example : ctx0.rndMax = 0 := rfl
example : (match rootSel ctx0 script0 with | .ok _ => true | .error _ => false) = true := by decide +kernel
example : (match plan ctx0 script0 with | .ok _ => true | .error _ => false) = true := by decide +kernel

example : ∀ p ∈ script0, SelOk p.1 := by
  have hk : termA.key ≠ termD.key := by decide +kernel
  intro p hp
  simp only [script0, List.mem_cons, List.mem_singleton, List.not_mem_nil, or_false] at hp
  rcases hp with rfl | rfl
  · refine ⟨⟨_, rfl, ?_⟩⟩
    intro t ht t' ht' hkk
    simp only [termsOf, List.mem_cons, List.mem_singleton, List.not_mem_nil, or_false] at ht ht'
    rcases ht with rfl | rfl <;> rcases ht' with rfl | rfl
    · rfl
    · exact absurd hkk hk
    · exact absurd hkk.symm hk
    · rfl
  · refine ⟨⟨_, rfl, ?_⟩⟩
    intro t ht t' ht' _
    simp only [termsOf, List.mem_singleton] at ht ht'
    rw [ht, ht']

end Qryn.C11
