import Qryn.Proofs.TraceQLLimit
import Qryn.Proofs.TraceQLWf
import Qryn.Proofs.TraceQLPortions
import Qryn.Proofs.TraceQLTags
import Qryn.Proofs.TraceQLGrammar
import Qryn.Proofs.TraceQLAll
import Qryn.Proofs.TraceQLAllFull
import Qryn.TraceQL.ComplexHeap
import Qryn.Proofs.ComplexHeapClosed
import Qryn.Gen.TraceQLOps
/-! # C11 — the SQL generated for TraceQL selects exactly the traces the query describes

Models: `TraceQL.plan` / `planTags` / `planValues` (tied byte-for-byte to `clickhouse_transpiler.Plan… → Process → String`
by the `text` / `tags` streams), `TraceQL.parseExp` (the participle grammar, tied by the `parse` stream),
`TraceQL.portionLoop` (`ComplexRequestProcessor`, tied by the `portions` stream), `Sql.evalSelG` / `Sql.evalStmtJ`
(semantics of the structured SQL subset incl. ORDER BY / LIMIT / ANY LEFT JOIN — a documented model of ClickHouse),
`TraceQL.Sem` / `TraceQL.SemWhole` (the direct reading, no SQL).

Whole-plan theorems: `plan_traceql_correct` (every script whose selectors have conditions, every window, limit, database
and portion-filter context: the rows of the WHOLE statement = `assemble` of a choice of the `limit` most recent described
traces with their selected spans), `portions_partition` (the portion loop, any `N ≥ 1`, any hash), `plan_tags_correct`,
`plan_values_correct`, `precedence_*` (the parser reads the chain as written; the planner reads it as TraceQL does).
`{}` alone (`AttrlessConditionPlanner`: the span table is scanned, no index): `plan_all_traces` (the whole statement, proved),
`plan_all_traces_explicit`. Extension c11y: `duration_literal_exact` / `agg_duration_literal` / `duration_condition_literal`
(every unit conversion against the exact value of the literal), `planComplex_heap_closed_upto` (the pointer algorithm of
`planComplex` builds the tree the theorems are about), `tags_query_ignored_superset`. Extension c11p:
`planComplex_heap_closed_full` is a THEOREM (every script, induction over the selector chain with the loop invariant
`planComplex_heap_invariant`), corollaries `planComplex_heap_tree`, `planComplex_heap_fails_iff`, `planComplex_heap_means_script`. -/
namespace Qryn.C11
open Qryn Qryn.Sql Qryn.TraceQL

/-! ## operator maps (regenerated from the switches of the Go code) -/

def allOps : List Op := [.eq, .neq, .lt, .le, .gt, .ge, .re, .nre]

/-- `getComparisonFn` and the switch of `getTermNum` map every TraceQL operator to the SQL operator the model uses -/
theorem ops_match_gen :
    (∀ op ∈ allOps, Gen.traceqlCmpOps.lookup op.text = cmpSql op) ∧
    (∀ op ∈ allOps, Gen.traceqlNumOps.lookup op.text = cmpSql op) := by decide

/-- `getTermStr` handles exactly `=`, `!=`, `=~`, `!~`, as `val ==`, `val !=`, `match == 1`, `match == 0` -/
theorem str_ops_match_gen :
    Gen.traceqlStrOps = [("=", "val =="), ("!=", "val !="), ("=~", "match == 1"), ("!~", "match == 0")] := by decide

/-- `getAggregator`: the outermost SQL function of every TraceQL aggregate is the one the model writes -/
theorem aggs_match_gen :
    Gen.traceqlAggHeads =
      [AggFn.count, .avg, .max, .min, .sum].map (fun fn => (fn.text, match aggregatorSql "" fn with | .call h _ => h | _ => "")) := by
  decide

/-! ## one condition -/

/-- **term_sql_correct.** For every condition the planner accepts (string `= != =~ !~`, numeric
    `= != < <= > >=` through `toFloat64OrNull`, duration comparisons) and every row of the attribute index:
    the SQL text of the condition is true of the row iff the row witnesses the condition. -/
theorem term_sql_correct (o : Oracles) (env : Env) (t : Term) (e : Expr) (h : termSql t = .ok e) (a : AttrRow) :
    evalB o env a.qrow e = termHolds o t a :=
  termSql_correct o env t e h a

/-! ## the bit set -/

/-- **bitset_tree_correct.** For a group of rows, `getCond`'s HAVING over
    `bitAnd(groupBitOr(Σ bitShiftLeft(toUInt64(cᵢ), i)) as bsCond, 2ⁱ) != 0` holds iff the boolean tree holds of
    "some row of the group satisfies condition i" — for trees over indices below 64, whichever leaf carries
    the alias definition. -/
theorem bitset_tree_correct (o : Oracles) (ao : AggOracles) (env : Env) (g : List Row) (es : List Expr)
    (al : Bool) (c : Cond) (hlt : c.bounded 64) :
    evalHavG o ao env g (groupOr (g.map (fun r => es.map (evalB o env r)))) (condSql es al c).1 =
      c.eval (fun i => g.any (fun r => (es.map (evalB o env r)).getD i false)) := by
  rw [evalHavG_condSql o ao env g es _ al c hlt]
  refine Cond.eval_congr (n := 64) _ _ (fun i hi => ?_) c hlt
  rw [testBit_groupOr _ _ hi, List.any_map]
  rfl

/-- **bitset_tree_correct, at full strength**: for EVERY selector `e` — either the planner refuses it (more than 64
    distinct conditions: `analyze` returns an error since fix 4c45e66) or every index of its tree is below 64 and HAVING
    over the bit set holds of a group iff the boolean tree holds of "some row of the group satisfies condition i". -/
theorem bitset_tree_correct_or_error (o : Oracles) (ao : AggOracles) (env : Env) (c : Ctx) (e : AttrExp) (aggAttr : String)
    (hinj : KeyInj (termsOf e)) :
    (∃ msg, attrCondition c (analyzeCond [] e).1 (analyzeCond [] e).2 aggAttr = .error msg) ∨
    ((analyzeCond [] e).2.bounded 64 ∧
      ∀ (g : List Row) (es : List Expr) (al : Bool),
        evalHavG o ao env g (groupOr (g.map (fun r => es.map (evalB o env r)))) (condSql es al (analyzeCond [] e).2).1 =
          (analyzeCond [] e).2.eval (fun i => g.any (fun r => (es.map (evalB o env r)).getD i false))) := by
  cases h : attrCondition c (analyzeCond [] e).1 (analyzeCond [] e).2 aggAttr with
  | error msg => exact Or.inl ⟨msg, rfl⟩
  | ok S =>
    right
    obtain ⟨h64, _⟩ := attrCondition_core h
    obtain ⟨extra, h1, _, h3, _⟩ := analyzeCond_spec (fun _ => true) e [] (by simpa using hinj)
    simp only [List.nil_append] at h1 h3
    have hb : (analyzeCond [] e).2.bounded 64 := Cond.bounded_mono (by rw [← h1]; exact h64) _ h3
    exact ⟨hb, fun g es al => bitset_tree_correct o ao env g es al _ hb⟩

/-- more than 64 distinct conditions are refused, whatever the context -/
theorem over_64_conditions_refused (c : Ctx) (terms : List Term) (cond : Cond) (aggAttr : String) (h : 64 < terms.length) :
    ∃ msg, attrCondition c terms cond aggAttr = .error msg := by
  unfold attrCondition; rw [if_pos h]; exact ⟨_, rfl⟩

/-- why the guard is needed: without a bound on the indices the encoding is wrong — `int64(1) << i` and ClickHouse's
    `bitShiftLeft(toUInt64(c), i)` are 0 from bit 64 on, so with 65 conditions that all hold of the only row of a group the
    leaf for the 65th is false -/
def bitset_tree_unbounded : Prop :=
  ∀ (o : Oracles) (ao : AggOracles) (env : Env) (g : List Row) (es : List Expr) (al : Bool) (c : Cond),
    evalHavG o ao env g (groupOr (g.map (fun r => es.map (evalB o env r)))) (condSql es al c).1 =
      c.eval (fun i => g.any (fun r => (es.map (evalB o env r)).getD i false))

theorem bitset_tree_unbounded_counterexample : ¬ bitset_tree_unbounded := by
  intro h
  have := h { reMatch := fun _ _ => false, jsonLabels := fun _ => [], isNum := fun _ => false, numCmp := fun _ _ _ => false, lower := id } ⟨fun _ _ _ _ => false⟩ [] [[]]
    (List.replicate 65 (.int 1)) false (.leaf 64)
  revert this
  decide

/-- the alias `bsCond` is defined by the first leaf of the tree: HAVING finds the bit set it refers to -/
theorem bitset_alias_defined (es : List Expr) (c : Cond) : findBitSet (condSql es false c).1 = some es :=
  findBitSet_condSql es c

/-- de-duplication of conditions into bit indices keeps the meaning of the selector: the tree over the
    indices, read over the de-duplicated list, is the boolean combination as written -/
theorem analyze_correct (f : Term → Bool) (e : AttrExp) (hinj : KeyInj (termsOf e)) :
    (analyzeCond [] e).2.eval (fun i => (((analyzeCond [] e).1[i]?).map f).getD false) = expHolds f e := by
  obtain ⟨extra, h1, _, _, h4⟩ := analyzeCond_spec f e [] (by simpa using hinj)
  have := h4 []
  simp only [List.nil_append, List.append_nil] at h1 this
  rw [h1]; exact this

/-- **precedence_parser**: the recursive descent of the participle grammar reads back exactly the chain of conditions and
    parenthesised expressions that was written — nested to the right whatever the operators are (there is no precedence in
    the grammar) — for every expression and all sufficient fuel. -/
theorem precedence_parser (e : AttrExp) (fuel : Nat) (rest : List Tok) (hf : e.size < fuel) (hr : endsExp rest) :
    parseExp fuel (toks e ++ rest) = some (e, rest) := parse_toks e fuel rest hf hr

/-- … and so does the chain of selectors -/
theorem precedence_parser_script (script : Script) (fuel : Nat) (hw : ScriptWf script) (hf : script.length < fuel) :
    parseScriptToks fuel (stoks script) = some (script, []) := parse_stoks script fuel hw hf

/-- **precedence_planner**: for EVERY expression the parser can return, the planner's boolean tree (after fix 99a4847) means
    the chain as TraceQL reads it — `&&` binds tighter than `||` (`expHolds`: some group of `&&`-joined neighbours has all its
    members true), parenthesised sub-expressions likewise. -/
theorem precedence_planner (f : Term → Bool) (e : AttrExp) (hinj : KeyInj (termsOf e)) :
    (analyzeCond [] e).2.eval (fun i => (((analyzeCond [] e).1[i]?).map f).getD false) = holdsG (expGroups f e) :=
  analyze_correct f e hinj

/-- the tree as the parser nests it is NOT the TraceQL reading: `{.a="x" && .b="y" || .c="z"}` is parsed as
    `a && (b || c)`; on a span with only `.c="z"` TraceQL says yes, the nested reading (the planner before the fix) no -/
theorem precedence_nested_reading_differs :
    let e := AttrExp.leafOp tA .and (.leafOp tB .or (.leaf tC))
    let f : Term → Bool := fun t => t == tC
    parseExp 10 [.term tA, .and, .term tB, .or, .term tC] = some (e, []) ∧ expHolds f e = true ∧ nestedHolds f e = false :=
  nested_reading_differs

/-- **span_having_correct.** In the index scan of a selector, the group of a span (its index rows inside
    the window that pass WHERE) passes HAVING iff the selector's boolean combination holds of the span. -/
theorem span_having_correct (o : Oracles) (ao : AggOracles) (env : Env) (c : Ctx) (d : TraceDb) (e : AttrExp)
    (es wh : List Expr) (hinj : KeyInj (termsOf e)) (hm : mapOk termSql (analyzeCond [] e).1 = .ok es)
    (hsub : ∀ x ∈ es, x ∈ wh) (h64 : (analyzeCond [] e).1.length ≤ 64) (k : SpanKey) :
    havingG o ao env (grpA o env c d wh k) (some (and_ [(condSql es false (analyzeCond [] e).2).1])) =
      spanHolds o c d e k :=
  having_grpA o ao env c d e es wh hinj hm hsub h64 k

/-! ## aggregates -/

/-- **aggregate_filter.** The HAVING `AggregatorPlanner` adds compares, per trace: for `count` the number of
    distinct selected span ids, otherwise the aggregate over the non-NULL `agg_val` of the selected spans. -/
theorem aggregate_filter (o : Oracles) (ao : AggOracles) (env : Env) (pfx : String) (fn : AggFn) (op : Op) (f v : String)
    (hf : cmpSql op = some f) (g : List Row) :
    havingG o ao env g (aggHaving pfx fn f v) =
      (match fn with
       | .count => o.numCmp f (natDigits (dedup (g.map (fun r => r.get (pfx ++ "index_search.span_id")))).length) v
       | fn => ao.aggCmp (aggName fn) (aggTexts o (g.map (fun r => r.get "agg_val"))) f v) :=
  havingG_agg o ao env pfx fn op f v hf g

/-- **selector_correct.** The select planned for one selector (conditions, optional aggregate) returns
    exactly one row per trace the selector matches: some span of the trace satisfies the conditions and the
    matched spans pass the aggregate comparison. -/
theorem selector_correct (o : Oracles) (ao : AggOracles) (hp : PermInv ao) (c : Ctx) (d : TraceDb)
    (hcons : DurConsistent (d.seen o c)) (pfx : String) (s : Selector) (op : ScriptOp) (rest : Script) (X : Sel)
    (h : simpleSel c pfx ((s, op) :: rest) = .ok X) (hs : SelOk s) (env : Env) (tr : Bytes) :
    (∃ r ∈ evalSelG o ao (d.toDb c) true env X, r.get "trace_id" = .str tr) ↔ selMatches o ao c (d.seen o c) s tr = true := by
  have := (simple_traceRows o ao hp c d hcons pfx s op rest X h hs [] env).mem tr
  have hX : X.addCols [] = X := by obtain ⟨ws, d', c', f, j, p, w, g, h', ob, l⟩ := X; simp [Sel.addCols]
  rwa [hX] at this

/-! ## `&&` and `||` -/

/-- **and_is_intersection.** A `&&` node over two selects that return traces returns the traces both return. -/
theorem and_is_intersection (o : Oracles) (ao : AggOracles) (db : Db) (pfx : String) (L R : Sel) (PL PR : Bytes → Prop)
    (hL : TraceSel o ao db L PL) (hR : TraceSel o ao db R PR) :
    TraceSel o ao db (complexSel true pfx [L, R]) (fun tr => PL tr ∧ PR tr) :=
  (complex_traceSel o ao db true pfx L R PL PR hL hR).congr (fun tr => by simp [comb])

/-- **or_is_union.** A `||` node returns the traces either operand returns. -/
theorem or_is_union (o : Oracles) (ao : AggOracles) (db : Db) (pfx : String) (L R : Sel) (PL PR : Bytes → Prop)
    (hL : TraceSel o ao db L PL) (hR : TraceSel o ao db R PR) :
    TraceSel o ao db (complexSel false pfx [L, R]) (fun tr => PL tr ∨ PR tr) :=
  (complex_traceSel o ao db false pfx L R PL PR hL hR).congr (fun tr => by simp [comb])

/-- the tree `planComplex` builds means the script with `&&` binding tighter than `||`, and every selector
    of the script is planned -/
theorem tree_means_script (f : Selector → Bool) (script : Script) (gs : List (List Script)) (h : groupsS script = .ok gs) :
    treeHolds f (orFold 0 none gs) = scriptHolds f script := tree_means_script' f script gs h

/-! ## the whole script -/

/-- **plan_correct.** For every script of the fragment that the planner accepts, every context without
    portion filter and every attribute index (whose rows agree on a span's duration): the select that decides
    which traces are returned yields one row per trace, and a trace is among them iff the script describes it
    — some selector group joined by `&&` has all its selectors matching the trace, where a selector matches
    iff some span inside the time window satisfies the boolean combination of its conditions and the matched
    spans pass its aggregate comparison. -/
theorem plan_correct (o : Oracles) (ao : AggOracles) (hp : PermInv ao) (c : Ctx) (d : TraceDb)
    (hcons : DurConsistent (d.seen o c)) (script : Script) (X : Sel) (h : rootSel c script = .ok X)
    (hok : ∀ p ∈ script, SelOk p.1) (env : Env) :
    ((evalSelG o ao (d.toDb c) true env X).map (fun r => r.get "trace_id")).Nodup ∧
    ∀ tr, (∃ r ∈ evalSelG o ao (d.toDb c) true env X, r.get "trace_id" = .str tr) ↔
      traceMatches o ao c (d.seen o c) script tr = true := by
  have hT := (root_traceSel o ao hp c d hcons script X h hok).rows [] env
  have hX : X.addCols [] = X := by obtain ⟨ws, d', c', f, j, p, w, g, h', ob, l⟩ := X; simp [Sel.addCols]
  rw [hX] at hT
  exact ⟨hT.nodup, hT.mem⟩

/-! ## window and limit -/

/-- **limit_most_recent**: `index_grouped` — the root select with `IndexLimitPlanner`'s LIMIT — is a choice of the `limit` most
    recent traces the script describes: no trace twice, only described ones, at most `limit`; a described trace that was left
    out means `limit` were kept and none of them is older; newest first. Recency (`traceRec`) is the start time of the newest
    span of the trace selected by a selector of a matching `&&`-group. Which of equally recent traces are kept is not
    determined (`IsTopN` is a relation; `topN_unique` when recency tells the described traces apart). Every span array is an
    admissible choice of the spans the script selects of the trace (`SpanSetOk`: at most 100, none twice, all of them when
    there are at most 100 per selector and overall). Holds for every context, also with a portion filter (`d.seen`). -/
theorem limit_most_recent (o : Oracles) (ao : AggOracles) (hp : PermInv ao) (c : Ctx) (d : TraceDb)
    (hcons : DurConsistent (d.seen o c)) (hts : TsConsistent (d.seen o c)) (script : Script) (X : Sel)
    (h : rootSel c script = .ok X) (hok : ∀ p ∈ script, SelOk p.1) (env : Env) (hlim : 0 < c.limit) :
    IsTopN (traceRec o ao c (d.seen o c) script) (fun tr => traceMatches o ao c (d.seen o c) script tr = true) c.limit.toNat
      (idsOf (evalSelG o ao (d.toDb c) true env (indexLimit c X))) ∧
    (∀ r ∈ evalSelG o ao (d.toDb c) true env (indexLimit c X), ∃ tr vs, r.get "trace_id" = .str tr ∧ r.get "span_id" = .strs vs ∧
      SpanSetOk (traceSpans o ao c (d.seen o c) script tr)
        (scriptL (fun s tr => selMatches o ao c (d.seen o c) s tr) (fun s tr => [selSpans o c (d.seen o c) s tr]) script tr) vs) :=
  let ⟨h1, h2, _⟩ := index_grouped_topN o ao hp c d hcons hts script X h hok env hlim
  ⟨h1, h2⟩

/-- two choices of the `n` most recent have the same members when recency tells the described traces apart -/
theorem limit_choice_unique (rec : Bytes → Int) (P : Bytes → Prop) (n : Nat) (K1 K2 : List Bytes)
    (h1 : IsTopN rec P n K1) (h2 : IsTopN rec P n K2) (hinj : ∀ a b, P a → P b → rec a = rec b → a = b) :
    ∀ t, t ∈ K1 ↔ t ∈ K2 := topN_unique rec P n K1 K2 h1 h2 hinj

/-- **window_and_limit.** (1) Index rows outside [start, end) or stored under a day outside the
    window never change which traces a script describes. (2) The LIMIT of `IndexLimitPlanner` keeps a prefix of
    the unlimited result: no trace twice, at most `limit` traces, every kept trace is described by the script,
    and when fewer than `limit` are returned every described trace is returned. -/
theorem window_and_limit (o : Oracles) (ao : AggOracles) (hp : PermInv ao) (c : Ctx) (d : TraceDb)
    (hcons : DurConsistent (d.seen o c)) (script : Script) (X : Sel) (h : rootSel c script = .ok X)
    (hok : ∀ p ∈ script, SelOk p.1) (env : Env) (hlim : 0 < c.limit) :
    (∀ tr, traceMatches o ao c (d.inWindow c) script tr = traceMatches o ao c d script tr) ∧
    evalSelG o ao (d.toDb c) true env (indexLimit c X) = (evalSelG o ao (d.toDb c) true env X).take c.limit.toNat ∧
    ((evalSelG o ao (d.toDb c) true env (indexLimit c X)).map (fun r => r.get "trace_id")).Nodup ∧
    (evalSelG o ao (d.toDb c) true env (indexLimit c X)).length ≤ c.limit.toNat ∧
    (∀ r ∈ evalSelG o ao (d.toDb c) true env (indexLimit c X),
        ∃ tr, r.get "trace_id" = .str tr ∧ traceMatches o ao c (d.seen o c) script tr = true) ∧
    ((evalSelG o ao (d.toDb c) true env (indexLimit c X)).length < c.limit.toNat →
        ∀ tr, traceMatches o ao c (d.seen o c) script tr = true →
          ∃ r ∈ evalSelG o ao (d.toDb c) true env (indexLimit c X), r.get "trace_id" = .str tr) := by
  have hT := (root_traceSel o ao hp c d hcons script X h hok).rows [] env
  have hX : X.addCols [] = X := by obtain ⟨ws, d', c', f, j, p, w, g, h', ob, l⟩ := X; simp [Sel.addCols]
  rw [hX] at hT
  have hl : evalSelG o ao (d.toDb c) true env (indexLimit c X) = (evalSelG o ao (d.toDb c) true env X).take c.limit.toNat := by
    rw [indexLimit_eval o ao (d.toDb c) true env c X (rootSel_grouped c script X h)]
    have : c.limit ≠ 0 := by omega
    simp [this]
  obtain ⟨t1, t2, t3, t4⟩ := hT.take c.limit.toNat
  rw [hl]
  exact ⟨traceMatches_window o ao c d script, rfl, t1, t2, t3, t4⟩

/-! ## the whole statement -/

/-- **plan_traceql_correct.** For EVERY script whose selectors have conditions that the planner accepts, every window, every
    positive limit, every context (also with a portion filter: `d.seen`) and every database (attribute index + span table,
    the index rows of a span agreeing on its start time and duration): the rows of the WHOLE generated statement — index
    search, HAVING over the bit set, grouping per trace, `&&`/`||` nodes, `ORDER BY max(timestamp_ns) DESC LIMIT`, the sub-queries
    `trace_ids` / `trace_span_ids` / `traces_info`, the ANY LEFT JOIN with the span table, `GROUP BY`, `ORDER BY start_time_unix_nano
    DESC LIMIT`, evaluated by `Sql.evalStmtJ` — are, on the columns trace_id, span_id, duration, timestamp_ns,
    start_time_unix_nano, exactly `assemble K spans limit` for a `K` that is a choice of the `limit` most recent traces the
    script describes (`IsTopN`: recency = start of the newest selected span; equally recent traces are interchangeable), each
    with an admissible array of the spans the script selects of it (`SpanSetOk`). `assemble`: every span-table row of a selected
    (trace, span), grouped per trace in table order, with the start of the whole trace, newest trace start first. -/
theorem plan_traceql_correct (o : Oracles) (ao : AggOracles) (hp : PermInv ao) (c : Ctx) (d : TraceDb)
    (hcons : DurConsistent (d.seen o c)) (hts : TsConsistent (d.seen o c)) (script : Script) (S : Sel)
    (h : plan c script = .ok S) (hok : ∀ p ∈ script, SelOk p.1) (hlim : 0 < c.limit) (htab : TablesDistinct c) :
    ∃ K : List (Bytes × List Bytes),
      IsTopN (traceRec o ao c (d.seen o c) script) (fun tr => traceMatches o ao c (d.seen o c) script tr = true) c.limit.toNat (K.map (·.1)) ∧
      (∀ k ∈ K, SpanSetOk (traceSpans o ao c (d.seen o c) script k.1)
        (scriptL (fun s tr => selMatches o ao c (d.seen o c) s tr) (fun s tr => [selSpans o c (d.seen o c) s tr]) script k.1) k.2) ∧
      (evalStmtJ o ao (d.toDb c) S).map (fun r => r.take 5) = (assemble K d.spansT (some c.limit.toNat)).map TraceOut.row :=
  plan_rows o ao hp c d hcons hts script S h hok hlim htab

/-- **plan_all_traces** (was the unproved `plan_all_traces_full`): the WHOLE statement for `{}` — `AttrlessConditionPlanner` after fix
    373aa96 (`trace_ids`, `trace_and_span_ids`, `trace_and_span_ids_unnested`, its body as `index_search`), `IndexGroupByPlanner`, LIMIT,
    `TracesDataPlanner` — for every window, positive limit and span table: its rows are `assemble K spans limit` for a `K` without
    repeated traces, at most `limit` of them, each with a span-table row inside the window and a non-empty array of at most 100 of
    its span ids inside the window; a trace with a span inside the window that is left out means `limit` were kept and none of
    them is older (recency = the newest span-table row of the trace inside the window). In this statement `TracesDataPlanner`'s own
    sub-query `trace_ids` is DROPPED (`Select.AddWith` keeps the first sub-query of a name: `AttrlessConditionPlanner`'s `trace_ids`),
    so the final join and `traces_info` are restricted by the choice of the first sub-query — the proof shows it holds the same
    traces as `index_grouped`. -/
theorem plan_all_traces (o : Oracles) (ao : AggOracles) (c : Ctx) (d : TraceDb) (op : ScriptOp) (S : Sel)
    (h : plan c [(⟨none, none⟩, op)] = .ok S) (hlim : 0 < c.limit) (htab : TablesDistinct c) :
    ∃ K : List (Bytes × List Bytes),
      (K.map (·.1)).Nodup ∧ K.length ≤ c.limit.toNat ∧
      (∀ k ∈ K, (∃ s ∈ d.spansT, s.traceId = k.1 ∧ spanInWindow c s = true) ∧ k.2 ≠ [] ∧ k.2.length ≤ 100 ∧ ∀ v ∈ k.2, v ∈ allTraceSpans c d k.1) ∧
      (∀ m, (∃ s ∈ d.spansT, s.traceId = m ∧ spanInWindow c s = true) → m ∉ K.map (·.1) →
        K.length = c.limit.toNat ∧ ∀ k ∈ K, allTraceRec c d m ≤ allTraceRec c d k.1) ∧
      (evalStmtJ o ao (d.toDb c) S).map (fun r => r.take 5) = (assemble K d.spansT (some c.limit.toNat)).map TraceOut.row :=
  TraceQL.plan_all_traces_full_holds o ao c d op S h hlim htab

/-- … at the strength the code really has: `K` is an EXPLICIT function (`allPairs`) of the choice `A` the first sub-query makes
    (`IsTopN`: the `limit` traces with the newest span inside the window, ties free) — the traces of `A`, every one of them
    (`allPairs_perm`), ordered by the newest of their KEPT spans (`allPairs_sorted`: `index_grouped` is not ordered by the recency
    of the trace when a trace has more than 100 spans in the window), each with the first 100 span ids, in table order, of its
    rows inside the window. A span stored twice is listed twice (the span table is read, not the index). -/
theorem plan_all_traces_explicit (o : Oracles) (ao : AggOracles) (c : Ctx) (d : TraceDb) (op : ScriptOp) (S : Sel)
    (h : plan c [(⟨none, none⟩, op)] = .ok S) (hlim : 0 < c.limit) (htab : TablesDistinct c) :
    ∃ (A : List Bytes) (K : List (Bytes × List Bytes)),
      IsTopN (allTraceRec c d) (InWindowTrace c d) c.limit.toNat A ∧
      K = allPairs c d.spansT A ∧
      (∀ t, t ∈ K.map (·.1) ↔ t ∈ A) ∧ (K.map (·.1)).Nodup ∧ K.length = A.length ∧
      (∀ k ∈ K, k.2 ≠ [] ∧ k.2.length ≤ 100 ∧ ∀ v ∈ k.2, v ∈ allTraceSpans c d k.1) ∧
      (evalStmtJ o ao (d.toDb c) S).map (fun r => r.take 5) = (assemble K d.spansT (some c.limit.toNat)).map TraceOut.row :=
  TraceQL.plan_all_traces o ao c d op S h hlim htab

/-- **all_traces_choice** (`{}`, the part that decides which traces come back): the first sub-query of
    `AttrlessConditionPlanner.Process` — `trace_ids`, to which every later sub-query and the final join are restricted — returns a
    choice of the `limit` traces with the newest span-table row inside `[start, end)`: no trace twice, only traces with a span
    inside the window, a trace left out means `limit` were picked and none of them is older, newest first (after fix 373aa96; before
    it a trace was ranked by an arbitrary one of its spans and a span starting at `end` could take a place). -/
theorem all_traces_choice (o : Oracles) (ao : AggOracles) (c : Ctx) (d : TraceDb) (env : Env) (htab : TablesDistinct c) :
    (attrless c).withs.head? = some (.named "trace_ids", traceIdsAll c) ∧
    ∃ A : List Bytes, evalSelG o ao (d.toDb c) false env (traceIdsAll c) = A.map (fun t => [("trace_id", Val.str t)]) ∧
      IsTopN (allTraceRec c d) (InWindowTrace c d) c.limit.toNat A :=
  ⟨attrless_trace_ids c, TraceQL.all_traces_choice o ao c d env (toDb_traces d c htab).2⟩

/-! ## portions -/

/-- **portion_filter_correct.** What a portion statement sees behind `cityHash64(trace_id) % N == i OR trace_id IN (unhex('id'), …)`:
    the index restricted to the traces of portion `i` of `N` and the cached ones — for every hash function, every injective
    rendering of ids, the two raw-text expressions read as computed columns of the index (`withPortionCols`). -/
theorem portion_filter_correct (o : Oracles) (c : Ctx) (d : TraceDb) (hash : Bytes → Nat) (idText : Bytes → String)
    (hinj : ∀ a b, idText a = idText b → a = b) (n i : Nat) (hn : 0 < n) (cachedIds : List Bytes)
    (hsub : ∀ t ∈ cachedIds, d.traceIds.contains t = true) :
    (d.withPortionCols hash idText n).seen o (portionCtx c n i (cachedIds.map idText)) =
      (d.withPortionCols hash idText n).portion hash n i cachedIds :=
  seen_portion o c d hash idText hinj n i hn cachedIds hsub

/-- what a script says of a trace — described or not, recency, selected spans — depends on the index rows of that trace only:
    every trace is judged the same in the one portion it falls into as in the whole index -/
theorem portion_locality (o : Oracles) (ao : AggOracles) (c : Ctx) (d : TraceDb) (φ : Bytes → Bool) (script : Script) (tr : Bytes)
    (htr : φ tr = true) :
    traceMatches o ao c (d.restrict φ) script tr = traceMatches o ao c d script tr ∧
    traceRec o ao c (d.restrict φ) script tr = traceRec o ao c d script tr ∧
    traceSpans o ao c (d.restrict φ) script tr = traceSpans o ao c d script tr :=
  ⟨traceMatches_restrict o ao c d φ script tr htr, traceRec_restrict o ao c d φ script tr htr, traceSpans_restrict o ao c d φ script tr htr⟩

/-- **portions_partition.** The loop of `ComplexRequestProcessor` (after fix 9b2912c) over `N ≥ 1` portions — statement `i` with the
    portion filter `cityHash64(trace_id) % N == i OR trace_id IN (ids returned so far)`, the result of an iteration replacing the
    result so far — returns `assemble` of a choice of the `limit` most recent traces the script describes in the WHOLE index, each
    with an admissible array of its selected spans: the same specification the un-portioned statement meets
    (`plan_traceql_correct`), hence the same traces whenever recency tells the described traces apart (`limit_choice_unique`).
    For every hash function, every `N ≥ 1`, every injective id rendering, every database in which every index span has its
    span-table row (`SpansCover`). -/
theorem portions_partition (o : Oracles) (ao : AggOracles) (hp : PermInv ao) (c : Ctx) (d : TraceDb) (hash : Bytes → Nat)
    (idText : Bytes → String) (hinj : ∀ a b, idText a = idText b → a = b) (N : Nat) (hN : 0 < N)
    (hcons : DurConsistent (d.withPortionCols hash idText N)) (hts : TsConsistent (d.withPortionCols hash idText N))
    (hcover : SpansCover (d.withPortionCols hash idText N))
    (script : Script) (hok : ∀ p ∈ script, SelOk p.1) (hlim : 0 < c.limit) (htab : TablesDistinct c) (out : List TraceOut)
    (h : portionLoop (stmtRows o ao (d.withPortionCols hash idText N) script) idText c N N [] [] = .ok out) :
    ∃ K : List (Bytes × List Bytes),
      IsTopN (traceRec o ao c (d.withPortionCols hash idText N) script)
        (fun t => traceMatches o ao c (d.withPortionCols hash idText N) script t = true) c.limit.toNat (K.map (·.1)) ∧
      (∀ x ∈ K, SpanSetOk (traceSpans o ao c (d.withPortionCols hash idText N) script x.1)
        (scriptL (fun s tr => selMatches o ao c (d.withPortionCols hash idText N) s tr)
          (fun s tr => [selSpans o c (d.withPortionCols hash idText N) s tr]) script x.1) x.2) ∧
      out = assemble K (d.withPortionCols hash idText N).spansT (some c.limit.toNat) :=
  TraceQL.portions_partition o ao hp c d hash idText hinj N hN hcons hts hcover script hok hlim htab out h

/-- one step of the merge, abstractly: a choice of the `n` most recent among the new candidates and the ones kept so far is a
    choice of the `n` most recent among all seen so far -/
theorem portions_merge_step (rec : Bytes → Int) (P Q : Bytes → Prop) (n : Nat) (K K' : List Bytes)
    (hK : IsTopN rec P n K) (hK' : IsTopN rec (fun t => Q t ∨ t ∈ K) n K') : IsTopN rec (fun t => P t ∨ Q t) n K' :=
  topN_merge rec P Q n K K' hK hK'

/-! ## tag names and tag values -/

/-- **plan_tags_correct.** For a selector with conditions: the rows of the statement `PlanTagsV2` builds (after fix 9468fce) are
    the distinct attribute keys of the index rows inside the window whose span id is the id of a span the conditions select —
    ascending and cut at `limit` when the limit is positive. -/
theorem plan_tags_correct (o : Oracles) (ao : AggOracles) (c : Ctx) (d : TraceDb) (hr : c.rndMax = 0) (kv : String) (s : Selector)
    (op : ScriptOp) (e : AttrExp) (he : s.attrs = some e) (hinj : KeyInj (termsOf e)) (S : Sel)
    (h : planTags c kv [(s, op)] = .ok S) :
    colStrs (evalStmtJ o ao (d.toDb c) S) "key" = tagsResult c (tagKeys o c d e) :=
  planTags_correct o ao c d hr kv s op e he hinj S h

/-- **plan_values_correct.** … and `PlanValuesV2`: the distinct values of the requested key over the same rows. -/
theorem plan_values_correct (o : Oracles) (ao : AggOracles) (c : Ctx) (d : TraceDb) (hr : c.rndMax = 0) (kv : String) (key : Bytes)
    (s : Selector) (op : ScriptOp) (e : AttrExp) (he : s.attrs = some e) (hinj : KeyInj (termsOf e)) (S : Sel)
    (h : planValues c kv key [(s, op)] = .ok S) :
    colStrs (evalStmtJ o ao (d.toDb c) S) "val" = tagsResult c (tagValues o c d e key) :=
  planValues_correct o ao c d hr kv key s op e he hinj S h

/-! ## duration literals: every unit conversion (extension c11y) -/

open Qryn.TraceQL.Units in
/-- **duration_literal_exact.** `time.ParseDuration` as `AggregatorPlanner.cmpVal` and `getTermDuration` call it (modelled step by
    step: `Units.goParseDuration`, tied to the real function by the `units` stream), for EVERY unit of TraceQL — ns, us, ms, s, m, h
    (`Units.unitNs`: 1, 10³, 10⁶, 10⁹, 60·10⁹, 3600·10⁹) — and EVERY literal (any integer digits, up to 18 fractional digits, sign):
    the result is the exact value of the literal in nanoseconds cut to a whole number (`exactNs = ⌊(int.frac)·unit⌋`) with its
    sign, and it is refused exactly when that value does not fit an int64. No unit is read as another one, nothing is scaled twice. -/
theorem duration_literal_exact (n : Num) (hw : Num.Wf n) (u : TUnit) (unit : Nat) (hu : unitNs u = some unit) (hL : n.frac.length ≤ 18) :
    parseDuration n (some u) =
      if exactNs n unit ≤ (if n.neg then two63 else two63 - 1) then .ok (if n.neg then -(exactNs n unit : Int) else (exactNs n unit : Int))
      else .error "time: invalid duration" := by
  unfold parseDuration
  rw [goParseDuration_unit n hw u unit hu hL]
  by_cases hfit : exactNs n unit ≤ (if n.neg then two63 else two63 - 1)
  · rw [if_pos hfit, if_pos hfit]; rfl
  · rw [if_neg hfit, if_neg hfit]; rfl

open Qryn.TraceQL.Units in
/-- `d` (days) is accepted by the grammar but refused by the planner; a duration without unit is refused unless it is `0` -/
theorem duration_literal_refused (n : Num) :
    (Units.leadingInt 0 n.int ≠ none → ∃ m, parseDuration n (some .d) = .error m) ∧
    (¬ (n.int = [0] ∧ n.dot = false ∧ n.frac = []) → ∃ m, parseDuration n none = .error m) := by
  refine ⟨fun hi => ?_, fun h0 => ?_⟩
  · unfold parseDuration; rw [goParseDuration_day n hi]; exact ⟨_, rfl⟩
  · unfold parseDuration; rw [goParseDuration_noUnit n, if_neg h0]
    by_cases hl : leadingInt 0 n.int = none
    · rw [if_pos hl]; exact ⟨_, rfl⟩
    · rw [if_neg hl]; exact ⟨_, rfl⟩

open Qryn.TraceQL.Units in
/-- **agg_duration_literal.** `{…} | fn(duration) op N unit`: the number the HAVING of `AggregatorPlanner` compares the aggregate of
    the span durations (nanoseconds) with is `float64` of the exact value of `N unit` in nanoseconds, written by `%f` — for every
    unit and literal; the exact value itself whenever it is below 2⁵³ ns (≈ 104 days). On an attribute other than `duration` a
    unit is refused (`agg_unit_refused`), so no aggregate is ever compared with a number in the wrong unit. -/
theorem agg_duration_literal (a : Agg) (hd : a.attr = "duration") (hw : Num.Wf a.num) (u : TUnit) (hu' : a.unit = some u) (unit : Nat)
    (hu : unitNs u = some unit) (hL : a.num.frac.length ≤ 18) (lit : String) (h : aggCmpText a = .ok lit) :
    exactNs a.num unit ≤ (if a.num.neg then two63 else two63 - 1) ∧
    lit = f64Text (if a.num.neg then -(exactNs a.num unit : Int) else (exactNs a.num unit : Int)) ∧
    (exactNs a.num unit < 9007199254740992 →
      lit = toString (if a.num.neg then -(exactNs a.num unit : Int) else (exactNs a.num unit : Int)) ++ ".000000") := by
  unfold aggCmpText at h
  rw [if_pos hd, hu', duration_literal_exact a.num hw u unit hu hL] at h
  by_cases hfit : exactNs a.num unit ≤ (if a.num.neg then two63 else two63 - 1)
  · rw [if_pos hfit] at h
    simp only [bind, Except.bind, pure, Except.pure, Except.ok.injEq] at h
    refine ⟨hfit, h.symm, fun hs => ?_⟩
    rw [← h]; unfold f64Text
    rw [f64OfInt_exact _ (by split <;> omega)]
  · rw [if_neg hfit] at h
    simp [bind, Except.bind] at h

/-- a unit on an aggregate of anything but `duration` is refused (`strconv.ParseFloat` of `5ms` fails) -/
theorem agg_unit_refused (a : Agg) (hd : a.attr ≠ "duration") (u : TUnit) (hu : a.unit = some u) : ∃ m, aggCmpText a = .error m := by
  unfold aggCmpText
  rw [if_neg hd, hu]
  exact ⟨_, rfl⟩

open Qryn.TraceQL.Units in
/-- **duration_condition_literal.** `{duration op N unit}`: the SQL of the condition is true of an index row iff the span's duration
    (nanoseconds) compares as written with the exact value of the literal — for every unit, operator, literal and row (the grammar
    has no minus sign in a duration value: `hn`). -/
theorem duration_condition_literal (o : Oracles) (env : Env) (op : Op) (n : Num) (hw : Num.Wf n) (hn : n.neg = false) (u : TUnit) (unit : Nat)
    (hu : unitNs u = some unit) (hL : n.frac.length ≤ 18) (e : Expr) (h : termSql ⟨"duration", op, .dur n u⟩ = .ok e) (a : AttrRow) :
    exactNs n unit ≤ two63 - 1 ∧ evalB o env a.qrow e = cmpInt op a.dur (exactNs n unit) := by
  have hc := term_sql_correct o env _ e h a
  have hk : labelKey "duration" = none := by decide +kernel
  have hk' : attrKey "duration" = none := by decide +kernel
  have hpd := duration_literal_exact n hw u unit hu hL
  rw [hn] at hpd
  simp only [Bool.false_eq_true, if_false] at hpd
  by_cases hfit : exactNs n unit ≤ two63 - 1
  · rw [if_pos hfit] at hpd
    refine ⟨hfit, ?_⟩
    rw [hc]
    simp [termHolds, hk, durHolds, hpd]
  · rw [if_neg hfit] at hpd
    exfalso
    revert h
    simp [termSql, termDuration, hpd, bind, Except.bind, hk']


/-! ### the hypotheses of the unit theorems are satisfiable -/
example : Units.Num.Wf ⟨false, [1], true, [5]⟩ := ⟨by decide, by decide, by decide⟩
example : (match parseDuration ⟨false, [1], true, [5]⟩ (some .h) with | .ok ns => ns == 5400000000000 | .error _ => false) = true := by decide +kernel
example : Units.exactNs ⟨false, [1], true, [5]⟩ 3600000000000 = 5400000000000 := by decide +kernel
/-- 2562047 h fits an int64, 2562048 h does not: refused, not wrapped around -/
example : (parseDuration ⟨false, [2,5,6,2,0,4,7], false, []⟩ (some .h)).toBool = true ∧
    (parseDuration ⟨false, [2,5,6,2,0,4,8], false, []⟩ (some .h)).toBool = false := by decide +kernel

/-! ## chains of selectors: the pointer algorithm of `planComplex` (extension c11y) -/

/-- `planComplex` AS WRITTEN — a walk that mutates a tree of planner objects through the pointers `root` and `current`
    (`ComplexHeap.planComplexH`: heap of nodes, `addOp` / `setOps` / `operands`, `getPrefix` in call order) — builds exactly the tree
    `planTree` (`groupsS` / `andNest` / `orFold`, the closed form every theorem above is about), same nodes, same prefixes, or
    fails where it fails: for every sequence of operators between at most 6 selectors, also with a missing operator (the script
    ends there) and with a dangling one (nil dereference) — 1093 shapes, kernel-checked. Together with `tree_means_script` (the closed
    form means the script with `&&` tighter than `||`, for EVERY script) and `precedence_parser_script` (the grammar returns the
    chain as written): mixed chains of three and more selectors are planned with the standard precedence. The `heap` stream walks
    the REAL planner objects for chains of up to 9 selectors and compares them with both. -/
theorem planComplex_heap_closed_upto :
    ∀ ops ∈ ComplexHeap.opSeqs 6, ComplexHeap.planShape (ComplexHeap.scriptOf ops) = ComplexHeap.closedShape (ComplexHeap.scriptOf ops) := by
  decide +kernel

/-- **The same for EVERY script** (any number of selectors, any selectors, a missing operator, a dangling one): the tree read off the
    heap after `planComplex` as written IS the closed form `planTree`, prefixes included, and the walk fails (nil dereference) exactly
    where the closed form fails. Proved by induction over the selector chain (`Proofs/ComplexHeapClosed.lean`). The loop invariant:
    after the selectors seen so far the heap holds a tree with ONE hole — a chain of *frames* from `root` down to `current`, each a
    complex node that has its finished first operand and waits for the second: at most one `||` frame on top (its operand is
    everything planned before the last `||`), then the `&&` frames of the group being read (`ComplexHeap.HReads`). `&&` hangs a new
    frame into the hole, `||` plugs the selector's planner into the hole — which finishes the whole tree — and makes that tree the
    first operand of a fresh single `||` frame (`root.setOps`), no operator plugs the leaf and stops (`ComplexHeap.specH`,
    `specH_closed`: that loop is `groupsS` / `andNest` / `orFold`). Frame rules: allocation does not touch a finished tree, and a
    finished tree holds no node with a single operand, so `current.addOp` cannot change it (`Reads.append`, `Reads.modify`). -/
theorem planComplex_heap_closed_full :
    ∀ script : Script, ComplexHeap.planShape script = ComplexHeap.closedShape script :=
  ComplexHeap.planShape_eq_closedShape

/-- the loop invariant itself: from ANY state of the walk that satisfies it (`Inv`: the frames hang below `root`, `current` is the
    innermost one and has one operand) the pointer algorithm fails exactly when the heap-free loop `specH` fails and otherwise leaves
    the tree `specH` computes below `root`, small enough for `readTree`'s fuel -/
theorem planComplex_heap_invariant (script : Script) (st : ComplexHeap.St) (cur : Option Nat) (frames : List ComplexHeap.Frame)
    (h : ComplexHeap.Inv st cur frames) :
    match ComplexHeap.specH st.k frames script with
    | some t => ∃ st', ComplexHeap.planComplexH st cur script = .ok st' ∧ ∃ r, st'.root = some r ∧
        ComplexHeap.Reads st'.nodes r t ∧ ComplexHeap.tsize t ≤ st'.nodes.length
    | none => ∃ e, ComplexHeap.planComplexH st cur script = .error e :=
  ComplexHeap.heap_spec script st cur frames h

/-- read as "what `root.planner()` walks": the pointer algorithm leaves the tree `t` iff `planTree` returns `t` -/
theorem planComplex_heap_tree (script : Script) (t : XTree) :
    ComplexHeap.planShape script = some t ↔ planTree script = .ok t := by
  rw [planComplex_heap_closed_full, ComplexHeap.closedShape]
  cases planTree script with
  | ok t' => simp
  | error e => simp

/-- … and it fails (Go: nil pointer dereference, an operator without a following selector) iff the closed form does -/
theorem planComplex_heap_fails_iff (script : Script) :
    ComplexHeap.planShape script = none ↔ ∃ e, planTree script = .error e := by
  rw [planComplex_heap_closed_full, ComplexHeap.closedShape]
  cases planTree script with
  | ok t' => simp
  | error e => simp

/-- **precedence, on the planner objects as `planComplex` leaves them**: for EVERY script the tree of `&&` / `||` nodes the pointer
    algorithm builds means the script with `&&` binding tighter than `||` (composition with `tree_means_script`) -/
theorem planComplex_heap_means_script (f : Selector → Bool) (script : Script) (t : XTree)
    (h : ComplexHeap.planShape script = some t) : treeHolds f t = scriptHolds f script := by
  rw [planComplex_heap_tree] at h
  simp only [planTree, bind, Except.bind] at h
  cases hg : groupsS script with
  | error e => rw [hg] at h; cases h
  | ok gs =>
    rw [hg] at h
    simp only [pure, Except.pure, Except.ok.injEq] at h
    subst h
    exact tree_means_script f script gs hg

/-- non-vacuity beyond the old bound: a mixed chain of nine selectors (and one whose last operator dangles) -/
example : ComplexHeap.shapeText (ComplexHeap.planShape (ComplexHeap.scriptOf [.and, .or, .and, .and, .or, .or, .and, .and, .none])) =
    "(O12 (O10 (O4 (A1 S9:2 S8:3) (A5 S7:6 (A7 S6:8 S5:9))) S4:11) (A13 S3:14 (A15 S2:16 S1:17)))" := by decide +kernel
example : ComplexHeap.planShape (ComplexHeap.scriptOf [.and, .or, .and, .and, .or, .or, .and, .and]) = none ∧
    (∃ e, planTree (ComplexHeap.scriptOf [.and, .or, .and, .and, .or, .or, .and, .and]) = .error e) := by
  refine ⟨by decide +kernel, ?_⟩
  exact (planComplex_heap_fails_iff _).1 (by decide +kernel)
/-- the initial state of `p.planComplex(root, root, p.script)` satisfies the invariant -/
example : ComplexHeap.Inv ⟨[], none, 0⟩ none [] := ⟨Nat.le_refl _, rfl, rfl⟩

/-- a mixed chain of four selectors, end to end on the model: `{a} && {b} || {c} && {d}` is planned as `(a && b) || (c && d)` -/
example : ComplexHeap.shapeText (ComplexHeap.planShape (ComplexHeap.scriptOf [.and, .or, .and, .none])) =
    "(O4 (A1 S4:2 S3:3) (A5 S2:6 S1:7))" := by decide +kernel

/-! ## tag requests that ignore the query (extension c11y) -/

/-- A tag-name / tag-value request whose query is judged too expensive (`ComplexTagsV2RequestProcessor`, `ComplexValuesV2RequestProcessor`)
    ignores the query and lists the tags / values of the time range. Judged with the property statement this is NOT a violation: no
    trace is selected or returned by a tag request, and what the request returns can only grow — every key the query-scoped request
    would list (`tagKeys`, the specification of `plan_tags_correct`) is a key of an index row inside the window, and likewise for
    values. (With a positive limit both answers are cut after sorting, so the cut lists need not be comparable.) -/
theorem tags_query_ignored_superset (o : Oracles) (c : Ctx) (d : TraceDb) (e : AttrExp) (key : Bytes) :
    (∀ k ∈ tagKeys o c d e, ∃ a ∈ d.attrs, admissible c a = true ∧ a.key = k) ∧
    (∀ v ∈ tagValues o c d e key, ∃ a ∈ d.attrs, admissible c a = true ∧ a.key = key ∧ a.val = v) := by
  refine ⟨fun k hk => ?_, fun v hv => ?_⟩
  · simp only [tagKeys, mem_dedup, List.mem_map, List.mem_filter, Bool.and_eq_true] at hk
    obtain ⟨a, ⟨ha, hadm, _⟩, rfl⟩ := hk
    exact ⟨a, ha, hadm, rfl⟩
  · simp only [tagValues, mem_dedup, List.mem_map, List.mem_filter, Bool.and_eq_true, beq_iff_eq] at hv
    obtain ⟨a, ⟨ha, ⟨hadm, _⟩, hkey⟩, rfl⟩ := hv
    exact ⟨a, ha, hadm, hkey, rfl⟩

/-! ## well-formed statements -/

/-- **render_wellformed.** For every script and context the planner model accepts, the whole statement
    (`plan`: index search, grouping, `&&`/`||` nodes, limit, span-table join) is structurally well formed:
    no `and`/`or`/comparison, `IN`, function call, bit set or set operation has an empty operand list — which
    is what rendered `… and ()` for `{duration > 1s}` — and every SELECT list is non-empty. -/
theorem render_wellformed (c : Ctx) (script : Script) (X : Sel) (h : plan c script = .ok X) : wfS X = true :=
  plan_wf c script X h

/-- the byte-level half of well-formedness: balanced parentheses of the rendered statement whenever no request
    string contains a parenthesis (for other strings the token structure is the same, C10). Compiled,
    **not proved**; every real statement is lexed and checked by the `syntax` stream instead. -/
def render_balanced_full : Prop :=
  ∀ (c : Ctx) (script : Script) (X : Sel), plan c script = .ok X →
    (∀ s ∈ [c.attrsTable, c.tracesTable, c.tracesDistTable] ++ c.cached, balancedB (b s) = true ∧ ¬ (b s).contains 40) →
    balancedB (renderSel X) = true

/-- the shape of the defect A22: a conjunction with an empty disjunction as operand is not well formed -/
theorem empty_clause_not_wellformed (x : Expr) : wfE (and_ [x, or_ []]) = false := by
  simp [and_, or_, wfE, wfEs]

/-! ## the hypotheses are satisfiable -/

def ctx0 : Ctx := ⟨1700000000000000000, 1700003600000000000, 0, 20, false, "tempo_traces_attrs_gin",
  "tempo_traces_attrs_gin_dist", "tempo_traces", "tempo_traces_dist", 0, 0, []⟩
def termA : Term := ⟨".a", .eq, .str [34, 120, 34] (some [120])⟩
def termD : Term := ⟨"duration", .gt, .dur ⟨false, [1], false, []⟩ .s⟩
def sel0 : Selector := ⟨some (.leafOp termA .or (.leaf termD)), some ⟨.count, "", .gt, ⟨false, [2], false, []⟩, none⟩⟩
def script0 : Script := [(sel0, .and), (⟨some (.leaf termD), none⟩, .none)]

example : PermInv ⟨fun _ _ _ _ => true⟩ := fun _ _ _ _ _ _ => rfl
example : TsConsistent { attrs := [] } := fun a ha => by simp at ha
example : SpansCover { attrs := [] } := fun a ha => by simp at ha
example : TablesDistinct ctx0 := ⟨by decide, by decide, by decide, by decide⟩
example : 0 < ctx0.limit := by decide
example : DurConsistent { attrs := [] } := fun a ha => by simp at ha
example : ctx0.rndMax = 0 := rfl
example : (match rootSel ctx0 script0 with | .ok _ => true | .error _ => false) = true := by decide +kernel
example : (match plan ctx0 script0 with | .ok _ => true | .error _ => false) = true := by decide +kernel

example : ∀ p ∈ script0, SelOk p.1 := by
  have hk : termA.key ≠ termD.key := by decide +kernel
  intro p hp
  simp only [script0, List.mem_cons, List.mem_singleton, List.not_mem_nil, or_false] at hp
  rcases hp with rfl | rfl
  · refine ⟨⟨_, rfl, ?_⟩⟩
    intro t ht t' ht' hkk
    simp only [termsOf, List.mem_cons, List.mem_singleton, List.not_mem_nil, or_false] at ht ht'
    rcases ht with rfl | rfl <;> rcases ht' with rfl | rfl
    · rfl
    · exact absurd hkk hk
    · exact absurd hkk.symm hk
    · rfl
  · refine ⟨⟨_, rfl, ?_⟩⟩
    intro t ht t' ht' _
    simp only [termsOf, List.mem_singleton] at ht ht'
    rw [ht, ht']

end Qryn.C11
