import Qryn.Proofs.Faults
import Qryn.Proofs.PreRequest
import Qryn.Ingest.PreChains
/-! # C05 — no request body can crash or wedge the ingest side

Property theorems only. Model: `Qryn.Ingest.Faults` — `ingest : Route → Doc → Outcome` over the decoded
documents of every ingest route (ill-shaped ones included), with every fault-capable Go expression of the
anchored files placed in the goroutine that executes it, the `tamePanic` protocol of the parser goroutine,
the waiting logic of `doParse`/`doPush`, and the appends of the insert services below `doPush`.
`ingest` = the tree with the `fix:` commits of branch fix-C05; `ingestWith pinned` = the tree as pinned.

PARTIAL: the theorems carry the logic (which goroutine runs what, what a fault becomes, that every wait
ends). The runtime part of the property (scheduler, memory exhaustion, loops inside jx/protobuf/snappy/
gzip/influx/pprof, goroutine leaks of the real runtime) is not in the model; it is looked at by the
child-process exploration of the check, which is support, not an obligation. -/
namespace Qryn.C05
open Qryn.IngestFaults

/-- **no_crash.** For every route and every document shape — missing ids, wrong kinds, empty arrays, absent
    optional messages, wrong id lengths, truncated input, unparsable or zero query parameters — the fixed
    ingest side answers with a status: the process does not die and the handler does not wait forever.
    Stated for every flush threshold, database behaviour and state of the shared columns. -/
theorem no_crash_full (thr : Nat) (env : Env) (cols : Cols) (r : Route) (d : Doc) :
    (ingestFull fixed thr env r d cols).1 ≠ .crash ∧ (ingestFull fixed thr env r d cols).1 ≠ .hang := by
  obtain ⟨n, h⟩ := ingestFull_status fixed rfl rfl rfl thr env r d cols
  rw [h]
  exact ⟨by simp, by simp⟩

theorem no_crash (r : Route) (d : Doc) : ingest r d ≠ .crash ∧ ingest r d ≠ .hang :=
  no_crash_full _ _ _ r d

/-- the three fixes that carry `no_crash`: the `ns` guard and the influx line terminator (no spinning parser)
    and the recover in `doPush` (no un-recovered goroutine); it holds for any combination of the other fixes -/
theorem no_crash_of (fx : Fixes) (hns : fx.nsGuard = true) (hinf : fx.influxNewline = true)
    (hrec : fx.pushRecover = true) (thr : Nat) (env : Env) (cols : Cols) (r : Route) (d : Doc) :
    ∃ n, (ingestFull fx thr env r d cols).1 = .status n :=
  ingestFull_status fx hns hinf hrec thr env r d cols

/-- **channel_closed_once.** Whatever the decoder does (finishes, returns an error, panics), the parser
    goroutine of the fixed code closes the response channel exactly once and sends at most one error. -/
theorem channel_closed_once (thr : Nat) (r : Route) (b : Body) (run : Run)
    (hp : routePlan fixed thr r b = .run run) :
    run.trace.closes = 1 ∧ (run.trace.msgs.filter Msg.isError).length ≤ 1 :=
  ⟨parserGoroutine_closes _ _ _ (plan_run_not_spin fixed rfl rfl thr _ run hp), parserGoroutine_errors _ _ _⟩

/-- **fault_is_error.** A run-time fault in the parser goroutine (any decoder, `onEntries`, `onSpan`,
    `onProfile`) is turned by `tamePanic` into exactly one error message and exactly one close of the
    response channel, and the request is answered with status 500 — for any state of the other fixes, as
    long as the `doPush` goroutines of the portions sent before the fault cannot kill the process. -/
theorem fault_is_error (fx : Fixes) (hrec : fx.pushRecover = true) (thr : Nat) (env : Env) (cols : Cols)
    (r : Route) (d : Doc) (run : Run) (f : Fault)
    (henc : d.enc = .plain ∨ d.enc = .gzipOk)
    (hp : routePlan fx thr r d.body = .run run) (hf : run.ending = .fault f) :
    run.trace.closes = 1 ∧ run.trace.msgs.filter Msg.isError = [.error 500] ∧
      (ingestFull fx thr env r d cols).1 = .status 500 := by
  have ht : run.trace = tamePanic run.sent := by simp [Run.trace, hf, parserGoroutine]
  refine ⟨by rw [ht]; rfl, ?_, ?_⟩
  · rw [ht]
    simp [tamePanic, List.filter_append, filter_isError_portions, List.filter_cons, Msg.isError]
  · have key : (doParse fx env r.okStatus run.trace.msgs run.trace.closes cols []).1 = .status 500 := by
      rw [ht]
      exact doParse_error fx hrec env _ 500 run.sent [] 1 cols [] (by simp)
    unfold ingestFull
    rcases henc with h | h <;> simp only [h, hp] <;> exact key

/-- a request is rejected by the ingest side itself: unsupported or broken content encoding, an error of a
    pre-request or PreParse step, or a decoder that ends with an error or a (tamed) fault -/
def Rejected (fx : Fixes) (thr : Nat) (r : Route) (d : Doc) : Prop :=
  d.enc = .unsupported ∨ d.enc = .gzipBadHeader ∨
    match routePlan fx thr r d.body with
    | .reject _ => True
    | .preParse _ => True
    | .run run => run.ending ≠ .done

/-- **batch_untouched_on_reject.** A rejected request leaves the column sets shared with other clients'
    rows rectangular: whatever it appended before being rejected are whole rows (no partial append), for
    every route, threshold and database behaviour. -/
theorem batch_untouched_on_reject (thr : Nat) (env : Env) (r : Route) (d : Doc) (cols : Cols)
    (hrej : Rejected fixed thr r d) (hc : cols.rect = true) :
    (ingestFull fixed thr env r d cols).2.rect = true := by
  unfold ingestFull
  unfold Rejected at hrej
  have main : (match routePlan fixed thr r d.body with
      | .reject _ => True
      | .preParse _ => True
      | .run run => run.ending ≠ .done) →
      (match routePlan fixed thr r d.body with
      | .reject code => (Outcome.status code, cols)
      | .preParse code => doParse fixed env r.okStatus [.error code] 1 cols []
      | .run run => doParse fixed env r.okStatus run.trace.msgs run.trace.closes cols []).2.rect = true := by
    intro hr
    cases hp : routePlan fixed thr r d.body with
    | reject c => exact hc
    | preParse c => simpa [doParse] using hc
    | run run =>
      simp only [hp] at hr
      rcases routePlan_good fixed rfl rfl rfl thr r d.body run hp with hg | hd
      · exact doParse_rect fixed env _ _ _ cols [] (trace_good _ _ _ hg.1 hg.2) hc
      · exact absurd hd hr
  cases he : d.enc with
  | unsupported => exact hc
  | gzipBadHeader => exact hc
  | plain =>
    rcases hrej with h | h | h
    · simp [he] at h
    · simp [he] at h
    · exact main h
  | gzipOk =>
    rcases hrej with h | h | h
    · simp [he] at h
    · simp [he] at h
    · exact main h

/-- the same for every request, accepted or not, on every route but Prometheus remote write (statement kept
    from the time A1 was open; `batch_rectangular_all` below drops the exception) -/
theorem batch_rectangular (thr : Nat) (env : Env) (r : Route) (d : Doc) (cols : Cols)
    (hr : r ≠ .promWrite) (hc : cols.rect = true) :
    (ingestFull fixed thr env r d cols).2.rect = true := by
  unfold ingestFull
  have main : (match routePlan fixed thr r d.body with
      | .reject code => (Outcome.status code, cols)
      | .preParse code => doParse fixed env r.okStatus [.error code] 1 cols []
      | .run run => doParse fixed env r.okStatus run.trace.msgs run.trace.closes cols []).2.rect = true := by
    cases hp : routePlan fixed thr r d.body with
    | reject c => exact hc
    | preParse c => simpa [doParse] using hc
    | run run =>
      have hg : run.good := by
        unfold routePlan at hp
        cases hi : routeItems fixed r d.body with
        | reject c => simp [hi, Items.plan] at hp
        | preParse c => simp [hi, Items.plan] at hp
        | logs is =>
          simp only [hi, Items.plan, Plan.run.injEq] at hp; subst hp
          apply logsRun_good
          cases r <;> first | exact absurd rfl hr | skip
          all_goals
            cases hb : d.body <;> simp only [routeItems, hb] at hi <;> (repeat' split at hi) <;>
              (try contradiction) <;> (try cases hi)
          all_goals
            first
            | exact lokiJsonItems_wf _ _
            | exact lokiProtoItems_wf _
            | exact influxItems_wf _
            | exact otlpLogsItems_wf _
            | exact bulkItems_wf _ _
            | rfl
            | (split <;> rfl)
        | spans is =>
          simp only [hi, Items.plan, Plan.run.injEq] at hp; subst hp
          exact spansRun_good fixed rfl thr is
        | prof is =>
          have := routePlan_good fixed rfl rfl rfl thr r d.body run (by unfold routePlan; exact hp)
          simp only [hi, Items.plan, Plan.run.injEq] at hp; subst hp
          apply profileRun_good fixed rfl thr is
          cases r <;> cases hb : d.body <;> simp only [routeItems, hb] at hi <;> (repeat' split at hi) <;>
            (try contradiction) <;> (try cases hi)
          all_goals exact profileItems_one_onProfile _ _ _ _ _
      exact doParse_rect fixed env _ _ _ cols [] (trace_good _ _ _ hg.1 hg.2) hc
  cases d.enc <;> first | exact hc | exact main

/-- after the A1 fix (C03) was merged: every request, accepted or not, on EVERY route leaves the shared
    columns rectangular -/
theorem batch_rectangular_all (thr : Nat) (env : Env) (r : Route) (d : Doc) (cols : Cols)
    (hc : cols.rect = true) : (ingestFull fixed thr env r d cols).2.rect = true := by
  unfold ingestFull
  have main : (match routePlan fixed thr r d.body with
      | .reject code => (Outcome.status code, cols)
      | .preParse code => doParse fixed env r.okStatus [.error code] 1 cols []
      | .run run => doParse fixed env r.okStatus run.trace.msgs run.trace.closes cols []).2.rect = true := by
    cases hp : routePlan fixed thr r d.body with
    | reject c => exact hc
    | preParse c => simpa [doParse] using hc
    | run run =>
      have hg := routePlan_good_all fixed rfl rfl thr r d.body run hp
      exact doParse_rect fixed env _ _ _ cols [] (trace_good _ _ _ hg.1 hg.2) hc
  cases d.enc <;> first | exact hc | exact main

/-- Prometheus remote write: once the body is a WriteRequest the decoder cannot be rejected -/
theorem prom_never_rejected (thr : Nat) (series : List Nat) :
    (logsRun fixed thr (promItems series 0)).ending = .done :=
  promRun_done fixed rfl thr series

/-! ## The tree as pinned: `decide`-checked witnesses (Appendix A: A6, A3, A37 and the `ns(0)` loop) -/

/-- A6: Zipkin `[{"name":"x"}]` — a span without ids reaches `ColFixedStr.Append` in the un-recovered
    `doPush` goroutine: the process dies -/
def zipkinNoIds : Doc := ⟨.plain, .zipkin [.span .missing .missing 1 13] false⟩

theorem pinned_A6_crash : ingestWith pinned .zipkinJson zipkinNoIds = .crash := by decide
theorem fixed_A6_rejected : ingest .zipkinJson zipkinNoIds = .status 400 := by decide

/-- A6 through OTLP: a span whose trace id has 3 bytes -/
def otlpShortId : Doc := ⟨.plain, .otlpTraces true [⟨some [], [[⟨3, 8, []⟩]]⟩]⟩

theorem pinned_A6_otlp_crash : ingestWith pinned .otlpTraces otlpShortId = .crash := by decide
theorem fixed_A6_otlp_rejected : ingest .otlpTraces otlpShortId = .status 400 := by decide

/-- the recover in `doPush` alone is not enough: the process survives, but the ids appended before the bad
    one stay in the shared columns (trace_id 2 rows, span_id 1, the rest 0) -/
theorem recover_alone_corrupts_batch :
    (ingestFull { fixed with idCheck := false } flushThreshold ⟨true⟩ .zipkinJson
      ⟨.plain, .zipkin [.span .ok .ok 1 13, .span .ok .missing 1 13] false⟩ .empty)
    = (.status 500, { Cols.empty with traces := ⟨2, 1, 0⟩, tags := ⟨4, 2, 0⟩ }) := by decide

/-- the id check alone is enough for survival: nothing panics below `doPush` any more -/
theorem validation_alone_no_crash :
    ingestWith { fixed with pushRecover := false } .zipkinJson zipkinNoIds = .status 400 := by decide

/-- A3: `{"streams":[{"stream":{"a":"b"},"values":[]}]}` — `fastFillArray(0)` faults in the parser goroutine,
    tamePanic answers 500; after the fix the push is accepted -/
def lokiEmptyValues : Doc := ⟨.plain, .lokiJson [⟨.pairs 1, []⟩] false⟩

theorem pinned_A3_500 : ingestWith pinned .lokiJson lokiEmptyValues = .status 500 := by decide
theorem fixed_A3_accepted : ingest .lokiJson lokiEmptyValues = .status 204 := by decide

/-- A3: OTLP logs whose ResourceLogs has no `resource` -/
def otlpLogsNoResource : Doc := ⟨.plain, .otlpLogs true [⟨none, [⟨some [], [[.scalar]]⟩]⟩]⟩

theorem pinned_A3_otlp_500 : ingestWith pinned .otlpLogs otlpLogsNoResource = .status 500 := by decide
theorem fixed_A3_otlp_accepted : ingest .otlpLogs otlpLogsNoResource = .status 204 := by decide

def profDoc (name : ProfName) (fromV untilV : Nat) (typeBytes : Nat) : Doc :=
  ⟨.plain, .profile true ⟨some (some fromV), some (some untilV), some name, false, true,
    ⟨1, true, [⟨1, [[true]]⟩], typeBytes⟩⟩⟩

/-- `/ingest?from=0`: `ns(0)` never returns — the parser goroutine spins and the handler waits forever -/
theorem pinned_ns0_hang : ingestWith pinned .profile (profDoc ⟨3, none⟩ 0 1700000010 10) = .hang := by decide
theorem fixed_ns0_answered : ingest .profile (profDoc ⟨3, none⟩ 0 1700000010 10) = .status 200 := by decide

/-- A37: `name=app{` — `name[i+1:length-1]` is `name[4:3]` -/
theorem pinned_A37_name_500 :
    ingestWith pinned .profile (profDoc ⟨3, some []⟩ 1700000000 1700000010 10) = .status 500 := by decide

/-- A37: a profile above the flush threshold is sent with the span fields (dropped) and the empty profile
    sent afterwards puts one row into the array columns only -/
theorem pinned_A37_batch_corrupted :
    (ingestFull pinned flushThreshold ⟨true⟩ .profile (profDoc ⟨3, none⟩ 1700000000 1700000010 2000000) .empty)
    = (.status 200, { Cols.empty with profiles := ⟨0, 1⟩ }) := by decide

theorem fixed_A37_profile_stored :
    (ingestFull fixed flushThreshold ⟨true⟩ .profile (profDoc ⟨3, none⟩ 1700000000 1700000010 2000000) .empty)
    = (.status 200, { Cols.empty with profiles := ⟨1, 1⟩ }) := by decide

/-- `POST /influx/api/v2/write` with the body `m\`: telegraf's stream parser never returns (found by the
    fuzzing stream of this check on the real handler) -/
def influxDangling : Doc := ⟨.plain, .influx true [.danglingEscape]⟩

theorem pinned_influx_hang : ingestWith pinned .influx influxDangling = .hang := by decide
theorem fixed_influx_rejected : ingest .influx influxDangling = .status 400 := by decide

/-! ## Non-vacuity -/

/-- a fault does occur in the parser goroutine with the `doPush` recover in place (influx `m message=1i` before the C03 fix
    of `getMessage`: the type assertion on the only field), so `fault_is_error` is not about an empty set of runs -/
example : ∃ run, routePlan { fixed with influxMsg := false } flushThreshold .influx (.influx true [.point (some .int) []]) = .run run ∧
    run.ending = .fault .typeAssert := ⟨_, rfl, by decide⟩

/-- `m message=1i`: answered 500 before the fix of `getMessage` (tamed fault), accepted after it -/
theorem pinned_influx_message_500 :
    ingestWith { fixed with influxMsg := false } .influx ⟨.plain, .influx true [.point (some .int) []]⟩ = .status 500 := by decide
theorem fixed_influx_message_accepted : ingest .influx ⟨.plain, .influx true [.point (some .int) []]⟩ = .status 204 := by decide

/-- rejected requests exist on every kind of route -/
example : Rejected fixed flushThreshold .zipkinJson zipkinNoIds := by
  have h : routePlan fixed flushThreshold .zipkinJson zipkinNoIds.body = .run ⟨[], [.spans [] []], .err 400⟩ := by
    decide
  unfold Rejected
  rw [h]
  exact Or.inr (Or.inr (by decide))

/-- well-formed pushes are accepted -/
example : ingest .zipkinJson ⟨.plain, .zipkin [.span .ok .ok 2 40] false⟩ = .status 202 := by decide
example : ingest .lokiJson ⟨.gzipOk, .lokiJson [⟨.pairs 2, [.good true false 5, .good true true 7]⟩] false⟩ = .status 204 := by
  decide
example : ingest .promWrite ⟨.plain, .promWrite true [3, 2]⟩ = .status 204 := by decide

/-! ## The pre-request chain (middleware.go): Content-Encoding, `withUnsnappyRequest`, buffering — and what it
    makes the runtime allocate

Model: `Qryn.Ingest.PreRequest` (`PreRequest.preRequest L kind contentEncoding body`), third-party calls as the
parameter `L : Lib β` (snappy block API with its documented contract `Lib.Lawful`, gzip / snappy-framing readers
as uninterpreted streams). The order of calls and guards in `withUnsnappyRequest`, its limit, the
Content-Encoding cases and the `io.ReadAll` inventory are `Gen.PreRequest`, regenerated from the source. -/

section PreRequest
open Qryn.PreRequest
open Qryn.Gen.PreRequest (unsnappyLimit unsnappyOrder contentEncodingCases contentEncodingDefault readAllSites)

/-- T: the generated order of `withUnsnappyRequest` is one the model understands, and it is the guarded one:
    `DecodedLen`, the comparison of the *declared* length with the limit, and only then `Decode` -/
theorem unsnappy_order_recognised :
    stepsOf unsnappyLimit unsnappyOrder = some [.decodedLen, .limitDeclared unsnappyLimit, .decode] := by decide

theorem unsnappy_steps : genSteps = [.decodedLen, .limitDeclared unsnappyLimit, .decode] := by
  simp [genSteps, unsnappy_order_recognised]

/-- T: the code as generated obeys the guard discipline (`decode` only after the declared length was compared) -/
theorem unsnappy_guarded : guardedBy unsnappyLimit genSteps false false = true ∧ countDecode genSteps = 1 := by
  rw [unsnappy_steps]; decide

/-- T: every Content-Encoding case does something the model knows -/
theorem encoding_actions_known :
    ∀ p ∈ contentEncodingCases, p.2 ∈ ["identity", "gzip.NewReader", "snappy.NewReader"] := by decide

/-- T: the inventory of `io.ReadAll` call sites of the ingest side is the one that was reviewed: two pre-request
    steps drain `r.Body` (the socket bytes, or the gzip / snappy-framing stream over them), three parsers drain
    their reader. A new site (or a site draining something else — the extractor then fails closed) needs a look
    at what bounds it. -/
theorem readall_inventory_pinned :
    readAllSites.map (fun s => (s.1, s.2.1, s.2.2.1)) =
      [("writer/controller/middleware.go", "withUnsnappyRequest", "r.Body"),
       ("writer/controller/tempoController.go", "OTLPPushV2", "r.Body"),
       ("writer/utils/unmarshal/binaryPprof.go", "binaryStreamPProfProtoDec.Decode", "b.ctx.bodyReader"),
       ("writer/utils/unmarshal/builder.go", "withBufferedBody", "ctx.bodyReader"),
       ("writer/utils/unmarshal/golangPprof.go", "pProfProtoDec.Decode", "p.ctx.bodyReader")] := by decide

/-- **prerequest_total.** For every library behaviour, kind of route, `Content-Encoding` value and body the
    chain ends in exactly one of: status 400 (precisely when the header value is not one of the listed cases),
    status 500 (gzip header refused, or the decompression stream broke while a pre-request step buffered it),
    or the parser is started. Nothing else can happen — in particular no action of the switch is unknown to the
    model (status 0) and an oversized or corrupt snappy block never rejects the request by itself. -/
theorem prerequest_total {β : Type} (L : Lib β) (k : Kind) (ce : String) (body : β) :
    ((preRequest L k ce body).outcome = .reject 400 ∧ contentEncodingCases.lookup ce = none) ∨
      ((preRequest L k ce body).outcome = .reject 500 ∧ contentEncodingCases.lookup ce ≠ none) ∨
      (∃ s src, (preRequest L k ce body).outcome = .parser s src ∧ contentEncodingCases.lookup ce ≠ none) := by
  unfold preRequest preRequestWith contentEncoding
  have hc : contentEncodingCases = [("", "identity"), ("gzip", "gzip.NewReader"), ("snappy", "snappy.NewReader")] := rfl
  have hd : contentEncodingDefault = 400 := rfl
  rw [hc, hd]
  by_cases h1 : ce = ""
  · subst h1
    cases k <;> simp [List.lookup, readAll]
  · by_cases h2 : ce = "gzip"
    · subst h2
      cases hz : L.gzipHeaderOk body <;> cases k <;> simp [List.lookup, readAll] <;>
        cases (L.gunzip body).eof <;> simp
    · by_cases h3 : ce = "snappy"
      · subst h3
        cases k <;> simp [List.lookup, readAll] <;> cases (L.unframe body).eof <;> simp
      · have hl : List.lookup ce [("", "identity"), ("gzip", "gzip.NewReader"), ("snappy", "snappy.NewReader")] = none := by
          have e1 : (ce == "") = false := by simp [h1]
          have e2 : (ce == "gzip") = false := by simp [h2]
          have e3 : (ce == "snappy") = false := by simp [h3]
          simp [List.lookup, e1, e2, e3]
        simp [hl]

/-- **unsnappy_passthrough_or_decoded.** What `withUnsnappyRequest` hands to the parser is either the bytes it
    read, unchanged, or their snappy decoding as returned by the library — for every order of the steps
    (so also for the code as generated). -/
theorem unsnappy_passthrough_or_decoded_any {β : Type} (L : Lib β) (steps : List Step) (c : β) :
    ((unsnappyWith L steps c).decoded = false ∧ (unsnappyWith L steps c).body = c) ∨
      ((unsnappyWith L steps c).decoded = true ∧ L.decode c = .ok (unsnappyWith L steps c).body) := by
  have hs := runClosure_sound L c steps {} (sound_init L c)
  unfold unsnappyWith
  cases hf : (runClosure L c steps {}).failed with
  | some e => left; simp [hf]
  | none =>
    cases ho : (runClosure L c steps {}).out with
    | none => left; simp [hf, ho]
    | some u => right; simp [hf, ho]; exact hs.out u ho

theorem unsnappy_passthrough_or_decoded {β : Type} (L : Lib β) (c : β) :
    ((unsnappy L c).decoded = false ∧ (unsnappy L c).body = c) ∨
      ((unsnappy L c).decoded = true ∧ L.decode c = .ok (unsnappy L c).body) :=
  unsnappy_passthrough_or_decoded_any L genSteps c

/-- **guarded_alloc_bounded.** Any arrangement of the closure that obeys the guard discipline (every `Decode`
    after a comparison of the declared length with a limit `≤ limit`) allocates at most `limit` per `Decode`,
    whatever the library returns — and a decoded body is at most `limit` long (library contract). -/
theorem guarded_alloc_bounded {β : Type} (L : Lib β) (limit : Nat) (steps : List Step) (c : β)
    (hg : guardedBy limit steps false false = true) :
    (unsnappyWith L steps c).alloc ≤ limit * countDecode steps ∧
      (L.Lawful → (unsnappyWith L steps c).decoded = true → L.len (unsnappyWith L steps c).body ≤ limit) := by
  obtain ⟨ha, ho⟩ := runClosure_guarded L c limit steps false false {} hg (sound_init L c) (guard_init limit)
    (outOk_init L c limit)
  have hs := runClosure_sound L c steps {} (sound_init L c)
  have halloc : (unsnappyWith L steps c).alloc = (runClosure L c steps {}).alloc := by
    unfold unsnappyWith
    cases hf : (runClosure L c steps {}).failed <;> cases hout : (runClosure L c steps {}).out <;> simp [hf, hout]
  refine ⟨by rw [halloc]; simpa using ha, ?_⟩
  intro hl hdec
  unfold unsnappyWith at hdec ⊢
  cases hf : (runClosure L c steps {}).failed with
  | some e => simp [hf] at hdec
  | none =>
    cases hout : (runClosure L c steps {}).out with
    | none => simp [hf, hout] at hdec
    | some u =>
      simp only [hf, hout]
      obtain ⟨n, hn, hle⟩ := ho u hout
      have := hl.decode_len c u (hs.out u hout)
      rw [hn] at this
      cases this
      exact hle

/-- **unsnappy_alloc_bounded.** `withUnsnappyRequest` as it is in the source: for every body and every
    behaviour of the snappy library, `snappy.Decode` is made to allocate at most the limit (10 MiB) — the length
    *declared* in the block header never reaches `make` unchecked — and a decoded body is at most that long. -/
theorem unsnappy_alloc_bounded {β : Type} (L : Lib β) (c : β) :
    (unsnappy L c).alloc ≤ unsnappyLimit ∧
      (L.Lawful → (unsnappy L c).decoded = true → L.len (unsnappy L c).body ≤ unsnappyLimit) := by
  have h := guarded_alloc_bounded L unsnappyLimit genSteps c unsnappy_guarded.1
  rw [unsnappy_guarded.2, Nat.mul_one] at h
  exact h

/-- the whole chain of an unsnappy route (Prometheus remote write, Loki protobuf push): the buffers the
    middleware asks for are bounded by the bytes the (possibly decompressed) request stream yields, plus the
    limit, plus the fixed framing buffers — never by a number written in the request. -/
theorem prerequest_alloc_bounded {β : Type} (L : Lib β) (k : Kind) (ce : String) (body : β) :
    (∀ st, contentEncoding L ce body = .error st → (preRequest L k ce body).alloc = 0) ∧
      (∀ s, contentEncoding L ce body = .ok s →
        (preRequest L k ce body).alloc ≤ snappyReaderBufs + L.len s.data + unsnappyLimit) := by
  constructor
  · intro st h; simp [preRequest, preRequestWith, h]
  · intro s h
    have he : encodingAlloc ce ≤ snappyReaderBufs := by
      unfold encodingAlloc; split <;> simp
    unfold preRequest preRequestWith
    simp only [h]
    cases k with
    | streamed => simp only; omega
    | buffered =>
      unfold readAll
      cases s.eof <;> simp only [if_true, if_false, Bool.false_eq_true] <;> omega
    | unsnappy =>
      unfold readAll
      cases heof : s.eof
      · simp only [if_false, Bool.false_eq_true]; omega
      · simp only [if_true]
        have := (unsnappy_alloc_bounded L s.data).1
        unfold unsnappy at this
        omega

/-- without Content-Encoding: allocation ≤ len(body) + 10 MiB, and this is inside the rule the allocation
    oracle of the check judges on the real process (`64 MiB + 2048 × len(body)`): the model's bound and the
    oracle's rule are tied through the generated constant -/
theorem unsnappy_alloc_within_rule {β : Type} (L : Lib β) (k : Kind) (body : β) :
    (preRequest L k "" body).alloc ≤ L.len body + unsnappyLimit ∧
      L.len body + unsnappyLimit + unsnappyLimit ≤ 64 * 1024 * 1024 + 2048 * L.len body := by
  have hce : contentEncoding L "" body = .ok ⟨body, true⟩ := by
    unfold contentEncoding
    have hc : contentEncodingCases = [("", "identity"), ("gzip", "gzip.NewReader"), ("snappy", "snappy.NewReader")] := rfl
    rw [hc]; simp [List.lookup]
  have hz : encodingAlloc "" = 0 := by
    unfold encodingAlloc
    have hc : contentEncodingCases = [("", "identity"), ("gzip", "gzip.NewReader"), ("snappy", "snappy.NewReader")] := rfl
    rw [hc]; simp [List.lookup]
  have hlim : unsnappyLimit = 10485760 := rfl
  refine ⟨?_, by omega⟩
  unfold preRequest preRequestWith
  simp only [hce, hz]
  cases k with
  | streamed => simp only; omega
  | buffered => simp [readAll]
  | unsnappy =>
    simp only [readAll, if_true]
    have := (unsnappy_alloc_bounded L body).1
    unfold unsnappy at this
    omega

/-! ### The allocation rule over every Content-Encoding — PARTIAL (finding `C05/alloc-amplification/decompressed-stream/*`)

The oracle of the check judges `alloc ≤ 64 MiB + 2048 × len(body)` on the real process. In the model the rule
holds for the chain's own buffers as long as the decompression stream expands the body at most 1032-fold (the
maximum of DEFLATE) — but only because of that property of the *codec*: the chain itself puts no cap on the
decompressed size (it buffers whatever the stream yields, `decompressed_stream_buffered_whole`), while the snappy
*block* path has its 10 MiB guard and the pprof decoders their `maxUncompressedSizeBytes`. On the real process
the buffered bytes are paid several times (`io.ReadAll` with amortised growth in the pre-request step, again in
the parser's `withBufferedBody`): a 16 KiB gzip body yielding 16 MiB costs ≈ 196 MiB of allocations — the
oracle reports it (KNOWN_FINDINGS.txt). -/

/-- the rule for every encoding and every behaviour of the stream readers -/
def alloc_within_rule_full : Prop :=
  ∀ {β : Type} (L : Lib β) (k : Kind) (ce : String) (body : β),
    (preRequest L k ce body).alloc ≤ 64 * 1024 * 1024 + 2048 * L.len body

/-- **alloc_within_rule_partial.** If the stream the Content-Encoding reader yields is at most 1032 times as long
    as the body (true of gzip; snappy framing expands far less; trivially true without encoding), the buffers of
    the pre-request chain stay within the oracle's rule. -/
theorem alloc_within_rule_partial {β : Type} (L : Lib β) (k : Kind) (ce : String) (body : β)
    (hratio : ∀ s, contentEncoding L ce body = .ok s → L.len s.data ≤ 1032 * L.len body) :
    (preRequest L k ce body).alloc ≤ 64 * 1024 * 1024 + 2048 * L.len body := by
  have h := prerequest_alloc_bounded L k ce body
  have hlim : unsnappyLimit = 10485760 := rfl
  have hb : snappyReaderBufs = 142030 := rfl
  cases hce : contentEncoding L ce body with
  | error st => rw [h.1 st hce]; exact Nat.zero_le _
  | ok s =>
    have h1 := h.2 s hce
    have h2 := hratio s hce
    omega

/-- the chain buffers the whole decompressed stream: nothing but the codec bounds it -/
theorem decompressed_stream_buffered_whole {β : Type} (L : Lib β) (k : Kind) (ce : String) (body : β)
    (s : Stream β) (hk : k ≠ .streamed) (hce : contentEncoding L ce body = .ok s) :
    L.len s.data ≤ (preRequest L k ce body).alloc := by
  unfold preRequest preRequestWith
  simp only [hce]
  cases k with
  | streamed => exact absurd rfl hk
  | buffered => unfold readAll; cases s.eof <;> simp only [if_true, if_false, Bool.false_eq_true] <;> omega
  | unsnappy => unfold readAll; cases s.eof <;> simp only [if_true, if_false, Bool.false_eq_true] <;> omega

/-- buffers that are nothing but their length, and a stream reader that expands 4096-fold -/
def expandingLib : Lib Nat where
  len := id
  decodedLen := fun _ => .error .corrupt
  decode := fun _ => .error .corrupt
  gzipHeaderOk := fun _ => true
  gunzip := fun n => ⟨4096 * n, true⟩
  unframe := fun n => ⟨n, true⟩

/-- without the codec's ratio the rule does not follow from anything the chain does: a 64 KiB body under a
    4096-fold expansion is buffered whole (256 MiB) -/
theorem alloc_within_rule_counterexample : ¬ alloc_within_rule_full := by
  intro h
  have := h expandingLib .buffered "gzip" 65536
  revert this
  decide

/-- the statement `unsnappy_alloc_bounded` would be for another arrangement of the closure -/
def alloc_bounded_for (steps : List Step) : Prop :=
  ∀ (L : Lib Bytes), L.Lawful → ∀ c : Bytes,
    (preRequestWith L steps .unsnappy "" c).alloc ≤ L.len c + unsnappyLimit

theorem headerOnlyLib_lawful : headerOnlyLib.Lawful :=
  ⟨fun b u h => (by simp only [headerOnlyLib] at h; split at h <;> cases h),
   fun b e h => (by simp only [headerOnlyLib] at h ⊢; rw [h])⟩

theorem alloc_bounded_as_generated : alloc_bounded_for genSteps := by
  intro L _ c
  exact (unsnappy_alloc_within_rule L .unsnappy c).1

/-- **what the guard is for.** With `snappy.Decode` first and the size check on its *result* afterwards
    (`len(uncompressed) > limit`), the bound fails: a body of five bytes — nothing but a block header declaring
    4 GiB − 1 — makes `Decode` allocate 4 294 967 295 bytes before it finds the block corrupt, and the size
    check is never reached. (The library here is the real header parser, `binary.Uvarint` +
    `snappy.decodedLen`, with every block body corrupt.) -/
theorem guard_after_decode_counterexample :
    ¬ alloc_bounded_for [.decode, .limitDecoded unsnappyLimit] := by
  intro h
  have := h headerOnlyLib headerOnlyLib_lawful [0xff, 0xff, 0xff, 0xff, 0x0f]
  revert this
  decide

/-- the same for a guard that compares `len(compressed)` — the wrong quantity — before decoding -/
theorem guard_on_compressed_counterexample :
    ¬ alloc_bounded_for [.decodedLen, .limitCompressed unsnappyLimit, .decode] := by
  intro h
  have := h headerOnlyLib headerOnlyLib_lawful [0x80, 0x80, 0x80, 0x80, 0x04, 0x08, 0x61, 0x62, 0x63]
  revert this
  decide

/-- the nine bytes of the seeded demo declare 1 GiB; the code as generated does not let that reach `make` -/
example : (preRequestWith headerOnlyLib [.decode, .limitDecoded unsnappyLimit] .unsnappy ""
    [0x80, 0x80, 0x80, 0x80, 0x04, 0x08, 0x61, 0x62, 0x63]).alloc = 9 + 1073741824 := by decide
example : (preRequest headerOnlyLib .unsnappy "" [0x80, 0x80, 0x80, 0x80, 0x04, 0x08, 0x61, 0x62, 0x63]).alloc = 9 := by
  rw [preRequest, unsnappy_steps]; decide

/-- non-vacuity: lawful libraries that do decode exist (the identity codec), and then the decoded branch is taken -/
def idLib : Lib Bytes where
  len := List.length
  decodedLen := fun b => .ok b.length
  decode := fun b => .ok b
  gzipHeaderOk := fun _ => true
  gunzip := fun b => ⟨b, true⟩
  unframe := fun b => ⟨b, true⟩

example : idLib.Lawful := ⟨fun b u h => (by cases h; rfl), fun b e h => (by cases h)⟩
example : (unsnappyWith idLib [.decodedLen, .limitDeclared 10, .decode] [1, 2, 3]).decoded = true := by decide
example : (unsnappyWith idLib [.decodedLen, .limitDeclared 2, .decode] [1, 2, 3]).decoded = false := by decide
example : (unsnappyWith idLib [.decodedLen, .limitDeclared 2, .decode] [1, 2, 3]).alloc = 0 := by decide

end PreRequest

/-! ## The request context of the handlers: no failed type assertion in the handler goroutine

Model: `Qryn.Ingest.PreChains`; facts: `Gen.PreChains` (which keys each middleware asserts / stores, what `doParse`
reads, `cfg.ExtraMiddleware`, the option list of every handler constructor). -/

section PreChains
open Qryn.PreChains
open Qryn.Gen.PreChains (middlewares handlers extraMiddlewareDefault extraMiddlewareTempo)

/-- T: the hand-placed context operations of every named middleware agree with the source: the same bare
    assertions (key and type, in order) and the same stored keys -/
theorem middleware_ctx_facts_tied :
    middlewares.all (fun m =>
      match opsOfMiddleware m.1 with
      | none => false
      | some ops =>
        decide (ops.filterMap Op.asserted = m.2.1.map (fun a => (a.1, tyOf a.2))) &&
          decide (ops.filterMap Op.stored = m.2.2.eraseDups)) = true := by decide

/-- T: every chain of every handler constructor passes the static check -/
theorem handler_chains_checked : allHandlersSafe = true := by decide

/-- **handler_chains_no_fault.** For every ingest handler as it is built in the source, both values of
    `cfg.ExtraMiddleware`, every parser the Content-Type can select and every combination of steps that return an
    error: no bare type assertion on a context value fails — `dsn.(string)` finds the string stored by
    `WithOverallContextMiddleware`, `Value("node").(string)` the node name stored by the service middleware of
    the route. The handler goroutine therefore ends in a status (`ErrorHandler`) or reaches the parser; it does
    not panic on the way, whatever the request. -/
theorem handler_chains_no_fault :
    ∀ h ∈ handlers, ∀ extra ∈ [extraMiddlewareDefault, extraMiddlewareTempo], ∀ p ∈ h.2.2,
      ∃ ops, chainOps extra h.2.1 p = some ops ∧ ∀ fails, exec ops fails [] ≠ .fault := by
  intro h hh extra he p hp
  have hall := handler_chains_checked
  unfold allHandlersSafe at hall
  have h1 := (List.all_eq_true.mp hall) h hh
  have h2 := (List.all_eq_true.mp h1) extra he
  simp only [Bool.and_eq_true] at h2
  have h3 := (List.all_eq_true.mp h2.2) p hp
  cases hc : chainOps extra h.2.1 p with
  | none => simp [hc] at h3
  | some ops =>
    refine ⟨ops, rfl, ?_⟩
    simp only [hc] at h3
    exact safe_sound ops [] h3

/-- what the order is for: the service middleware without `WithOverallContextMiddleware` before it panics on
    `dsn.(string)`; a chain without a service middleware panics in `doParse` on `Value("node").(string)` -/
theorem chain_without_overall_faults :
    ∃ ops, chainOps [] [("cfg.ExtraMiddleware", []), ("withTSAndSampleService", [])] ("*", []) = some ops ∧
      exec ops [] [] = .fault := ⟨_, rfl, by decide⟩

theorem chain_without_service_faults :
    ∃ ops, chainOps extraMiddlewareDefault [("cfg.ExtraMiddleware", [])] ("*", []) = some ops ∧
      exec ops [] [] = .fault := ⟨_, rfl, by decide⟩

/-- non-vacuity: the chains are not empty, and a chain can end in a rejection as well as reach the parser -/
example : handlers.length = 12 := by decide
example : ∃ ops, chainOps extraMiddlewareDefault [("cfg.ExtraMiddleware", []), ("withTSAndSampleService", [])] ("*", []) = some ops ∧
    exec ops [true] [] = .rejected ∧ (∃ c, exec ops [] [] = .completed c) := ⟨_, rfl, by decide, ⟨_, rfl⟩⟩

end PreChains

end Qryn.C05
