import Qryn.Proofs.Faults
import Qryn.Proofs.PreRequest
import Qryn.Ingest.PreChains
import Qryn.Proofs.IngestCensus
import Qryn.Ingest.CtxChains
import Qryn.Proofs.IngestParams
import Qryn.Proofs.ParserRect
import Qryn.Ingest.BuilderCallsReview
/-! # C05 — no request body can crash or wedge the ingest side

Property theorems only. Model: `Qryn.Ingest.Faults` — `ingest : Route → Doc → Outcome` over the decoded
documents of every ingest route (ill-shaped ones included), with every fault-capable Go expression of the
anchored files placed in the goroutine that executes it, the `tamePanic` protocol of the parser goroutine,
the waiting logic of `doParse`/`doPush`, and the appends of the insert services below `doPush`.
`ingest` = the tree with the `fix:` commits of branch fix-C05; `ingestWith pinned` = the tree as pinned.

PARTIAL: the theorems carry the logic (which goroutine runs what, what a fault becomes, that every wait
ends). The runtime part of the property (scheduler, memory exhaustion, loops inside jx/protobuf/snappy/
gzip/influx/pprof, goroutine leaks of the real runtime) is not in the model; it is looked at by the
child-process exploration of the check, which is support, not an obligation. -/
namespace Qryn.C05
open Qryn.IngestFaults

/-- **no_crash.** For every route and every document shape — missing ids, wrong kinds, empty arrays, absent
    optional messages, wrong id lengths, truncated input, unparsable or zero query parameters — the fixed
    ingest side answers with a status: the process does not die and the handler does not wait forever.
    Stated for every flush threshold, database behaviour and state of the shared columns. -/
theorem no_crash_full (thr : Nat) (env : Env) (cols : Cols) (r : Route) (d : Doc) :
    (ingestFull fixed thr env r d cols).1 ≠ .crash ∧ (ingestFull fixed thr env r d cols).1 ≠ .hang := by
  obtain ⟨n, h⟩ := ingestFull_status fixed rfl rfl rfl thr env r d cols
  rw [h]
  exact ⟨by simp, by simp⟩

theorem no_crash (r : Route) (d : Doc) : ingest r d ≠ .crash ∧ ingest r d ≠ .hang :=
  no_crash_full _ _ _ r d

/-- the three fixes that carry `no_crash`: the `ns` guard and the influx line terminator (no spinning parser)
    and the recover in `doPush` (no un-recovered goroutine); it holds for any combination of the other fixes -/
theorem no_crash_of (fx : Fixes) (hns : fx.nsGuard = true) (hinf : fx.influxNewline = true)
    (hrec : fx.pushRecover = true) (thr : Nat) (env : Env) (cols : Cols) (r : Route) (d : Doc) :
    ∃ n, (ingestFull fx thr env r d cols).1 = .status n :=
  ingestFull_status fx hns hinf hrec thr env r d cols

/-- **channel_closed_once.** Whatever the decoder does (finishes, returns an error, panics), the parser
    goroutine of the fixed code closes the response channel exactly once and sends at most one error. -/
theorem channel_closed_once (thr : Nat) (r : Route) (b : Body) (run : Run)
    (hp : routePlan fixed thr r b = .run run) :
    run.trace.closes = 1 ∧ (run.trace.msgs.filter Msg.isError).length ≤ 1 :=
  ⟨parserGoroutine_closes _ _ _ (plan_run_not_spin fixed rfl rfl thr _ run hp), parserGoroutine_errors _ _ _⟩

/-- **fault_is_error.** A run-time fault in the parser goroutine (any decoder, `onEntries`, `onSpan`,
    `onProfile`) is turned by `tamePanic` into exactly one error message and exactly one close of the
    response channel, and the request is answered with status 500 — for any state of the other fixes, as
    long as the `doPush` goroutines of the portions sent before the fault cannot kill the process. -/
theorem fault_is_error (fx : Fixes) (hrec : fx.pushRecover = true) (thr : Nat) (env : Env) (cols : Cols)
    (r : Route) (d : Doc) (run : Run) (f : Fault)
    (henc : d.enc = .plain ∨ d.enc = .gzipOk)
    (hp : routePlan fx thr r d.body = .run run) (hf : run.ending = .fault f) :
    run.trace.closes = 1 ∧ run.trace.msgs.filter Msg.isError = [.error 500] ∧
      (ingestFull fx thr env r d cols).1 = .status 500 := by
  have ht : run.trace = tamePanic run.sent := by simp [Run.trace, hf, parserGoroutine]
  refine ⟨by rw [ht]; rfl, ?_, ?_⟩
  · rw [ht]
    simp [tamePanic, List.filter_append, filter_isError_portions, List.filter_cons, Msg.isError]
  · have key : (doParse fx env r.okStatus run.trace.msgs run.trace.closes cols []).1 = .status 500 := by
      rw [ht]
      exact doParse_error fx hrec env _ 500 run.sent [] 1 cols [] (by simp)
    unfold ingestFull
    rcases henc with h | h <;> simp only [h, hp] <;> exact key

/-- a request is rejected by the ingest side itself: unsupported or broken content encoding, an error of a
    pre-request or PreParse step, or a decoder that ends with an error or a (tamed) fault -/
def Rejected (fx : Fixes) (thr : Nat) (r : Route) (d : Doc) : Prop :=
  d.enc = .unsupported ∨ d.enc = .gzipBadHeader ∨
    match routePlan fx thr r d.body with
    | .reject _ => True
    | .preParse _ => True
    | .run run => run.ending ≠ .done

/-- **batch_untouched_on_reject.** A rejected request leaves the column sets shared with other clients'
    rows rectangular: whatever it appended before being rejected are whole rows (no partial append), for
    every route, threshold and database behaviour. -/
theorem batch_untouched_on_reject (thr : Nat) (env : Env) (r : Route) (d : Doc) (cols : Cols)
    (hrej : Rejected fixed thr r d) (hc : cols.rect = true) :
    (ingestFull fixed thr env r d cols).2.rect = true := by
  unfold ingestFull
  unfold Rejected at hrej
  have main : (match routePlan fixed thr r d.body with
      | .reject _ => True
      | .preParse _ => True
      | .run run => run.ending ≠ .done) →
      (match routePlan fixed thr r d.body with
      | .reject code => (Outcome.status code, cols)
      | .preParse code => doParse fixed env r.okStatus [.error code] 1 cols []
      | .run run => doParse fixed env r.okStatus run.trace.msgs run.trace.closes cols []).2.rect = true := by
    intro hr
    cases hp : routePlan fixed thr r d.body with
    | reject c => exact hc
    | preParse c => simpa [doParse] using hc
    | run run =>
      simp only [hp] at hr
      rcases routePlan_good fixed rfl rfl rfl thr r d.body run hp with hg | hd
      · exact doParse_rect fixed env _ _ _ cols [] (trace_good _ _ _ hg.1 hg.2) hc
      · exact absurd hd hr
  cases he : d.enc with
  | unsupported => exact hc
  | gzipBadHeader => exact hc
  | plain =>
    rcases hrej with h | h | h
    · simp [he] at h
    · simp [he] at h
    · exact main h
  | gzipOk =>
    rcases hrej with h | h | h
    · simp [he] at h
    · simp [he] at h
    · exact main h

/-- the same for every request, accepted or not, on every route but Prometheus remote write (statement kept
    from the time A1 was open; `batch_rectangular_all` below drops the exception) -/
theorem batch_rectangular (thr : Nat) (env : Env) (r : Route) (d : Doc) (cols : Cols)
    (hr : r ≠ .promWrite) (hc : cols.rect = true) :
    (ingestFull fixed thr env r d cols).2.rect = true := by
  unfold ingestFull
  have main : (match routePlan fixed thr r d.body with
      | .reject code => (Outcome.status code, cols)
      | .preParse code => doParse fixed env r.okStatus [.error code] 1 cols []
      | .run run => doParse fixed env r.okStatus run.trace.msgs run.trace.closes cols []).2.rect = true := by
    cases hp : routePlan fixed thr r d.body with
    | reject c => exact hc
    | preParse c => simpa [doParse] using hc
    | run run =>
      have hg : run.good := by
        unfold routePlan at hp
        cases hi : routeItems fixed r d.body with
        | reject c => simp [hi, Items.plan] at hp
        | preParse c => simp [hi, Items.plan] at hp
        | logs is =>
          simp only [hi, Items.plan, Plan.run.injEq] at hp; subst hp
          apply logsRun_good
          cases r <;> first | exact absurd rfl hr | skip
          all_goals
            cases hb : d.body <;> simp only [routeItems, hb] at hi <;> (repeat' split at hi) <;>
              (try contradiction) <;> (try cases hi)
          all_goals
            first
            | exact lokiJsonItems_wf _ _
            | exact lokiProtoItems_wf _
            | exact influxItems_wf _
            | exact otlpLogsItems_wf _
            | exact bulkItems_wf _ _
            | rfl
            | (split <;> rfl)
        | spans is =>
          simp only [hi, Items.plan, Plan.run.injEq] at hp; subst hp
          exact spansRun_good fixed rfl thr is
        | prof is =>
          have := routePlan_good fixed rfl rfl rfl thr r d.body run (by unfold routePlan; exact hp)
          simp only [hi, Items.plan, Plan.run.injEq] at hp; subst hp
          apply profileRun_good fixed rfl thr is
          cases r <;> cases hb : d.body <;> simp only [routeItems, hb] at hi <;> (repeat' split at hi) <;>
            (try contradiction) <;> (try cases hi)
          all_goals exact profileItems_one_onProfile _ _ _ _ _
      exact doParse_rect fixed env _ _ _ cols [] (trace_good _ _ _ hg.1 hg.2) hc
  cases d.enc <;> first | exact hc | exact main

/-- after the A1 fix (C03) was merged: every request, accepted or not, on EVERY route leaves the shared
    columns rectangular -/
theorem batch_rectangular_all (thr : Nat) (env : Env) (r : Route) (d : Doc) (cols : Cols)
    (hc : cols.rect = true) : (ingestFull fixed thr env r d cols).2.rect = true := by
  unfold ingestFull
  have main : (match routePlan fixed thr r d.body with
      | .reject code => (Outcome.status code, cols)
      | .preParse code => doParse fixed env r.okStatus [.error code] 1 cols []
      | .run run => doParse fixed env r.okStatus run.trace.msgs run.trace.closes cols []).2.rect = true := by
    cases hp : routePlan fixed thr r d.body with
    | reject c => exact hc
    | preParse c => simpa [doParse] using hc
    | run run =>
      have hg := routePlan_good_all fixed rfl rfl thr r d.body run hp
      exact doParse_rect fixed env _ _ _ cols [] (trace_good _ _ _ hg.1 hg.2) hc
  cases d.enc <;> first | exact hc | exact main

/-- Prometheus remote write: once the body is a WriteRequest the decoder cannot be rejected -/
theorem prom_never_rejected (thr : Nat) (series : List Nat) :
    (logsRun fixed thr (promItems series 0)).ending = .done :=
  promRun_done fixed rfl thr series

/-! ## The tree as pinned: `decide`-checked witnesses (Appendix A: A6, A3, A37 and the `ns(0)` loop) -/

/-- A6: Zipkin `[{"name":"x"}]` — a span without ids reaches `ColFixedStr.Append` in the un-recovered
    `doPush` goroutine: the process dies -/
def zipkinNoIds : Doc := ⟨.plain, .zipkin [.span .missing .missing 1 13] false⟩

theorem pinned_A6_crash : ingestWith pinned .zipkinJson zipkinNoIds = .crash := by decide
theorem fixed_A6_rejected : ingest .zipkinJson zipkinNoIds = .status 400 := by decide

/-- A6 through OTLP: a span whose trace id has 3 bytes -/
def otlpShortId : Doc := ⟨.plain, .otlpTraces true [⟨some [], [[⟨3, 8, []⟩]]⟩]⟩

theorem pinned_A6_otlp_crash : ingestWith pinned .otlpTraces otlpShortId = .crash := by decide
theorem fixed_A6_otlp_rejected : ingest .otlpTraces otlpShortId = .status 400 := by decide

/-- the recover in `doPush` alone is not enough: the process survives, but the ids appended before the bad
    one stay in the shared columns (trace_id 2 rows, span_id 1, the rest 0) -/
theorem recover_alone_corrupts_batch :
    (ingestFull { fixed with idCheck := false } flushThreshold ⟨true⟩ .zipkinJson
      ⟨.plain, .zipkin [.span .ok .ok 1 13, .span .ok .missing 1 13] false⟩ .empty)
    = (.status 500, { Cols.empty with traces := ⟨2, 1, 0⟩, tags := ⟨4, 2, 0⟩ }) := by decide

/-- the id check alone is enough for survival: nothing panics below `doPush` any more -/
theorem validation_alone_no_crash :
    ingestWith { fixed with pushRecover := false } .zipkinJson zipkinNoIds = .status 400 := by decide

/-- A3: `{"streams":[{"stream":{"a":"b"},"values":[]}]}` — `fastFillArray(0)` faults in the parser goroutine,
    tamePanic answers 500; after the fix the push is accepted -/
def lokiEmptyValues : Doc := ⟨.plain, .lokiJson [⟨.pairs 1, []⟩] false⟩

theorem pinned_A3_500 : ingestWith pinned .lokiJson lokiEmptyValues = .status 500 := by decide
theorem fixed_A3_accepted : ingest .lokiJson lokiEmptyValues = .status 204 := by decide

/-- A3: OTLP logs whose ResourceLogs has no `resource` -/
def otlpLogsNoResource : Doc := ⟨.plain, .otlpLogs true [⟨none, [⟨some [], [[.scalar]]⟩]⟩]⟩

theorem pinned_A3_otlp_500 : ingestWith pinned .otlpLogs otlpLogsNoResource = .status 500 := by decide
theorem fixed_A3_otlp_accepted : ingest .otlpLogs otlpLogsNoResource = .status 204 := by decide

def profDoc (name : ProfName) (fromV untilV : Nat) (typeBytes : Nat) : Doc :=
  ⟨.plain, .profile true ⟨some (some fromV), some (some untilV), some name, false, true,
    ⟨1, true, [⟨1, [[true]]⟩], typeBytes⟩⟩⟩

/-- `/ingest?from=0`: `ns(0)` never returns — the parser goroutine spins and the handler waits forever -/
theorem pinned_ns0_hang : ingestWith pinned .profile (profDoc ⟨3, none⟩ 0 1700000010 10) = .hang := by decide
theorem fixed_ns0_answered : ingest .profile (profDoc ⟨3, none⟩ 0 1700000010 10) = .status 200 := by decide

/-- A37: `name=app{` — `name[i+1:length-1]` is `name[4:3]` -/
theorem pinned_A37_name_500 :
    ingestWith pinned .profile (profDoc ⟨3, some []⟩ 1700000000 1700000010 10) = .status 500 := by decide

/-- A37: a profile above the flush threshold is sent with the span fields (dropped) and the empty profile
    sent afterwards puts one row into the array columns only -/
theorem pinned_A37_batch_corrupted :
    (ingestFull pinned flushThreshold ⟨true⟩ .profile (profDoc ⟨3, none⟩ 1700000000 1700000010 2000000) .empty)
    = (.status 200, { Cols.empty with profiles := ⟨0, 1⟩ }) := by decide

theorem fixed_A37_profile_stored :
    (ingestFull fixed flushThreshold ⟨true⟩ .profile (profDoc ⟨3, none⟩ 1700000000 1700000010 2000000) .empty)
    = (.status 200, { Cols.empty with profiles := ⟨1, 1⟩ }) := by decide

/-- `POST /influx/api/v2/write` with the body `m\`: telegraf's stream parser never returns (found by the
    fuzzing stream of this check on the real handler) -/
def influxDangling : Doc := ⟨.plain, .influx true [.danglingEscape]⟩

theorem pinned_influx_hang : ingestWith pinned .influx influxDangling = .hang := by decide
theorem fixed_influx_rejected : ingest .influx influxDangling = .status 400 := by decide

/-! ## Non-vacuity -/

/-- a fault does occur in the parser goroutine with the `doPush` recover in place (influx `m message=1i` before the C03 fix
    of `getMessage`: the type assertion on the only field), so `fault_is_error` is not about an empty set of runs -/
example : ∃ run, routePlan { fixed with influxMsg := false } flushThreshold .influx (.influx true [.point (some .int) []]) = .run run ∧
    run.ending = .fault .typeAssert := ⟨_, rfl, by decide⟩

/-- `m message=1i`: answered 500 before the fix of `getMessage` (tamed fault), accepted after it -/
theorem pinned_influx_message_500 :
    ingestWith { fixed with influxMsg := false } .influx ⟨.plain, .influx true [.point (some .int) []]⟩ = .status 500 := by decide
theorem fixed_influx_message_accepted : ingest .influx ⟨.plain, .influx true [.point (some .int) []]⟩ = .status 204 := by decide

/-- rejected requests exist on every kind of route -/
example : Rejected fixed flushThreshold .zipkinJson zipkinNoIds := by
  have h : routePlan fixed flushThreshold .zipkinJson zipkinNoIds.body = .run ⟨[], [.spans [] []], .err 400⟩ := by
    decide
  unfold Rejected
  rw [h]
  exact Or.inr (Or.inr (by decide))

/-- well-formed pushes are accepted -/
example : ingest .zipkinJson ⟨.plain, .zipkin [.span .ok .ok 2 40] false⟩ = .status 202 := by decide
example : ingest .lokiJson ⟨.gzipOk, .lokiJson [⟨.pairs 2, [.good true false 5, .good true true 7]⟩] false⟩ = .status 204 := by
  decide
example : ingest .promWrite ⟨.plain, .promWrite true [3, 2]⟩ = .status 204 := by decide

/-! ## The pre-request chain (middleware.go): Content-Encoding, `withUnsnappyRequest`, buffering — and what it
    makes the runtime allocate

Model: `Qryn.Ingest.PreRequest` (`PreRequest.preRequest L kind contentEncoding body`), third-party calls as the
parameter `L : Lib β` (snappy block API with its documented contract `Lib.Lawful`, gzip / snappy-framing readers
as uninterpreted streams). The order of calls and guards in `withUnsnappyRequest`, its limit, the
Content-Encoding cases and the `io.ReadAll` inventory are `Gen.PreRequest`, regenerated from the source. -/

section PreRequest
open Qryn.PreRequest
open Qryn.Gen.PreRequest (unsnappyLimit unsnappyOrder contentEncodingCases contentEncodingDefault readAllSites)

/-- T: the generated order of `withUnsnappyRequest` is one the model understands, and it is the guarded one:
    `DecodedLen`, the comparison of the *declared* length with the limit, and only then `Decode` -/
theorem unsnappy_order_recognised :
    stepsOf unsnappyLimit unsnappyOrder = some [.decodedLen, .limitDeclared unsnappyLimit, .decode] := by decide

theorem unsnappy_steps : genSteps = [.decodedLen, .limitDeclared unsnappyLimit, .decode] := by
  simp [genSteps, unsnappy_order_recognised]

/-- T: the code as generated obeys the guard discipline (`decode` only after the declared length was compared) -/
theorem unsnappy_guarded : guardedBy unsnappyLimit genSteps false false = true ∧ countDecode genSteps = 1 := by
  rw [unsnappy_steps]; decide

/-- T: every Content-Encoding case does something the model knows -/
theorem encoding_actions_known :
    ∀ p ∈ contentEncodingCases, p.2 ∈ ["identity", "gzip.NewReader", "snappy.NewReader"] := by decide

/-- T: the inventory of `io.ReadAll` call sites of the ingest side is the one that was reviewed: two pre-request
    steps drain `r.Body` (the socket bytes, or the gzip / snappy-framing stream over them), three parsers drain
    their reader. A new site (or a site draining something else — the extractor then fails closed) needs a look
    at what bounds it. -/
theorem readall_inventory_pinned :
    readAllSites.map (fun s => (s.1, s.2.1, s.2.2.1)) =
      [("writer/controller/middleware.go", "withUnsnappyRequest", "r.Body"),
       ("writer/controller/tempoController.go", "OTLPPushV2", "r.Body"),
       ("writer/utils/unmarshal/binaryPprof.go", "binaryStreamPProfProtoDec.Decode", "b.ctx.bodyReader"),
       ("writer/utils/unmarshal/builder.go", "withBufferedBody", "ctx.bodyReader"),
       ("writer/utils/unmarshal/golangPprof.go", "pProfProtoDec.Decode", "p.ctx.bodyReader")] := by decide

/-- **prerequest_total.** For every library behaviour, kind of route, `Content-Encoding` value and body the
    chain ends in exactly one of: status 400 (precisely when the header value is not one of the listed cases),
    status 500 (gzip header refused, or the decompression stream broke while a pre-request step buffered it),
    or the parser is started. Nothing else can happen — in particular no action of the switch is unknown to the
    model (status 0) and an oversized or corrupt snappy block never rejects the request by itself. -/
theorem prerequest_total {β : Type} (L : Lib β) (k : Kind) (ce : String) (body : β) :
    ((preRequest L k ce body).outcome = .reject 400 ∧ contentEncodingCases.lookup ce = none) ∨
      ((preRequest L k ce body).outcome = .reject 500 ∧ contentEncodingCases.lookup ce ≠ none) ∨
      (∃ s src, (preRequest L k ce body).outcome = .parser s src ∧ contentEncodingCases.lookup ce ≠ none) := by
  unfold preRequest preRequestWith contentEncoding
  have hc : contentEncodingCases = [("", "identity"), ("gzip", "gzip.NewReader"), ("snappy", "snappy.NewReader")] := rfl
  have hd : contentEncodingDefault = 400 := rfl
  rw [hc, hd]
  by_cases h1 : ce = ""
  · subst h1
    cases k <;> simp [List.lookup, readAll]
  · by_cases h2 : ce = "gzip"
    · subst h2
      cases hz : L.gzipHeaderOk body <;> cases k <;> simp [List.lookup, readAll] <;>
        cases (L.gunzip body).eof <;> simp
    · by_cases h3 : ce = "snappy"
      · subst h3
        cases k <;> simp [List.lookup, readAll] <;> cases (L.unframe body).eof <;> simp
      · have hl : List.lookup ce [("", "identity"), ("gzip", "gzip.NewReader"), ("snappy", "snappy.NewReader")] = none := by
          have e1 : (ce == "") = false := by simp [h1]
          have e2 : (ce == "gzip") = false := by simp [h2]
          have e3 : (ce == "snappy") = false := by simp [h3]
          simp [List.lookup, e1, e2, e3]
        simp [hl]

/-- **unsnappy_passthrough_or_decoded.** What `withUnsnappyRequest` hands to the parser is either the bytes it
    read, unchanged, or their snappy decoding as returned by the library — for every order of the steps
    (so also for the code as generated). -/
theorem unsnappy_passthrough_or_decoded_any {β : Type} (L : Lib β) (steps : List Step) (c : β) :
    ((unsnappyWith L steps c).decoded = false ∧ (unsnappyWith L steps c).body = c) ∨
      ((unsnappyWith L steps c).decoded = true ∧ L.decode c = .ok (unsnappyWith L steps c).body) := by
  have hs := runClosure_sound L c steps {} (sound_init L c)
  unfold unsnappyWith
  cases hf : (runClosure L c steps {}).failed with
  | some e => left; simp [hf]
  | none =>
    cases ho : (runClosure L c steps {}).out with
    | none => left; simp [hf, ho]
    | some u => right; simp [hf, ho]; exact hs.out u ho

theorem unsnappy_passthrough_or_decoded {β : Type} (L : Lib β) (c : β) :
    ((unsnappy L c).decoded = false ∧ (unsnappy L c).body = c) ∨
      ((unsnappy L c).decoded = true ∧ L.decode c = .ok (unsnappy L c).body) :=
  unsnappy_passthrough_or_decoded_any L genSteps c

/-- **guarded_alloc_bounded.** Any arrangement of the closure that obeys the guard discipline (every `Decode`
    after a comparison of the declared length with a limit `≤ limit`) allocates at most `limit` per `Decode`,
    whatever the library returns — and a decoded body is at most `limit` long (library contract). -/
theorem guarded_alloc_bounded {β : Type} (L : Lib β) (limit : Nat) (steps : List Step) (c : β)
    (hg : guardedBy limit steps false false = true) :
    (unsnappyWith L steps c).alloc ≤ limit * countDecode steps ∧
      (L.Lawful → (unsnappyWith L steps c).decoded = true → L.len (unsnappyWith L steps c).body ≤ limit) := by
  obtain ⟨ha, ho⟩ := runClosure_guarded L c limit steps false false {} hg (sound_init L c) (guard_init limit)
    (outOk_init L c limit)
  have hs := runClosure_sound L c steps {} (sound_init L c)
  have halloc : (unsnappyWith L steps c).alloc = (runClosure L c steps {}).alloc := by
    unfold unsnappyWith
    cases hf : (runClosure L c steps {}).failed <;> cases hout : (runClosure L c steps {}).out <;> simp [hf, hout]
  refine ⟨by rw [halloc]; simpa using ha, ?_⟩
  intro hl hdec
  unfold unsnappyWith at hdec ⊢
  cases hf : (runClosure L c steps {}).failed with
  | some e => simp [hf] at hdec
  | none =>
    cases hout : (runClosure L c steps {}).out with
    | none => simp [hf, hout] at hdec
    | some u =>
      simp only [hf, hout]
      obtain ⟨n, hn, hle⟩ := ho u hout
      have := hl.decode_len c u (hs.out u hout)
      rw [hn] at this
      cases this
      exact hle

/-- **unsnappy_alloc_bounded.** `withUnsnappyRequest` as it is in the source: for every body and every
    behaviour of the snappy library, `snappy.Decode` is made to allocate at most the limit (10 MiB) — the length
    *declared* in the block header never reaches `make` unchecked — and a decoded body is at most that long. -/
theorem unsnappy_alloc_bounded {β : Type} (L : Lib β) (c : β) :
    (unsnappy L c).alloc ≤ unsnappyLimit ∧
      (L.Lawful → (unsnappy L c).decoded = true → L.len (unsnappy L c).body ≤ unsnappyLimit) := by
  have h := guarded_alloc_bounded L unsnappyLimit genSteps c unsnappy_guarded.1
  rw [unsnappy_guarded.2, Nat.mul_one] at h
  exact h

/-- the whole chain of an unsnappy route (Prometheus remote write, Loki protobuf push): the buffers the
    middleware asks for are bounded by the bytes the (possibly decompressed) request stream yields, plus the
    limit, plus the fixed framing buffers — never by a number written in the request. -/
theorem prerequest_alloc_bounded {β : Type} (L : Lib β) (k : Kind) (ce : String) (body : β) :
    (∀ st, contentEncoding L ce body = .error st → (preRequest L k ce body).alloc = 0) ∧
      (∀ s, contentEncoding L ce body = .ok s →
        (preRequest L k ce body).alloc ≤ snappyReaderBufs + L.len s.data + unsnappyLimit) := by
  constructor
  · intro st h; simp [preRequest, preRequestWith, h]
  · intro s h
    have he : encodingAlloc ce ≤ snappyReaderBufs := by
      unfold encodingAlloc; split <;> simp
    unfold preRequest preRequestWith
    simp only [h]
    cases k with
    | streamed => simp only; omega
    | buffered =>
      unfold readAll
      cases s.eof <;> simp only [if_true, if_false, Bool.false_eq_true] <;> omega
    | unsnappy =>
      unfold readAll
      cases heof : s.eof
      · simp only [if_false, Bool.false_eq_true]; omega
      · simp only [if_true]
        have := (unsnappy_alloc_bounded L s.data).1
        unfold unsnappy at this
        omega

/-- without Content-Encoding: allocation ≤ len(body) + 10 MiB, and this is inside the rule the allocation
    oracle of the check judges on the real process (`64 MiB + 2048 × len(body)`): the model's bound and the
    oracle's rule are tied through the generated constant -/
theorem unsnappy_alloc_within_rule {β : Type} (L : Lib β) (k : Kind) (body : β) :
    (preRequest L k "" body).alloc ≤ L.len body + unsnappyLimit ∧
      L.len body + unsnappyLimit + unsnappyLimit ≤ 64 * 1024 * 1024 + 2048 * L.len body := by
  have hce : contentEncoding L "" body = .ok ⟨body, true⟩ := by
    unfold contentEncoding
    have hc : contentEncodingCases = [("", "identity"), ("gzip", "gzip.NewReader"), ("snappy", "snappy.NewReader")] := rfl
    rw [hc]; simp [List.lookup]
  have hz : encodingAlloc "" = 0 := by
    unfold encodingAlloc
    have hc : contentEncodingCases = [("", "identity"), ("gzip", "gzip.NewReader"), ("snappy", "snappy.NewReader")] := rfl
    rw [hc]; simp [List.lookup]
  have hlim : unsnappyLimit = 10485760 := rfl
  refine ⟨?_, by omega⟩
  unfold preRequest preRequestWith
  simp only [hce, hz]
  cases k with
  | streamed => simp only; omega
  | buffered => simp [readAll]
  | unsnappy =>
    simp only [readAll, if_true]
    have := (unsnappy_alloc_bounded L body).1
    unfold unsnappy at this
    omega

/-! ### The allocation rule over every Content-Encoding — PARTIAL (finding `C05/alloc-amplification/decompressed-stream/*`)

The oracle of the check judges `alloc ≤ 64 MiB + 2048 × len(body)` on the real process. In the model the rule
holds for the chain's own buffers as long as the decompression stream expands the body at most 1032-fold (the
maximum of DEFLATE) — but only because of that property of the *codec*: the chain itself puts no cap on the
decompressed size (it buffers whatever the stream yields, `decompressed_stream_buffered_whole`), while the snappy
*block* path has its 10 MiB guard and the pprof decoders their `maxUncompressedSizeBytes`. On the real process
the buffered bytes are paid several times (`io.ReadAll` with amortised growth in the pre-request step, again in
the parser's `withBufferedBody`): a 16 KiB gzip body yielding 16 MiB costs ≈ 196 MiB of allocations — the
oracle reports it (KNOWN_FINDINGS.txt). -/

/-- the rule for every encoding and every behaviour of the stream readers -/
def alloc_within_rule_full : Prop :=
  ∀ {β : Type} (L : Lib β) (k : Kind) (ce : String) (body : β),
    (preRequest L k ce body).alloc ≤ 64 * 1024 * 1024 + 2048 * L.len body

/-- **alloc_within_rule_partial.** If the stream the Content-Encoding reader yields is at most 1032 times as long
    as the body (true of gzip; snappy framing expands far less; trivially true without encoding), the buffers of
    the pre-request chain stay within the oracle's rule. -/
theorem alloc_within_rule_partial {β : Type} (L : Lib β) (k : Kind) (ce : String) (body : β)
    (hratio : ∀ s, contentEncoding L ce body = .ok s → L.len s.data ≤ 1032 * L.len body) :
    (preRequest L k ce body).alloc ≤ 64 * 1024 * 1024 + 2048 * L.len body := by
  have h := prerequest_alloc_bounded L k ce body
  have hlim : unsnappyLimit = 10485760 := rfl
  have hb : snappyReaderBufs = 142030 := rfl
  cases hce : contentEncoding L ce body with
  | error st => rw [h.1 st hce]; exact Nat.zero_le _
  | ok s =>
    have h1 := h.2 s hce
    have h2 := hratio s hce
    omega

/-- the chain buffers the whole decompressed stream: nothing but the codec bounds it -/
theorem decompressed_stream_buffered_whole {β : Type} (L : Lib β) (k : Kind) (ce : String) (body : β)
    (s : Stream β) (hk : k ≠ .streamed) (hce : contentEncoding L ce body = .ok s) :
    L.len s.data ≤ (preRequest L k ce body).alloc := by
  unfold preRequest preRequestWith
  simp only [hce]
  cases k with
  | streamed => exact absurd rfl hk
  | buffered => unfold readAll; cases s.eof <;> simp only [if_true, if_false, Bool.false_eq_true] <;> omega
  | unsnappy => unfold readAll; cases s.eof <;> simp only [if_true, if_false, Bool.false_eq_true] <;> omega

/-- buffers that are nothing but their length, and a stream reader that expands 4096-fold -/
def expandingLib : Lib Nat where
  len := id
  decodedLen := fun _ => .error .corrupt
  decode := fun _ => .error .corrupt
  gzipHeaderOk := fun _ => true
  gunzip := fun n => ⟨4096 * n, true⟩
  unframe := fun n => ⟨n, true⟩

/-- without the codec's ratio the rule does not follow from anything the chain does: a 64 KiB body under a
    4096-fold expansion is buffered whole (256 MiB) -/
theorem alloc_within_rule_counterexample : ¬ alloc_within_rule_full := by
  intro h
  have := h expandingLib .buffered "gzip" 65536
  revert this
  decide

/-- the statement `unsnappy_alloc_bounded` would be for another arrangement of the closure -/
def alloc_bounded_for (steps : List Step) : Prop :=
  ∀ (L : Lib Bytes), L.Lawful → ∀ c : Bytes,
    (preRequestWith L steps .unsnappy "" c).alloc ≤ L.len c + unsnappyLimit

theorem headerOnlyLib_lawful : headerOnlyLib.Lawful :=
  ⟨fun b u h => (by simp only [headerOnlyLib] at h; split at h <;> cases h),
   fun b e h => (by simp only [headerOnlyLib] at h ⊢; rw [h])⟩

theorem alloc_bounded_as_generated : alloc_bounded_for genSteps := by
  intro L _ c
  exact (unsnappy_alloc_within_rule L .unsnappy c).1

/-- **what the guard is for.** With `snappy.Decode` first and the size check on its *result* afterwards
    (`len(uncompressed) > limit`), the bound fails: a body of five bytes — nothing but a block header declaring
    4 GiB − 1 — makes `Decode` allocate 4 294 967 295 bytes before it finds the block corrupt, and the size
    check is never reached. (The library here is the real header parser, `binary.Uvarint` +
    `snappy.decodedLen`, with every block body corrupt.) -/
theorem guard_after_decode_counterexample :
    ¬ alloc_bounded_for [.decode, .limitDecoded unsnappyLimit] := by
  intro h
  have := h headerOnlyLib headerOnlyLib_lawful [0xff, 0xff, 0xff, 0xff, 0x0f]
  revert this
  decide

/-- the same for a guard that compares `len(compressed)` — the wrong quantity — before decoding -/
theorem guard_on_compressed_counterexample :
    ¬ alloc_bounded_for [.decodedLen, .limitCompressed unsnappyLimit, .decode] := by
  intro h
  have := h headerOnlyLib headerOnlyLib_lawful [0x80, 0x80, 0x80, 0x80, 0x04, 0x08, 0x61, 0x62, 0x63]
  revert this
  decide

/-- the nine bytes of the seeded demo declare 1 GiB; the code as generated does not let that reach `make` -/
example : (preRequestWith headerOnlyLib [.decode, .limitDecoded unsnappyLimit] .unsnappy ""
    [0x80, 0x80, 0x80, 0x80, 0x04, 0x08, 0x61, 0x62, 0x63]).alloc = 9 + 1073741824 := by decide
example : (preRequest headerOnlyLib .unsnappy "" [0x80, 0x80, 0x80, 0x80, 0x04, 0x08, 0x61, 0x62, 0x63]).alloc = 9 := by
  rw [preRequest, unsnappy_steps]; decide

/-- non-vacuity: lawful libraries that do decode exist (the identity codec), and then the decoded branch is taken -/
def idLib : Lib Bytes where
  len := List.length
  decodedLen := fun b => .ok b.length
  decode := fun b => .ok b
  gzipHeaderOk := fun _ => true
  gunzip := fun b => ⟨b, true⟩
  unframe := fun b => ⟨b, true⟩

example : idLib.Lawful := ⟨fun b u h => (by cases h; rfl), fun b e h => (by cases h)⟩
example : (unsnappyWith idLib [.decodedLen, .limitDeclared 10, .decode] [1, 2, 3]).decoded = true := by decide
example : (unsnappyWith idLib [.decodedLen, .limitDeclared 2, .decode] [1, 2, 3]).decoded = false := by decide
example : (unsnappyWith idLib [.decodedLen, .limitDeclared 2, .decode] [1, 2, 3]).alloc = 0 := by decide

end PreRequest

/-! ## The request context of the handlers: no failed type assertion in the handler goroutine

Model: `Qryn.Ingest.PreChains`; facts: `Gen.PreChains` (which keys each middleware asserts / stores, what `doParse`
reads, `cfg.ExtraMiddleware`, the option list of every handler constructor). -/

section PreChains
open Qryn.PreChains
open Qryn.Gen.PreChains (middlewares handlers extraMiddlewareDefault extraMiddlewareTempo)

/-- T: the hand-placed context operations of every named middleware agree with the source: the same bare
    assertions (key and type, in order) and the same stored keys -/
theorem middleware_ctx_facts_tied :
    middlewares.all (fun m =>
      match opsOfMiddleware m.1 with
      | none => false
      | some ops =>
        decide (ops.filterMap Op.asserted = m.2.1.map (fun a => (a.1, tyOf a.2))) &&
          decide (ops.filterMap Op.stored = m.2.2.eraseDups)) = true := by decide

/-- T: every chain of every handler constructor passes the static check -/
theorem handler_chains_checked : allHandlersSafe = true := by decide

/-- **handler_chains_no_fault.** For every ingest handler as it is built in the source, both values of
    `cfg.ExtraMiddleware`, every parser the Content-Type can select and every combination of steps that return an
    error: no bare type assertion on a context value fails — `dsn.(string)` finds the string stored by
    `WithOverallContextMiddleware`, `Value("node").(string)` the node name stored by the service middleware of
    the route. The handler goroutine therefore ends in a status (`ErrorHandler`) or reaches the parser; it does
    not panic on the way, whatever the request. -/
theorem handler_chains_no_fault :
    ∀ h ∈ handlers, ∀ extra ∈ [extraMiddlewareDefault, extraMiddlewareTempo], ∀ p ∈ h.2.2,
      ∃ ops, chainOps extra h.2.1 p = some ops ∧ ∀ fails, exec ops fails [] ≠ .fault := by
  intro h hh extra he p hp
  have hall := handler_chains_checked
  unfold allHandlersSafe at hall
  have h1 := (List.all_eq_true.mp hall) h hh
  have h2 := (List.all_eq_true.mp h1) extra he
  simp only [Bool.and_eq_true] at h2
  have h3 := (List.all_eq_true.mp h2.2) p hp
  cases hc : chainOps extra h.2.1 p with
  | none => simp [hc] at h3
  | some ops =>
    refine ⟨ops, rfl, ?_⟩
    simp only [hc] at h3
    exact safe_sound ops [] h3

/-- what the order is for: the service middleware without `WithOverallContextMiddleware` before it panics on
    `dsn.(string)`; a chain without a service middleware panics in `doParse` on `Value("node").(string)` -/
theorem chain_without_overall_faults :
    ∃ ops, chainOps [] [("cfg.ExtraMiddleware", []), ("withTSAndSampleService", [])] ("*", []) = some ops ∧
      exec ops [] [] = .fault := ⟨_, rfl, by decide⟩

theorem chain_without_service_faults :
    ∃ ops, chainOps extraMiddlewareDefault [("cfg.ExtraMiddleware", [])] ("*", []) = some ops ∧
      exec ops [] [] = .fault := ⟨_, rfl, by decide⟩

/-- non-vacuity: the chains are not empty, and a chain can end in a rejection as well as reach the parser -/
example : handlers.length = 12 := by decide
example : ∃ ops, chainOps extraMiddlewareDefault [("cfg.ExtraMiddleware", []), ("withTSAndSampleService", [])] ("*", []) = some ops ∧
    exec ops [true] [] = .rejected ∧ (∃ c, exec ops [] [] = .completed c) := ⟨_, rfl, by decide, ⟨_, rfl⟩⟩

end PreChains

/-! ## The typed fault-site census of the ingest side (`Gen.IngestCensus`, review in `Ingest/FaultCensusTable.lean`)

Until now the fault sites of `Qryn.Ingest.Faults` were placed by hand and tied to the source through hashes of function
bodies. The census replaces that tie: it is regenerated with go/types on every run and lists EVERY goroutine of the
ingest side with every instruction of the module that can panic on its stack. -/

section Census
open Qryn.IngestCensus
open Qryn.Gen (IngestCensus.functions IngestCensus.goroutines IngestCensus.externsUnion IngestCensus.excludedPackages)

/-- **ingest_fault_site_census.** `Gen.IngestCensus` lists, for the HTTP handler and for every `go` statement under
    writer/ (the three parser goroutines, the PreParse error sender, the drain goroutine of `doParse`, the `doPush`
    goroutines, the insert-service loops, the watchdog, the cache sweeper, the statistics / logger / metrics helpers),
    the functions of the module that can run on its stack — static calls, interface calls resolved to every implementing
    type, calls through function values — and in each of them every index, slice, store, nil-map write, assertion
    without `ok`, integer division, signed shift, non-constant `make`, dereference of a pointer that comes from a
    decoder or a lookup, conversion, `panic`, send, close and unresolved dynamic call. The theorem says that this
    regenerated list is EXACTLY the reviewed one (same functions, same sites, same order), that every classification
    which cites a dominating condition finds that condition at the site, that the library calls on these stacks (the
    boundary of the census) are exactly the reviewed ones, and that the only package left out is the one that does not
    compile. A new or re-worded fault site, a lost guard, a new function with a site becoming reachable, a new library
    call: each breaks this theorem until someone has looked. -/
theorem ingest_fault_site_census :
    genShape IngestCensus.functions = revShape reviewed ∧
    backedAll IngestCensus.functions reviewed = true ∧
    IngestCensus.externsUnion = reviewedExterns.map (·.name) ∧
    IngestCensus.excludedPackages = reviewedExcluded :=
  ⟨census_checked, guards_checked, externs_checked, excluded_checked⟩

/-- **placed_sites_are_the_census.** The fault sites the model `Qryn.Ingest.Faults` carries (`modelSites`) are exactly the
    sites of the census classified "can fault" (`.placed`, incl. the one library call that stands for a placed site):
    nothing is placed that the source does not have, and a faulting expression of the source that is neither
    classified as harmless (with a checked reason) nor in the model cannot exist. -/
theorem placed_sites_are_the_census : citedSites = sortDedup (modelSites.map (·.id)) := placed_checked

/-- **placed_sites_run_recovered.** Every placed site runs only on goroutines that catch its panic the way the model
    says: the parser-goroutine sites under `defer p.tamePanic()` (→ one error response, one close, 500), the
    `ColFixedStr.Append` size check under the deferred recover of the `doPush` goroutine (→ promise resolved with an
    error, 500). In particular NO site that can fault on input runs on a goroutine without a recover (the insert loops,
    the watchdog, the drain goroutines: a panic there would end the process) or on the HTTP handler goroutine (whose
    net/http recover would drop the connection without a status). -/
theorem placed_sites_run_recovered :
    (∀ g ∈ IngestCensus.goroutines, rootOk g = true) ∧
    (∀ g ∈ IngestCensus.goroutines, g.2.2.1 = "" ∨ g.2.2.1 = "net/http" → rootPlaced g = []) := by
  refine ⟨fun g hg => (List.all_eq_true.mp roots_checked) g hg, ?_⟩
  have h : IngestCensus.goroutines.all (fun g => !(g.2.2.1 == "" || g.2.2.1 == "net/http") || (rootPlaced g).isEmpty) = true := by
    decide +kernel
  intro g hg hr
  have := (List.all_eq_true.mp h) g hg
  rcases hr with hr | hr <;> simp [hr] at this <;> exact this

/-- the goroutines of the ingest side, with the way each catches a panic — a new `go` statement, or a recover that
    disappears, changes this list -/
theorem ingest_goroutine_inventory :
    IngestCensus.goroutines.map (fun g => (g.1, g.2.2.1)) =
      [("controller/builder.go:Build$handler", "net/http"),
       ("main_dev.go:Init#1", ""),
       ("controller/builder.go:doPush#1", "literal"),
       ("controller/builder.go:doParse#1", ""),
       ("metric/metric.go:Metric.Run#1", ""),
       ("metric/metric.go:Metric.Run#2", ""),
       ("plugin/qryn_writer_db.go:QrynWriterPlugin.CreateStaticServiceRegistry#1", ""),
       ("plugin/qryn_writer_db.go:QrynWriterPlugin.CreateStaticServiceRegistry#2", ""),
       ("plugin/qryn_writer_db.go:QrynWriterPlugin.CreateStaticServiceRegistry#3", ""),
       ("plugin/qryn_writer_db.go:QrynWriterPlugin.CreateStaticServiceRegistry#4", ""),
       ("plugin/qryn_writer_db.go:QrynWriterPlugin.CreateStaticServiceRegistry#5", ""),
       ("plugin/qryn_writer_db.go:QrynWriterPlugin.CreateStaticServiceRegistry#6", ""),
       ("plugin/utils.go:QrynWriterPlugin.logCHSetup#1", ""),
       ("service/genericInsertService.go:InsertServiceV2RoundRobin.Run#1", ""),
       ("service/genericInsertService.go:InsertServiceV2Multimodal.Run#1", ""),
       ("service/genericInsertService.go:InsertServiceV2Multimodal.Run#2", ""),
       ("utils/logger/logger.go:qrynFormatter.Run#1", ""),
       ("utils/logger/logger.go:qrynFormatter.Run#2", ""),
       ("utils/numbercache/cache.go:NewCache#1", ""),
       ("utils/unmarshal/builder.go:parserDoer.Do#1", ""),
       ("utils/unmarshal/builder.go:parserDoer.doParseProfile#1", "tamePanic"),
       ("utils/unmarshal/builder.go:parserDoer.doParseLogs#1", "tamePanic"),
       ("utils/unmarshal/builder.go:parserDoer.doParseSpans#1", "tamePanic"),
       ("watchdog/watchdog.go:Init#1", "")] := by rfl

/-- **model_sites_fault.** Each placed site is a primitive of the model that does raise a fault for some arguments
    (so the list `modelSites` is not about an empty set of behaviours), and the two sites the fix commits guarded no
    longer do: `fastFillArray(0)`, `name[i+1:length-1]`. -/
theorem model_sites_fault :
    labelPairs [[1]] = .error .indexOutOfRange ∧
    markTypes [3] = .error .indexOutOfRange ∧
    messageSizes [] 1 0 = .error .indexOutOfRange ∧
    (fastFillArray pinned 0 = .error .indexOutOfRange ∧ fastFillArray fixed 0 = .ok 0) ∧
    (∃ f, onSpan fixed flushThreshold .init ⟨16, 8, 2, 1, 0⟩ = .fault f) ∧
    (∃ f, spanStep fixed flushThreshold .init (.derefRaw false) = .fault f) ∧
    ((∃ f, profStep pinned flushThreshold ⟨0, []⟩ (.slice 4 4 3) = .fault f) ∧
      profStep fixed flushThreshold ⟨0, []⟩ (.slice 4 4 3) = .err 500) ∧
    (∃ f, profStep fixed flushThreshold ⟨0, []⟩ (.idxCheck 1 1) = .fault f) ∧
    (∃ f, profStep fixed flushThreshold ⟨0, []⟩ (.derefRaw false) = .fault f) ∧
    fixedStrAppend 16 0 3 = .error .badSize := by
  refine ⟨rfl, rfl, rfl, ⟨rfl, rfl⟩, ⟨_, rfl⟩, ⟨_, rfl⟩, ⟨⟨_, rfl⟩, rfl⟩, ⟨_, rfl⟩, ⟨_, rfl⟩, rfl⟩

example : modelSites.length = 10 := rfl
example : reviewed.length = IngestCensus.functions.length := by rfl

end Census

/-! ## The request context of every handler chain, with the dynamic types regenerated (`Gen.CtxChains`) -/

section CtxChains
open Qryn.CtxChains
open Qryn.Gen (CtxChains.chains CtxChains.assignable)

/-- T: every generated chain passes the static check -/
theorem ctx_chains_checked : allChainsSafe = true := by decide +kernel

/-- **ctx_chains_typed.** For every handler constructor of writer/controller, both values of `cfg.ExtraMiddleware`,
    every parser the Content-Type can select — 30 chains, each running through the pre-request middlewares, `doParse`
    (`getBodyStream`, `getService`, `Value("node").(string)`), the PreParse steps of the selected parser
    (`withStringValueFromCtx`), `doParseLogs` (`META`, `TTL_DAYS`) and the decoder's `Decode`
    (`Value("precision").(time.Duration)` of the influx decoder, on the parser goroutine) — and every combination of
    steps that return an error: no type assertion on a context value fails. Every bare assertion finds, EARLIER IN THE
    SAME CHAIN, a `context.WithValue` of its key whose value has the asserted type (or a type implementing the asserted
    interface); every nil-guarded one finds either nothing or a value of the right type. Keys, types and order are all
    regenerated (go/types); nothing is placed by hand. -/
theorem ctx_chains_typed :
    ∀ c ∈ CtxChains.chains, ∀ fails, exec CtxChains.assignable (chainOps c) fails [] ≠ .fault := by
  intro c hc fails
  have h := (List.all_eq_true.mp ctx_chains_checked) c hc
  exact safe_sound _ _ [] h fails

/-- what the discipline is for: the influx decoder behind the pre-request steps of the Loki push handler (no
    `?precision=` step) would panic in `Decode` — a key stored only by another chain does not help -/
theorem ctx_foreign_chain_faults :
    exec CtxChains.assignable
      [.store "DSN" "string", .assert "DSN" "string", .store "node" "string", .assert "node" "string",
       .assert "precision" "time.Duration"] [] [] = .fault := by decide

/-- … and a value of another type under the right key does not help either -/
theorem ctx_wrong_type_faults :
    exec CtxChains.assignable [.store "TTL_DAYS" "int", .assertNil "TTL_DAYS" "uint16"] [] [] = .fault := by decide

/-- non-vacuity: the chains do contain bare assertions — every chain asserts `node`, the influx chain `precision` -/
theorem ctx_chains_have_bare_assertions :
    CtxChains.chains.length = 30 ∧
    (CtxChains.chains.all fun c => (bareAsserts c).contains ("node", "string")) = true ∧
    (CtxChains.chains.any fun c => (bareAsserts c).contains ("precision", "time.Duration")) = true := by
  refine ⟨by rfl, by decide +kernel, by decide +kernel⟩

/-- an observation the chains make visible (not a fault): `getRequestParams` reads `"params"` with the comma-ok form,
    and NO chain stores that key — the only producer is in writer/http, which does not compile — so the Elastic
    handlers always see an empty `target` / `id` -/
theorem ctx_params_never_stored :
    (CtxChains.chains.all fun c => (chainOps c).all fun o => match o with | .store k _ => k != "params" | _ => true) = true := by
  decide +kernel

end CtxChains

/-! ## Headers and query parameters (`Gen.IngestParams`, model `Qryn.Ingest.IngestParams`) -/

section Params
open Qryn.IngestParams
open Qryn.Gen (IngestParams.reads)

/-- T: the headers and query parameters the ingest side reads are the reviewed ones — a new read needs a look at what
    it does with a hostile value -/
theorem param_inventory_pinned :
    IngestParams.reads =
      [("controllerv1.PushCfDatadogV2", "query", "ddsource"),
       ("controllerv1.PushDatadogV2", "query", "ddsource"),
       ("controllerv1.PushInfluxV2", "query", "precision"),
       ("controllerv1.PushProfileV2", "query", "from"),
       ("controllerv1.PushProfileV2", "query", "name"),
       ("controllerv1.PushProfileV2", "query", "until"),
       ("controllerv1.PusherCtx.DoParse", "header", "Content-Type"),
       ("controllerv1.WithOverallContextMiddleware", "header", "Content-Encoding"),
       ("controllerv1.WithOverallContextMiddleware", "header", "Content-Encoding"),
       ("controllerv1.WithOverallContextMiddleware", "header", "X-CH-DSN"),
       ("controllerv1.WithOverallContextMiddleware", "header", "X-Scope-Meta"),
       ("controllerv1.WithOverallContextMiddleware", "header", "X-Ttl-Days"),
       ("controllerv1.getAsyncMode", "header", "X-Async-Insert")] := by rfl

/-- **header_params_total.** Whatever the request carries in `X-Ttl-Days`, `X-Async-Insert`, `?precision=`,
    `?ddsource=`: the value the handler stores is one of a fixed range — a TTL below 65536 (an unparsable, negative,
    signed, blank-padded, underscored or too large number is ignored: TTL 0), an insert mode in {1, 2, 3} (`"0"` sync,
    `"1"` async, anything else the default), a precision in {ns, us, ms, s} or the status 400, a non-empty `ddsource`.
    No value raises a fault; the only one that rejects is an unknown precision. -/
theorem header_params_total (ttl async prec dd : String) :
    ttlDays ttl < 65536 ∧
    (asyncMode async = 2 ∧ async = "0" ∨ asyncMode async = 3 ∧ async = "1" ∨ asyncMode async = 1 ∧ async ≠ "0" ∧ async ≠ "1") ∧
    ((∃ n ∈ [1, 1000, 1000000, 1000000000], precision prec = .ok n) ∨
      (precision prec = .error 400 ∧ prec ≠ "" ∧ prec ≠ "ns" ∧ prec ≠ "us" ∧ prec ≠ "ms" ∧ prec ≠ "s")) ∧
    ddsource dd ≠ "" := by
  refine ⟨ttlDays_lt ttl, asyncMode_cases async, ?_, ?_⟩
  · rcases precision_cases prec with h | h | h | h | h
    · exact Or.inl ⟨1, by simp, h.1⟩
    · exact Or.inl ⟨1000, by simp, h.1⟩
    · exact Or.inl ⟨1000000, by simp, h.1⟩
    · exact Or.inl ⟨1000000000, by simp, h.1⟩
    · exact Or.inr h
  · unfold ddsource
    split
    · decide
    · assumption

/-- what `strconv.ParseUint(s, 10, 16)` + `if err == nil` make of some hostile values -/
theorem ttl_examples :
    ttlDays "" = 0 ∧ ttlDays "7" = 7 ∧ ttlDays "007" = 7 ∧ ttlDays "65535" = 65535 ∧ ttlDays "65536" = 0 ∧
    ttlDays "-1" = 0 ∧ ttlDays "+1" = 0 ∧ ttlDays " 5" = 0 ∧ ttlDays "1_0" = 0 ∧ ttlDays "0x10" = 0 ∧
    ttlDays "99999999999999999999999999" = 0 := by decide

/-- **parser_selection_total.** `DoParse` walks the parsers of a handler in the order Go's map iteration happens to
    produce. For every handler of the source the Content-Type prefixes of its parsers are prefix-free, hence for every
    Content-Type and EVERY order of the walk the same parser is selected: the one whose key is a prefix of the header,
    else the `*` parser, else the request is answered 400 — never an arbitrary one of two, never a fault. -/
theorem parser_selection_total :
    ∀ h ∈ handlerNames, ∀ order, (parserKeys h).Perm order → ∀ ct,
      selectParser order ct = selectParser (parserKeys h) ct ∧
      ((∃ k ∈ parserKeys h, selectParser (parserKeys h) ct = .ok k) ∨ selectParser (parserKeys h) ct = .error 400) := by
  intro h hh order hp ct
  have hf : prefixFree (parserKeys h) = true := (List.all_eq_true.mp all_handlers_prefix_free) h hh
  refine ⟨selectParser_perm _ _ hf hp ct, ?_⟩
  unfold selectParser
  cases hfd : (parserKeys h).find? (hasPrefix ct) with
  | some k => exact Or.inl ⟨k, List.mem_of_find?_eq_some hfd, rfl⟩
  | none =>
    simp only
    split
    · rename_i hc
      exact Or.inl ⟨"*", by simpa using hc, rfl⟩
    · exact Or.inr rfl

/-- with two overlapping keys the walk order WOULD matter — what `prefixFree` excludes -/
theorem parser_selection_counterexample :
    selectParser ["application/json", "application"] "application/json" = .ok "application/json" ∧
      selectParser ["application", "application/json"] "application/json" = .ok "application" := ⟨by rfl, by rfl⟩

/-- the pyroscope route: each of `from`, `name`, `until` must be non-empty, otherwise 500 before any parsing -/
theorem profile_params_total (get : String → String) :
    profileParams get = .ok () ∧ get "from" ≠ "" ∧ get "name" ≠ "" ∧ get "until" ≠ "" ∨
    profileParams get = .error 500 ∧ (get "from" = "" ∨ get "name" = "" ∨ get "until" = "") := by
  unfold profileParams
  have hr : Qryn.Gen.IngestParams.profileRequired = ["from", "name", "until"] := rfl
  rw [hr]
  by_cases h1 : get "from" = ""
  · right; simp [h1]
  · by_cases h2 : get "name" = ""
    · right; simp [h2]
    · by_cases h3 : get "until" = ""
      · right; simp [h3]
      · left; simp [h1, h2, h3]

end Params

/-! ## What the parser goroutines send is rectangular — every decoder, every builder, whole and cut-short decodes

Premise of C02 (`process_rect`: a rectangular request keeps the shared columns rectangular; `block_rect`).
Models: C03's decoders (`Wire*.lean`, proved equal to an independent specification reading and compared with the real
decoders on real bytes) in the form that keeps what was issued before an error (`Ingest/ParserRect.lean`, proved to
agree with C03's form on success), C03's builder `onEntries`, and column-level models of `onSpan` / `onProfile`. -/

section ParserRect
open Qryn.Ingest Qryn.Ingest.Wire Qryn.ParserRect

/-- T: the calls of the builder callbacks, the statements that grow their array arguments and the appends of the builder
    callbacks are the ones the models were read against (`BuilderCallsReview.callRect` says, call site by call site,
    which model stands for it and why its arrays have one length) -/
theorem builder_calls_pinned :
    Qryn.Gen.BuilderCalls.calls = Qryn.BuilderCallsPinned.calls ∧
    Qryn.Gen.BuilderCalls.argWrites = Qryn.BuilderCallsPinned.argWrites ∧
    Qryn.Gen.BuilderCalls.builderWrites = Qryn.BuilderCallsPinned.builderWrites ∧
    Qryn.Gen.BuilderCalls.calls.map (fun c => (c.1, c.2.1)) = Qryn.BuilderCallsReview.callRect.map (fun c => (c.fn, c.handler)) :=
  ⟨by rfl, by rfl, by rfl, by rfl⟩

/-- the `…Issued` decoders are C03's decoders: they end without error exactly when `…Decode` returns calls, and then
    with the same calls (so everything C03 proves and compares about `…Decode` is about them) -/
theorem issued_agrees_with_decode (scan : Bytes → List Tok) (tagsOf : Bytes → Labels) (now : Int) :
    (∀ j, lokiJsonDecode scan j = asOption (lokiJsonIssued scan j)) ∧
    (∀ d, lokiProtoDecode scan d = asOption (lokiProtoIssued scan d)) ∧
    (∀ ms, influxDecode ms = asOption (influxIssued ms)) ∧
    (∀ j, ddLogsDecode tagsOf now j = asOption (ddLogsIssued tagsOf now j)) ∧
    (∀ j, ddSeriesDecode now j = asOption (ddSeriesIssued now j)) :=
  ⟨lokiJsonIssued_agrees scan, lokiProtoIssued_agrees scan, influxIssued_agrees, ddLogsIssued_agrees tagsOf now,
   ddSeriesIssued_agrees now⟩

/-- **parser_rect_logs.** Log and metric parsers — Loki JSON, Loki protobuf, Prometheus remote write, Influx line
    protocol, OTLP logs, Datadog logs, Datadog series, and the one-entry-per-line decoders (Elastic `_doc`, Elastic
    `_bulk`, Datadog/Cloudflare): for every body (every JSON tree, protobuf message, metric list, with duplicate and
    missing members, wrong kinds, unparsable label texts …), every flush test (every chunking), every fingerprint
    function and request TTL, whether the decode ends well or with an error after any number of streams: `onEntries`
    never faults and EVERY samples request the goroutine put on the channel — the chunks flushed on the way and, after a
    successful decode, the final one — has its six per-row arrays (timestamp, fingerprint, message, value, TTL, type)
    of one length. (The series request is rectangular by construction: `onEntries` appends its five columns together,
    one row at a time — `builder_calls_pinned`.) -/
theorem parser_rect_logs (env : Qryn.Ingest.Env) (scan : Bytes → List Tok) (tagsOf : Bytes → Labels) (now : Int) (hit : Nat → Bool) :
    (∀ j, ∃ chunks, sent env (lokiJsonIssued scan j) = some chunks ∧ ∀ ch ∈ chunks, ch.spl.Rect) ∧
    (∀ d, ∃ chunks, sent env (lokiProtoIssued scan d) = some chunks ∧ ∀ ch ∈ chunks, ch.spl.Rect) ∧
    (∀ d, ∃ chunks, sent env (decodeProm hit d, true) = some chunks ∧ ∀ ch ∈ chunks, ch.spl.Rect) ∧
    (∀ ms, ∃ chunks, sent env (influxIssued ms) = some chunks ∧ ∀ ch ∈ chunks, ch.spl.Rect) ∧
    (∀ d, ∃ chunks, sent env (otlpDecode d, true) = some chunks ∧ ∀ ch ∈ chunks, ch.spl.Rect) ∧
    (∀ j, ∃ chunks, sent env (ddLogsIssued tagsOf now j) = some chunks ∧ ∀ ch ∈ chunks, ch.spl.Rect) ∧
    (∀ j, ∃ chunks, sent env (ddSeriesIssued now j) = some chunks ∧ ∀ ch ∈ chunks, ch.spl.Rect) ∧
    (∀ items, ∃ chunks, sent env (linesIssued items) = some chunks ∧ ∀ ch ∈ chunks, ch.spl.Rect) := by
  refine ⟨fun j => sent_rect env _ (lokiJsonIssued_WF scan j), fun d => sent_rect env _ (lokiProtoIssued_WF scan d),
    fun d => sent_rect env _ (promSeriesList_WF hit d 0), fun ms => sent_rect env _ (influxIssued_WF ms),
    fun d => sent_rect env _ ?_, fun j => sent_rect env _ (ddLogsIssued_WF tagsOf now j),
    fun j => sent_rect env _ (ddSeriesIssued_WF now j), fun items => sent_rect env _ (linesIssued_WF items)⟩
  exact (Body.calls_spec env hit now (.otlp (otlpOfWire d))).1

/-- the rule the decoders rely on, for ANY decoder: as long as every call passes four arrays of one length (and types
    below 3), whatever is sent is rectangular — and a call that does not is not appended half: `onEntries` panics in
    `message[i]` (tamed: error response, close) when the messages are the shorter array; when they are the LONGER one
    nothing panics and the request IS ragged, which is why the premise is proved decoder by decoder (and pinned call
    site by call site) -/
theorem parser_rect_any_decoder (env : Qryn.Ingest.Env) (r : List Call × Bool) (h : ∀ c ∈ r.1, c.WF) :
    ∃ chunks, sent env r = some chunks ∧ ∀ ch ∈ chunks, ch.spl.Rect := sent_rect env r h

/-- the remote-write tail flush of the seeded change (messages and types kept at the length of the whole series after
    a flush inside the series): not well formed, no panic, and the chunk it ends up in is ragged — what
    `parser_rect_logs` excludes for the decoders as they are -/
theorem ragged_call_counterexample :
    let env : Qryn.Ingest.Env := ⟨fun _ => 0, fun _ => 0, fun _ => false, 26, 14, 0⟩
    let bad : Call := ⟨[], [1], [[], []], [0], [2, 2]⟩
    ∃ chunks, sent env ([bad], true) = some chunks ∧ ∃ ch ∈ chunks, ¬ ch.spl.Rect := by
  refine ⟨_, rfl, _, List.mem_singleton.mpr rfl, ?_⟩
  intro h
  exact absurd h.2.1 (by decide)

/-- **parser_rect_spans.** Span parsers (Zipkin JSON, Zipkin NDJSON, OTLP): for every sequence of `onSpan` calls —
    any ids, any keys, any values, `val` shorter or longer than `key` — every flush test, a decode that ends well or
    not: every `SpansRequest` (nine columns) and `SpansAttrsRequest` (seven columns) put on the channel is rectangular.
    A span with fewer values than keys makes `onSpan` panic at `val[i]` with the columns of that row half appended —
    and then nothing more is sent (`spansSent` ends; `tamePanic` answers 500). -/
theorem parser_rect_spans (flush : Nat → Bool) (ptype : Int) (calls : List SpanArgs) (decodeOk : Bool) :
    ∀ p ∈ spansSent flush ptype {} calls decodeOk, p.1.Rect ∧ p.2.Rect :=
  spansSent_rect flush ptype calls decodeOk {} SpanSt.init_rect

/-- the state a fault in `onSpan` leaves behind IS ragged (key column one longer than the value column): that it is
    never sent is what keeps the shared batch whole -/
theorem span_fault_state_ragged :
    ∃ st, onSpanCols (fun _ => false) 1 {}
        ⟨List.replicate 16 0, List.replicate 8 0, 0, 0, [], [], [], [], [[1], [2]], [[3]]⟩ = .fault st ∧
      st.attrs.key.length = 2 ∧ st.attrs.val.length = 1 ∧
      spansSent (fun _ => false) 1 {}
        [⟨List.replicate 16 0, List.replicate 8 0, 0, 0, [], [], [], [], [[1], [2]], [[3]]⟩] true = [] :=
  ⟨_, rfl, rfl, rfl, rfl⟩

/-- **parser_rect_profiles.** Profile parsers (multipart and binary pprof): for every sequence of `onProfile` calls,
    every size test, a decode that ends well or not: every `ProfileRequest` put on the channel has its eight per-row
    columns of one length (the five array-valued fields are assigned whole). -/
theorem parser_rect_profiles (big : Qryn.ParserRect.ProfCols → Bool) (calls : List Qryn.ParserRect.ProfArgs) (decodeOk : Bool) :
    ∀ p ∈ profilesSent big {} calls decodeOk, p.Rect :=
  profilesSent_rect big calls decodeOk {} ⟨rfl, rfl, rfl, rfl, rfl, rfl, rfl⟩

/-- non-vacuity: a decode that fails after two streams has issued — and sent, with a flush test that always fires — both -/
example :
    (lokiProtoIssued (fun b => if b = [1] then [.ch 123, .ident [97], .ch 61, .str (some [98]), .ch 125] else [])
      [⟨[1], [⟨1, 2, [120]⟩]⟩, ⟨[1], []⟩, ⟨[2], []⟩]).2 = false ∧
    (lokiProtoIssued (fun b => if b = [1] then [.ch 123, .ident [97], .ch 61, .str (some [98]), .ch 125] else [])
      [⟨[1], [⟨1, 2, [120]⟩]⟩, ⟨[1], []⟩, ⟨[2], []⟩]).1.length = 2 := by decide

end ParserRect

end Qryn.C05
