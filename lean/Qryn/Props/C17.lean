import Qryn.Proofs.Cursor
import Qryn.Proofs.Assembly
import Qryn.Proofs.PromSelect
import Qryn.Proofs.ProfSelector
import Qryn.Proofs.Stepped
import Qryn.Proofs.Downsample
import Qryn.Proofs.PromLabels
import Qryn.Proofs.SeriesOrder
import Qryn.Proofs.LabelsFetch
/-! # C17 — Prometheus and Pyroscope label matchers select exactly the matching series

Property theorems only.

## Part 1 — the series cursor (`reader/model/prometheus.go`, `seriesIt.Next/Seek/At`)

Model: `Qryn.Read.Cursor.step` (the code after `fix: seriesIt.Seek …`), `after ss ops` = the state the
fresh iterator `(&model.Series{Samples: ss}).Iterator()` is in after the call sequence `ops`.
All statements quantify over **every** sample slice (also the empty one), **every** call sequence `ops`
made before, and every target `t`.

Hypothesis `Sorted ss`: timestamps ascending, equal neighbours allowed — what the raw-sample query delivers
(`ORDER BY fingerprint, samples.timestamp_ns`, `timestamp_ms = intDiv(timestamp_ns, 1000000)`). For equal
timestamps the statement is the strict one: `Seek t` lands on the *first* of the equal samples that is not
before the current position. -/
namespace Qryn.C17
open Qryn.Read.Cursor

/-- **seek_contract.** After any sequence of `Next`/`Seek`/`At` calls on the iterator of a sorted sample
    slice, `Seek t` (p = current position, 0 before the first advance):
    * does not fault and returns a boolean;
    * returns `true` exactly when a sample with timestamp ≥ t exists at or after p;
    * when `true`, the cursor is on the first such sample: index ≥ p, timestamp ≥ t, and every sample in
      between (from p on) is < t — nothing that was still unread and qualifies is skipped, and the cursor
      never moves backwards;
    * when `false`, the cursor is past the end (the iterator is exhausted). -/
theorem seek_contract (ss : List Sample) (hs : Sorted ss) (ops : List Op) (t : Int) :
    let it := after ss ops
    let p := it.idx.toNat
    let res := step it (.seek t)
    (∃ b, res.2 = .bool b) ∧
    (res.2 = .bool true ↔ ∃ j, p ≤ j ∧ j < ss.length ∧ t ≤ tsAt ss j) ∧
    (res.2 = .bool true → 0 ≤ res.1.idx ∧ FirstAtOrAfter ss p t res.1.idx.toNat) ∧
    (res.2 = .bool false → (ss.length : Int) ≤ res.1.idx) := by
  intro it p res
  have hsam : it.samples = ss := after_samples ss ops
  obtain ⟨r, hr, h1, h2, h3, h4⟩ := seek_spec it t (by rw [hsam]; exact hs)
  have hres : res = ({ it with idx := (r : Int) }, Out.bool (decide (r < ss.length))) := by
    rw [← hsam]; exact hr
  rw [hsam] at h2 h3 h4
  have hpr : p ≤ r := h1
  refine ⟨⟨_, by rw [hres]⟩, ?_, ?_, ?_⟩
  · rw [hres]
    constructor
    · intro h
      have hlt : r < ss.length := by simpa using h
      exact ⟨r, hpr, hlt, h3 r (Nat.le_refl _) hlt⟩
    · rintro ⟨j, hpj, hjl, htj⟩
      have : r < ss.length := by
        rcases Nat.lt_or_ge j r with hjr | hjr
        · have := h2 j hpj hjr; omega
        · omega
      simp [this]
  · rw [hres]
    intro h
    have hlt : r < ss.length := by simpa using h
    refine ⟨by simp, ?_⟩
    simp only [Int.toNat_natCast]
    exact ⟨hpr, hlt, h3 r (Nat.le_refl _) hlt, h2⟩
  · rw [hres]
    intro h
    have hge : ¬ r < ss.length := by simpa using h
    simp only
    omega

/-- **next_contract.** `Next` advances the cursor by exactly one sample and reports whether it stands on a
    sample; it never faults. -/
theorem next_contract (ss : List Sample) (ops : List Op) :
    let it := after ss ops
    step it .next = ({ it with idx := it.idx + 1 }, .bool (decide (it.idx + 1 < (ss.length : Int)))) := by
  intro it
  have hsam : it.samples = ss := after_samples ss ops
  simp [step, next, hsam]

/-- **advance_true_iff_on_sample.** After any call sequence, an advancing call (`Next` or `Seek t`) returns
    `true` exactly when it leaves the cursor on a sample (0 ≤ idx < len) — so `At` may be called precisely
    after a `true`. (Uses the invariant idx ≥ −1 proved by induction over the call sequence.) -/
theorem advance_true_iff_on_sample (ss : List Sample) (hs : Sorted ss) (ops : List Op) (op : Op)
    (hop : op ≠ .at) :
    let res := step (after ss ops) op
    res.2 = .bool true ↔ Valid res.1 := by
  intro res
  have hsam : (after ss ops).samples = ss := after_samples ss ops
  have hinv : Qryn.Read.Cursor.Inv (after ss ops) := after_inv ss ops hs
  cases op with
  | «at» => exact absurd rfl hop
  | next =>
    have : res = ({ after ss ops with idx := (after ss ops).idx + 1 },
        .bool (decide ((after ss ops).idx + 1 < (ss.length : Int)))) := next_contract ss ops
    rw [this]
    simp only [Valid, Qryn.Read.Cursor.Inv, hsam] at *
    simp
    omega
  | seek t =>
    obtain ⟨r, hr, _⟩ := seek_spec (after ss ops) t (by rw [hsam]; exact hs)
    have : res = _ := hr
    rw [this]
    simp only [Valid, hsam]
    simp

/-- **at_contract.** With the cursor on a sample, `At` returns exactly that sample (timestamp and value)
    and leaves the cursor where it is; with the cursor off the slice (before the first advance or after
    exhaustion — "unspecified" in the `chunkenc.Iterator` contract) the Go index expression panics. -/
theorem at_contract (ss : List Sample) (ops : List Op) :
    let it := after ss ops
    (Valid it → ∃ s, ss[it.idx.toNat]? = some s ∧ step it .at = (it, .sample s)) ∧
    (¬ Valid it → step it .at = (it, .fault)) := by
  intro it
  have hsam : it.samples = ss := after_samples ss ops
  constructor
  · rintro ⟨h0, h1⟩
    rw [hsam] at h1
    have hlt : it.idx.toNat < ss.length := by omega
    refine ⟨ss[it.idx.toNat], by simp [hlt], ?_⟩
    have hn : ¬ it.idx < 0 := by omega
    simp [step, at_, hn, hsam, hlt]
  · intro hv
    simp only [Valid, hsam] at hv
    simp only [step, at_]
    by_cases h0 : it.idx < 0
    · simp [h0]
    · have hge : ss.length ≤ it.idx.toNat := by omega
      simp [h0, hsam, List.getElem?_eq_none hge]

/-- **no_fault.** No sequence of `Next`/`Seek` calls — on any sorted slice, the empty one included — ever
    makes `Next` or `Seek` fault. -/
theorem no_fault (ss : List Sample) (hs : Sorted ss) (ops : List Op) (op : Op) (hop : op ≠ .at) :
    (step (after ss ops) op).2 ≠ .fault := by
  cases op with
  | «at» => exact absurd rfl hop
  | next => rw [next_contract]; simp
  | seek t =>
    obtain ⟨⟨b, hb⟩, _⟩ := seek_contract ss hs ops t
    intro h
    rw [hb] at h
    cases h

/-- **cursor_refines_reference.** For a sorted slice the binary-search `Seek` computes exactly the
    linear-scan lower bound `lowerBoundFrom` (first index ≥ current position with timestamp ≥ t, or
    max(position, length)); with it, every call sequence produces the outputs of the reference iterator. -/
theorem cursor_refines_reference (ss : List Sample) (hs : Sorted ss) (ops : List Op) (t : Int) :
    let it := after ss ops
    let lb := lowerBoundFrom ss it.idx.toNat t
    step it (.seek t) = ({ it with idx := (lb : Int) }, .bool (decide (lb < ss.length))) := by
  intro it lb
  have hsam : it.samples = ss := after_samples ss ops
  obtain ⟨r, hr, h1, h2, h3, h4⟩ := seek_spec it t (by rw [hsam]; exact hs)
  have hr : step it (.seek t) = ({ it with idx := (r : Int) }, Out.bool (decide (r < ss.length))) := by
    rw [← hsam]; exact hr
  rw [hsam] at h2 h3 h4
  obtain ⟨l1, l2, l3, l4⟩ := lowerBoundFrom_spec ss it.idx.toNat t
  have : r = lb := by
    show r = lowerBoundFrom ss it.idx.toNat t
    rcases Nat.lt_trichotomy r (lowerBoundFrom ss it.idx.toNat t) with hlt | heq | hgt
    · exfalso
      have a := l2 r h1 hlt
      rcases h4 with h | h
      · have := h3 r (Nat.le_refl _) h; omega
      · omega
    · exact heq
    · exfalso
      have a := h2 _ l1 hgt
      by_cases hl : lowerBoundFrom ss it.idx.toNat t < ss.length
      · have := l3 hl; omega
      · omega
  rw [← this]
  exact hr

/-- **never_backwards.** Along every call sequence the cursor index never decreases. -/
theorem never_backwards (ss : List Sample) (hs : Sorted ss) (ops₁ ops₂ : List Op) :
    (after ss ops₁).idx ≤ (after ss (ops₁ ++ ops₂)).idx := by
  have h := run_append (init ss) ops₁ ops₂
  have : after ss (ops₁ ++ ops₂) = (run (after ss ops₁) ops₂).1 := by simp [after, h]
  rw [this]
  exact (run_inv (after ss ops₁) ops₂ (by rw [after_samples]; exact hs) (after_inv ss ops₁ hs)).2

/-- **exhaustion_sticky.** Once an advancing call has returned `false`, every later advancing call returns
    `false` too ("the iterator is exhausted when Seek returns false"). -/
theorem exhaustion_sticky (ss : List Sample) (hs : Sorted ss) (ops₁ : List Op) (op : Op) (ops₂ : List Op)
    (op₂ : Op) (hop : op ≠ .at) (hop₂ : op₂ ≠ .at)
    (hfalse : (step (after ss ops₁) op).2 = .bool false) :
    (step (after ss (ops₁ ++ op :: ops₂)) op₂).2 = .bool false := by
  -- after the false advance the index is ≥ len
  have hsam₁ : (after ss ops₁).samples = ss := after_samples ss ops₁
  have hend : (ss.length : Int) ≤ (after ss (ops₁ ++ [op])).idx := by
    have h := run_append (init ss) ops₁ [op]
    have e : after ss (ops₁ ++ [op]) = (step (after ss ops₁) op).1 := by simp [after, h, run]
    rw [e]
    cases op with
    | «at» => exact absurd rfl hop
    | next =>
      rw [next_contract] at hfalse ⊢
      simp at hfalse
      simp only
      omega
    | seek t => exact (seek_contract ss hs ops₁ t).2.2.2 hfalse
  have hmono := never_backwards ss hs (ops₁ ++ [op]) ops₂
  have e : ops₁ ++ [op] ++ ops₂ = ops₁ ++ op :: ops₂ := by simp
  rw [e] at hmono
  have hge : (ss.length : Int) ≤ (after ss (ops₁ ++ op :: ops₂)).idx := Int.le_trans hend hmono
  cases op₂ with
  | «at» => exact absurd rfl hop₂
  | next =>
    rw [next_contract]
    simp
    omega
  | seek t =>
    obtain ⟨⟨b, hb⟩, hiff, _, _⟩ := seek_contract ss hs (ops₁ ++ op :: ops₂) t
    cases b with
    | false => exact hb
    | true =>
      obtain ⟨j, hj, hjl, _⟩ := hiff.mp hb
      omega

/-! ### non-vacuity and concrete runs of the repaired code -/

example : Sorted [⟨1, 10⟩, ⟨3, 11⟩, ⟨3, 12⟩, ⟨7, 13⟩] := by
  intro i j hij hj
  simp only [List.length_cons, List.length_nil] at hj
  have : j = 0 ∨ j = 1 ∨ j = 2 ∨ j = 3 := by omega
  have : i = 0 ∨ i = 1 ∨ i = 2 ∨ i = 3 := by omega
  rcases ‹j = 0 ∨ _› with rfl | rfl | rfl | rfl <;> rcases ‹i = 0 ∨ _› with rfl | rfl | rfl | rfl <;>
    first | omega | decide
example : Sorted [] := by intro i j _ hj; simp at hj

example : (run (init [⟨1, 10⟩, ⟨3, 11⟩, ⟨5, 12⟩, ⟨7, 13⟩]) [.seek 4, .at, .seek 2, .at, .seek 8, .next]).2
    = [.bool true, .sample ⟨5, 12⟩, .bool true, .sample ⟨5, 12⟩, .bool false, .bool false] := by decide
example : (run (init []) [.seek 4, .next, .seek (-1)]).2 = [.bool false, .bool false, .bool false] := by decide
-- equal timestamps: the first of the equal samples not before the cursor
example : (run (init [⟨1, 10⟩, ⟨3, 11⟩, ⟨3, 12⟩, ⟨3, 13⟩, ⟨7, 14⟩]) [.seek 3, .at, .next, .seek 3, .at]).2
    = [.bool true, .sample ⟨3, 11⟩, .bool true, .bool true, .sample ⟨3, 12⟩] := by decide

/-! ### the code as it was written (candidate A32) violates the contract — kernel-checked witnesses -/

/-- lands on the last probe: samples 1,3,5,7, `Seek(4)` ends on 3 (< 4) -/
theorem seek_as_written_lands_before_target :
    (runW (init [⟨1, 10⟩, ⟨3, 11⟩, ⟨5, 12⟩, ⟨7, 13⟩]) [.seek 4, .at]).2 = [.bool true, .sample ⟨3, 11⟩] := by
  decide

/-- reports a sample although none is ≥ 8 -/
theorem seek_as_written_true_past_end :
    (runW (init [⟨1, 10⟩, ⟨3, 11⟩, ⟨5, 12⟩, ⟨7, 13⟩]) [.seek 8, .at]).2 = [.bool true, .sample ⟨7, 13⟩] := by
  decide

/-- `s.samples[0]` on an empty slice: index out of range -/
theorem seek_as_written_faults_on_empty : (runW (init []) [.seek 0]).2 = [.fault] := by decide

/-- moves backwards: after three `Next` (on 5) `Seek(0)` returns to the first sample -/
theorem seek_as_written_moves_backwards :
    (runW (init [⟨1, 10⟩, ⟨3, 11⟩, ⟨5, 12⟩, ⟨7, 13⟩]) [.next, .next, .next, .seek 0, .at]).2
      = [.bool true, .bool true, .bool true, .bool true, .sample ⟨1, 10⟩] := by decide

/-! ## Part 2 — series assembly (`reader/service/promQueryable.go`, the row loop of `CLokiQuerier.Select`)

Model: `Qryn.Read.Assembly.assemble` (one `step` per scanned row). Hypothesis `Grouped rows`: fingerprints
ascending — the `ORDER BY fingerprint ASC, …` of the sample query; `SortedRows rows` adds "timestamps
ascending inside one fingerprint". -/
section Assembly
open Qryn.Read.Assembly

/-- **assembly_preserves_rows.** For *every* row list (no order assumed) the loop does not fault, never
    makes an empty series, and the series laid end to end — each sample under the fingerprint of the series
    it was put in — are exactly the scanned rows, in scan order: every row appears exactly once, in a series
    of its own fingerprint, and no sample is invented or reordered. -/
theorem assembly_preserves_rows (rows : List Row) :
    ∃ res, assemble rows = some res ∧ flat res = rows ∧ ∀ s ∈ res, s.samples ≠ [] := by
  obtain ⟨st', h, hg, hf, _⟩ := scan_spec rows ⟨[], 0⟩ ⟨by intro s h; simp at h, by intro s h; simp at h⟩
  exact ⟨st'.series, by simp [assemble, h], by simpa [flat] using hf, hg.nonempty⟩

/-- **series_assembly.** When the rows arrive with ascending fingerprints, the loop yields, without
    faulting: series with strictly ascending — hence pairwise distinct — fingerprints (each fingerprint
    yields exactly one series); exactly the fingerprints that occur in the rows; and each series holds
    exactly the rows of its own fingerprint, in their order of arrival. -/
theorem series_assembly (rows : List Row) (hs : Grouped rows) :
    ∃ res, assemble rows = some res ∧
      (res.map (·.fp)).Pairwise (· < ·) ∧
      (∀ f, f ∈ res.map (·.fp) ↔ f ∈ rows.map (·.fp)) ∧
      (∀ s ∈ res, s.samples = (rows.filter (fun r => r.fp == s.fp)).map sampleOf) := by
  obtain ⟨st', h, hg, hf, hstrict⟩ :=
    scan_spec rows ⟨[], 0⟩ ⟨by intro s h; simp at h, by intro s h; simp at h⟩
  have hflat : flat st'.series = rows := by simpa [flat] using hf
  have hst : StrictFps st'.series := hstrict (by simpa [flat] using hs) (by simp [StrictFps])
  have hnd : (st'.series.map (·.fp)).Nodup :=
    List.Pairwise.imp (fun {a b} (h : a < b) => Nat.ne_of_lt h) hst
  refine ⟨st'.series, by simp [assemble, h], hst, ?_, ?_⟩
  · intro f
    constructor
    · intro hf'
      obtain ⟨s, hs', rfl⟩ := List.mem_map.mp hf'
      obtain ⟨r, hr, hrf⟩ := mem_flat_of_mem hs' (hg.nonempty s hs')
      rw [hflat] at hr
      exact List.mem_map.mpr ⟨r, hr, hrf⟩
    · intro hf'
      obtain ⟨r, hr, rfl⟩ := List.mem_map.mp hf'
      rw [← hflat] at hr
      simp only [flat, List.mem_flatMap, rowsOf, List.mem_map] at hr
      obtain ⟨s, hs', x, _, rfl⟩ := hr
      exact List.mem_map.mpr ⟨s, hs', rfl⟩
  · intro s hs'
    have := flatMap_select st'.series s.fp hnd s hs' rfl
    rw [← hflat]
    simp only [flat, List.filter_flatMap]
    rw [this, rowsOf_map_sampleOf]

/-- **series_samples_sorted_in_range.** With rows ordered by (fingerprint, timestamp) every assembled series
    has ascending timestamps — the hypothesis `Sorted` of the cursor theorems, so `seek_contract` applies to
    every series `Select` hands out — and if all rows lie in `[lo, hi]` so do all samples of all series. -/
theorem series_samples_sorted_in_range (rows : List Row) (hs : SortedRows rows) (lo hi : Int)
    (hr : ∀ r ∈ rows, lo ≤ r.ts ∧ r.ts ≤ hi) :
    ∃ res, assemble rows = some res ∧
      (∀ s ∈ res, Sorted s.samples) ∧ (∀ s ∈ res, ∀ x ∈ s.samples, lo ≤ x.ts ∧ x.ts ≤ hi) := by
  obtain ⟨res, hres, _, _, hsam⟩ := series_assembly rows hs.grouped
  refine ⟨res, hres, ?_, ?_⟩
  · intro s hs'
    rw [hsam s hs']
    apply sorted_of_pairwise
    rw [List.pairwise_map]
    have hsub : (rows.filter (fun r => r.fp == s.fp)).Pairwise RowLe :=
      List.Pairwise.sublist List.filter_sublist hs
    have hall : ∀ r ∈ rows.filter (fun r => r.fp == s.fp), r.fp = s.fp := by
      intro r hr'; simpa using (List.mem_filter.mp hr').2
    clear hsam
    generalize rows.filter (fun r => r.fp == s.fp) = l at hsub hall
    induction hsub with
    | nil => exact List.Pairwise.nil
    | cons hab _ ih =>
      refine List.Pairwise.cons ?_ (ih (fun r hr' => hall r (List.mem_cons_of_mem _ hr')))
      intro b hb
      have h1 := hall _ List.mem_cons_self
      have h2 := hall b (List.mem_cons_of_mem _ hb)
      rcases hab b hb with h | ⟨_, h⟩
      · omega
      · exact h
  · intro s hs' x hx
    rw [hsam s hs'] at hx
    obtain ⟨r, hr', rfl⟩ := List.mem_map.mp hx
    exact hr r (List.mem_filter.mp hr').1


/-- **reshuffle_once.** `ReshuffleSeries` (after `fix: a label set stored under two fingerprints …`), `key fp` =
    the label set of fingerprint `fp`: for every series list, the result carries pairwise distinct label sets
    (each label set is handed to the engine once); for every label set the samples handed out under it are
    exactly the samples the input held under it (a permutation: nothing lost, nothing handed twice); and if
    every input series is ascending so is every output series (merged ones are re-sorted), so the cursor
    theorems apply to them. -/
theorem reshuffle_once {K : Type} [DecidableEq K] (key : Nat → K) (ss : List Series) :
    ((reshuffle key ss).map (fun s => key s.fp)).Nodup ∧
    (∀ k, (samplesOfKey key k (reshuffle key ss)).Perm (samplesOfKey key k ss)) ∧
    ((∀ s ∈ ss, Sorted s.samples ∧ TsSorted s.samples) → ∀ s ∈ reshuffle key ss, Sorted s.samples) := by
  obtain ⟨h1, h2, h3⟩ := foldl_mergeInto_spec key ss [] (by simp)
  refine ⟨h1, ?_, ?_⟩
  · intro k
    have := h2 k
    simpa [samplesOfKey, reshuffle] using this
  · intro hs s hmem
    exact sorted_of_pairwise (h3 (by intro s h; cases h) (fun s h => (hs s h).2) s hmem)

/-- **reshuffle_distinct_id.** When the label sets are already distinct — fingerprints identify label sets, the
    normal case — `ReshuffleSeries` returns the series unchanged. -/
theorem reshuffle_distinct_id {K : Type} [DecidableEq K] (key : Nat → K) (ss : List Series)
    (hnd : (ss.map (fun s => key s.fp)).Nodup) : reshuffle key ss = ss := by
  have := foldl_mergeInto_id key ss [] (by simpa using hnd)
  simpa [reshuffle] using this

/-- the grouping depends on the order: with rows *not* ordered by fingerprint the same loop makes two series
    for fingerprint 1 (kernel-checked) — `Grouped` is a real hypothesis, supplied by `ORDER BY fingerprint` -/
theorem assembly_needs_fingerprint_order :
    (assemble [⟨1, 10, 1⟩, ⟨2, 20, 1⟩, ⟨1, 11, 2⟩]).map (·.map (·.fp)) = some [1, 2, 1] := by decide

-- non-vacuity
example : SortedRows [⟨1, 10, 1⟩, ⟨1, 11, 1⟩, ⟨1, 12, 5⟩, ⟨4, 20, 0⟩] := by
  unfold SortedRows RowLe; decide
example : assemble [⟨1, 10, 1⟩, ⟨1, 11, 1⟩, ⟨1, 12, 5⟩, ⟨4, 20, 0⟩]
    = some [⟨1, [⟨1, 10⟩, ⟨1, 11⟩, ⟨5, 12⟩]⟩, ⟨4, [⟨0, 20⟩]⟩] := by decide
example : assemble [] = some [] := by decide

end Assembly

/-! ## Part 3 — matcher selection (`fingerprintsQuery`, `StreamSelectPlanner.Process`, `SqlBitSetAnd`,
    `InitClickhousePlanner.Process`)

Model: `Qryn.Prom.fingerprintsQuery` — the `fp_sel` sub-query as a structure whose SQL text (`FpQuery.render`)
is compared byte for byte with what `TranspileLabelMatchers` emits, and whose meaning (`FpQuery.eval`) is
ClickHouse's: WHERE keeps index rows of the day range and type that satisfy some condition, GROUP BY
fingerprint, HAVING `groupBitOr(Σ bitShiftLeft(toUInt64(condᵢ), i)) == 2ⁿ−1`. The operator tables, the
width of the shifted operand, the anchoring of regular expressions and the scan bounds are `Gen.PromSelect`,
regenerated from the Go sources on every run. `search pat s` = ClickHouse `match(s, pat)` (a parameter). -/
section Selection
open Qryn Qryn.Prom

/-- **select_exact.** For every list of at most 63 matchers (Go keeps the required bits in an `int64`), every label index
    and every fingerprint: the fingerprint is in the result of the generated query exactly when (i) it has an index row
    of the admitted dates and type, (ii) **for every matcher that rejects the empty value it has such a row satisfying
    the matcher**, and (iii) **for every matcher that accepts the empty value none of its admitted rows with the
    matcher's label violates it** — matcher `=`/`!=` compare the value, `=~`/`!~` apply `match` to the anchored pattern;
    `full` is the regular-expression engine `_matcher.Matches("")` consults. No `NotSupportedError` for any of the four
    match types. -/
theorem select_exact (search full : Bytes → Bytes → Bool) (table : String) (fromDate : Bytes) (tp : Int)
    (ms : List Matcher) (h63 : ms.length ≤ 63) (tbl : List IdxRow) (f : Nat) :
    ∃ q, fingerprintsQuery full table fromDate tp ms = some q ∧
      (f ∈ q.eval search Gen.PromSelect.shiftWidth tbl ↔ Selected search full fromDate tp ms tbl f) :=
  fpQuery_correct search full _ table fromDate tp ms
    (Nat.le_trans h63 (by decide : 63 ≤ Gen.PromSelect.shiftWidth)) h63 tbl f

/-- **select_matches_prometheus** (the property's first sentence for PromQL, at full strength: the matcher SQL is exact).
    For every matcher list (also the empty one, also matchers that accept the empty value: `{job!="x"}`, `{job=~".*"}`,
    `{job=""}`, `{job!~"x"}`), every database in which fingerprints identify series and label names are unique within a
    series, and every fingerprint: the generated index query selects the fingerprint exactly when it is a stored series
    of the admitted dates and type **whose label set satisfies every matcher in Prometheus' sense** — an absent label has
    the empty value; `full pat s` = s matches `^(?:pat)$`. `hanch` (about RE2, not about qryn): ClickHouse `match` on the
    anchored pattern is that full match. `hrow`: the series can be found in the label index at all — some matcher rejects
    the empty value (the PromQL parser demands one in every selector) or every stored series carries a label (Prometheus
    stores no series with an empty label set).
    After `fix: a PromQL matcher that accepts the empty value …` (recorded finding `C17/select-matcher-on-absent-label`
    of the pinned tree: `Gen.PromSelect.absentLabel = "row-required"` makes this proof fail). -/
theorem select_matches_prometheus (search full : Bytes → Bytes → Bool)
    (hanch : ∀ p s, search (anchor p) s = full p s)
    (table : String) (fromDate : Bytes) (tp : Int) (ms : List Matcher) (h63 : ms.length ≤ 63)
    (db : List Stored) (wf : WellFormed db)
    (hrow : (∃ m ∈ ms, opHolds full m.type [] m.val = false) ∨ (∀ s ∈ db, s.labels ≠ [])) (f : Nat) :
    ∃ q, fingerprintsQuery full table fromDate tp ms = some q ∧
      (f ∈ q.eval search Gen.PromSelect.shiftWidth (indexRows db) ↔
        ∃ s ∈ db, s.fp = f ∧ admissibleS fromDate tp s = true ∧ promMatches full ms s = true) := by
  obtain ⟨q, hq, hiff⟩ := select_exact search full table fromDate tp ms h63 (indexRows db) f
  exact ⟨q, hq, hiff.trans (selected_iff_prom search full hanch fromDate tp ms db wf hrow f)⟩

/-- **select_absent_label_witness.** The witness of the former finding, kernel-checked on the model of the fixed code:
    `{__name__="up", job!="x"}` over the series 7 = `{__name__="up"}` and 9 = `{__name__="up", job="x"}` selects 7 (no
    `job` label, "" ≠ "x") and not 9; the query keeps the rows that decide a bit (`job="x"` is the inverted matcher) and
    asks for the bit set 01. -/
theorem select_absent_label_witness :
    (fingerprintsQuery (fun _ _ => false) "time_series_gin" [50] 2
      [⟨[95, 95, 110, 97, 109, 101, 95, 95], .eq, [117, 112]⟩, ⟨[106, 111, 98], .ne, [120]⟩]).map (fun q =>
        (q.required, q.eval (fun _ _ => false) 64 (indexRows
          [⟨7, [([95, 95, 110, 97, 109, 101, 95, 95], [117, 112])], [50], 2⟩,
           ⟨9, [([95, 95, 110, 97, 109, 101, 95, 95], [117, 112]), ([106, 111, 98], [120])], [50], 2⟩])))
      = some ([true, false], [7]) := by
  decide

/-- with every matcher accepting the empty value there is neither the OR in WHERE nor a required bit: `{job!="x"}` alone
    selects the series without `job` (kernel-checked) -/
theorem select_only_optional_witness :
    (fingerprintsQuery (fun _ _ => false) "t" [50] 2 [⟨[106, 111, 98], .ne, [120]⟩]).map (fun q =>
        (q.useOr, q.eval (fun _ _ => false) 64 (indexRows
          [⟨7, [([97], [49])], [50], 2⟩, ⟨9, [([97], [49]), ([106, 111, 98], [120])], [50], 2⟩])))
      = some (false, [7]) := by
  decide

/-- **scan_window.** The raw-sample scan keeps exactly the samples with `from ≤ timestamp_ns ≤ to`
    (both ends inclusive, after `fix: raw PromQL sample scan …`; `Gen.PromSelect.scanLower/Upper`). -/
theorem scan_window (fromNs toNs ts : Int) :
    scanHolds fromNs toNs ts = true ↔ fromNs ≤ ts ∧ ts ≤ toNs := scanHolds_iff fromNs toNs ts

/-- **scan_window_ms.** In the milliseconds the engine sees (`From = Start·10⁶`, `To = End·10⁶`,
    `timestamp_ms = intDiv(timestamp_ns, 10⁶)`): every returned sample lies in `[Start, End]`, and every
    stored sample with a whole-millisecond timestamp in `[Start, End]` is returned — also the one exactly
    at `Start` (candidate A33). -/
theorem scan_window_ms (startMs endMs : Int) :
    (∀ ns, scanHolds (startMs * 1000000) (endMs * 1000000) ns = true →
        startMs ≤ ns / 1000000 ∧ ns / 1000000 ≤ endMs) ∧
    (∀ ms, startMs ≤ ms → ms ≤ endMs → scanHolds (startMs * 1000000) (endMs * 1000000) (ms * 1000000) = true) := by
  constructor
  · intro ns h
    have := (scan_window _ _ _).mp h
    omega
  · intro ms h1 h2
    apply (scan_window _ _ _).mpr
    omega

/-- with a `UInt8` operand (the code as it was written: `bitShiftLeft(cond, i)` on a comparison) nine
    conditions that all hold never reach `2⁹−1` — kernel-checked (candidate A13) -/
theorem shift_as_written_loses_ninth_matcher :
    Bits.groupOrW 8 [[true, true, true, true, true, true, true, true, true]] = 255 ∧
    Bits.groupOrW 64 [[true, true, true, true, true, true, true, true, true]] = 2 ^ 9 - 1 := by decide

-- non-vacuity of the hypotheses of `select_matches_prometheus`
example : ∃ full : Bytes → Bytes → Bool, ∃ search : Bytes → Bytes → Bool, (∀ p s, search (anchor p) s = full p s) ∧
    opHolds full .eq [] [117, 112] = false :=
  ⟨fun _ _ => true, fun _ _ => true, fun _ _ => rfl, by decide⟩
example : WellFormed [⟨7, [([97], [49]), ([98], [50])], [50], 2⟩, ⟨9, [([97], [49])], [50], 2⟩] :=
  ⟨by decide, by decide⟩

end Selection

/-! ## Part 4 — the Pyroscope selector (`reader/prof/transpiler/planner_selector.go`)

Model: `Qryn.Prof.plan` (= `getMatchers` + `Process`), `PQuery.eval` over rows of `profiles_series_gin`;
pseudo-label table and operator table are `Gen.ProfSelect`. -/
section ProfSelector
open Qryn Qryn.Prof

/-- **prof_selector_exact.** For every selector list with at most 63 key/value selectors, every index table
    and fingerprint: no "unknown operator" error, and the fingerprint is selected exactly when
    (i) it has an index row inside the date range on which **every pseudo-label selector holds**
    (`__name__`/`__period_type__`/`__period_unit__` on the parts of `type_id`, `service_name` on its column,
    `__sample_type__`/`__sample_unit__`/`__profile_type__` on *some* element of `sample_types_units`);
    (ii) **for every key/value selector that rejects the empty value it has such a row whose (key, val) satisfies it**;
    (iii) **for every key/value selector that accepts the empty value none of its such rows with the selector's key
    violates it**. `gre` = Go's `regexp` asked by `acceptsEmpty` whether the anchored pattern matches "". -/
theorem prof_selector_exact (re gre : Bytes → Bytes → Bool) (table : String) (fromDate toDate : Bytes)
    (sels : List Selector) (h63 : (sels.filter (fun s => !isGlobal s)).length ≤ 63)
    (tbl : List PRow) (f : Nat) :
    ∃ q, plan gre table fromDate toDate sels = some q ∧
      (f ∈ q.eval re Gen.PromSelect.shiftWidth tbl ↔ Prof.Selected re gre fromDate toDate sels tbl f) :=
  plan_correct re gre _ table fromDate toDate sels
    (Nat.le_trans h63 (by decide : 63 ≤ Gen.PromSelect.shiftWidth)) h63 tbl f

/-- **prof_selector_matches_labels** (the property's first sentence for Pyroscope, at full strength). For every selector
    list, every database of profile series in which fingerprints identify series, label names are unique within a series
    and every series carries a label (one `profiles_series_gin` row per label, each with the series columns), and every
    fingerprint: the selector query selects the fingerprint exactly when it is a stored series inside the date range
    **whose pseudo-labels and label set satisfy every selector** — a label the series does not have has the empty value
    (`{region!="x"}`, `{region=~".*"}`, `{region=""}`, `{region!~"x"}` select the series without `region`). `hemp`: Go's
    `regexp` and ClickHouse `match` agree on whether an (anchored) pattern matches the empty string.
    After `fix: a Pyroscope selector that accepts the empty value …` (recorded finding `C17/prof-matcher-on-absent-label`
    of the pinned tree: `Gen.ProfSelect.absentLabel = "row-required"` makes this proof fail). -/
theorem prof_selector_matches_labels (re gre : Bytes → Bytes → Bool) (hemp : ∀ p, gre p [] = re p [])
    (table : String) (fromDate toDate : Bytes) (sels : List Selector)
    (h63 : (sels.filter (fun s => !isGlobal s)).length ≤ 63) (db : List PStored) (wf : PWellFormed db) (f : Nat) :
    ∃ q, plan gre table fromDate toDate sels = some q ∧
      (f ∈ q.eval re Gen.PromSelect.shiftWidth (pIndexRows db) ↔
        ∃ s ∈ db, s.fp = f ∧ dateOkS fromDate toDate s = true ∧ profMatches re sels s) := by
  obtain ⟨q, hq, hiff⟩ := prof_selector_exact re gre table fromDate toDate sels h63 (pIndexRows db) f
  exact ⟨q, hq, hiff.trans (selected_iff_labels re gre hemp fromDate toDate sels db wf f)⟩

/-- **prof_pseudo_label_meaning.** What each pseudo-label selector means on an index row, spelled out:
    `type_id` is `name:period_type:period_unit` (ctrl/qryn/sql/profiles.sql), `sample_types_units` the list of
    (sample type, sample unit); `__profile_type__` is Pyroscope's `name:sample_type:sample_unit:period_type:period_unit`.
    (Pins the field each case of the `switch selector.Name` applies its matcher to: `Gen.ProfSelect.pseudoLabels`.) -/
theorem prof_pseudo_label_meaning (re : Bytes → Bytes → Bool) (op : Prof.Op) (v0 : Bytes) (r : PRow) :
    let v := selVal ⟨[], op, v0⟩
    (selHolds re ⟨[95, 95, 110, 97, 109, 101, 95, 95], op, v0⟩ r = opHoldsP re op (typePart r 1) v) ∧
    (selHolds re ⟨[95, 95, 112, 101, 114, 105, 111, 100, 95, 116, 121, 112, 101, 95, 95], op, v0⟩ r = opHoldsP re op (typePart r 2) v) ∧
    (selHolds re ⟨[95, 95, 112, 101, 114, 105, 111, 100, 95, 117, 110, 105, 116, 95, 95], op, v0⟩ r = opHoldsP re op (typePart r 3) v) ∧
    (selHolds re ⟨[95, 95, 115, 97, 109, 112, 108, 101, 95, 116, 121, 112, 101, 95, 95], op, v0⟩ r = r.stu.any (fun x => opHoldsP re op x.1 v)) ∧
    (selHolds re ⟨[95, 95, 115, 97, 109, 112, 108, 101, 95, 117, 110, 105, 116, 95, 95], op, v0⟩ r = r.stu.any (fun x => opHoldsP re op x.2 v)) ∧
    (selHolds re ⟨[95, 95, 112, 114, 111, 102, 105, 108, 101, 95, 116, 121, 112, 101, 95, 95], op, v0⟩ r = r.stu.any (fun x => opHoldsP re op (typePart r 1 ++ [58] ++ x.1 ++ [58] ++ x.2 ++ [58] ++ typePart r 2 ++ [58] ++ typePart r 3) v)) ∧
    (selHolds re ⟨[115, 101, 114, 118, 105, 99, 101, 95, 110, 97, 109, 101], op, v0⟩ r = opHoldsP re op r.serviceName v) := by
  intro v
  refine ⟨?_, ?_, ?_, ?_, ?_, ?_, ?_⟩ <;>
    simp [v, selVal, selHolds, pseudoOf, nameStr, Gen.ProfSelect.pseudoLabels, List.lookup, fieldSem]

/-- any other name is a key/value selector: the row's key is the name and its value satisfies the operator -/
theorem prof_key_value_meaning (re : Bytes → Bytes → Bool) (s : Selector) (h : isGlobal s = false) (r : PRow) :
    selHolds re s r = (r.key == s.name && opHoldsP re s.op r.val (selVal s)) := by
  have : pseudoOf s.name = none := by
    cases hp : pseudoOf s.name with
    | none => rfl
    | some p => simp [isGlobal, hp] at h
  simp [selHolds, this]

/-- **prof_regex_anchored.** The value a selector is compared with (`selVal`, used by the two theorems above): for `=`
    and `!=` the selector's value, for `=~` and `!~` the pattern wrapped as `^(?:` … `)$` — with ClickHouse `match`
    a search, the regular expression has to match the whole value, as Pyroscope's (Prometheus') label matchers do
    (after `fix: Pyroscope selector regular expressions …`; `Gen.ProfSelect.anchoredOps`). -/
theorem prof_regex_anchored (n v : Bytes) :
    selVal ⟨n, .eq, v⟩ = v ∧ selVal ⟨n, .ne, v⟩ = v ∧
    selVal ⟨n, .re, v⟩ = [94, 40, 63, 58] ++ v ++ [41, 36] ∧ selVal ⟨n, .nre, v⟩ = [94, 40, 63, 58] ++ v ++ [41, 36] := by
  refine ⟨?_, ?_, ?_, ?_⟩ <;>
    simp [selVal, Prof.Op.str, Gen.ProfSelect.anchoredOps, Gen.ProfSelect.valuePrefix, Gen.ProfSelect.valueSuffix,
      Prom.ascii] <;> decide

/-- **prof_absent_label_witness.** The witness of the former finding, kernel-checked on the model of the fixed code:
    `{region!="x"}` over the profile series 5 (only label `env="p"`) and 6 (`region="x"`), inside the date range: series 5
    is selected (no `region` label, "" ≠ "x"), series 6 is not; the clause is the inverted selector (`region="x"`), no bit
    is required and there is no OR in WHERE. (region = [114,101,103,105,111,110], env = [101,110,118].) -/
theorem prof_absent_label_witness :
    (plan (fun _ _ => false) "t" [49] [51] [⟨[114, 101, 103, 105, 111, 110], .ne, [120]⟩]).map (fun q =>
      (q.kvRequired, q.useOr, q.eval (fun _ _ => false) 64
        [⟨[50], [101, 110, 118], [112], [99, 112, 117], [], [], 5⟩,
         ⟨[50], [114, 101, 103, 105, 111, 110], [120], [99, 112, 117], [], [], 6⟩])) = some ([false], false, [5]) := by
  decide

example : PWellFormed [⟨5, [([101, 110, 118], [112])], [50], [99, 112, 117], [], []⟩] :=
  ⟨by decide, by decide, by decide⟩

-- non-vacuity / a concrete run: {__name__="cpu", __sample_type__=~"s", job="a"}
-- type_id = "cpu:p:u" = [99,112,117,58,112,58,117]
example : ((plan (fun _ _ => true) "t" [49] [51] [⟨[95, 95, 110, 97, 109, 101, 95, 95], .eq, [99, 112, 117]⟩,
      ⟨[106, 111, 98], .eq, [97]⟩]).map (fun q =>
        q.eval (fun _ _ => true) 64
          [⟨[50], [106, 111, 98], [97], [99, 112, 117, 58, 112, 58, 117], [], [], 5⟩,
           ⟨[50], [106, 111, 98], [98], [99, 112, 117, 58, 112, 58, 117], [], [], 6⟩,
           ⟨[50], [106, 111, 98], [97], [120, 58, 112, 58, 117], [], [], 7⟩])) = some [5] := by decide

end ProfSelector

/-! ## Part 5 — the stepped sample path (`processHints`, reader/promql/transpiler/transpiler.go)

Model: `Qryn.Prom.Stepped.run h rows` = what the sample query returns when the raw scan (Part 3) delivers `rows`
(`fingerprint, value, timestamp_ms` of the selected series inside `[Start, End]`, ordered by fingerprint and time)
and `TranspileLabelMatchers` applies `processHints` because `hints.Step != 0` (a range query). The function tables,
the shape of the range filter and the routing constants are `Gen.PromStep`, regenerated from the Go sources on
every run. `IsLatest l lo hi s` = the engine's instant-vector selection (pinned Prometheus,
`vectorSelectorSingle`): `s` is the latest sample of `l` inside `[lo, hi]`, `hi` the evaluation time,
`lo = hi − lookbackDelta`. -/
section Stepped
open Qryn Qryn.Prom.Stepped Qryn.Read.Assembly

/-- **stepped_bucket_rows.** The per-step aggregation (Func `""` or an instant-vector function, an instant selector, a step
    that divides the lookback delta; after `fix: a stepped range query hands the engine the last sample of every step bucket
    with its own time …`), for every list of raw rows inside `[Start, End]` and every step > 0:
    * the rows come back ordered by fingerprint and, inside a fingerprint, **strictly** ascending in time —
      at most one row per (series, step bucket);
    * every row **is a row of the raw scan** — a stored sample of that series inside the requested range, with its own
      time and value — and it is the **last** stored sample of its bucket (no raw row of the series in the same bucket
      is later);
    * every bucket that holds a raw row of a series yields the last row of that bucket. -/
theorem stepped_bucket_rows (start stop step : Int) (hs : 0 < step) (rows : List Row)
    (hin : ∀ r ∈ rows, start ≤ r.ts ∧ r.ts ≤ stop) :
    (bucketLast start step rows).Pairwise RowLt ∧
    (∀ o ∈ bucketLast start step rows, o ∈ rows ∧ start ≤ o.ts ∧ o.ts ≤ stop ∧
        ∀ x ∈ rows, x.fp = o.fp → bucketEnd start step x.ts = bucketEnd start step o.ts → x.ts ≤ o.ts) ∧
    (∀ r ∈ rows, ∃ o ∈ bucketLast start step rows, o.fp = r.fp ∧
        bucketEnd start step o.ts = bucketEnd start step r.ts ∧ r.ts ≤ o.ts) := by
  refine ⟨bucketLast_pairwise start step hs rows (fun r hr => (hin r hr).1), ?_, bucketLast_complete start step rows⟩
  intro o ho
  obtain ⟨h1, h2⟩ := bucketLast_sound start step rows o ho
  exact ⟨h1, (hin o h1).1, (hin o h1).2, h2⟩

/-- the same for the aggregation as it was written (every step, the row re-timed to the end of its bucket): it carries
    the value of the last raw row of its bucket and a time `r.ts ≤ time < r.ts + Step` on the grid `Start + k·Step` — past
    the sample's own time, possibly past `End` -/
theorem stepped_bucket_rows_as_written (start stop step : Int) (hs : 0 < step) (rows : List Row)
    (hin : ∀ r ∈ rows, start ≤ r.ts ∧ r.ts ≤ stop) :
    (bucket start step rows).Pairwise RowLt ∧
    (∀ o ∈ bucket start step rows, ∃ r ∈ rows, r.fp = o.fp ∧ r.val = o.val ∧ start ≤ r.ts ∧ r.ts ≤ stop ∧
        o.ts = bucketEnd start step r.ts ∧ r.ts ≤ o.ts ∧ o.ts < r.ts + step ∧
        (∃ k : Int, 0 ≤ k ∧ o.ts = start + k * step) ∧
        ∀ x ∈ rows, x.fp = o.fp → bucketEnd start step x.ts = o.ts → x.ts ≤ r.ts) ∧
    (∀ r ∈ rows, ∃ o ∈ bucket start step rows, o.fp = r.fp ∧ o.ts = bucketEnd start step r.ts) := by
  refine ⟨bucket_pairwise start step rows, ?_, bucket_complete start step rows⟩
  intro o ho
  obtain ⟨r, hr, h1, h2, h3, h4⟩ := bucket_sound start step rows o ho
  obtain ⟨k, hk, e, _, _⟩ := bucketEnd_spec start step r.ts hs (hin r hr).1
  refine ⟨r, hr, h1, h3, (hin r hr).1, (hin r hr).2, h2.symm, ?_, ?_, ⟨k, hk, by omega⟩, h4⟩
  · have := bucketEnd_ge start step r.ts hs (hin r hr).1; omega
  · have := bucketEnd_lt start step r.ts hs (hin r hr).1; omega

/-- **stepped_series.** Whatever the hints (any Step ≥ 0, Range, Func): when the raw scan delivers its rows (inside
    `[Start, …]`) ordered by (fingerprint, time), the rows `processHints` makes of them go through the row loop of `Select`
    without a fault into one series per fingerprint (fingerprints strictly ascending), each holding exactly the returned
    rows of its fingerprint, ascending in time — so the cursor theorems of Part 1 apply to every series of a range
    query too. With the per-step aggregation the times inside a series are strictly ascending. -/
theorem stepped_series (h : Hints) (rows : List Row) (hsorted : SortedRows rows) (hin : ∀ r ∈ rows, h.start ≤ r.ts)
    (hstep : 0 ≤ h.step) :
    ∃ res, assemble (run h rows) = some res ∧
      (res.map (·.fp)).Pairwise (· < ·) ∧
      (∀ s ∈ res, s.samples = samplesOf s.fp (run h rows)) ∧
      (∀ s ∈ res, Sorted s.samples) ∧
      (h.step ≠ 0 → bucketed h = true → ∀ s ∈ res, s.samples.Pairwise (fun a b => a.ts < b.ts)) := by
  have hrun := run_sorted h rows hsorted hin hstep
  obtain ⟨res, hres, hfp, _, hsam⟩ := series_assembly (run h rows) hrun.grouped
  obtain ⟨res', hres', hsorted', _⟩ := series_samples_sorted_in_range (run h rows) hrun
    ((run h rows).foldr (fun r acc => min r.ts acc) 0) ((run h rows).foldr (fun r acc => max r.ts acc) 0)
    (by
      generalize run h rows = l
      induction l with
      | nil => intro r hr; cases hr
      | cons a t ih =>
        intro r hr
        simp only [List.foldr_cons]
        rcases List.mem_cons.mp hr with rfl | hr
        · omega
        · have := ih r hr; omega)
  rw [hres] at hres'
  cases hres'
  refine ⟨res, hres, hfp, hsam, hsorted', ?_⟩
  intro h0 hb s hs
  rw [hsam s hs]
  apply samplesOf_strict
  have hi : isInstant h.func = true := by
    simp only [bucketed, Bool.and_eq_true] at hb; exact hb.1
  have hnf : filtered h = false := by
    have : isRangeFn h.func = false := by
      cases hr : isRangeFn h.func with
      | false => rfl
      | true =>
        have hmem : h.func ∈ Gen.PromStep.rangeFuncs := by simpa [isRangeFn] using hr
        have : ∀ f ∈ Gen.PromStep.rangeFuncs, isInstant f = false := by decide
        rw [this _ hmem] at hi; cases hi
    simp [filtered, this]
  have hkind : Gen.PromStep.bucketTime = "sample" := by decide
  have : run h rows = bucketLast h.start h.step rows := by
    simp [Qryn.Prom.Stepped.run, h0, hb, hnf, bucketNow, hkind]
  rw [this]
  exact bucketLast_pairwise _ _ (by omega) rows hin

/-- **stepped_matches_prometheus** (the last clause of the property for an instant-vector selector of a range query, at full
    strength). For every hints of an instant selector (`Range = 0`; any function name, any step ≥ 0), every list of scanned
    rows inside `[Start, …]`, every series with one value per timestamp, every evaluation time `t = Start + Δ + i·Step`
    (`Δ` = `Gen.PromStep.lookbackMs`, the lookback delta of the engine: `hints.Start` is the first evaluation time minus `Δ`
    minus the offset — `Stepped.engineHints`, tied to the real engine by the `hints` stream) and every sample `s`: the
    engine's lookback selection (`IsLatest l (t − Δ) t`: the latest sample in `[t − Δ, t]`) picks `s` from the series
    `Select` hands out **exactly when** it picks `s` from the raw samples — the range query returns what Prometheus returns
    for the same samples. (Steps that divide `Δ`: only the last sample of every step bucket is sent, with its own time;
    every other step, every range-vector function, `timestamp`, every aggregation: the raw samples.)
    After `fix: a stepped range query hands the engine the last sample of every step bucket with its own time …` (recorded
    finding `C17/stepped-bucket-retimed` of the tree before: `stepped_as_written_*`). -/
theorem stepped_matches_prometheus (h : Hints) (hstep : 0 ≤ h.step) (hrange : h.range = 0) (rows : List Row)
    (hin : ∀ r ∈ rows, h.start ≤ r.ts) (f : Nat) (hone : OneValuePerTs f rows) (i : Int) (s : Sample) :
    IsLatest (samplesOf f (run h rows))
        (h.start + Gen.PromStep.lookbackMs + i * h.step - Gen.PromStep.lookbackMs) (h.start + Gen.PromStep.lookbackMs + i * h.step) s ↔
      IsLatest (samplesOf f rows)
        (h.start + Gen.PromStep.lookbackMs + i * h.step - Gen.PromStep.lookbackMs) (h.start + Gen.PromStep.lookbackMs + i * h.step) s := by
  have hguard : Gen.PromStep.rangeGuard = "range-selector" := by decide
  have hkind : Gen.PromStep.bucketTime = "sample" := by decide
  have hnf : filtered h = false := by simp [filtered, hguard, hrange]
  by_cases h0 : h.step = 0
  · simp [Qryn.Prom.Stepped.run, h0]
  · by_cases hb : bucketed h = true
    · have hdiv : Gen.PromStep.lookbackMs % h.step = 0 := by
        simp only [bucketed, hkind, if_true, Bool.and_eq_true, beq_iff_eq] at hb
        exact hb.2.2
      have hrun : run h rows = bucketLast h.start h.step rows := by
        simp [Qryn.Prom.Stepped.run, h0, hb, hnf, bucketNow, hkind]
      have hgrid : h.start + Gen.PromStep.lookbackMs + i * h.step =
          h.start + (Gen.PromStep.lookbackMs / h.step + i) * h.step := by
        have h1 := Int.mul_ediv_add_emod Gen.PromStep.lookbackMs h.step
        rw [hdiv] at h1
        rw [Int.add_mul]
        have h2 : h.step * (Gen.PromStep.lookbackMs / h.step) = Gen.PromStep.lookbackMs / h.step * h.step := Int.mul_comm _ _
        omega
      rw [hrun, hgrid]
      exact latest_bucketLast_iff h.start h.step (by omega) rows hin f hone _ _ s
    · have hb' : bucketed h = false := by simpa using hb
      simp [Qryn.Prom.Stepped.run, h0, hb', hnf]

/-- the claim of `stepped_matches_prometheus` for evaluation times **anywhere**, not only on the grid `Start + Δ + i·Step` of
    the query: a sub-query (`avg_over_time((0 + m)[30s:2s])`, `max_over_time(abs(m)[1m:5s])`) evaluates its selector at the
    multiples of its own step, and the select hints carry the step of the outer query. False (below): recorded finding
    `C17/stepped-bucket-under-subquery`; `stepped_matches_prometheus` is the part that holds (`…_partial`). -/
def stepped_matches_prometheus_any_time_full : Prop :=
  ∀ (h : Hints), 0 ≤ h.step → h.range = 0 → ∀ (rows : List Row), (∀ r ∈ rows, h.start ≤ r.ts) →
  ∀ f, OneValuePerTs f rows → ∀ (t : Int) (s : Sample),
    IsLatest (samplesOf f (run h rows)) (t - Gen.PromStep.lookbackMs) t s ↔
      IsLatest (samplesOf f rows) (t - Gen.PromStep.lookbackMs) t s

/-- the part that holds: evaluation times on the grid of the query -/
theorem stepped_matches_prometheus_any_time_partial (h : Hints) (hstep : 0 ≤ h.step) (hrange : h.range = 0) (rows : List Row)
    (hin : ∀ r ∈ rows, h.start ≤ r.ts) (f : Nat) (hone : OneValuePerTs f rows) (t : Int)
    (hgrid : ∃ i : Int, t = h.start + Gen.PromStep.lookbackMs + i * h.step) (s : Sample) :
    IsLatest (samplesOf f (run h rows)) (t - Gen.PromStep.lookbackMs) t s ↔
      IsLatest (samplesOf f rows) (t - Gen.PromStep.lookbackMs) t s := by
  obtain ⟨i, rfl⟩ := hgrid
  exact stepped_matches_prometheus h hstep hrange rows hin f hone i s

/-- **stepped_under_subquery_counterexample.** Start 0, Step 10 (divides the lookback delta), a bare selector; the series has
    the samples 1 @ 300003 and 2 @ 300007, both in the bucket (300000, 300010]. Only the last one is sent. An evaluation at
    t = 300005 — between two evaluation times of the query, where a sub-query with a finer step evaluates — finds 1 @ 300003
    in the raw samples and nothing in the series that was sent. Kernel-checked. -/
theorem stepped_under_subquery_counterexample : ¬ stepped_matches_prometheus_any_time_full := by
  intro hfull
  have := (hfull ⟨0, 1000000, 10, 0, ""⟩ (by decide) rfl [⟨1, 1, 300003⟩, ⟨1, 2, 300007⟩] (by decide) 1
    (by
      intro r hr r' hr' _ _ hts
      simp at hr hr'
      rcases hr with rfl | rfl <;> rcases hr' with rfl | rfl <;> simp_all)
    300005 ⟨300003, 1⟩).mpr (by decide)
  revert this
  decide

/-- the lookback claim for the per-step aggregation **as it was written** (`bucket`: every step, the last sample of a
    bucket re-timed to the bucket end): at every evaluation time `t = Start + Δ + i·Step` the engine picks from the
    bucketed series the value it would pick from the raw samples. False (the two counterexamples below). -/
def stepped_as_written_full : Prop :=
  ∀ (start step Δ : Int), 0 < step → 0 ≤ Δ → ∀ (rows : List Row), (∀ r ∈ rows, start ≤ r.ts) →
  ∀ f, OneValuePerTs f rows → ∀ i : Int, 0 ≤ i →
    ∀ v, (∃ o, IsLatest (samplesOf f (bucket start step rows)) (start + Δ + i * step - Δ) (start + Δ + i * step) o ∧ o.v = v) ↔
         (∃ r, IsLatest (samplesOf f rows) (start + Δ + i * step - Δ) (start + Δ + i * step) r ∧ r.v = v)

/-- **stepped_as_written_lookback.** (the tree before the fix) When the lookback delta is a multiple of the step (`Δ = d·Step`: the evaluation
    times are bucket ends) the bucketed series gives, at every evaluation time `t`, exactly the value of the latest
    raw sample of the window `(t − Δ − Step, t]` — Prometheus' window `[t − Δ, t]` widened by less than one step at
    its old end — re-timed to its bucket end. (The former finding `C17/stepped-bucket-retimed`: the widening, and steps
    that do not divide `Δ`.) -/
theorem stepped_as_written_lookback (start step : Int) (hs : 0 < step) (rows : List Row)
    (hin : ∀ r ∈ rows, start ≤ r.ts) (f : Nat) (hone : OneValuePerTs f rows) (d i : Int) (v : Int) :
    (∃ o, IsLatest (samplesOf f (bucket start step rows)) (start + d * step + i * step - d * step)
        (start + d * step + i * step) o ∧ o.v = v) ↔
    (∃ r, IsLatest (samplesOf f rows) (start + d * step + i * step - d * step - step + 1)
        (start + d * step + i * step) r ∧ r.v = v) := by
  have e1 : start + d * step + i * step - d * step = start + i * step := by omega
  have e2 : start + d * step + i * step = start + (d + i) * step := by rw [Int.add_mul]; omega
  rw [e1, e2]
  constructor
  · rintro ⟨o, ho, rfl⟩
    obtain ⟨r, hr, hv, _⟩ := latest_bucket_raw start step hs rows hin f i (d + i) o ho
    exact ⟨r, hr, hv.symm⟩
  · rintro ⟨r, hr, rfl⟩
    obtain ⟨o, ho, hv, _⟩ := latest_raw_bucket start step hs rows hin f hone i (d + i) r hr
    exact ⟨o, ho, hv⟩

/-- **stepped_as_written_visible_same_value.** (the tree before the fix) Consequently, with `Δ` a multiple of the step: whenever Prometheus returns a
    value for the series at an evaluation time (a raw sample lies in `[t − Δ, t]`), the range query over the
    bucketed samples returns the same value. -/
theorem stepped_as_written_visible_same_value (start step : Int) (hs : 0 < step) (rows : List Row)
    (hin : ∀ r ∈ rows, start ≤ r.ts) (f : Nat) (hone : OneValuePerTs f rows) (d i : Int) (r : Sample)
    (hr : IsLatest (samplesOf f rows) (start + d * step + i * step - d * step) (start + d * step + i * step) r) :
    ∃ o, IsLatest (samplesOf f (bucket start step rows)) (start + d * step + i * step - d * step)
        (start + d * step + i * step) o ∧ o.v = r.v := by
  apply (stepped_as_written_lookback start step hs rows hin f hone d i r.v).mpr
  exact ⟨r, hr.widen (by omega), rfl⟩

/-- **stepped_as_written_counterexample.** (the tree before the fix) Even with `Δ` a multiple of the step: Start 0, Step 2, Δ 2, one
    sample (value 7) at time 1. At the evaluation time 4 Prometheus' window `[2, 4]` is empty (no value), the
    bucketed series holds the sample re-timed to 2 and the range query returns 7. Kernel-checked. -/
theorem stepped_as_written_counterexample : ¬ stepped_as_written_full := by
  intro h
  have := (h 0 2 2 (by decide) (by decide) [⟨1, 7, 1⟩] (by decide) 1
    (by intro r hr r' hr' _ _ _; simp at hr hr'; rw [hr, hr']) 1 (by decide) 7).mp
    ⟨⟨2, 7⟩, by decide, rfl⟩
  obtain ⟨r, hr, _⟩ := this
  have hmem := hr.1
  have hlo := hr.2.1
  simp [samplesOf, sampleOf] at hmem
  rw [hmem] at hlo
  revert hlo
  decide

/-- **stepped_as_written_misaligned_counterexample.** (the tree before the fix) A step that does not divide `Δ`: Start 0, Step 3, Δ 2, one sample (value 7)
    at time 2 = the first evaluation time. Prometheus returns 7 there; the sample is re-timed to the bucket end 3,
    past the evaluation time, and the range query returns nothing. Kernel-checked. -/
theorem stepped_as_written_misaligned_counterexample :
    IsLatest (samplesOf 1 [⟨1, 7, 2⟩]) (0 + 2 + 0 * 3 - 2) (0 + 2 + 0 * 3) ⟨2, 7⟩ ∧
    samplesOf 1 (bucket 0 3 [⟨1, 7, 2⟩]) = [⟨3, 7⟩] ∧
    ¬ ∃ o, IsLatest (samplesOf 1 (bucket 0 3 [⟨1, 7, 2⟩])) (0 + 2 + 0 * 3 - 2) (0 + 2 + 0 * 3) o := by
  refine ⟨by decide, by decide, ?_⟩
  rintro ⟨o, ho⟩
  have h1 := ho.1
  have h3 := ho.2.2.1
  have e : samplesOf 1 (bucket 0 3 [⟨1, 7, 2⟩]) = [⟨3, 7⟩] := by decide
  rw [e] at h1
  simp at h1
  rw [h1] at h3
  revert h3
  decide

/-- **range_filter_exact.** The range filter (range-vector function, `Step > Range`; after
    `fix: the range-vector sample filter …`) keeps a sample of the scan exactly when it lies in one of the windows
    `[Start + i·Step, Start + i·Step + Range]`, i ≥ 0 — the windows `[t − Range, t]` the engine evaluates
    (`hints.Start` = first evaluation time − Range − offset), whatever `Start` is modulo `Step`. -/
theorem range_filter_exact (start step range ts : Int) (hs : 0 < step) (hr : 0 ≤ range) (hrs : range < step)
    (ht : start ≤ ts) :
    keep start step range ts = true ↔
      ∃ i : Int, 0 ≤ i ∧ start + i * step ≤ ts ∧ ts ≤ start + i * step + range :=
  keep_iff start step range ts hs hr hrs ht

/-- **range_filter_windows_preserved.** For a range-vector function with `Step > Range` the query returns, for
    every evaluation window, exactly the raw rows of that window — in scan order, nothing lost, nothing added; also for
    `Range = 0` (the instant selector of a sub-query of the function: no filter, after `fix: the range-vector sample filter
    is not applied to the instant selector of a sub-query`). -/
theorem range_filter_windows_preserved (h : Hints) (hs : 0 < h.step) (hr : 0 ≤ h.range) (hrs : h.range < h.step)
    (hfn : isRangeFn h.func = true) (rows : List Row) (hin : ∀ r ∈ rows, h.start ≤ r.ts) (i : Int) (hi : 0 ≤ i) :
    (run h rows).filter (fun r => decide (h.start + i * h.step ≤ r.ts ∧ r.ts ≤ h.start + i * h.step + h.range)) =
      rows.filter (fun r => decide (h.start + i * h.step ≤ r.ts ∧ r.ts ≤ h.start + i * h.step + h.range)) := by
  have hni : isInstant h.func = false := by
    have : ∀ f ∈ Gen.PromStep.rangeFuncs, isInstant f = false := by decide
    exact this _ (by simpa [isRangeFn] using hfn)
  have hnb : bucketed h = false := by simp [bucketed, hni]
  have hkind : Gen.PromStep.rangeFilter = "windows" := by decide
  have hguard : Gen.PromStep.rangeGuard = "range-selector" := by decide
  have h0 : h.step ≠ 0 := by omega
  by_cases hr0 : h.range = 0
  · have hnf : filtered h = false := by simp [filtered, hguard, hr0]
    have e : run h rows = rows := by simp [Qryn.Prom.Stepped.run, h0, hnb, hnf]
    rw [e]
  have hf : filtered h = true := by
    have h1 : h.range > 0 := by omega
    simp [filtered, hguard, hfn, h1, hrs]
  have e : run h rows = rows.filter (fun r => keep h.start h.step h.range r.ts) := by
    simp [Qryn.Prom.Stepped.run, h0, hnb, hf, keepNow, hkind]
  rw [e, List.filter_filter]
  apply List.filter_congr
  intro r hr'
  have hk := keep_iff h.start h.step h.range r.ts hs hr hrs (hin r hr')
  by_cases hw : h.start + i * h.step ≤ r.ts ∧ r.ts ≤ h.start + i * h.step + h.range
  · have : keep h.start h.step h.range r.ts = true := hk.mpr ⟨i, hi, hw.1, hw.2⟩
    simp [hw, this]
  · simp [hw]

/-- the filter of the pinned tree (`timestamp_ms % Step == 0 or >= Step − Range`) assumed evaluation times that are
    multiples of the step: Start 5, Step 10, Range 4 — the sample at 15 opens the window `[15, 19]` of the second
    evaluation and is dropped; the repaired filter keeps it. Kernel-checked. -/
theorem range_filter_as_written_drops_needed_sample :
    keepW 10 4 15 = false ∧ keep 5 10 4 15 = true ∧ (5 + 1 * 10 ≤ (15 : Int) ∧ (15 : Int) ≤ 5 + 1 * 10 + 4) := by decide

/-- the two function tables of `processHints` are disjoint (a function gets the per-step aggregation or the range
    filter, never both), `timestamp` — which reads the time of the sample — is in neither, and the range filter the
    source has now is the window form -/
theorem stepped_function_tables :
    (∀ f ∈ Gen.PromStep.rangeFuncs, isInstant f = false) ∧ isInstant "timestamp" = false ∧
    isRangeFn "timestamp" = false ∧ isInstant "" = true ∧ Gen.PromStep.rangeFilter = "windows" ∧
    Gen.PromStep.rangeGuard = "range-selector" ∧ Gen.PromStep.bucketTime = "sample" ∧ Gen.PromStep.lookbackMs = 300000 := by
  decide

/-- **reshuffle_key_unambiguous.** The map key `ReshuffleSeries` builds for a label set (after
    `fix: ReshuffleSeries tells label sets apart …`: every name and value encoded by `strconv.Quote`, `=` between,
    a blank behind) determines the label set, for every self-delimiting encoding (`strconv.Quote` is one: a Go
    string literal ends at its first unescaped quote) — the `key` of `reshuffle_once` is the label set. -/
theorem reshuffle_key_unambiguous (enc : Bytes → Bytes) (h : SelfDelimiting enc) (l₁ l₂ : List (Bytes × Bytes))
    (e : labelsKey enc l₁ = labelsKey enc l₂) : l₁ = l₂ :=
  labelsKey_injective enc h l₁ l₂ e

/-- the key of the pinned tree (`name=value` joined by blanks): `{a="b c=d"}` and `{a="b", c="d"}` share it.
    (a = 97, b = 98, c = 99, d = 100, '=' = 61, ' ' = 32.) Kernel-checked; and the source has the quoted key now. -/
theorem reshuffle_key_as_written_collides :
    labelsKeyW [([97], [98, 32, 99, 61, 100])] = labelsKeyW [([97], [98]), ([99], [100])] ∧
    Gen.PromStep.reshuffleKey = "quoted" := by decide

-- non-vacuity
example : SelfDelimiting encUnary := encUnary_selfDelimiting
example : OneValuePerTs 1 [⟨1, 7, 1⟩, ⟨1, 8, 2⟩, ⟨2, 9, 1⟩] := by
  intro r hr r' hr' h1 h2 h3
  simp at hr hr'
  rcases hr with rfl | rfl | rfl <;> rcases hr' with rfl | rfl | rfl <;> simp_all
example : bucket 0 10 [⟨1, 5, 3⟩, ⟨1, 6, 7⟩, ⟨1, 7, 12⟩, ⟨2, 1, 0⟩] = [⟨1, 6, 10⟩, ⟨1, 7, 20⟩, ⟨2, 1, 0⟩] := by decide
example : bucketLast 0 10 [⟨1, 5, 3⟩, ⟨1, 6, 7⟩, ⟨1, 7, 12⟩, ⟨2, 1, 0⟩] = [⟨1, 6, 7⟩, ⟨1, 7, 12⟩, ⟨2, 1, 0⟩] := by decide
example : run ⟨5, 100, 10, 4, "rate"⟩ [⟨1, 1, 5⟩, ⟨1, 2, 9⟩, ⟨1, 3, 10⟩, ⟨1, 4, 15⟩] = [⟨1, 1, 5⟩, ⟨1, 2, 9⟩, ⟨1, 4, 15⟩] := by
  decide
-- a step that divides the lookback delta: last sample of each bucket, own time; one that does not: the raw samples;
-- a range-vector function over the instant selector of a sub-query (Range 0): the raw samples
example : run ⟨0, 100, 10, 0, ""⟩ [⟨1, 5, 3⟩, ⟨1, 6, 7⟩, ⟨1, 7, 12⟩] = [⟨1, 6, 7⟩, ⟨1, 7, 12⟩] ∧
    run ⟨0, 100, 7, 0, ""⟩ [⟨1, 5, 3⟩, ⟨1, 6, 7⟩, ⟨1, 7, 12⟩] = [⟨1, 5, 3⟩, ⟨1, 6, 7⟩, ⟨1, 7, 12⟩] ∧
    run ⟨0, 100, 10, 0, "rate"⟩ [⟨1, 5, 3⟩, ⟨1, 6, 7⟩, ⟨1, 7, 12⟩] = [⟨1, 5, 3⟩, ⟨1, 6, 7⟩, ⟨1, 7, 12⟩] := by decide

end Stepped

/-! ## Part 6 — the down-sampled sample path (`TranspileLabelMatchersDownsample`)

Model: `Qryn.Prom.Downsample.down h rows` over the `metrics_15s` rows of the series `fp_sel` selects. The path is
taken for steps of 15 s and more (`Stepped.usesRaw h = false`), outside the quantifier of the property's last
clause (its values are 15 s aggregates, re-timed to `bucket·Step − 1`); what is proved is the part of the property
that does not depend on the step: which series and which stored rows take part. -/
section Downsample
open Qryn Qryn.Prom.Stepped Qryn.Prom.Downsample

/-- **downsample_rows.** For every hint combination and every content of `metrics_15s`, when the query has a
    result: its rows are ordered by fingerprint and strictly ascending in time inside a fingerprint (one row per
    series and output time); every row stands for at least one stored 15 s row **of that series** whose bucket
    start lies in `[Start, End]` — both ends inclusive, after `fix: down-sampled PromQL scan …` — and whose output
    time it carries; and every stored row the WHERE keeps is represented in a row of its series. The series are
    those of `fp_sel`, the same label-index query as on the raw path (`Gen.PromStep.downSelector`), so `select_exact`
    describes them. -/
theorem downsample_rows (h : Hints) (rows : List Agg) (out : List DRow) (e : down h rows = some out) :
    out.Pairwise (fun a b => a.fp < b.fp ∨ (a.fp = b.fp ∧ a.ts < b.ts)) ∧
    (∀ o ∈ out, ∃ a ∈ rows, a.fp = o.fp ∧ timeOf h a = o.ts ∧ h.start ≤ a.b ∧ a.b ≤ h.stop) ∧
    (∀ a ∈ scanned h rows, ∃ o ∈ out, o.fp = a.fp ∧ o.ts = timeOf h a) ∧
    Gen.PromStep.downSelector = "fingerprintsQuery" := by
  have hk := down_keys h rows out e
  refine ⟨?_, ?_, ?_, by decide⟩
  · have := keysD_pairwise h (scanned h rows)
    rw [← hk, List.pairwise_map] at this
    exact this
  · intro o ho
    have : ((o.fp, o.ts) : Key) ∈ keysD h (scanned h rows) := by
      rw [← hk]; exact List.mem_map.mpr ⟨o, ho, rfl⟩
    obtain ⟨a, ha, hka⟩ := (mem_keysD _ _ _).mp this
    have hmem := List.mem_filter.mp ha
    have hscan : scanHoldsD h a = true := by
      have := hmem.2; simp only [Bool.and_eq_true] at this; exact this.1
    obtain ⟨h1, h2⟩ := (scanHoldsD_iff h a).mp hscan
    have e1 : a.fp = o.fp := congrArg Prod.fst hka
    have e2 : timeOf h a = o.ts := congrArg Prod.snd hka
    exact ⟨a, hmem.1, e1, e2, h1, h2⟩
  · intro a ha
    have : keyD h a ∈ keysD h (scanned h rows) := (mem_keysD _ _ _).mpr ⟨a, ha, rfl⟩
    rw [← hk] at this
    obtain ⟨o, ho, hko⟩ := List.mem_map.mp this
    exact ⟨o, ho, congrArg Prod.fst hko, congrArg Prod.snd hko⟩

/-- **downsample_scan_window.** The down-sampled scan keeps exactly the 15 s rows with `Start ≤ bucket start ≤ End`
    (`Gen.PromStep.downLower/downUpper`) — in particular the bucket that starts exactly at `Start`, whose samples
    `[Start, Start + 15 s)` all lie inside the window. -/
theorem downsample_scan_window (h : Hints) (a : Agg) :
    scanHoldsD h a = true ↔ h.start ≤ a.b ∧ a.b ≤ h.stop := scanHoldsD_iff h a

-- a concrete run: sum_over_time, Step 30 s, Range 60 s: buckets 10 s and 25 s fall into one output time
example : down ⟨1700000010000, 1700000100000, 30000, 60000, "sum_over_time"⟩
    [⟨1, 1700000010000, 5, 7, 1, 5, 9, 3⟩, ⟨1, 1700000025000, 6, 8, 6, 6, 6, 1⟩, ⟨1, 1700000040000, 2, 9, 2, 2, 2, 1⟩]
    = some [⟨1, 1700000009999, 15, 1⟩, ⟨1, 1700000039999, 2, 1⟩] := by decide

end Downsample

/-! ## Part 7 — the Prometheus metadata endpoints (`/api/v1/labels`, `/api/v1/label/<name>/values`, `/api/v1/series`)

Model: `Qryn.Prom.Labels` — `QueryLabelsService.PromLabels / PromValues / PromSeries` with the controllers' `match[]`
handling (after `fix: the Prometheus series and label values endpoints select with the PromQL matcher semantics`,
`fix: /api/v1/labels honours match[]`): every selector is planned by `fingerprintsQuery` (Part 3), the selectors are
combined with `UNION ALL` (`fpUnion`), and the statement restricts the label index / the series table to the window
(`date ≥ FormatFromDate(start)`, `date ≤ UTC date of end`, both as byte-ordered `YYYY-MM-DD` strings — their arithmetic is
C13's), the metrics type (or type 0) and the selected fingerprints. The three theorems quantify over **every** `match[]`
list (`none` = the request carries no `match[]`), every window and every database in which fingerprints identify series and
label names are unique within a series; `hs`: at most 63 matchers per selector and the series can be found in the index at
all (a matcher that rejects the empty value — Prometheus' `ParseMetricSelector` refuses a selector without one — or every
stored series has a label); `hanch` as in Part 3. -/
section Metadata
open Qryn Qryn.Prom Qryn.Prom.Labels

/-- **prom_label_names_exact.** `/api/v1/labels`: the statement is planned (no planner error) and returns, without duplicates,
    **exactly the label names of the stored series inside the window that one of the `match[]` selectors selects in
    Prometheus' sense** (of all stored series inside the window when the request has no `match[]`). -/
theorem prom_label_names_exact (search full : Bytes → Bytes → Bool) (hanch : ∀ p s, search (anchor p) s = full p s)
    (table : String) (w : Win) (sels : Option (List (List Matcher))) (db : List Stored) (wf : WellFormed db)
    (hs : ∀ ss, sels = some ss → SelsOk full ss db) :
    ∃ u, unionOf full table w.fromDate w.tp sels = some u ∧
      let out := namesEval w (u.map (·.eval search Gen.PromSelect.shiftWidth (indexRows db))) (indexRows db)
      out.Nodup ∧ ∀ n, n ∈ out ↔ ∃ s ∈ db, inWindow w s = true ∧ wanted full sels s ∧ n ∈ s.labels.map (·.1) := by
  obtain ⟨u, hu, hf⟩ := unionOf_spec search full hanch table w.fromDate w.tp sels db wf hs
  exact ⟨u, hu, namesEval_spec full w sels db wf _ hf⟩

/-- **prom_label_values_exact.** `/api/v1/label/<name>/values`: the statement returns the first `limit` entries (10000; all of
    them when there are fewer) of the duplicate-free list of **exactly the values the label has on the stored series inside
    the window that one of the `match[]` selectors selects** (on all of them without `match[]`). -/
theorem prom_label_values_exact (search full : Bytes → Bytes → Bool) (hanch : ∀ p s, search (anchor p) s = full p s)
    (table : String) (w : Win) (limit : Nat) (name : Bytes) (sels : Option (List (List Matcher))) (db : List Stored)
    (wf : WellFormed db) (hs : ∀ ss, sels = some ss → SelsOk full ss db) :
    ∃ u, unionOf full table w.fromDate w.tp sels = some u ∧
      ∃ L, valuesEval w limit name (u.map (·.eval search Gen.PromSelect.shiftWidth (indexRows db))) (indexRows db) = limited limit L ∧
        L.Nodup ∧ ∀ v, v ∈ L ↔ ∃ s ∈ db, inWindow w s = true ∧ wanted full sels s ∧ (name, v) ∈ s.labels := by
  obtain ⟨u, hu, hf⟩ := unionOf_spec search full hanch table w.fromDate w.tp sels db wf hs
  exact ⟨u, hu, valuesEval_spec full w limit name sels db wf _ hf⟩

/-- **prom_series_exact.** `/api/v1/series`: the statement returns the first `limit` entries of the duplicate-free list of
    **exactly the label-set documents of the stored series inside the window that one of the `match[]` selectors selects**;
    `enc` = the JSON document the writer stores for a label set (C04). -/
theorem prom_series_exact (search full : Bytes → Bytes → Bool) (hanch : ∀ p s, search (anchor p) s = full p s)
    (table : String) (w : Win) (limit : Nat) (enc : List (Bytes × Bytes) → Bytes) (ss : List (List Matcher))
    (db : List Stored) (wf : WellFormed db) (hs : SelsOk full ss db) :
    ∃ u, fpUnion full table w.fromDate w.tp ss = some u ∧
      ∃ L, seriesEval w limit (u.eval search Gen.PromSelect.shiftWidth (indexRows db)) (tsRows enc db) = limited limit L ∧
        L.Nodup ∧ ∀ d, d ∈ L ↔ ∃ s ∈ db, inWindow w s = true ∧ matchedBy full ss s ∧ d = enc s.labels := by
  obtain ⟨u, hu, hiff⟩ := fpUnion_selects search full hanch table w.fromDate w.tp ss db wf hs
  exact ⟨u, hu, seriesEval_spec full w limit enc ss db wf _ hiff⟩

/-- below the limit nothing is cut off: `limited` is the identity (the limit is 10000 rows) -/
theorem prom_metadata_limit (limit : Nat) (L : List Bytes) (h : limit = 0 ∨ L.length ≤ limit) : limited limit L = L := by
  unfold limited
  split
  · rcases h with h | h
    · omega
    · exact List.take_of_length_le h
  · rfl

-- a concrete run: {__name__="up"} and {job!="x"} over three series, window [2023-11-14, 2023-11-15]
-- (up = [117,112], job = [106,111,98], x = [120], y = [121]); series 9 has job="x", series 11 is dated before the window
example : ((fpUnion (fun _ _ => false) "g" [50, 48] 2
      [[⟨[95, 95, 110, 97, 109, 101, 95, 95], .eq, [117, 112]⟩, ⟨[106, 111, 98], .ne, [120]⟩]]).map (fun u =>
    namesEval ⟨[50, 48], [50, 49], 2⟩ (some (u.eval (fun _ _ => false) 64 (indexRows
        [⟨7, [([95, 95, 110, 97, 109, 101, 95, 95], [117, 112]), ([97], [49])], [50, 48], 2⟩,
         ⟨9, [([95, 95, 110, 97, 109, 101, 95, 95], [117, 112]), ([106, 111, 98], [120])], [50, 48], 2⟩,
         ⟨11, [([95, 95, 110, 97, 109, 101, 95, 95], [117, 112]), ([98], [49])], [49], 2⟩])))
      (indexRows
        [⟨7, [([95, 95, 110, 97, 109, 101, 95, 95], [117, 112]), ([97], [49])], [50, 48], 2⟩,
         ⟨9, [([95, 95, 110, 97, 109, 101, 95, 95], [117, 112]), ([106, 111, 98], [120])], [50, 48], 2⟩,
         ⟨11, [([95, 95, 110, 97, 109, 101, 95, 95], [117, 112]), ([98], [49])], [49], 2⟩])))
    = some [[95, 95, 110, 97, 109, 101, 95, 95], [97]] := by decide

end Metadata

/-! ## Part 8 — what the engine asks for and what every function class gets (`populateSeries` → `Querier.Select` →
    `transpileLabelMatchers` → `processHints`)

Model: `Stepped.engineHints` (what the pinned engine passes for a selector outside sub-queries, tied to the real engine by
the `hints` stream over every function of `parser.Functions` and every aggregator), `Stepped.classOf` (the three classes
`processHints` distinguishes), `Stepped.usesRaw` (the routing of `CLokiQuerier.transpileLabelMatchers`). -/
section Hints
open Qryn Qryn.Prom.Stepped Qryn.Read.Assembly

theorem instant_not_range (f : String) (h : isInstant f = true) : isRangeFn f = false := by
  cases hr : isRangeFn f with
  | false => rfl
  | true =>
    have hmem : f ∈ Gen.PromStep.rangeFuncs := by simpa [isRangeFn] using hr
    have := stepped_function_tables.1 f hmem
    rw [h] at this; cases this

/-- **hints_class_behaviour.** What `Select` does to the scanned rows for **every** `SelectHints` — every function name,
    step and range:
    * an instant query (`Step = 0`): nothing — the engine gets the raw samples of the window;
    * a function of neither table (every aggregation — `sum`, `avg`, `topk`, `count_values`, … —, `timestamp`,
      `quantile_over_time`, `changes`, `holt_winters`, `predict_linear`, `histogram_quantile`, `label_replace`, …):
      nothing;
    * a range-vector function with `Step ≤ Range` (consecutive windows touch or overlap), or with `Range = 0` (the instant
      selector of a sub-query of the function): nothing;
    * a range-vector function over a range selector with `Step > Range`: exactly the window filter (`range_filter_exact`);
    * `""` (a bare selector, or a selector under a binary operator) or an instant-vector function of the table, in a range
      query: for an instant selector and a step that divides the lookback delta exactly the last sample of every step
      bucket (`stepped_bucket_rows`, `stepped_matches_prometheus`), otherwise nothing. -/
theorem hints_class_behaviour (h : Hints) (rows : List Row) :
    (h.step = 0 → run h rows = rows) ∧
    (classOf h.func = .other → run h rows = rows) ∧
    (classOf h.func = .range → (h.step ≤ h.range ∨ h.range ≤ 0) → run h rows = rows) ∧
    (classOf h.func = .range → h.step ≠ 0 → 0 < h.range → h.step > h.range →
      run h rows = rows.filter (fun r => keepNow h r.ts)) ∧
    (classOf h.func = .instant → h.step ≠ 0 → h.range = 0 → Gen.PromStep.lookbackMs % h.step = 0 →
      run h rows = bucketLast h.start h.step rows) ∧
    (classOf h.func = .instant → (h.range ≠ 0 ∨ Gen.PromStep.lookbackMs % h.step ≠ 0) → run h rows = rows) := by
  have hguard : Gen.PromStep.rangeGuard = "range-selector" := by decide
  have hkind : Gen.PromStep.bucketTime = "sample" := by decide
  have notInstant : classOf h.func ≠ .instant → isInstant h.func = false := by
    intro hc
    cases hi : isInstant h.func with
    | false => rfl
    | true => simp [classOf, hi] at hc
  refine ⟨?_, ?_, ?_, ?_, ?_, ?_⟩
  · intro h0; simp [Qryn.Prom.Stepped.run, h0]
  · intro hc
    have h1 := notInstant (by rw [hc]; decide)
    have h2 : isRangeFn h.func = false := by
      cases hr : isRangeFn h.func with
      | false => rfl
      | true => simp [classOf, h1, hr] at hc
    by_cases h0 : h.step = 0 <;> simp [Qryn.Prom.Stepped.run, h0, bucketed, filtered, h1, h2]
  · intro hc hle
    have h1 := notInstant (by rw [hc]; decide)
    have hnf : filtered h = false := by
      simp only [filtered, hguard, if_true]
      rcases hle with hle | hle
      · have : decide (h.step > h.range) = false := by simpa using hle
        simp [this]
      · have : decide (h.range > 0) = false := by simpa using hle
        simp [this]
    by_cases h0 : h.step = 0 <;> simp [Qryn.Prom.Stepped.run, h0, bucketed, h1, hnf]
  · intro hc h0 hr hgt
    have h1 := notInstant (by rw [hc]; decide)
    have h2 : isRangeFn h.func = true := by
      cases hr : isRangeFn h.func with
      | true => rfl
      | false => simp [classOf, h1, hr] at hc
    have hf : filtered h = true := by simp [filtered, hguard, h2, hr, hgt]
    simp [Qryn.Prom.Stepped.run, h0, bucketed, h1, hf]
  · intro hc h0 hr hdiv
    have h1 : isInstant h.func = true := by
      cases hi : isInstant h.func with
      | true => rfl
      | false =>
        cases hr : isRangeFn h.func <;> simp [classOf, hi, hr] at hc
    have hb : bucketed h = true := by simp [bucketed, hkind, h1, hr, hdiv]
    have hnf : filtered h = false := by simp [filtered, instant_not_range h.func h1]
    simp [Qryn.Prom.Stepped.run, h0, hb, hnf, bucketNow, hkind]
  · intro hc hor
    have h1 : isInstant h.func = true := by
      cases hi : isInstant h.func with
      | true => rfl
      | false =>
        cases hr : isRangeFn h.func <;> simp [classOf, hi, hr] at hc
    have hb : bucketed h = false := by
      simp only [bucketed, hkind, if_true, h1, Bool.true_and, Bool.and_eq_false_iff, beq_eq_false_iff_ne]
      rcases hor with h' | h'
      · exact Or.inl h'
      · exact Or.inr h'
    have hnf : filtered h = false := by simp [filtered, instant_not_range h.func h1]
    by_cases h0 : h.step = 0 <;> simp [Qryn.Prom.Stepped.run, h0, hb, hnf]

/-- **engine_reads_within_hints.** With the hints the engine passes (`engineHints`; offset `off`, lookback Δ ≥ 0), every
    sample time the engine reads for the selector lies inside `[hints.Start, hints.End]`: for an instant selector the
    lookback window `[t − off − Δ, t − off]` of every evaluation time `t = start + i·step ≤ end` (of `t = start` for an
    instant query), for a range selector the window `[t − off − range, t − off]`. With `scan_window_ms`: every stored
    sample the engine reads for a selector is scanned. -/
theorem engine_reads_within_hints (q : Query) (lookback range off : Int) (func : String)
    (hl : 0 ≤ lookback) (hr : 0 ≤ range) (hstep : 0 ≤ q.step) (i : Nat) (ts : Int)
    (hend : q.start + i * q.step ≤ q.stop)
    (hlo : q.start + i * q.step - off - (if range = 0 then lookback else range) ≤ ts)
    (hhi : ts ≤ q.start + i * q.step - off) :
    (engineHints q lookback range off func).start ≤ ts ∧ ts ≤ (engineHints q lookback range off func).stop := by
  have hi : 0 ≤ (i : Int) * q.step := Int.mul_nonneg (Int.natCast_nonneg i) hstep
  simp only [engineHints]
  constructor <;> omega

/-- **instant_query_raw.** An instant query (`NewInstantQuery`: interval 0, `start = end`) is always answered from the raw
    samples, whatever the function: the routing takes the raw path (`Step = 0 < 15 s`) and `processHints` is not applied
    (`hints.Step != 0` gate) — the engine gets exactly the scanned samples of `[t − Δ − off, t − off]` (resp. the range
    window), `scan_window_ms`, of the series `select_matches_prometheus` selects. -/
theorem instant_query_raw (h : Hints) (rows : List Row) (h0 : h.step = 0) :
    usesRaw h = true ∧ run h rows = rows := by
  refine ⟨?_, by simp [Qryn.Prom.Stepped.run, h0]⟩
  have : decide (h.step < Gen.PromStep.downsampleMs) = true := by
    rw [h0]; decide
  simp [usesRaw, this]

/-- **downsample_route_conditions.** The down-sampled path (`metrics_15s`) is taken exactly when `Start` is a multiple of
    15 s, `Step ≥ 15 s`, the range is 0 or at least 15 s, and the function is one of the supported table or unknown to it
    (`quantile_over_time`, `stddev_over_time`, `stdvar_over_time` are listed as unsupported); in particular **every query
    with a step below 15 s — the quantifier of the property's last clause — reads raw samples**. -/
theorem downsample_route_conditions (h : Hints) :
    (usesRaw h = false ↔
      h.start % Gen.PromStep.downsampleMs = 0 ∧ Gen.PromStep.downsampleMs ≤ h.step ∧
      (h.range ≤ 0 ∨ Gen.PromStep.downsampleMs ≤ h.range) ∧
      (Gen.PromStep.supportedFuncs.lookup h.func = some true ∨ Gen.PromStep.supportedFuncs.lookup h.func = none)) ∧
    (h.step < Gen.PromStep.downsampleMs → usesRaw h = true) := by
  constructor
  · simp only [usesRaw]
    cases hl : Gen.PromStep.supportedFuncs.lookup h.func with
    | none =>
      simp only [Option.getD_none, Option.isNone_none, Bool.or_true, Bool.not_true, Bool.or_false, Bool.or_eq_false_iff,
        bne_eq_false_iff_eq, decide_eq_false_iff_not, Bool.and_eq_false_iff]
      constructor
      · rintro ⟨⟨h1, h2⟩, h3⟩
        refine ⟨h1, by omega, ?_, Or.inr trivial⟩
        rcases h3 with h3 | h3 <;> first | (left; omega) | (right; omega)
      · rintro ⟨h1, h2, h3, _⟩
        refine ⟨⟨h1, by omega⟩, ?_⟩
        rcases h3 with h3 | h3 <;> first | (left; omega) | (right; omega)
    | some b =>
      cases b
      · simp
      · simp only [Option.getD_some, Option.isNone_some, Bool.or_false, Bool.not_true, Bool.or_eq_false_iff,
          bne_eq_false_iff_eq, decide_eq_false_iff_not, Bool.and_eq_false_iff]
        constructor
        · rintro ⟨⟨h1, h2⟩, h3⟩
          refine ⟨h1, by omega, ?_, Or.inl trivial⟩
          rcases h3 with h3 | h3 <;> first | (left; omega) | (right; omega)
        · rintro ⟨h1, h2, h3, _⟩
          refine ⟨⟨h1, by omega⟩, ?_⟩
          rcases h3 with h3 | h3 <;> first | (left; omega) | (right; omega)
  · intro hlt
    have : decide (h.step < Gen.PromStep.downsampleMs) = true := by simpa using hlt
    simp [usesRaw, this]

-- the classes of some names (regenerated tables): decided
example : classOf "" = .instant ∧ classOf "abs" = .instant ∧ classOf "rate" = .range ∧ classOf "max_over_time" = .range ∧
    classOf "sum" = .other ∧ classOf "timestamp" = .other ∧ classOf "quantile_over_time" = .other ∧
    classOf "changes" = .other ∧ classOf "histogram_quantile" = .other := by decide
-- non-vacuity of `engine_reads_within_hints`: query [60000, 120000] step 5000, lookback 300000, instant selector, offset 1000
example : (engineHints ⟨60000, 120000, 5000⟩ 300000 0 1000 "").start = -241000 ∧
    (engineHints ⟨60000, 120000, 5000⟩ 300000 0 1000 "").stop = 119000 := by decide

end Hints

/-! ## Part 9 — the `SeriesSet` as a whole: order of the series, row batches

`storage.SeriesSet`: "the series … sorted by labels when `sortSeries` is asked". The pinned engine calls `Select(false, …)`
and does not rely on the order; qryn sorts every result. Model: `Read.SeriesOrder.lessSeries` = the comparator of the final
`sort.Slice` of `Select`, over label sets sorted by name (`labelsGetter.Get`). The three sample statements all end in
`ORDER BY fingerprint, <time>` (part of the byte-equal ties: `c17StepText`, `c17downsql`), so the rows reach the loop grouped
by fingerprint and ascending in time whatever batches the driver delivers them in. -/
section SeriesSet
open Qryn Qryn.Read.Assembly Qryn.Read.SeriesOrder

/-- **series_comparator_is_label_order.** The comparator the final sort uses is the non-strict lexicographic order on
    label sets — name, then value, label by label, a proper prefix first (Prometheus' `labels.Compare(a, b) ≤ 0`): it answers
    `true` exactly when the two label sets are equal or the first is strictly smaller; it is total and transitive (what a
    comparison sort needs), and the strict order is irreflexive, transitive and total on distinct label sets. -/
theorem series_comparator_is_label_order :
    (∀ a b : Labels, lessSeries a b = true ↔ (a = b ∨ labelsLt a b)) ∧
    (∀ a b : Labels, (lessSeries a b || lessSeries b a) = true) ∧
    (∀ a b c : Labels, lessSeries a b = true → lessSeries b c = true → lessSeries a c = true) ∧
    (∀ a : Labels, ¬ labelsLt a a) ∧
    (∀ a b : Labels, a ≠ b → labelsLt a b ∨ labelsLt b a) :=
  ⟨lessSeries_iff, lessSeries_total, lessSeries_trans, labelsLt_irrefl, labelsLt_total⟩

/-- **series_set_sorted.** What `Select` hands to the engine, for every list of assembled series and every assignment
    `key` of (name-sorted) label sets to fingerprints: after `ReshuffleSeries` and the final sort the label sets are a
    permutation of those `ReshuffleSeries` left — each label set **once** (`reshuffle_once`) — and **strictly ascending in
    the label order**: the `SeriesSet` is sorted as `storage.Querier.Select` documents, with no label set handed out
    twice. -/
theorem series_set_sorted (key : Nat → Labels) (ss : List Series) :
    let ls := (reshuffle key ss).map (fun s => key s.fp)
    (sortSeries ls).Perm ls ∧ ls.Nodup ∧ (sortSeries ls).Pairwise labelsLt := by
  intro ls
  have hnd : ls.Nodup := (reshuffle_once key ss).1
  obtain ⟨hp, _, hs⟩ := sortSeries_spec ls
  exact ⟨hp, hnd, hs hnd⟩

theorem scan_append (a b : List Row) : ∀ st : St, scan st (a ++ b) = (scan st a).bind (fun st' => scan st' b) := by
  induction a with
  | nil => intro st; simp [scan]
  | cons r rs ih =>
    intro st
    simp only [List.cons_append, scan]
    cases step st r with
    | none => rfl
    | some st' => exact ih st'

/-- **assembly_across_batches.** The row loop reads one row at a time (`rows.Next` / `rows.Scan`) and keeps its state
    (`res.Series`, `lastLabels`) across the batches the driver fetches: for **every** way of cutting the row stream into
    batches — also in the middle of a series — running the loop batch after batch gives the series of the uncut stream. -/
theorem assembly_across_batches (batches : List (List Row)) :
    (batches.foldl (fun st b => st.bind (fun s => scan s b)) (some ⟨[], 0⟩)).map (·.series) = assemble batches.flatten := by
  have : ∀ (bs : List (List Row)) (st : Option St),
      bs.foldl (fun st b => st.bind (fun s => scan s b)) st = st.bind (fun s => scan s bs.flatten) := by
    intro bs
    induction bs with
    | nil => intro st; cases st <;> simp [scan]
    | cons b bs ih =>
      intro st
      simp only [List.foldl_cons, List.flatten_cons]
      rw [ih]
      cases st with
      | none => rfl
      | some s => simp [scan_append]
  rw [this]
  simp [assemble]

-- the comparator on concrete label sets: {a="1"} < {a="1", b="2"} (proper prefix), {a="1", b="2"} < {a="2"}, equal sets: true
example : lessSeries [([97], [49])] [([97], [49]), ([98], [50])] = true ∧
    lessSeries [([97], [49]), ([98], [50])] [([97], [50])] = true ∧
    lessSeries [([97], [50])] [([97], [49]), ([98], [50])] = false ∧
    lessSeries [([97], [49])] [([97], [49])] = true := by decide

end SeriesSet

/-! ## Part 10 — the labels request (`labelsGetter`, the "labels fetched afterwards" step of `CLokiQuerier.Select`)

Model: `Qryn.Prom.LabelsFetch` — `fetch` (the statement `getFetchRequest` builds: table, `fingerprint IN (…)`, the two `date`
bounds as Unix seconds whose UTC dates are the literals; `Fetch.render` is compared byte for byte with the statement the real
`labelsGetter` sends, `Fetch.eval` with the rows the reference interpreter returns for it), `fetchLoop` (`Fetch`: the row loop
filling `fingerprintsHas`), `get` (`Get`: `labels.Labels{}` for a fingerprint without an entry). Which instant the lower bound
is taken from is `Gen.PromLabelsFetch.lowerOf`, re-read from the source on every run.
`time_series` is partitioned by `date`; the writer registers a series on every UTC day it has samples and on no other day
(C04 `acked_sample_indexed`, `series_date_is_utc_day`): `Indexed`. -/
section LabelsFetch
open Qryn Qryn.Prom Qryn.Prom.LabelsFetch

/-- the C04 invariant as the reader needs it: every stored sample has a `time_series` row of its fingerprint on the UTC day
    of the sample (`acked_sample_indexed` + `series_date_is_utc_day`) -/
def Indexed (ts : List TsRow) (samples : List Smp) : Prop :=
  ∀ s ∈ samples, ∃ r ∈ ts, r.fp = s.fp ∧ r.day = dayOfMs s.ts

/-- **labels_fetch_covers.** For every window `[Start, End]` of the hints (any length, any number of UTC midnights inside),
    every `time_series` table that holds a row of every series on every UTC day it has samples, and every list of planned
    fingerprints: every planned fingerprint that has a sample inside `[Start, End]` — every series the sample scan returns
    (`scan_window_ms`) — has a row in the answer of the labels request, namely the one of the sample's own day:
    `date >= FormatFromDate(Start)` and `date <= UTC date of End` admit the day of every instant of the window. -/
theorem labels_fetch_covers (dist : Bool) (startMs endMs : Int) (ts : List TsRow) (samples : List Smp)
    (hidx : Indexed ts samples) (planned : List Nat) :
    ∀ s ∈ samples, startMs ≤ s.ts → s.ts ≤ endMs → s.fp ∈ planned →
      ∃ r ∈ (fetch dist startMs endMs planned).eval ts, r.fp = s.fp ∧ r.day = dayOfMs s.ts := by
  intro s hs h1 h2 hp
  obtain ⟨r, hr, hfp, hday⟩ := hidx s hs
  refine ⟨r, mem_eval.mpr ⟨hr, ?_, ?_, ?_⟩, hfp, hday⟩
  · simpa [fetch, fetchWith, hfp] using hp
  · have := (day_in_range startMs endMs s.ts h1 h2).1
    rw [fetch, lowerOf_from, lowerDay_fps, hday]; exact this
  · have := (day_in_range startMs endMs s.ts h1 h2).2
    rw [fetch, lowerOf_from, upperDay_fps, hday]; exact this

/-- **select_series_labelled** (`labels_fetch_covers` composed with `select_matches_prometheus`). For every matcher list,
    every well-formed database `db` of stored series, every `time_series` table whose rows carry the label set of their
    fingerprint's stored series (`hts`: the labels of a fingerprint never change) and hold a row on every day the series has
    samples (`hidx`), every window and every set of planned fingerprints: a fingerprint the matcher query selects that has a
    sample inside `[Start, End]` and was planned (the row loop plans every fingerprint of the scanned rows) reaches the engine
    under the label set of **its own stored series** — which satisfies every matcher in Prometheus' sense — and not under
    `labels.Labels{}`; `norm` = the sort by label name. With `reshuffle_distinct_id`: series with different stored label sets
    are not merged. -/
theorem select_series_labelled (norm : Labels → Labels) (search full : Bytes → Bytes → Bool)
    (hanch : ∀ p s, search (anchor p) s = full p s)
    (table : String) (fromDate : Bytes) (tp : Int) (ms : List Matcher) (h63 : ms.length ≤ 63)
    (db : List Stored) (wf : WellFormed db)
    (hrow : (∃ m ∈ ms, opHolds full m.type [] m.val = false) ∨ (∀ s ∈ db, s.labels ≠ []))
    (startMs endMs : Int) (ts : List TsRow) (samples : List Smp) (hidx : Indexed ts samples)
    (hts : ∀ r ∈ ts, ∃ s ∈ db, s.fp = r.fp ∧ s.labels = r.labels) (planned : List Nat) :
    ∃ q, fingerprintsQuery full table fromDate tp ms = some q ∧
      ∀ x ∈ samples, startMs ≤ x.ts → x.ts ≤ endMs → x.fp ∈ planned →
        x.fp ∈ q.eval search Gen.PromSelect.shiftWidth (indexRows db) →
        ∃ s ∈ db, s.fp = x.fp ∧ promMatches full ms s = true ∧
          labelsOf norm Gen.PromLabelsFetch.lowerOf startMs endMs planned ts x.fp = norm s.labels := by
  obtain ⟨q, hq, hiff⟩ := select_matches_prometheus search full hanch table fromDate tp ms h63 db wf hrow
    (0 : Nat)
  refine ⟨q, hq, ?_⟩
  intro x hx h1 h2 hp hsel
  obtain ⟨q', hq', hiff'⟩ := select_matches_prometheus search full hanch table fromDate tp ms h63 db wf hrow x.fp
  have hqq : q' = q := by rw [hq] at hq'; exact (Option.some.inj hq').symm
  subst hqq
  obtain ⟨s, hs, hfp, _, hm⟩ := hiff'.mp hsel
  refine ⟨s, hs, hfp, hm, ?_⟩
  obtain ⟨r, hr, hrfp, _⟩ := labels_fetch_covers false startMs endMs ts samples hidx planned x hx h1 h2 hp
  have hall : ∀ r' ∈ (fetch false startMs endMs planned).eval ts, r'.fp = x.fp → r'.labels = s.labels := by
    intro r' hr' hf'
    obtain ⟨s', hs', hfp', hl'⟩ := hts r' (mem_eval.mp hr').1
    have : s' = s := eq_of_fp wf.fps hs' hs (by rw [hfp', hf', hfp])
    rw [← hl', this]
  unfold labelsOf LabelsFetch.get
  have := fetchLoop_some norm _ x.fp s.labels ⟨r, hr, hrfp⟩ hall
  unfold fetch at this
  rw [this]; rfl

/-- "last day only" is not enough: the request that takes its lower bound from `l.DateTo` (`FormatFromDate(l.DateTo)`, the
    partition of the last UTC day, plus the previous one during the first 30 minutes of a day) — kernel-checked: window
    2023-11-14T21:00Z … 2023-11-15T01:00Z, series 7 with one sample at 22:00 of the first day and its `time_series` row on that
    day, series 9 reporting on both days. The `Indexed` table satisfies the hypothesis of `labels_fetch_covers`; the request
    returns no row of 7, `Get` hands out `labels.Labels{}`. -/
theorem labels_fetch_last_day_counterexample :
    let startMs : Int := 1699995600000
    let endMs : Int := 1700010000000
    let l7 : Labels := [([105], [98])]
    let l9 : Labels := [([105], [97])]
    let ts : List TsRow := [⟨19675, 7, l7⟩, ⟨19675, 9, l9⟩, ⟨19676, 9, l9⟩]
    let samples : List Smp := [⟨7, 1699999200000⟩, ⟨9, 1699999200000⟩, ⟨9, 1700008000000⟩]
    (∀ s ∈ samples, ∃ r ∈ ts, r.fp = s.fp ∧ r.day = dayOfMs s.ts) ∧
    (∀ s ∈ samples, startMs ≤ s.ts ∧ s.ts ≤ endMs) ∧
    ((fetchWith "to" false startMs endMs [7, 9]).eval ts).map (·.fp) = [9] ∧
    labelsOf id "to" startMs endMs [7, 9] ts 7 = [] ∧
    ((fetchWith "from" false startMs endMs [7, 9]).eval ts).map (·.fp) = [7, 9, 9] ∧
    labelsOf id "from" startMs endMs [7, 9] ts 7 = l7 := by
  decide

/-- … also for a window that ends in the first 30 minutes of a day, where "last day only" reads two partitions: a series that
    stopped two days before the end (kernel-checked; 2023-11-13T23:00Z … 2023-11-15T00:10Z, sample at 23:30 of the first day) -/
theorem labels_fetch_last_day_first_half_hour_counterexample :
    let startMs : Int := 1699916400000
    let endMs : Int := 1700007000000
    let ts : List TsRow := [⟨19674, 7, [([105], [98])]⟩]
    (dayOfMs 1699918200000 = 19674 ∧ startMs ≤ 1699918200000 ∧ (1699918200000 : Int) ≤ endMs) ∧
    ((fetchWith "to" false startMs endMs [7]).lowerDay, (fetchWith "to" false startMs endMs [7]).upperDay) = (19675, 19676) ∧
    labelsOf id "to" startMs endMs [7] ts 7 = [] ∧
    labelsOf id "from" startMs endMs [7] ts 7 = [([105], [98])] := by
  decide

/-- the date bounds of the request as the code has them now (`Gen.PromLabelsFetch`): lower = UTC date of `hints.Start − 30 min`,
    upper = UTC date of `hints.End`; the literals of the rendered statement are the `YYYY-MM-DD` texts of exactly these days -/
theorem labels_fetch_bounds (dist : Bool) (startMs endMs : Int) (fps : List Nat) :
    (fetch dist startMs endMs fps).lowerDay = (startMs / 1000 - 1800) / 86400 ∧
    (fetch dist startMs endMs fps).upperDay = endMs / 1000 / 86400 ∧
    (fetch dist startMs endMs fps).table = (if dist then "time_series_dist" else "time_series") := by
  simp only [fetch, lowerOf_from]
  refine ⟨rfl, rfl, ?_⟩
  cases dist <;> rfl

/-- a fingerprint without a row in the answer gets `labels.Labels{}` — the reason `labels_fetch_covers` is needed -/
theorem labels_missing_row_empty (norm : Labels → Labels) (lowerOf : String) (startMs endMs : Int) (planned : List Nat)
    (ts : List TsRow) (f : Nat) (h : ∀ r ∈ (fetchWith lowerOf false startMs endMs planned).eval ts, r.fp ≠ f) :
    labelsOf norm lowerOf startMs endMs planned ts f = [] := by
  unfold labelsOf LabelsFetch.get
  rw [fetchLoop_none norm _ f h]; rfl

-- non-vacuity: a three-day window (two midnights), series on the first / a middle / the last day only
example :
    let ts : List TsRow := [⟨19674, 1, [([97], [49])]⟩, ⟨19675, 2, [([97], [50])]⟩, ⟨19676, 3, [([97], [51])]⟩]
    let samples : List Smp := [⟨1, 1699900000000⟩, ⟨2, 1700000000000⟩, ⟨3, 1700090000000⟩]
    Indexed ts samples ∧
    (samples.map (fun s => labelsOf id Gen.PromLabelsFetch.lowerOf 1699899000000 1700095000000 [1, 2, 3] ts s.fp)) =
      [[([97], [49])], [([97], [50])], [([97], [51])]] := by
  unfold Indexed
  decide

end LabelsFetch

end Qryn.C17
