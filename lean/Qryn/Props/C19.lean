import Qryn.Proofs.RotateRun
import Qryn.Proofs.RotateAnyStart
import Qryn.Proofs.RotateCluster
import Qryn.Gen.Rotate
import Qryn.Gen.CtrlFlow
/-! # C19 — retention settings converge to the configuration and re-applying them is a no-op

Model: `Qryn.Ctrl.Rotate.run` = one call of `maintenance.Rotate` (ctrl/qryn/maintenance/rotate.go) over the
database `St = {settings record per fingerprint, TTL per table, storage policy per table}`; the groups
(`defs`) are regenerated from the calls in `Rotate` on every run (`Qryn.Gen.Rotate`). A fault is the index of
the statement that reports an error, with or without having taken effect.

The theorems are about the code as fixed on branch `fix-C19` (four defects of the pinned tree, see notes/C19.md):
the record of a group is dropped before its first ALTER and written after its last one; the storage policy of
`metrics_15s` has a settings row of its own; tier intervals are computed in `int64`; the disk name is not a
format string. -/
namespace Qryn.C19
open Qryn Qryn.Ctrl.Rotate

/-- the eight groups of `Rotate`, in call order, as extracted from the source -/
def defs : List GroupDef := ofGen Qryn.Gen.Rotate.groups

/-! ## facts about the extracted code -/

/-- The groups of the current source are well formed: eight different groups, pairwise different settings
    fingerprints (computed with the model of `FingerprintLabelsDJBHashPrometheus`), and groups of the same kind
    own disjoint tables. (On the pinned tree the storage policy and the TTL of `metrics_15s` shared one row and
    this failed.) -/
theorem groups_well_formed : WF defs := by decide +kernel

/-- the fingerprint used for a group is the DJB hash of `{"type":"rotate", "name":"<setting>"` -/
theorem fingerprint_is_hash : ∀ g ∈ defs, g.fp = fpOf rotateType g.setting := by decide +kernel

/-- Order fact read from `Rotate` (the error of every group is returned), `rotateTables` and
    `storagePolicyUpdate`: read the record, return if it equals the
    desired value (or the policy is empty), drop the record, alter every table of the group — each statement's
    error checked —, and only then write the record. `plan`/`runGroup` are this skeleton. -/
theorem order_fact :
    Qryn.Gen.Rotate.rotateNotes = [] ∧
    Qryn.Gen.Rotate.ttlShape =
      ["for(days)[", "]", "get(distributed,\"rotate\",settingName)", "return-if(err != nil || val == rotateTTLStr)",
       "put(\"rotate\",settingName,\"\")", "for(tables)[", "exec:tune($t,onCluster)()",
       "exec:ttl($t,onCluster,rotateTTLStr)()", "]", "return-put(\"rotate\",settingName,rotateTTLStr)"] ∧
    Qryn.Gen.Rotate.policyShape =
      ["get(distributed,\"rotate\",setting)",
       "return-if(err != nil || storagePolicy == \"\" || val == storagePolicy)",
       "put(\"rotate\",setting,\"\")", "for(tables)[", "exec:policy($t,onCluster)(storagePolicy)", "]",
       "return-put(\"rotate\",setting,storagePolicy)"] := ⟨rfl, rfl, rfl⟩

/-- the tier interval is `int64(rp.TTL / time.Second)` clamped from below by the group minimum (`tierSec`), and the
    settings key is `{"type":<quoted type>, "name":<quoted name>` (`settingKey`) -/
theorem conversion_fact :
    Qryn.Gen.Rotate.tierConv =
      ["intsevalSec := int64(rp.TTL / time.Second)", "intsevalSec < int64(minTTL/time.Second)",
       "intsevalSec = int64(minTTL / time.Second)", "%s + toIntervalSecond(%d)|insertTimeExpression,intsevalSec",
       "if rp.MoveTo != \"\" { rotateTTL += \" TO DISK '\" + rp.MoveTo + \"'\" }"] ∧
    Qryn.Gen.Rotate.keyFormat = "{\"type\":%s, \"name\":%s|strconv.Quote(tp),strconv.Quote(name)" := ⟨rfl, rfl⟩

/-! ## the tables the property speaks about -/

def samples_v3 : Bytes := [115, 97, 109, 112, 108, 101, 115, 95, 118, 51]
def tempo_traces : Bytes := [116, 101, 109, 112, 111, 95, 116, 114, 97, 99, 101, 115]
def metrics_15s : Bytes := [109, 101, 116, 114, 105, 99, 115, 95, 49, 53, 115]
def time_series : Bytes := [116, 105, 109, 101, 95, 115, 101, 114, 105, 101, 115]
def time_series_gin : Bytes := [116, 105, 109, 101, 95, 115, 101, 114, 105, 101, 115, 95, 103, 105, 110]
def tempo_traces_attrs_gin : Bytes :=
  [116, 101, 109, 112, 111, 95, 116, 114, 97, 99, 101, 115, 95, 97, 116, 116, 114, 115, 95, 103, 105, 110]
def tempo_traces_kv : Bytes := [116, 101, 109, 112, 111, 95, 116, 114, 97, 99, 101, 115, 95, 107, 118]

/-- tables holding samples: tier moves not earlier than one minute -/
def sampleTables : List Bytes := [samples_v3, tempo_traces, metrics_15s]
/-- index tables: tier moves not earlier than one day -/
def indexTables : List Bytes := [time_series, time_series_gin, tempo_traces_attrs_gin, tempo_traces_kv]
def dataTables : List Bytes := sampleTables ++ indexTables

/-- every data table belongs to exactly the groups that decide its TTL and its storage policy -/
theorem coverage : ∀ t ∈ dataTables,
    (∃ g ∈ defs, g.kind = .ttl ∧ t ∈ g.tables) ∧ (∃ g ∈ defs, g.kind = .policy ∧ t ∈ g.tables) := by
  decide +kernel

theorem minimums : ∀ g ∈ defs, g.kind = .ttl → ∀ t ∈ g.tables,
    (t ∈ sampleTables ∨ t ∈ indexTables) ∧ (t ∈ sampleTables → 60 ≤ g.minSec) ∧ (t ∈ indexTables → 86400 ≤ g.minSec) := by
  decide +kernel

/-! ## reachable databases -/

/-- Databases that can exist: start without retention records (tables in any condition), then any number of
    runs with any configuration, each interrupted anywhere or not at all. -/
abbrev Reachable : St → Prop := ReachableFrom defs

/-- **The record never runs ahead of the tables**: in every run, from a database where this holds, whatever
    statement fails and however, a recorded value of a group is the TTL / storage policy of every table of the
    group. Taking the fault `⟨k, false⟩` for each `k` gives the database in front of every statement of a run, so
    this is an invariant of every instant, not only of the end of runs. -/
theorem marker_implies_altered (c : Cfg) (f : Option Fault) (s : St) (h : Inv defs s) :
    Inv defs (run defs c f s).st :=
  runGroups_inv groups_well_formed f c defs (fun _ h => h) ⟨s, []⟩ h

theorem reachable_inv {s : St} (h : Reachable s) : Inv defs s := by
  induction h with
  | fresh s h => intro g hg hne; exact absurd (h g hg) hne
  | step s c f _ ih => exact marker_implies_altered c f s ih

/-! ## convergence -/

/-- **After a run that reported success** (in particular after every run in which no statement failed) every
    acting group has its desired value recorded and on all of its tables. -/
theorem converges_of_ok (c : Cfg) (f : Option Fault) (s : St) (h : Inv defs s) (hok : (run defs c f s).ok = true) :
    ∀ g ∈ defs, active c g = true →
      (run defs c f s).st.marker g.fp = desired c g ∧ ∀ t ∈ g.tables, attr g.kind (run defs c f s).st t = desired c g :=
  runGroups_converged groups_well_formed f c defs (fun _ h => h) groups_well_formed.1 ⟨s, []⟩ h hok

/-- **Convergence.** A fault-free run reports success, and afterwards the TTL of every data table is the
    expression its group builds from the configuration (`ttlWant`: one clamped tier move per policy entry, then
    the drop after `days`), and, when a storage policy is configured, the storage policy of every data table is
    the configured one. The start may be any database in which records do not run ahead of the tables (`Inv`),
    in particular any reachable one. Without that hypothesis the statement is false — and was false of the
    pinned tree: a record equal to the desired value makes the run skip the group. -/
theorem converges (c : Cfg) (s : St) (h : Inv defs s) :
    (run defs c none s).ok = true ∧
    ∀ t ∈ dataTables,
      (∃ g ∈ defs, g.kind = .ttl ∧ t ∈ g.tables ∧ (run defs c none s).st.ttl t = ttlWant g c) ∧
      (c.policy ≠ [] → (run defs c none s).st.policy t = c.policy) := by
  have hok : (run defs c none s).ok = true := runGroups_none_ok c defs ⟨s, []⟩
  refine ⟨hok, ?_⟩
  intro t ht
  obtain ⟨⟨g, hg, hk, htg⟩, ⟨g', hg', hk', htg'⟩⟩ := coverage t ht
  constructor
  · refine ⟨g, hg, hk, htg, ?_⟩
    have := (converges_of_ok c none s h hok g hg (by simp [active, hk])).2 t htg
    simpa [attr, desired, hk] using this
  · intro hp
    have := (converges_of_ok c none s h hok g' hg' (by simp [active, hk', hp])).2 t htg'
    simpa [attr, desired, hk'] using this

theorem converges_reachable (c : Cfg) (s : St) (h : Reachable s) :
    (run defs c none s).ok = true ∧
    ∀ t ∈ dataTables,
      (∃ g ∈ defs, g.kind = .ttl ∧ t ∈ g.tables ∧ (run defs c none s).st.ttl t = ttlWant g c) ∧
      (c.policy ≠ [] → (run defs c none s).st.policy t = c.policy) :=
  converges c s (reachable_inv h)

/-- the hypothesis of `converges` is satisfiable: a database without records, tables in any condition -/
example (ttl pol : Bytes → Bytes) : Inv defs ⟨fun _ => [], ttl, pol⟩ := fun _ _ h => absurd rfl h

/-! ## the statement log -/

/-- The log of every run is, group after group in the order of `Rotate`, a prefix of
    `read, drop the record, ALTERs of table 1, …, ALTERs of the last table, write the record`. -/
theorem log_shape (c : Cfg) (f : Option Fault) (s : St) :
    ∃ segs, (run defs c f s).log = segs.flatten ∧ Segs c defs segs := by
  obtain ⟨segs, h1, h2⟩ := runGroups_log f c defs ⟨s, []⟩
  exact ⟨segs, by simpa [run] using h1, h2⟩

/-- A run that reports an error stops at the statement the fault names: that statement is the last one of the
    log, so every statement in front of it succeeded. Without a fault the run reports success. -/
theorem failure_is_last (c : Cfg) (f : Option Fault) (s : St) (h : (run defs c f s).ok = false) :
    ∃ ft, f = some ft ∧ (run defs c f s).log.length = ft.idx + 1 :=
  runGroups_fail h

private theorem flatten_split {α : Type} : ∀ {segs : List (List α)} {pre post : List α} {x : α},
    segs.flatten = pre ++ x :: post →
    ∃ A e B e1 e2, segs = A ++ e :: B ∧ e = e1 ++ x :: e2 ∧ pre = A.flatten ++ e1 := by
  intro segs
  induction segs with
  | nil => intro pre post x h; simp at h
  | cons e rest ih =>
    intro pre post x h
    rw [List.flatten_cons] at h
    rcases List.append_eq_append_iff.mp h with ⟨a', h1, h2⟩ | ⟨c', h1, h2⟩
    · obtain ⟨A, e', B, e1, e2, hs, he, hp⟩ := ih h2
      exact ⟨e :: A, e', B, e1, e2, by rw [hs]; rfl, he, by rw [h1, hp]; simp⟩
    · cases c' with
      | nil =>
        simp only [List.nil_append] at h2
        obtain ⟨A, e', B, e1, e2, hs, he, hp⟩ := ih (pre := []) (by simpa using h2.symm)
        refine ⟨e :: A, e', B, e1, e2, by rw [hs]; rfl, he, ?_⟩
        have : e = pre := by simpa using h1
        rw [List.flatten_cons, List.append_assoc, ← hp, this]; simp
      | cons y c'' =>
        simp only [List.cons_append, List.cons.injEq] at h2
        exact ⟨[], e, rest, pre, c'', rfl, by rw [h1, h2.1], by simp⟩

private theorem segs_mem {c : Cfg} : ∀ {gs : List GroupDef} {A : List (List Stmt)} {e : List Stmt} {B : List (List Stmt)},
    Segs c gs (A ++ e :: B) → ∃ g ∈ gs, e <+: fullSeq c g := by
  intro gs A
  induction A generalizing gs with
  | nil =>
    intro e B h
    cases gs with
    | nil => exact absurd h (by simp [Segs])
    | cons g gs => exact ⟨g, by simp, h.1⟩
  | cons a A ih =>
    intro e B h
    cases gs with
    | nil => exact absurd h (by simp [Segs])
    | cons g gs =>
      obtain ⟨g', hg', hp⟩ := ih (gs := gs) h.2
      exact ⟨g', List.mem_cons_of_mem _ hg', hp⟩

private theorem last_split {α : Type} {e1 e2 init : List α} {x : α} (hx : x ∉ init)
    (h : e1 ++ x :: e2 = init ++ [x]) : e1 = init ∧ e2 = [] := by
  rcases List.append_eq_append_iff.mp h with ⟨a', h1, h2⟩ | ⟨c', h1, h2⟩
  · cases a' with
    | nil => simp at h2; exact ⟨by simpa using h1.symm, h2⟩
    | cons y a'' =>
      simp only [List.cons_append, List.cons.injEq] at h2
      exact absurd (by rw [h1, h2.1]; simp) hx
  · cases c' with
    | nil => simp at h2; exact ⟨by simpa using h1, h2⟩
    | cons y c'' =>
      simp only [List.cons_append, List.cons.injEq] at h2
      have := h2.2
      simp at this

/-- **The applied value is recorded only after all tables of the group were altered.** Wherever the log of a
    run — any configuration, any start, any fault — contains the write of a non-empty value to a settings row,
    that row is the row of one of the groups, the value is the group's desired value, and the statements
    immediately in front of the write are: the read of the row, the write that dropped the old record, and the
    ALTERs of *every* table of the group. By `failure_is_last` all of them succeeded. -/
theorem marker_after_all_alters (c : Cfg) (f : Option Fault) (s : St)
    (pre post : List Stmt) (fp : Nat) (tp nm v : Bytes) (hv : v ≠ [])
    (hlog : (run defs c f s).log = pre ++ Stmt.put fp tp nm v :: post) :
    ∃ g ∈ defs, Stmt.put fp tp nm v = putWant c g ∧
      ∃ pre', pre = pre' ++ (readStmt c g :: putEmpty g :: alters c g) := by
  obtain ⟨segs, hflat, hsegs⟩ := log_shape c f s
  rw [hflat] at hlog
  obtain ⟨A, e, B, e1, e2, hs, he, hpre⟩ := flatten_split hlog
  rw [hs] at hsegs
  obtain ⟨g, hg, hp⟩ := segs_mem hsegs
  have hmem : Stmt.put fp tp nm v ∈ e := by rw [he]; simp
  obtain ⟨hfull, hput⟩ := put_in_prefix hp hv hmem
  refine ⟨g, hg, hput, A.flatten, ?_⟩
  have hfull' : fullSeq c g = (readStmt c g :: putEmpty g :: alters c g) ++ [putWant c g] := by
    simp [fullSeq, plan]
  have hnot : Stmt.put fp tp nm v ∉ readStmt c g :: putEmpty g :: alters c g := by
    intro h
    rcases List.mem_cons.mp h with h | h
    · cases h
    · rcases List.mem_cons.mp h with h | h
      · simp only [putEmpty, Stmt.put.injEq] at h; exact hv h.2.2.2
      · have := alters_isAlter h; simp [Stmt.isAlter] at this
  have : e1 = readStmt c g :: putEmpty g :: alters c g := by
    have h := he.symm.trans (hfull.trans hfull')
    rw [← hput] at h
    exact (last_split hnot h).1
  rw [hpre, this]

/-! ## interruption -/

/-- the database after a sequence of interrupted runs of one configuration -/
abbrev afterFaults (c : Cfg) : List Fault → St → St := afterFaultsOf defs c

private theorem frame_run (c : Cfg) (f : Option Fault) (s : St) :
    (∀ fp, (∀ g ∈ defs, active c g = true → g.fp ≠ fp) → (run defs c f s).st.marker fp = s.marker fp) ∧
    (∀ k t, (∀ g ∈ defs, active c g = true → g.kind = k → t ∉ g.tables) → attr k (run defs c f s).st t = attr k s t) :=
  runGroups_frame f c defs ⟨s, []⟩

/-- two databases that differ only where acting groups write end in the same database after a fault-free run -/
private theorem same_goal (c : Cfg) (s s' : St) (h : Inv defs s) (h' : Inv defs s')
    (hm : ∀ fp, (∀ g ∈ defs, active c g = true → g.fp ≠ fp) → s'.marker fp = s.marker fp)
    (ha : ∀ k t, (∀ g ∈ defs, active c g = true → g.kind = k → t ∉ g.tables) → attr k s' t = attr k s t) :
    (run defs c none s').st = (run defs c none s).st := by
  have hok : (run defs c none s).ok = true := runGroups_none_ok c defs ⟨s, []⟩
  have hok' : (run defs c none s').ok = true := runGroups_none_ok c defs ⟨s', []⟩
  have hc := converges_of_ok c none s h hok
  have hc' := converges_of_ok c none s' h' hok'
  have hf := frame_run c none s
  have hf' := frame_run c none s'
  have hattr : ∀ k t, attr k (run defs c none s').st t = attr k (run defs c none s).st t := by
    intro k t
    by_cases hex : ∃ g, g ∈ defs ∧ active c g = true ∧ g.kind = k ∧ t ∈ g.tables
    · obtain ⟨g, hg, hact, hk, ht⟩ := hex
      subst hk
      rw [(hc' g hg hact).2 t ht, (hc g hg hact).2 t ht]
    · have hno : ∀ g ∈ defs, active c g = true → g.kind = k → t ∉ g.tables :=
        fun g hg hact hk ht => hex ⟨g, hg, hact, hk, ht⟩
      rw [hf'.2 k t hno, hf.2 k t hno, ha k t hno]
  apply St.ext'
  · funext fp
    by_cases hex : ∃ g, g ∈ defs ∧ active c g = true ∧ g.fp = fp
    · obtain ⟨g, hg, hact, hfp⟩ := hex
      subst hfp
      rw [(hc' g hg hact).1, (hc g hg hact).1]
    · have hno : ∀ g ∈ defs, active c g = true → g.fp ≠ fp := fun g hg hact hfp => hex ⟨g, hg, hact, hfp⟩
      rw [hf'.1 fp hno, hf.1 fp hno, hm fp hno]
  · funext t; exact hattr .ttl t
  · funext t; exact hattr .policy t

/-- **A run interrupted at any statement is completed by the next run.** For every finite sequence of
    interrupted runs of a configuration (each with its own failing statement, failing before or after taking
    effect) the following fault-free run ends in exactly the database in which the uninterrupted run would have
    ended — records, TTLs and storage policies of all tables. -/
theorem interrupted_then_completed (c : Cfg) (fs : List Fault) (s : St) (h : Inv defs s) :
    (run defs c none (afterFaults c fs s)).st = (run defs c none s).st := by
  induction fs generalizing s with
  | nil => rfl
  | cons f fs ih =>
    simp only [afterFaults, afterFaultsOf]
    have h1 : Inv defs (run defs c (some f) s).st := marker_implies_altered c (some f) s h
    rw [ih _ h1]
    have hf := frame_run c (some f) s
    exact same_goal c s _ h h1 hf.1 hf.2

/-! ## re-apply -/

/-- **Running again with unchanged configuration issues no ALTER statement**: after a fault-free run, another
    run with the same configuration — even one in which a statement fails — sends only reads of the settings rows
    and leaves the database as it is. -/
theorem reapply_noop (c : Cfg) (s : St) (h : Inv defs s) (f : Option Fault) :
    (∀ x ∈ (run defs c f (run defs c none s).st).log, x.isAlter = false ∧ x.isRead = true) ∧
    (run defs c f (run defs c none s).st).st = (run defs c none s).st := by
  have hok : (run defs c none s).ok = true := runGroups_none_ok c defs ⟨s, []⟩
  have hconv : ∀ g ∈ defs, active c g = true → (run defs c none s).st.marker g.fp = desired c g :=
    fun g hg hact => (converges_of_ok c none s h hok g hg hact).1
  obtain ⟨hst, e, hlog, hread⟩ := runGroups_noop f c defs ⟨(run defs c none s).st, []⟩ hconv
  refine ⟨?_, hst⟩
  intro x hx
  have hx' : x ∈ e := by
    have : (run defs c f (run defs c none s).st).log = e := by simpa [run] using hlog
    rw [this] at hx; exact hx
  have := hread x hx'
  cases x <;> simp_all [Stmt.isRead, Stmt.isAlter]

/-- not vacuous: on a fresh database the first run does send ALTERs (31 statements without a storage policy, 45
    with one), the second run of the same configuration sends the eight reads only -/
example :
    let c : Cfg := ⟨[], false, [112], 7, [⟨5000000000, [100]⟩]⟩
    let fresh : St := ⟨fun _ => [], fun _ => [], fun _ => []⟩
    ((run defs c none fresh).log.filter Stmt.isAlter).length = 21 ∧ (run defs c none fresh).log.length = 45 ∧
    (run defs c none (run defs c none fresh).st).log.length = 8 := by
  decide +kernel

/-! ## clamp -/

/-- `tierSec` is the whole seconds of the duration (Go integer division, toward zero) raised to the minimum -/
theorem tier_exact (m ns : Int) : tierSec m ns = max (ns.tdiv 1000000000) m := by
  unfold tierSec
  simp only []
  split <;> omega

/-- **Clamp.** For every configuration and every duration whatsoever (every `Int`, so every `int64`
    `time.Duration`, negative ones and those beyond 2³¹ seconds included) the interval of a tier move in the TTL of a
    sample table is at least 60 s and in the TTL of an index table at least 86400 s. `ttlWant g c` is built from
    exactly these numbers (`tierExpr`). -/
theorem clamp (c : Cfg) : ∀ g ∈ defs, g.kind = .ttl → ∀ t ∈ g.tables, ∀ tier ∈ c.tiers,
    (t ∈ sampleTables → 60 ≤ tierSec g.minSec tier.ns) ∧ (t ∈ indexTables → 86400 ≤ tierSec g.minSec tier.ns) := by
  intro g hg hk t ht tier _
  have hm := minimums g hg hk t ht
  have hge : g.minSec ≤ tierSec g.minSec tier.ns := by rw [tier_exact]; omega
  exact ⟨fun h => Int.le_trans (hm.2.1 h) hge, fun h => Int.le_trans (hm.2.2 h) hge⟩

/-- the clamp is not vacuous: a tier of 2³¹ s (the value at which the pinned tree's `int32` wrapped) stays 2³¹ s,
    one of 5 s becomes the minimum -/
example : tierSec 60 2147483648000000000 = 2147483648 ∧ tierSec 60 5000000000 = 60 ∧ tierSec 86400 (-1) = 86400 := by
  decide

/-! # Any start database: where `Rotate` repairs and where it does not -/

/-- **No hypothesis on the records.** From ANY database — also one in which a record lies (written by the pinned
    tree before its tables were altered, or edited by hand) — a fault-free run leaves, for every acting group: the
    desired value recorded; the group's tables at the desired value IF the record differed from it before the run;
    the group's tables exactly as they were if the record already equalled it. -/
theorem converges_any_start (c : Cfg) (s : St) : ∀ g ∈ defs, active c g = true →
    (run defs c none s).st.marker g.fp = desired c g ∧
    (s.marker g.fp = desired c g → ∀ t ∈ g.tables, attr g.kind (run defs c none s).st t = attr g.kind s t) ∧
    (s.marker g.fp ≠ desired c g → ∀ t ∈ g.tables, attr g.kind (run defs c none s).st t = desired c g) :=
  fun g hg hact => runGroups_any_start groups_well_formed c defs (fun _ h => h) groups_well_formed.1 ⟨s, []⟩ g hg hact

/-- **Exactly when a damaged database is repaired**: after a fault-free run the tables of an acting group carry the
    configured value iff the record differed from it (the group was redone) or they carried it already. In particular a
    record that is AHEAD of the tables and equal to the configuration is never repaired by `Rotate` — it takes a change
    of the configuration (or dropping the settings row). -/
theorem repaired_iff (c : Cfg) (s : St) (g : GroupDef) (hg : g ∈ defs) (hact : active c g = true) :
    (∀ t ∈ g.tables, attr g.kind (run defs c none s).st t = desired c g) ↔
      (s.marker g.fp ≠ desired c g ∨ ∀ t ∈ g.tables, attr g.kind s t = desired c g) := by
  obtain ⟨_, h2, h3⟩ := converges_any_start c s g hg hact
  constructor
  · intro h
    by_cases he : s.marker g.fp = desired c g
    · right; intro t ht; rw [← h2 he t ht]; exact h t ht
    · left; exact he
  · rintro (h | h)
    · exact h3 h
    · by_cases he : s.marker g.fp = desired c g
      · intro t ht; rw [h2 he t ht]; exact h t ht
      · exact h3 he

/-- the group that decides the TTL of `samples_v3` -/
def gSamples : GroupDef :=
  (defs.find? fun g => g.kind == .ttl && g.tables.contains samples_v3).getD ⟨.ttl, [], 0, [], 0, [], []⟩

/-- a lying record is really not repaired: tables without TTL, record already equal to the configuration -/
example :
    let c : Cfg := ⟨[], false, [], 7, []⟩
    let g : GroupDef := gSamples
    let s : St := ⟨fun fp => if fp = g.fp then desired c g else [], fun _ => [], fun _ => []⟩
    (run defs c none s).ok = true ∧ (run defs c none s).st.ttl samples_v3 = [] ∧ ttlWant g c ≠ [] := by
  decide +kernel

/-! # The cluster: N nodes, `ON CLUSTER` ALTERs applied to any subset, any connection

Model `Qryn.Ctrl.RotateCluster`: per-node TTL / storage policy; `settings` rows live on the node they were inserted on;
`getSetting` reads `settings_dist` (all nodes) iff `distributed`; an ALTER carries `ON CLUSTER` iff `clusterName != ""`
and then runs on every node, a failure leaving it applied on any set of nodes; every run may be connected to another
node. -/

/-- `rotateDB` passes `distributed = (ClusterName != "")` (re-extracted): the two layouts the theorems are stated for -/
theorem rotate_layout_fact :
    Qryn.Gen.CtrlFlow.rotateDB.getLast? =
      some "return Rotate(connDb, dbObject.ClusterName, dbObject.ClusterName != \"\", ttlPolicy, dbObject.TTLDays, dbObject.StoragePolicy, logger.Logger)" ∧
    Qryn.Gen.CtrlFlow.ctrlRotate =
      ["var err error", "proj, ok := projects[project]",
       "if !ok { return fmt.Errorf(\"project %s not found\", project) }",
       "for _, db := range config.Setting.DATABASE_DATA { err = proj.init(&db, logger.Logger) if err != nil { panic(err) } }",
       "err = proj.rotate(config.Setting.DATABASE_DATA, logger.Logger)",
       "return err"] := ⟨rfl, rfl⟩

/-- **Where the record is read from and written to** (re-extracted): `getSetting` reads `settings_dist` exactly when
    `dist`, else `settings`; `putSetting` inserts into the connected node's `settings`. -/
theorem settings_tables_fact :
    "settings := \"settings\"" ∈ Qryn.Gen.CtrlFlow.getSetting ∧
    "if dist { settings += \"_dist\" }" ∈ Qryn.Gen.CtrlFlow.getSetting ∧
    (Qryn.Gen.CtrlFlow.getSetting.filter fun l => l.startsWith "rows, err := db.Query(") =
      ["rows, err := db.Query(context.Background(), fmt.Sprintf(`SELECT argMax(value, inserted_at) as _value FROM %s WHERE fingerprint = $1 GROUP BY fingerprint HAVING argMax(name, inserted_at) != ''`, settings), fp)"] ∧
    Qryn.Gen.CtrlFlow.getSetting.length = 8 ∧
    "err := db.Exec(context.Background(), `INSERT INTO settings (fingerprint, type, name, value, inserted_at) VALUES ($1, $2, $3, $4, now64(9))`, fp, tp, name, value)" ∈ Qryn.Gen.CtrlFlow.putSetting := by
  decide +kernel

/-- a configured cluster: `ON CLUSTER` on every ALTER, records read from `settings_dist` -/
def Clustered (c : Cfg) : Prop := c.dist = true ∧ c.cluster ≠ []

/-- **cluster_rotate_refines.** On a configured cluster, for every node `i`, every connection, every failure point
    (any statement, taking effect on any set of nodes): what node `i` holds after the cluster run (its TTLs, its
    policies, the records a process connected to it reads) is what its own single-database run of `Rotate` leaves, with
    the same failing statement and one of the two "applied" flags; same statement log, same reported result. Without a
    cluster the same holds for the connected node (`hP` with `i = conn`). -/
theorem cluster_rotate_refines (c : Cfg) (conn : Nat) (f : Option CFault) (cs : CSt) (i : Nat) (hc : conn < cs.n)
    (hP : i < cs.n ∧ (i = conn ∨ Clustered c)) :
    ∃ b, cview c.dist (crun defs c conn f cs).cs i = (run defs c (sf f b) (cview c.dist cs i)).st ∧
      (crun defs c conn f cs).log = (run defs c (sf f b) (cview c.dist cs i)).log ∧
      (crun defs c conn f cs).ok = (run defs c (sf f b) (cview c.dist cs i)).ok := by
  obtain ⟨b, h1, h2, h3, _⟩ := crun_refines defs c conn f cs i hc hP
  exact ⟨b, h1, h2, h3⟩

/-- the record is never ahead of the tables ON ANY NODE: `Inv` of every node's view is kept by every cluster run -/
theorem cluster_marker_implies_altered (c : Cfg) (hl : Clustered c) (conn : Nat) (f : Option CFault) (cs : CSt)
    (h : ∀ i, i < cs.n → Inv defs (cview true cs i)) :
    ∀ i, i < cs.n → Inv defs (cview true (crun defs c conn f cs).cs i) := by
  intro i hi
  by_cases hc : conn < cs.n
  · obtain ⟨b, h1, _⟩ := crun_refines defs c conn f cs i hc ⟨hi, Or.inr hl⟩
    rw [hl.1] at h1
    rw [h1]
    exact marker_implies_altered c (sf f b) _ (h i hi)
  · simp only [crun, hc, if_false]; exact h i hi

/-- where a node ends after an uninterrupted run -/
abbrev target (c : Cfg) (s : St) : St := (run defs c none s).st

/-- one more run of the same configuration, interrupted anywhere or not at all, does not change where the node ends -/
theorem target_stable (c : Cfg) (s : St) (h : Inv defs s) (f : Option Fault) :
    target c (run defs c f s).st = target c s := by
  cases f with
  | none => exact (reapply_noop c s h none).2
  | some ft => exact interrupted_then_completed c [ft] s h

/-- the runs of one configuration: (connection, failure point) -/
def sameCfg (c : Cfg) (sch : List (Nat × Option CFault)) : List (Nat × Cfg × Option CFault) :=
  sch.map fun p => (p.1, c, p.2)

private theorem cafter_keeps (c : Cfg) (hl : Clustered c) : ∀ (sch : List (Nat × Option CFault)) (cs : CSt),
    (∀ i, i < cs.n → Inv defs (cview true cs i)) →
    (cafter defs (sameCfg c sch) cs).n = cs.n ∧
    ∀ i, i < cs.n → Inv defs (cview true (cafter defs (sameCfg c sch) cs) i) ∧
      target c (cview true (cafter defs (sameCfg c sch) cs) i) = target c (cview true cs i) := by
  intro sch
  induction sch with
  | nil => intro cs h; exact ⟨rfl, fun i hi => ⟨h i hi, rfl⟩⟩
  | cons p r ih =>
    intro cs h
    obtain ⟨conn, f⟩ := p
    have hcons : sameCfg c ((conn, f) :: r) = (conn, c, f) :: sameCfg c r := rfl
    rw [hcons]
    simp only [cafter]
    have hn := crun_n defs c conn f cs
    have hinv := cluster_marker_implies_altered c hl conn f cs h
    obtain ⟨a, b⟩ := ih (crun defs c conn f cs).cs (fun i hi => hinv i (by rw [← hn]; exact hi))
    refine ⟨by rw [← hn]; exact a, ?_⟩
    intro i hi
    obtain ⟨b1, b2⟩ := b i (by rw [hn]; exact hi)
    refine ⟨b1, ?_⟩
    rw [b2]
    by_cases hc : conn < cs.n
    · obtain ⟨bb, h1, _⟩ := crun_refines defs c conn f cs i hc ⟨hi, Or.inr hl⟩
      rw [hl.1] at h1
      rw [h1]
      exact target_stable c _ (h i hi) (sf f bb)
    · simp only [crun, hc, if_false]

/-- **cluster_rotate_converges.** A configured cluster of ANY size, every node's view satisfying `Inv` (a fresh
    cluster, or any cluster reached by runs of the fixed code), a configuration `c`: after ANY sequence of runs of `c`
    — each connected to any node (or to none), each interrupted at any statement after it took effect on any set of
    nodes, or not interrupted — one more uninterrupted run, connected to any node, reports success and leaves EVERY
    node exactly where that node's own uninterrupted single-database run would have left it: in particular every data
    table of every node has the configured TTL and (when configured) storage policy. -/
theorem cluster_rotate_converges (c : Cfg) (hl : Clustered c) (cs : CSt)
    (h : ∀ i, i < cs.n → Inv defs (cview true cs i)) (sch : List (Nat × Option CFault)) (conn : Nat) (hc : conn < cs.n) :
    (crun defs c conn none (cafter defs (sameCfg c sch) cs)).ok = true ∧
    ∀ i, i < cs.n →
      cview true (crun defs c conn none (cafter defs (sameCfg c sch) cs)).cs i = target c (cview true cs i) ∧
      ∀ t ∈ dataTables,
        (∃ g ∈ defs, g.kind = .ttl ∧ t ∈ g.tables ∧
          (crun defs c conn none (cafter defs (sameCfg c sch) cs)).cs.ttl i t = ttlWant g c) ∧
        (c.policy ≠ [] → (crun defs c conn none (cafter defs (sameCfg c sch) cs)).cs.policy i t = c.policy) := by
  obtain ⟨hn, hk⟩ := cafter_keeps c hl sch cs h
  have hc' : conn < (cafter defs (sameCfg c sch) cs).n := by rw [hn]; exact hc
  constructor
  · have := (crun_refines_clean defs c conn _ conn hc' ⟨hc', Or.inl rfl⟩).2.2
    rw [this]
    exact runGroups_none_ok c defs _
  · intro i hi
    have hi' : i < (cafter defs (sameCfg c sch) cs).n := by rw [hn]; exact hi
    obtain ⟨h1, _, _⟩ := crun_refines_clean defs c conn _ i hc' ⟨hi', Or.inr hl⟩
    rw [hl.1] at h1
    obtain ⟨hinv, htg⟩ := hk i hi
    have hview : cview true (crun defs c conn none (cafter defs (sameCfg c sch) cs)).cs i = target c (cview true cs i) := by
      rw [h1]; exact htg
    refine ⟨hview, ?_⟩
    intro t ht
    have hconv := (converges c (cview true cs i) (h i hi)).2 t ht
    have ht1 : (crun defs c conn none (cafter defs (sameCfg c sch) cs)).cs.ttl i t = (target c (cview true cs i)).ttl t := by
      rw [← hview]; rfl
    have hp1 : (crun defs c conn none (cafter defs (sameCfg c sch) cs)).cs.policy i t = (target c (cview true cs i)).policy t := by
      rw [← hview]; rfl
    rw [ht1, hp1]
    exact hconv

/-- **Second run on a cluster: reads only, nothing changes on any node.** After an uninterrupted run of `c` on a
    configured cluster, another run of `c` — connected to any node, even one in which a statement fails — sends only
    settings reads and leaves every node as it is. -/
theorem cluster_reapply_noop (c : Cfg) (hl : Clustered c) (cs : CSt) (h : ∀ i, i < cs.n → Inv defs (cview true cs i))
    (conn conn' : Nat) (hc : conn < cs.n) (hc' : conn' < cs.n) (f : Option CFault) :
    (∀ x ∈ (crun defs c conn' f (crun defs c conn none cs).cs).log, x.isAlter = false ∧ x.isRead = true) ∧
    ∀ i, i < cs.n → cview true (crun defs c conn' f (crun defs c conn none cs).cs).cs i =
      cview true (crun defs c conn none cs).cs i := by
  have hn := crun_n defs c conn none cs
  have hc2 : conn' < (crun defs c conn none cs).cs.n := by rw [hn]; exact hc'
  have first : ∀ i, i < cs.n → cview true (crun defs c conn none cs).cs i = target c (cview true cs i) := by
    intro i hi
    have := (crun_refines_clean defs c conn cs i hc ⟨hi, Or.inr hl⟩).1
    rw [hl.1] at this; exact this
  constructor
  · obtain ⟨b, _, h2, _⟩ := crun_refines defs c conn' f (crun defs c conn none cs).cs conn' hc2 ⟨hc2, Or.inl rfl⟩
    rw [h2, hl.1, first conn' hc']
    exact (reapply_noop c (cview true cs conn') (h conn' hc') (sf f b)).1
  · intro i hi
    obtain ⟨b, h1, _⟩ := crun_refines defs c conn' f (crun defs c conn none cs).cs i hc2 ⟨by rw [hn]; exact hi, Or.inr hl⟩
    rw [hl.1] at h1
    rw [h1, first i hi]
    exact (reapply_noop c (cview true cs i) (h i hi) (sf f b)).2

/-- **Any start cluster**: no hypothesis on the records, node by node — after an uninterrupted run every node whose
    tables the record lied about is repaired exactly when the record differed from the configuration (`repaired_iff`
    applied to the node's view). -/
theorem cluster_any_start (c : Cfg) (hl : Clustered c) (cs : CSt) (conn : Nat) (hc : conn < cs.n) (i : Nat) (hi : i < cs.n)
    (g : GroupDef) (hg : g ∈ defs) (hact : active c g = true) :
    (∀ t ∈ g.tables, attr g.kind (cview true (crun defs c conn none cs).cs i) t = desired c g) ↔
      ((cview true cs i).marker g.fp ≠ desired c g ∨ ∀ t ∈ g.tables, attr g.kind (cview true cs i) t = desired c g) := by
  have := (crun_refines_clean defs c conn cs i hc ⟨hi, Or.inr hl⟩).1
  rw [hl.1] at this
  rw [this]
  exact repaired_iff c (cview true cs i) g hg hact

/-- without a cluster a run leaves every node it is not connected to exactly as it was -/
theorem local_rotate_frame (c : Cfg) (hcl : c.cluster = []) (conn : Nat) (f : Option CFault) (cs : CSt) (i : Nat)
    (hi : i ≠ conn) : cview false (crun defs c conn f cs).cs i = cview false cs i :=
  crun_frame defs c hcl conn f cs i hi

/-- non-vacuity: a fresh cluster of any size satisfies the hypothesis of `cluster_rotate_converges` -/
example (n : Nat) : ∀ i, i < (freshCluster n).n → Inv defs (cview true (freshCluster n) i) := by
  intro i _ g _ hne
  exact absurd rfl hne

/-- **Why `distributed` must be `clusterName != ""`** (the layout `rotateDB` passes, `rotate_layout_fact`): with
    `ON CLUSTER` ALTERs but records read from the connected node's own `settings` table, three uninterrupted runs
    behind a load balancer — 7 days on node 0, 30 days on node 1, 7 days on node 0 again — end with success reported
    and every table at 30 days: node 0 still holds the record of the first run. Kernel-evaluated on two nodes. -/
theorem mixed_layout_counterexample :
    let c7 : Cfg := ⟨[99], false, [], 7, []⟩
    let c30 : Cfg := ⟨[99], false, [], 30, []⟩
    let g : GroupDef := gSamples
    let cs := (crun defs c7 0 none (crun defs c30 1 none (crun defs c7 0 none (freshCluster 2)).cs).cs)
    cs.ok = true ∧ cs.log.length = 8 ∧ cs.cs.ttl 0 samples_v3 ≠ ttlWant g c7 ∧ cs.cs.ttl 0 samples_v3 = ttlWant g c30 := by
  decide +kernel

end Qryn.C19
