import Qryn.Proofs.Ingest
import Qryn.Proofs.Utf8
import Qryn.Proofs.Wire
import Qryn.Gen.Decoders
/-! # C03 — log and metric ingest decodes every entry to exactly one faithful row

Model: `Qryn.Ingest.Builder` (`onEntries`, flush/reset, cache, sanitiser, TTL label), `Qryn.Ingest.Decode`
(the seven `Decode` methods as callback sequences over the decoded document) and — second half of this file —
`Qryn.Ingest.Wire` / `Qryn.Ingest.WireDecode`: the decoders' own hand-written logic over the INTERMEDIATE VALUES the
third-party codecs hand to it (`jx` JSON values with members in document order and duplicates, protobuf message
structs, telegraf `Metric`s, `text/scanner` tokens). In every theorem

* `env : Env` is arbitrary: the fingerprint function `env.fp` (property C04) and the length of the label document
  are abstract; the byte-threshold test `env.flush` (any predicate on the byte count), the per-row size constants and
  the request's TTL are arbitrary;
* `fl` is an arbitrary remote-write point-limit test (any predicate on the counter), `now` an arbitrary wall clock.

`Gen.Thresholds` holds the constants of today's source (1000 points, 1 MiB, 26, 14, the sanitiser); the theorems do
not depend on their values except where stated (`size_pos_gen`, `type_of_entry`, `sanitiser_source`). -/
namespace Qryn.C03
open Qryn Qryn.Ingest

/-- the row the property demands for an entry of a stream whose label list (as handed to the builder) is `ident`:
    the fingerprint is taken of `identOf` = `validUTF8Labels` of the list after the `__ttl_days__` preamble, i.e. for a
    sanitising decoder `fp (validLabels (effective ttl (sanitizeLabels labels)).1)` -/
def want (env : Env) (ident : Labels) (e : Entry) : Row :=
  rowOf (env.fp (identOf env.ctxTtl ident)) (ttlOf env.ctxTtl ident) e

/-- **All protocols.** For every body of every protocol, every fingerprint function, every threshold: the parser
    does not fault, and the sample rows of all chunks it emits, concatenated in emission order, are exactly: for each
    stream of the body in order, for each of its entries in order, one row with that entry's timestamp, line,
    value and type, under the fingerprint (and TTL) of that entry's own stream. Nothing lost, duplicated or
    attributed to another stream, however the rows were cut into chunks. -/
theorem samples_faithful (env : Env) (fl : Nat → Bool) (now : Int) (b : Body) :
    ∃ chunks, b.run env fl now = .ok chunks ∧
      chunks.flatMap Chunk.rows = (b.streams now).flatMap (fun s => s.2.map (want env s.1)) := by
  obtain ⟨chunks, e, _, r⟩ := Body.run_spec env fl now b
  exact ⟨chunks, e, r⟩

/-- Loki JSON push, both layouts (`stream`/`labels`, `values`/`entries`): stream identity = sanitised labels. -/
theorem samples_faithful_loki (env : Env) (fl : Nat → Bool) (now : Int) (d : LokiDoc) :
    ∃ chunks, (Body.loki d).run env fl now = .ok chunks ∧
      chunks.flatMap Chunk.rows =
        d.flatMap (fun s => s.entries.map (fun e => want env (sanitizeLabels s.labels) e.entry)) := by
  obtain ⟨chunks, e, r⟩ := samples_faithful env fl now (.loki d)
  refine ⟨chunks, e, ?_⟩
  simpa [Body.streams, List.flatMap_map, LokiStream.sub, LokiStream.ident, Function.comp_def] using r

/-- Loki snappy-protobuf push. -/
theorem samples_faithful_lokiProto (env : Env) (fl : Nat → Bool) (now : Int) (d : LokiProto) :
    ∃ chunks, (Body.lokiProto d).run env fl now = .ok chunks ∧
      chunks.flatMap Chunk.rows =
        d.flatMap (fun s => s.entries.map (fun e => want env (sanitizeLabels s.labels) e.entry)) := by
  obtain ⟨chunks, e, r⟩ := samples_faithful env fl now (.lokiProto d)
  refine ⟨chunks, e, ?_⟩
  simpa [Body.streams, List.flatMap_map, ProtoStream.sub, ProtoStream.ident, Function.comp_def] using r

/-- Prometheus remote write, for EVERY point-limit test `fl` (today `points >= 1000`): the mid-series flushes partition each
    series' samples; no sample is lost, repeated or typed by another series. -/
theorem samples_faithful_prom (env : Env) (fl : Nat → Bool) (now : Int) (d : PromWrite) :
    ∃ chunks, (Body.prom d).run env fl now = .ok chunks ∧
      chunks.flatMap Chunk.rows =
        d.flatMap (fun s => s.samples.map (fun e => want env (sanitizeLabels s.labels) e.entry)) := by
  obtain ⟨chunks, e, r⟩ := samples_faithful env fl now (.prom d)
  refine ⟨chunks, e, ?_⟩
  simpa [Body.streams, List.flatMap_map, PromSeries.sub, PromSeries.ident, Function.comp_def] using r

/-- Influx line protocol: a point with a `message` field is one log entry; otherwise every numeric field is one
    metric entry of the stream `measurement + tags + __name__=<field>`. -/
theorem samples_faithful_influx (env : Env) (fl : Nat → Bool) (now : Int) (d : InfluxPoints) :
    ∃ chunks, (Body.influx d).run env fl now = .ok chunks ∧
      chunks.flatMap Chunk.rows = d.flatMap (fun p => p.streams.flatMap (fun s => s.2.map (want env s.1))) := by
  obtain ⟨chunks, e, r⟩ := samples_faithful env fl now (.influx d)
  refine ⟨chunks, e, ?_⟩
  simpa [Body.streams, List.flatMap_assoc] using r

/-- Datadog logs: every array element is one log entry of the stream `ddtags + non-empty fixed fields`
    (after the fix: the fixed fields of THIS element only). -/
theorem samples_faithful_ddLogs (env : Env) (fl : Nat → Bool) (now : Int) (d : DatadogLogs) :
    ∃ chunks, (Body.ddLogs d).run env fl now = .ok chunks ∧
      chunks.flatMap Chunk.rows =
        d.map (fun e => want env e.ident ⟨ddTs now e.tsMs, e.message, 0, Gen.sampleTypeLog⟩) := by
  obtain ⟨chunks, e, r⟩ := samples_faithful env fl now (.ddLogs d)
  refine ⟨chunks, e, ?_⟩
  simp only [Body.streams, List.flatMap_map, DDLog.sub, List.map_cons, List.map_nil] at r
  rw [r]
  exact flatMap_single _ _

/-- Datadog series. -/
theorem samples_faithful_ddSeries (env : Env) (fl : Nat → Bool) (now : Int) (d : DatadogSeries) :
    ∃ chunks, (Body.ddSeries d).run env fl now = .ok chunks ∧
      chunks.flatMap Chunk.rows = d.flatMap (fun s => s.points.map (fun p => want env s.ident p.entry)) := by
  obtain ⟨chunks, e, r⟩ := samples_faithful env fl now (.ddSeries d)
  refine ⟨chunks, e, ?_⟩
  simpa [Body.streams, List.flatMap_map, DDSeriesItem.sub, Function.comp_def] using r

/-- OTLP logs: every log record is one entry whose stream is the merge resource ← scope ← record attributes (+ level). -/
theorem samples_faithful_otlp (env : Env) (fl : Nat → Bool) (now : Int) (d : OtlpLogs) :
    ∃ chunks, (Body.otlp d).run env fl now = .ok chunks ∧
      chunks.flatMap Chunk.rows =
        d.flatMap (fun res => res.scopes.flatMap (fun sc => sc.records.map (fun r =>
          want env (otlpIdent res.attrs sc.attrs r) r.entry))) := by
  obtain ⟨chunks, e, r⟩ := samples_faithful env fl now (.otlp d)
  refine ⟨chunks, e, ?_⟩
  simp only [Body.streams, otlpStreams] at r
  rw [r]
  simp [List.flatMap_assoc, List.flatMap_map, flatMap_single]

/-- **Chunking invariance.** Two runs of the same body that agree on the fingerprint function and the request TTL
    but differ arbitrarily in the byte-threshold test, the size constants, the label-document length and the
    remote-write point-limit test produce the same sample rows. -/
theorem chunking_invariant (env₁ env₂ : Env) (fl₁ fl₂ : Nat → Bool) (now : Int) (b : Body)
    (hfp : env₁.fp = env₂.fp) (httl : env₁.ctxTtl = env₂.ctxTtl) :
    ∃ c₁ c₂, b.run env₁ fl₁ now = .ok c₁ ∧ b.run env₂ fl₂ now = .ok c₂ ∧
      c₁.flatMap Chunk.rows = c₂.flatMap Chunk.rows := by
  obtain ⟨c₁, e₁, r₁⟩ := samples_faithful env₁ fl₁ now b
  obtain ⟨c₂, e₂, r₂⟩ := samples_faithful env₂ fl₂ now b
  refine ⟨c₁, c₂, e₁, e₂, ?_⟩
  rw [r₁, r₂]
  have : want env₁ = want env₂ := by
    funext i e
    show rowOf _ _ e = rowOf _ _ e
    rw [hfp, httl]
  rw [this]

/-- A stream without entries contributes no row (and, by `samples_faithful`, leaves the other streams' rows alone). -/
theorem empty_stream_no_rows (env : Env) (ident : Labels) : ([] : List Entry).map (want env ident) = [] := rfl

/-- **Type of an entry** (Loki JSON; the other decoders emit a constant type): a line only → the type the reader's
    log queries select; a value only → the type its metric queries select; both → `SAMPLES_TYPE_BOTH`, which the
    reader's `GetTypes` adds to the IN-list of log *and* metric queries (so the entry is visible to both, as
    intended by `if tp == 3 { tp = 0 }`); neither → the same undefined/both type. -/
theorem type_of_entry (ts : Int) (l : Bytes) (v : UInt64) :
    (LokiEntry.entry ⟨ts, some l, none⟩).tp = Gen.readerTypeLogs ∧
    (LokiEntry.entry ⟨ts, none, some v⟩).tp = Gen.readerTypeMetrics ∧
    (LokiEntry.entry ⟨ts, some l, some v⟩).tp = Gen.readerTypeBoth ∧
    (LokiEntry.entry ⟨ts, none, none⟩).tp = Gen.readerTypeBoth ∧
    Gen.sampleTypeLog = Gen.readerTypeLogs ∧ Gen.sampleTypeMetric = Gen.readerTypeMetrics ∧
    Gen.readerTypeBoth ≠ Gen.readerTypeLogs ∧ Gen.readerTypeBoth ≠ Gen.readerTypeMetrics := by
  have h : lokiTypeB true false = Gen.readerTypeLogs ∧ lokiTypeB false true = Gen.readerTypeMetrics ∧
      lokiTypeB true true = Gen.readerTypeBoth ∧ lokiTypeB false false = Gen.readerTypeBoth := by decide
  simp only [LokiEntry.entry, lokiType, Option.isSome]
  exact ⟨h.1, h.2.1, h.2.2.1, h.2.2.2, by decide, by decide, by decide, by decide⟩

/-- every chunk is rectangular: all six sample columns have one length (what `Samples.rows` zips is everything) -/
theorem chunks_rectangular (env : Env) (fl : Nat → Bool) (now : Int) (b : Body) :
    ∃ chunks, b.run env fl now = .ok chunks ∧ ∀ ch ∈ chunks, ch.spl.Rect ∧ ch.rows.length = ch.spl.mTs.length := by
  obtain ⟨chunks, e, ok, _⟩ := Body.run_spec env fl now b
  refine ⟨chunks, e, fun ch hch => ⟨(ok ch hch).rect, ?_⟩⟩
  obtain ⟨a1, a2, a3, a4, a5⟩ := (ok ch hch).rect
  simp only [Chunk.rows, Samples.rows, List.length_map, List.length_zip]
  omega

/-- **Positive size** (used by C01): with positive size constants, a chunk that carries sample rows has a positive
    samples size and a chunk that carries series rows has a positive series size — so the insert service never
    mistakes a non-empty request for an empty one. -/
theorem size_pos (env : Env) (fl : Nat → Bool) (now : Int) (b : Body) (h1 : 0 < env.rowBytes) (h2 : 0 < env.seriesBytes) :
    ∃ chunks, b.run env fl now = .ok chunks ∧
      ∀ ch ∈ chunks, (ch.rows ≠ [] → 0 < ch.spl.size) ∧ (ch.ts.rows ≠ [] → 0 < ch.ts.size) := by
  obtain ⟨chunks, e, ok, _⟩ := Body.run_spec env fl now b
  refine ⟨chunks, e, fun ch hch => ⟨?_, ?_⟩⟩
  · intro hne
    have hlen : 0 < ch.rows.length := List.length_pos_iff.mpr hne
    have hle : ch.rows.length ≤ ch.spl.mTs.length := by
      simp only [Chunk.rows, Samples.rows_eq]; exact colsRows_length_le _ _ _ _ _ _
    have := (ok ch hch).splSize
    have : env.rowBytes * 1 ≤ env.rowBytes * ch.spl.mTs.length := Nat.mul_le_mul_left _ (by omega)
    omega
  · intro hne
    have hlen : 0 < ch.ts.rows.length := List.length_pos_iff.mpr hne
    have := (ok ch hch).tsSize
    have : env.seriesBytes * 1 ≤ env.seriesBytes * ch.ts.rows.length := Nat.mul_le_mul_left _ (by omega)
    omega

/-- `size_pos` with the constants of today's source -/
theorem size_pos_gen (fp : Labels → UInt64) (encLen : Labels → Nat) (ctxTtl : Nat) (now : Int) (b : Body) :
    ∃ chunks, b.run (Env.ofGen fp encLen ctxTtl) Gen.pointsHit now = .ok chunks ∧
      ∀ ch ∈ chunks, (ch.rows ≠ [] → 0 < ch.spl.size) ∧ (ch.ts.rows ≠ [] → 0 < ch.ts.size) :=
  size_pos _ _ now b (by show 0 < Gen.rowBytes; decide) (by show 0 < Gen.seriesBytes; decide)

/-- the sanitiser the model implements is the expression the source has today (a changed expression fails here) -/
theorem sanitiser_source :
    Gen.sanitizeRe = "(^[^a-zA-Z_]|[^a-zA-Z0-9_])" ∧ Gen.metricNameRe = Gen.sanitizeRe ∧
    Gen.otlpKeyRe = "[^a-zA-Z0-9_]" ∧ Gen.labelValueCut ≤ Gen.labelValueMax := by
  decide

/-- **`validUTF8Labels`** (`strings.ToValidUTF8`): valid UTF-8 is left alone (so for well-formed text the identity of a
    stream is its sanitised label list, as before the C04 fix), the result is always valid UTF-8 (so the label document
    is JSON that decodes to the fingerprinted set), and applying it again changes nothing. -/
theorem toValidUTF8_id_on_valid (s : Bytes) (h : validUTF8 s = true) : toValidUTF8 s = s :=
  toValidUTF8_of_valid' s h

theorem toValidUTF8_valid (s : Bytes) : validUTF8 (toValidUTF8 s) = true := toValidUTF8_valid' s

theorem toValidUTF8_idempotent (s : Bytes) : toValidUTF8 (toValidUTF8 s) = toValidUTF8 s :=
  toValidUTF8_of_valid' _ (toValidUTF8_valid' s)

theorem validLabels_idempotent (ls : Labels) : validLabels (validLabels ls) = validLabels ls := by
  simp [validLabels, Function.comp_def, toValidUTF8_idempotent]

/-! ### non-vacuity -/

/-- a run of invalid bytes becomes ONE U+FFFD; a rune cut by the value truncation ("日" = E6 97 A5 cut after two
    bytes, then "...") is repaired; a well-formed multi-byte rune and U+FFFD itself pass -/
example : toValidUTF8 [0x61, 0xFF, 0xFE, 0x80, 0x62] = [0x61, 0xEF, 0xBF, 0xBD, 0x62] := by decide +kernel
example : toValidUTF8 [0xE6, 0x97, 0x2E, 0x2E, 0x2E] = [0xEF, 0xBF, 0xBD, 0x2E, 0x2E, 0x2E] := by decide +kernel
example : toValidUTF8 [0xE6, 0x97, 0xA5, 0xEF, 0xBF, 0xBD, 0xF0, 0x9F, 0x98, 0x80] = [0xE6, 0x97, 0xA5, 0xEF, 0xBF, 0xBD, 0xF0, 0x9F, 0x98, 0x80] := by
  decide +kernel
example : validUTF8 [0xED, 0xA0, 0x80] = false ∧ validUTF8 [0xC0, 0x80] = false ∧ validUTF8 [0xF4, 0x90, 0x80, 0x80] = false := by
  decide +kernel


def exEnv : Env := ⟨fun _ => 7, fun _ => 10, fun n => n > 60, 26, 14, 0⟩
def exDoc : PromWrite := [⟨[([97], [98])], [⟨1, 10⟩, ⟨2, 20⟩, ⟨3, 30⟩, ⟨4, 40⟩, ⟨5, 50⟩]⟩]

/-- a remote-write body whose single series crosses a point limit of 2 and a byte threshold of 60:
    three chunks, five rows, all under the series' fingerprint -/
example :
    (match (Body.prom exDoc).run exEnv (fun p => p ≥ 2) 0 with
      | .ok cs => (cs.length, (cs.flatMap Chunk.rows).map (fun r => (r.fp, r.ts, r.val, r.tp)))
      | .error _ => (0, []))
      = (3, [(7, 1000000, 10, 2), (7, 2000000, 20, 2), (7, 3000000, 30, 2), (7, 4000000, 40, 2), (7, 5000000, 50, 2)]) := by
  decide +kernel

/-- the same body under other thresholds is cut differently (one chunk) — `chunking_invariant` is not vacuous -/
example :
    (match (Body.prom exDoc).run { exEnv with flush := fun n => n > 100000 } (fun p => p ≥ 1000) 0 with | .ok cs => cs.length | .error _ => 0) = 1 := by
  decide +kernel

/-- the builder does fault on arrays no decoder passes (the `Fault` values are reachable, the hypotheses of the
    internal lemmas are not empty promises) -/
def faultOf {α} : Except Fault α → Option Fault
  | .error f => some f
  | .ok _ => none
example : faultOf (onEntries exEnv {} ⟨[], [1], [], [0], [1]⟩) = some .indexOutOfRange := by decide +kernel
example : faultOf (onEntries exEnv {} ⟨[], [1], [[]], [0], [3]⟩) = some .indexOutOfRange := by decide +kernel
example : faultOf (onEntries exEnv {} ⟨[], [1], [[]], [0], [2]⟩) = none := by decide +kernel

/-- a Loki entry with a line and a number gets type 0, one with a line only type 1 -/
example : (LokiEntry.entry ⟨5, some [120], some 0⟩).tp = 0 ∧ (LokiEntry.entry ⟨5, some [120], none⟩).tp = 1 := by
  decide

/-! ## The decoders' own logic, from the third-party library's output on

`Json`, `PbStream`, `PbResourceLogs`, `Metric`, `Tok` are what jx / protobuf / telegraf / text/scanner hand to qryn's code
(`Ingest/Wire.lean`); `scan` (label text → tokens, with `strconv.Unquote` applied to string tokens) and `tagsOf` (the
matches of the Datadog tag pattern) are ARBITRARY functions: the theorems hold whatever those libraries return.
`…Decode` is the decoder model (the Go control flow: callbacks in document order over mutable fields), `…Spec` the
independent reading of the same value; `none` on either side = the request is answered with an error. -/

open Qryn.Ingest.Wire

/-- one call per stream as `Call.ofEntries`: the parser succeeds and emits exactly the streams' entries -/
theorem streams_to_rows (env : Env) (ss : List (Labels × List Entry)) (h : ∀ s ∈ ss, ∀ e ∈ s.2, e.tp ≤ 2) :
    ∃ chunks, parse env (ss.map (fun s => Call.ofEntries s.1 s.2)) = .ok chunks ∧
      chunks.flatMap Chunk.rows = ss.flatMap (fun s => s.2.map (want env s.1)) := by
  obtain ⟨chunks, e, _, r⟩ := parse_spec env _ (ofEntries_calls_WF ss h)
  exact ⟨chunks, e, by rw [r, ofEntries_calls_rows]; rfl⟩

/-- **Loki JSON push.** For EVERY JSON value — any member order, any repetition of `streams`, `stream`, `labels`,
    `values`, `entries`, `ts`, `timestamp`, `line`, `value`, any unknown members — and every label-text tokeniser:
    the decoder's walk returns an error exactly when the specification reading rejects the value, and otherwise makes
    exactly one `onEntries` call per stream object, in document order, carrying

    * as labels ALL label sources of THAT object (`stream` members and `labels` texts) concatenated in document order
      and sanitised — the policy for repeated `stream`/`labels` is "append", not "first wins" or "last wins";
    * as entries ALL elements of ALL `values` / `entries` members of THAT object in document order — also those that stand
      BEFORE the labels in the document: nothing is attributed to the previous or the next stream;
    * per `values` element: `[ts, line?, number?]` by position (timestamp a STRING holding a decimal int64; a third
      element that is not a number — Loki's structured metadata — and everything after it ignored; `[]` = an entry at
      time 0 without content); per `entries` element: the LAST `ts`/`timestamp` (decimal integer string, or RFC 3339 as
      Go's `time.Parse` reads it — `goParseRFC3339`), the LAST `line`, the LAST `value`;
    * type 1 for a line only, 2 for a number only, 0 for both or neither. -/
theorem decode_lokijson_faithful (scan : Bytes → List Tok) (j : Json) :
    lokiJsonDecode scan j = (lokiJsonSpec scan j).map decodeLoki :=
  lokiJsonDecode_spec scan j

/-- intermediate value → rows, Loki JSON: when the value is a well-formed push (`lokiJsonSpec` reads it as `doc`),
    `Decode` returns no error, the parser does not fault, and the rows of all chunks are one per entry of `doc` with the
    entry's own timestamp/line/value/type under its own stream's fingerprint — for every environment, i.e. however
    the rows are cut into chunks. -/
theorem body_to_rows_faithful_lokijson (env : Env) (scan : Bytes → List Tok) (j : Json) (doc : LokiDoc)
    (h : lokiJsonSpec scan j = some doc) :
    ∃ calls chunks, lokiJsonDecode scan j = some calls ∧ parse env calls = .ok chunks ∧
      chunks.flatMap Chunk.rows =
        doc.flatMap (fun s => s.entries.map (fun e => want env (sanitizeLabels s.labels) e.entry)) := by
  obtain ⟨chunks, e, r⟩ := samples_faithful_loki env (fun _ => false) 0 doc
  exact ⟨decodeLoki doc, chunks, by rw [decode_lokijson_faithful, h]; rfl, e, r⟩

/-- an ill-formed value gives an error and no call at all (the model has no partial result to leak) -/
theorem lokijson_rejects_iff (scan : Bytes → List Tok) (j : Json) :
    lokiJsonDecode scan j = none ↔ lokiJsonSpec scan j = none := by
  rw [decode_lokijson_faithful]; cases lokiJsonSpec scan j <;> simp

/-- **member order of a stream object does not matter** beyond the order of the label sources among themselves and of
    the entry sources among themselves: two objects with the same sub-list of label sources and the same sub-list of
    entry sources (whatever else they contain, wherever `values` stands relative to `stream`) are the same stream —
    and, with `decode_lokijson_faithful`, the decoder treats them alike. -/
theorem lokijson_member_order (scan : Bytes → List Tok) (m₁ m₂ : List (Bytes × Json))
    (hl : m₁.filter labelKey = m₂.filter labelKey) (he : m₁.filter entryKey = m₂.filter entryKey) :
    specStream scan (.obj m₁) = specStream scan (.obj m₂) := by
  rw [specStream_split, specStream_split, hl, he]

/-- **Loki protobuf push**: one call per stream, labels = the pairs of its label text, timestamp `sec·10⁹ + nanos`;
    an unparsable label text is an error. -/
theorem decode_lokiproto_faithful (scan : Bytes → List Tok) (d : List PbStream) :
    lokiProtoDecode scan d = (lokiProtoSpec scan d).map decodeProto :=
  lokiProtoDecode_spec scan d

theorem body_to_rows_faithful_lokiproto (env : Env) (scan : Bytes → List Tok) (d : List PbStream) (doc : LokiProto)
    (h : lokiProtoSpec scan d = some doc) :
    ∃ calls chunks, lokiProtoDecode scan d = some calls ∧ parse env calls = .ok chunks ∧
      chunks.flatMap Chunk.rows =
        doc.flatMap (fun s => s.entries.map (fun e => want env (sanitizeLabels s.labels) e.entry)) := by
  obtain ⟨chunks, e, r⟩ := samples_faithful_lokiProto env (fun _ => false) 0 doc
  exact ⟨decodeProto doc, chunks, by rw [decode_lokiproto_faithful, h]; rfl, e, r⟩

/-- **Remote write**: the intermediate value (`prompb.WriteRequest`: label name/value pairs, samples) IS the decoded
    document; the decoder's calls — whatever the point limit cuts — are well formed and carry each series' samples once,
    under that series' labels. -/
theorem decode_prom_faithful (env : Env) (hit : Nat → Bool) (d : PromWrite) :
    (∀ c ∈ decodeProm hit d, c.WF) ∧
    (decodeProm hit d).flatMap (callRows env) = d.flatMap (fun s => s.sub.map (want env s.ident)) := by
  obtain ⟨w, r⟩ := Body.calls_spec env hit 0 (.prom d)
  refine ⟨w, ?_⟩
  simp only [Body.calls, Body.streams] at r
  rw [r]
  simp only [streamsRows, List.flatMap_map, streamRows]
  rfl

theorem body_to_rows_faithful_prom (env : Env) (hit : Nat → Bool) (d : PromWrite) :
    ∃ chunks, parse env (decodeProm hit d) = .ok chunks ∧
      chunks.flatMap Chunk.rows = d.flatMap (fun s => s.samples.map (fun e => want env (sanitizeLabels s.labels) e.entry)) :=
  samples_faithful_prom env hit 0 d

/-- **Influx line protocol**, from telegraf's `Metric`s: a metric with a field `message` is ONE log entry (line: the
    string itself when it is the only field, else logfmt `message=… k=v …`); any other metric is one metric entry per
    int / uint / float field (`float64(v)`, ties to even) under `measurement + tags + __name__=<sanitised field key>`;
    boolean and string fields of such a metric carry no sample. A logfmt error rejects the request. -/
theorem decode_influx_faithful (ms : List Metric) : influxDecode ms = (influxSpec ms).map decodeInflux :=
  influxDecode_spec ms

theorem body_to_rows_faithful_influx (env : Env) (ms : List Metric) (doc : InfluxPoints) (h : influxSpec ms = some doc) :
    ∃ calls chunks, influxDecode ms = some calls ∧ parse env calls = .ok chunks ∧
      chunks.flatMap Chunk.rows = doc.flatMap (fun p => p.streams.flatMap (fun s => s.2.map (want env s.1))) := by
  obtain ⟨chunks, e, r⟩ := samples_faithful_influx env (fun _ => false) 0 doc
  exact ⟨decodeInflux doc, chunks, by rw [decode_influx_faithful, h]; rfl, e, r⟩

/-- **Datadog logs**: the body must be an array; every element object is one log entry whose tags are the matches of
    ALL its `ddtags` members, whose other fields are the LAST member of each name, with the fields of THIS element only. -/
theorem decode_ddlogs_faithful (tagsOf : Bytes → Labels) (now : Int) (j : Json) :
    ddLogsDecode tagsOf now j = (ddLogsSpec tagsOf j).map (decodeDDLogs now) :=
  ddLogsDecode_spec tagsOf now j

theorem body_to_rows_faithful_ddlogs (env : Env) (tagsOf : Bytes → Labels) (now : Int) (j : Json) (doc : DatadogLogs)
    (h : ddLogsSpec tagsOf j = some doc) :
    ∃ calls chunks, ddLogsDecode tagsOf now j = some calls ∧ parse env calls = .ok chunks ∧
      chunks.flatMap Chunk.rows =
        doc.map (fun e => want env e.ident ⟨ddTs now e.tsMs, e.message, 0, Gen.sampleTypeLog⟩) := by
  obtain ⟨chunks, e, r⟩ := samples_faithful_ddLogs env (fun _ => false) now doc
  exact ⟨decodeDDLogs now doc, chunks, by rw [decode_ddlogs_faithful, h]; rfl, e, r⟩

/-- **Datadog series** (after the fix of the point defaults): every element of every `series` array is one stream whose
    labels are `__name__` of every `metric` member and `resource<i>_<key>` of every `resources` member in document order,
    whose entries are the points of every `points` member; a point is its LAST `timestamp` (s → ns; none: the wall clock)
    and its LAST `value` (none: 0) — never the previous point's. -/
theorem decode_ddseries_faithful (now : Int) (j : Json) :
    ddSeriesDecode now j = (ddSeriesSpec now j).map (fun ss => ss.map (fun s => Call.ofEntries s.1 s.2)) :=
  ddSeriesDecode_spec now j

theorem body_to_rows_faithful_ddseries (env : Env) (now : Int) (j : Json) (ss : List (Labels × List Entry))
    (h : ddSeriesSpec now j = some ss) :
    ∃ calls chunks, ddSeriesDecode now j = some calls ∧ parse env calls = .ok chunks ∧
      chunks.flatMap Chunk.rows = ss.flatMap (fun s => s.2.map (want env s.1)) := by
  obtain ⟨chunks, e, r⟩ := streams_to_rows env ss (ddSeriesSpec_tp now j ss h)
  exact ⟨_, chunks, by rw [decode_ddseries_faithful, h]; rfl, e, r⟩

/-- **OTLP logs** (after the fix of the body): one call per log record, in message order; its line is `SanitizeValue`
    of the body whatever the body's kind; its labels are `otlpIdent` of the rendered attributes … -/
theorem decode_otlp_faithful (d : List PbResourceLogs) :
    otlpDecode d =
      (otlpOfWire d).flatMap (fun res => res.scopes.flatMap (fun sc => sc.records.map (fun r =>
        Call.ofEntries (otlpIdent res.attrs sc.attrs r) [r.entry]))) := by
  simp [otlpDecode, decodeOtlp, otlpStreams, List.map_flatMap, Function.comp_def]

/-- … and `otlpIdent` is the flattening the protocol means: a label name (= sanitised attribute key) maps to the
    severity text for `level` when there is one, else to the LAST record attribute with that key, else the last scope
    attribute, else the last resource attribute; no name twice. -/
theorem otlp_label_of_record (res sc : Labels) (r : OtlpRecord) (k : Bytes) :
    lookupLabel (otlpIdent res sc r) k = otlpSpecLabel res sc r k ∧ ((otlpIdent res sc r).map (·.1)).Nodup :=
  otlpIdent_lookup res sc r k

theorem body_to_rows_faithful_otlp (env : Env) (d : List PbResourceLogs) :
    ∃ chunks, parse env (otlpDecode d) = .ok chunks ∧
      chunks.flatMap Chunk.rows =
        (otlpOfWire d).flatMap (fun res => res.scopes.flatMap (fun sc => sc.records.map (fun r =>
          want env (otlpIdent res.attrs sc.attrs r) r.entry))) :=
  samples_faithful_otlp env (fun _ => false) 0 (otlpOfWire d)


/-! ### the decoders' shape in today's source (`Gen.Decoders`, regenerated on every run) -/

/-- What the decoder models mirror is what the source has today: the cases of every `switch key` (in order), the
    positions `decodeStreamValue` distinguishes, the byte set and layout of `parseTime`, the fixed Datadog labels, that
    the defaults of a Datadog point are declared INSIDE the per-point callback (the fix), the Influx field kinds that
    become samples, the label names the Influx / OTLP decoders write, that the OTLP line is `SanitizeValue(logRecord.Body)`
    (the fix), the kinds `SanitizeValue` distinguishes. A new case or a renamed key fails here. -/
theorem decoder_shape_source :
    Gen.lokiTopKeys = [k_streams] ∧ Gen.lokiStreamKeys = [k_stream, k_labels, k_values, k_entries] ∧
    Gen.lokiEntryKeys = [k_ts, k_timestamp, k_line, k_value] ∧ Gen.lokiValuePositions = [[48], [49], [50]] ∧
    Gen.parseTimeChars = [[58, 45, 84, 90]] ∧ Gen.parseTimeLayout = [[116, 105, 109, 101, 46, 82, 70, 67, 51, 51, 51, 57]] ∧
    Gen.ddLogKeys = [k_ddsource, k_ddtags, k_hostname, k_message, k_service, k_timestamp, k_source_type] ∧
    Gen.ddLogFixed = [k_ddsource, [100, 46, 83, 111, 117, 114, 99, 101], k_service, [100, 46, 83, 101, 114, 118, 105, 99, 101], k_hostname, [100, 46, 72, 111, 115, 116, 110, 97, 109, 101], k_source_type, [100, 46, 83, 111, 117, 114, 99, 101, 84, 121, 112, 101], [116, 121, 112, 101], [61, 100, 97, 116, 97, 100, 111, 103]] ∧
    Gen.ddSeriesTopKeys = [k_series] ∧ Gen.ddSeriesItemKeys = [k_metric, k_resources, k_points] ∧
    Gen.ddSeriesPointKeys = [k_timestamp, k_value] ∧ Gen.ddSeriesPointDefaultsDepth = 1 ∧
    Gen.influxNumericKinds = [[105, 110, 116, 54, 52], [102, 108, 111, 97, 116, 54, 52], [117, 105, 110, 116, 54, 52]] ∧
    Gen.influxLiterals = [[10], [112, 114, 101, 99, 105, 115, 105, 111, 110], measurementName, k_message, nameLabel, []] ∧
    Gen.influxMessageLiterals = [k_message, []] ∧ Gen.otlpLiterals = [[], levelLabel] ∧
    Gen.otlpMessageExpr = [[83, 97, 110, 105, 116, 105, 122, 101, 86, 97, 108, 117, 101, 40, 108, 111, 103, 82, 101, 99, 111, 114, 100, 46, 66, 111, 100, 121, 41]] ∧
    Gen.otlpValueKinds = [[111, 116, 108, 112, 67, 111, 109, 109, 111, 110, 46, 65, 110, 121, 86, 97, 108, 117, 101, 95, 83, 116, 114, 105, 110, 103, 86, 97, 108, 117, 101],
      [111, 116, 108, 112, 67, 111, 109, 109, 111, 110, 46, 65, 110, 121, 86, 97, 108, 117, 101, 95, 66, 111, 111, 108, 86, 97, 108, 117, 101],
      [111, 116, 108, 112, 67, 111, 109, 109, 111, 110, 46, 65, 110, 121, 86, 97, 108, 117, 101, 95, 73, 110, 116, 86, 97, 108, 117, 101],
      [111, 116, 108, 112, 67, 111, 109, 109, 111, 110, 46, 65, 110, 121, 86, 97, 108, 117, 101, 95, 68, 111, 117, 98, 108, 101, 86, 97, 108, 117, 101],
      [111, 116, 108, 112, 67, 111, 109, 109, 111, 110, 46, 65, 110, 121, 86, 97, 108, 117, 101, 95, 66, 121, 116, 101, 115, 86, 97, 108, 117, 101],
      [111, 116, 108, 112, 67, 111, 109, 109, 111, 110, 46, 65, 110, 121, 86, 97, 108, 117, 101, 95, 65, 114, 114, 97, 121, 86, 97, 108, 117, 101],
      [111, 116, 108, 112, 67, 111, 109, 109, 111, 110, 46, 65, 110, 121, 86, 97, 108, 117, 101, 95, 75, 118, 108, 105, 115, 116, 86, 97, 108, 117, 101]] := by
  decide +kernel

/-! ### non-vacuity of the decoder theorems -/

def ks (s : String) : Bytes := s.toUTF8.toList

/-- `{"streams":[{"values":[["1","a"]],"stream":{"x":"y"}},{"stream":{"p":"q"},"values":[["2","b",1e2,"more"]],"stream":{"r":"s"}}]}`:
    values before stream, a repeated `stream`: two streams, the entries stay with their own object -/
def exJson : Json :=
  .obj [(k_streams, .arr [
    .obj [(k_values, .arr [.arr [.str [49], .str [97]]]), (k_stream, .obj [([120], .str [121])])],
    .obj [(k_stream, .obj [([112], .str [113])]),
          (k_values, .arr [.arr [.str [50], .str [98], .num [49, 101, 50] (some 4636737291354636288) none, .str [109]]]),
          (k_stream, .obj [([114], .str [115])])]])]

example : (lokiJsonSpec (fun _ => []) exJson).map (fun d => d.map (fun s => (s.labels, s.entries.map (·.ts)))) =
    some [([([120], [121])], [1]), ([([112], [113]), ([114], [115])], [2])] := by decide +kernel
example : (lokiJsonSpec (fun _ => []) exJson).map (fun d => d.map (fun s => s.entries.map (fun e => (e.line, e.val)))) =
    some [[(some [97], none)], [(some [98], some 4636737291354636288)]] := by decide +kernel

example : (lokiJsonDecode (fun _ => []) exJson).map (fun cs => cs.map (fun c => (c.labels, c.ts))) =
    some [([([120], [121])], [1]), ([([112], [113]), ([114], [115])], [2])] := by decide +kernel
example : (lokiJsonDecode (fun _ => []) exJson).map (fun cs => cs.map (fun c => (c.msg, c.tp))) =
    some [([[97]], [1]), ([[98]], [0])] := by decide +kernel

/-- a timestamp that is a JSON number is rejected (both layouts want a string) -/
example : lokiJsonDecode (fun _ => [])
    (.obj [(k_streams, .arr [.obj [(k_values, .arr [.arr [.num [49] (some 0) (some 1), .str [97]]])]])]) = none := by
  decide +kernel

/-- `time.Parse(time.RFC3339, ·)` as modelled: fraction truncated to nine digits, offsets, a one-digit hour, the comma,
    `+24:60`; rejected: hour 24, 30 February, a missing zone; a negative integer goes to the RFC 3339 branch and fails -/
example : goParseRFC3339 [50,48,50,49,45,49,50,45,50,54,84,49,54,58,48,48,58,48,54,46,49,50,51,52,53,54,55,56,57,57,90]
    = some 1640534406123456789 := by decide +kernel          -- 2021-12-26T16:00:06.1234567899Z
example : goParseRFC3339 [50,48,50,49,45,49,50,45,50,54,84,51,58,48,48,58,48,54,44,53,43,50,52,58,54,48]
    = some 1640397606500000000 := by decide +kernel          -- 2021-12-26T3:00:06,5+24:60
example : goParseRFC3339 [50,48,50,51,45,48,50,45,51,48,84,48,48,58,48,48,58,48,48,90] = none := by decide +kernel  -- 2023-02-30T00:00:00Z
example : goParseRFC3339 [50,48,50,51,45,48,50,45,50,56,84,50,52,58,48,48,58,48,48,90] = none := by decide +kernel  -- 2023-02-28T24:00:00Z
example : parseTime [45, 53] = none ∧ parseInt64 [45, 53] = some (-5) := by decide +kernel

/-- Datadog series `{"series":[{"metric":"m","points":[{"timestamp":1,"value":5},{"value":7},{"timestamp":3}]}]}`:
    the second point takes the wall clock (here 99), the third the value 0 -/
example : (ddSeriesDecode 99
    (.obj [(k_series, .arr [.obj [(k_metric, .str [109]),
      (k_points, .arr [.obj [(k_timestamp, .num [49] (some 1) (some 1)), (k_value, .num [53] (some 5) (some 5))],
                       .obj [(k_value, .num [55] (some 7) (some 7))],
                       .obj [(k_timestamp, .num [51] (some 3) (some 3))]])]])])).map (fun cs => cs.map (fun c => (c.ts, c.val)))
    = some [([1000000000, 99, 3000000000], [5, 7, 0])] := by decide +kernel

/-- `float64(int64)`: 2⁵³+1 is a tie and goes to the even neighbour 2⁵³; 2⁶⁴−1 rounds up to 2⁶⁴ -/
example : natToF64 9007199254740993 = 0x4340000000000000 ∧ natToF64 18446744073709551615 = 0x43F0000000000000 ∧
    intToF64 (-5) = 0xC014000000000000 := by decide +kernel

/-- `SanitizeValue` of a key-value list: keys sanitised (collisions: the last wins), sorted, JSON with HTML escaping -/
example : sanitizeValue (.kvl [([98, 46, 99], .str [120, 60, 121]), ([97], .int 1), ([98, 95, 99], .str [122])]) =
    [123, 34, 97, 34, 58, 34, 49, 34, 44, 34, 98, 95, 99, 34, 58, 34, 122, 34, 125] := by decide +kernel   -- {"a":"1","b_c":"z"}

/-- an Influx metric whose only field is the integer `message` (after the fix: a log line, no fault) -/
example : (influxDecode [⟨[109], [], [⟨k_message, .int 5, some [109, 101, 115, 115, 97, 103, 101, 61, 53]⟩], 7⟩]).map
    (fun cs => cs.map (fun c => (c.msg, c.tp))) = some [([[109, 101, 115, 115, 97, 103, 101, 61, 53]], [1])] := by decide +kernel

end Qryn.C03
