import Qryn.Proofs.Ingest
import Qryn.Proofs.Utf8
/-! # C03 — log and metric ingest decodes every entry to exactly one faithful row

Model: `Qryn.Ingest.Builder` (`onEntries`, flush/reset, cache, sanitiser, TTL label) and `Qryn.Ingest.Decode`
(the seven `Decode` methods as callback sequences over the decoded document). In every theorem

* `env : Env` is arbitrary: the fingerprint function `env.fp` (property C04) and the length of the label document
  are abstract; the byte-threshold test `env.flush` (any predicate on the byte count), the per-row size constants and
  the request's TTL are arbitrary;
* `fl` is an arbitrary remote-write point-limit test (any predicate on the counter), `now` an arbitrary wall clock.

`Gen.Thresholds` holds the constants of today's source (1000 points, 1 MiB, 26, 14, the sanitiser); the theorems do
not depend on their values except where stated (`size_pos_gen`, `type_of_entry`, `sanitiser_source`). -/
namespace Qryn.C03
open Qryn Qryn.Ingest

/-- the row the property demands for an entry of a stream whose label list (as handed to the builder) is `ident`:
    the fingerprint is taken of `identOf` = `validUTF8Labels` of the list after the `__ttl_days__` preamble, i.e. for a
    sanitising decoder `fp (validLabels (effective ttl (sanitizeLabels labels)).1)` -/
def want (env : Env) (ident : Labels) (e : Entry) : Row :=
  rowOf (env.fp (identOf env.ctxTtl ident)) (ttlOf env.ctxTtl ident) e

/-- **All protocols.** For every body of every protocol, every fingerprint function, every threshold: the parser
    does not fault, and the sample rows of all chunks it emits, concatenated in emission order, are exactly: for each
    stream of the body in order, for each of its entries in order, one row with that entry's timestamp, line,
    value and type, under the fingerprint (and TTL) of that entry's own stream. Nothing lost, duplicated or
    attributed to another stream, however the rows were cut into chunks. -/
theorem samples_faithful (env : Env) (fl : Nat → Bool) (now : Int) (b : Body) :
    ∃ chunks, b.run env fl now = .ok chunks ∧
      chunks.flatMap Chunk.rows = (b.streams now).flatMap (fun s => s.2.map (want env s.1)) := by
  obtain ⟨chunks, e, _, r⟩ := Body.run_spec env fl now b
  exact ⟨chunks, e, r⟩

/-- Loki JSON push, both layouts (`stream`/`labels`, `values`/`entries`): stream identity = sanitised labels. -/
theorem samples_faithful_loki (env : Env) (fl : Nat → Bool) (now : Int) (d : LokiDoc) :
    ∃ chunks, (Body.loki d).run env fl now = .ok chunks ∧
      chunks.flatMap Chunk.rows =
        d.flatMap (fun s => s.entries.map (fun e => want env (sanitizeLabels s.labels) e.entry)) := by
  obtain ⟨chunks, e, r⟩ := samples_faithful env fl now (.loki d)
  refine ⟨chunks, e, ?_⟩
  simpa [Body.streams, List.flatMap_map, LokiStream.sub, LokiStream.ident, Function.comp_def] using r

/-- Loki snappy-protobuf push. -/
theorem samples_faithful_lokiProto (env : Env) (fl : Nat → Bool) (now : Int) (d : LokiProto) :
    ∃ chunks, (Body.lokiProto d).run env fl now = .ok chunks ∧
      chunks.flatMap Chunk.rows =
        d.flatMap (fun s => s.entries.map (fun e => want env (sanitizeLabels s.labels) e.entry)) := by
  obtain ⟨chunks, e, r⟩ := samples_faithful env fl now (.lokiProto d)
  refine ⟨chunks, e, ?_⟩
  simpa [Body.streams, List.flatMap_map, ProtoStream.sub, ProtoStream.ident, Function.comp_def] using r

/-- Prometheus remote write, for EVERY point-limit test `fl` (today `points >= 1000`): the mid-series flushes partition each
    series' samples; no sample is lost, repeated or typed by another series. -/
theorem samples_faithful_prom (env : Env) (fl : Nat → Bool) (now : Int) (d : PromWrite) :
    ∃ chunks, (Body.prom d).run env fl now = .ok chunks ∧
      chunks.flatMap Chunk.rows =
        d.flatMap (fun s => s.samples.map (fun e => want env (sanitizeLabels s.labels) e.entry)) := by
  obtain ⟨chunks, e, r⟩ := samples_faithful env fl now (.prom d)
  refine ⟨chunks, e, ?_⟩
  simpa [Body.streams, List.flatMap_map, PromSeries.sub, PromSeries.ident, Function.comp_def] using r

/-- Influx line protocol: a point with a `message` field is one log entry; otherwise every numeric field is one
    metric entry of the stream `measurement + tags + __name__=<field>`. -/
theorem samples_faithful_influx (env : Env) (fl : Nat → Bool) (now : Int) (d : InfluxPoints) :
    ∃ chunks, (Body.influx d).run env fl now = .ok chunks ∧
      chunks.flatMap Chunk.rows = d.flatMap (fun p => p.streams.flatMap (fun s => s.2.map (want env s.1))) := by
  obtain ⟨chunks, e, r⟩ := samples_faithful env fl now (.influx d)
  refine ⟨chunks, e, ?_⟩
  simpa [Body.streams, List.flatMap_assoc] using r

/-- Datadog logs: every array element is one log entry of the stream `ddtags + non-empty fixed fields`
    (after the fix: the fixed fields of THIS element only). -/
theorem samples_faithful_ddLogs (env : Env) (fl : Nat → Bool) (now : Int) (d : DatadogLogs) :
    ∃ chunks, (Body.ddLogs d).run env fl now = .ok chunks ∧
      chunks.flatMap Chunk.rows =
        d.map (fun e => want env e.ident ⟨ddTs now e.tsMs, e.message, 0, Gen.sampleTypeLog⟩) := by
  obtain ⟨chunks, e, r⟩ := samples_faithful env fl now (.ddLogs d)
  refine ⟨chunks, e, ?_⟩
  simp only [Body.streams, List.flatMap_map, DDLog.sub, List.map_cons, List.map_nil] at r
  rw [r]
  exact flatMap_single _ _

/-- Datadog series. -/
theorem samples_faithful_ddSeries (env : Env) (fl : Nat → Bool) (now : Int) (d : DatadogSeries) :
    ∃ chunks, (Body.ddSeries d).run env fl now = .ok chunks ∧
      chunks.flatMap Chunk.rows = d.flatMap (fun s => s.points.map (fun p => want env s.ident p.entry)) := by
  obtain ⟨chunks, e, r⟩ := samples_faithful env fl now (.ddSeries d)
  refine ⟨chunks, e, ?_⟩
  simpa [Body.streams, List.flatMap_map, DDSeriesItem.sub, Function.comp_def] using r

/-- OTLP logs: every log record is one entry whose stream is the merge resource ← scope ← record attributes (+ level). -/
theorem samples_faithful_otlp (env : Env) (fl : Nat → Bool) (now : Int) (d : OtlpLogs) :
    ∃ chunks, (Body.otlp d).run env fl now = .ok chunks ∧
      chunks.flatMap Chunk.rows =
        d.flatMap (fun res => res.scopes.flatMap (fun sc => sc.records.map (fun r =>
          want env (otlpIdent res.attrs sc.attrs r) r.entry))) := by
  obtain ⟨chunks, e, r⟩ := samples_faithful env fl now (.otlp d)
  refine ⟨chunks, e, ?_⟩
  simp only [Body.streams, otlpStreams] at r
  rw [r]
  simp [List.flatMap_assoc, List.flatMap_map, flatMap_single]

/-- **Chunking invariance.** Two runs of the same body that agree on the fingerprint function and the request TTL
    but differ arbitrarily in the byte-threshold test, the size constants, the label-document length and the
    remote-write point-limit test produce the same sample rows. -/
theorem chunking_invariant (env₁ env₂ : Env) (fl₁ fl₂ : Nat → Bool) (now : Int) (b : Body)
    (hfp : env₁.fp = env₂.fp) (httl : env₁.ctxTtl = env₂.ctxTtl) :
    ∃ c₁ c₂, b.run env₁ fl₁ now = .ok c₁ ∧ b.run env₂ fl₂ now = .ok c₂ ∧
      c₁.flatMap Chunk.rows = c₂.flatMap Chunk.rows := by
  obtain ⟨c₁, e₁, r₁⟩ := samples_faithful env₁ fl₁ now b
  obtain ⟨c₂, e₂, r₂⟩ := samples_faithful env₂ fl₂ now b
  refine ⟨c₁, c₂, e₁, e₂, ?_⟩
  rw [r₁, r₂]
  have : want env₁ = want env₂ := by
    funext i e
    show rowOf _ _ e = rowOf _ _ e
    rw [hfp, httl]
  rw [this]

/-- A stream without entries contributes no row (and, by `samples_faithful`, leaves the other streams' rows alone). -/
theorem empty_stream_no_rows (env : Env) (ident : Labels) : ([] : List Entry).map (want env ident) = [] := rfl

/-- **Type of an entry** (Loki JSON; the other decoders emit a constant type): a line only → the type the reader's
    log queries select; a value only → the type its metric queries select; both → `SAMPLES_TYPE_BOTH`, which the
    reader's `GetTypes` adds to the IN-list of log *and* metric queries (so the entry is visible to both, as
    intended by `if tp == 3 { tp = 0 }`); neither → the same undefined/both type. -/
theorem type_of_entry (ts : Int) (l : Bytes) (v : UInt64) :
    (LokiEntry.entry ⟨ts, some l, none⟩).tp = Gen.readerTypeLogs ∧
    (LokiEntry.entry ⟨ts, none, some v⟩).tp = Gen.readerTypeMetrics ∧
    (LokiEntry.entry ⟨ts, some l, some v⟩).tp = Gen.readerTypeBoth ∧
    (LokiEntry.entry ⟨ts, none, none⟩).tp = Gen.readerTypeBoth ∧
    Gen.sampleTypeLog = Gen.readerTypeLogs ∧ Gen.sampleTypeMetric = Gen.readerTypeMetrics ∧
    Gen.readerTypeBoth ≠ Gen.readerTypeLogs ∧ Gen.readerTypeBoth ≠ Gen.readerTypeMetrics := by
  have h : lokiTypeB true false = Gen.readerTypeLogs ∧ lokiTypeB false true = Gen.readerTypeMetrics ∧
      lokiTypeB true true = Gen.readerTypeBoth ∧ lokiTypeB false false = Gen.readerTypeBoth := by decide
  simp only [LokiEntry.entry, lokiType, Option.isSome]
  exact ⟨h.1, h.2.1, h.2.2.1, h.2.2.2, by decide, by decide, by decide, by decide⟩

/-- every chunk is rectangular: all six sample columns have one length (what `Samples.rows` zips is everything) -/
theorem chunks_rectangular (env : Env) (fl : Nat → Bool) (now : Int) (b : Body) :
    ∃ chunks, b.run env fl now = .ok chunks ∧ ∀ ch ∈ chunks, ch.spl.Rect ∧ ch.rows.length = ch.spl.mTs.length := by
  obtain ⟨chunks, e, ok, _⟩ := Body.run_spec env fl now b
  refine ⟨chunks, e, fun ch hch => ⟨(ok ch hch).rect, ?_⟩⟩
  obtain ⟨a1, a2, a3, a4, a5⟩ := (ok ch hch).rect
  simp only [Chunk.rows, Samples.rows, List.length_map, List.length_zip]
  omega

/-- **Positive size** (used by C01): with positive size constants, a chunk that carries sample rows has a positive
    samples size and a chunk that carries series rows has a positive series size — so the insert service never
    mistakes a non-empty request for an empty one. -/
theorem size_pos (env : Env) (fl : Nat → Bool) (now : Int) (b : Body) (h1 : 0 < env.rowBytes) (h2 : 0 < env.seriesBytes) :
    ∃ chunks, b.run env fl now = .ok chunks ∧
      ∀ ch ∈ chunks, (ch.rows ≠ [] → 0 < ch.spl.size) ∧ (ch.ts.rows ≠ [] → 0 < ch.ts.size) := by
  obtain ⟨chunks, e, ok, _⟩ := Body.run_spec env fl now b
  refine ⟨chunks, e, fun ch hch => ⟨?_, ?_⟩⟩
  · intro hne
    have hlen : 0 < ch.rows.length := List.length_pos_iff.mpr hne
    have hle : ch.rows.length ≤ ch.spl.mTs.length := by
      simp only [Chunk.rows, Samples.rows_eq]; exact colsRows_length_le _ _ _ _ _ _
    have := (ok ch hch).splSize
    have : env.rowBytes * 1 ≤ env.rowBytes * ch.spl.mTs.length := Nat.mul_le_mul_left _ (by omega)
    omega
  · intro hne
    have hlen : 0 < ch.ts.rows.length := List.length_pos_iff.mpr hne
    have := (ok ch hch).tsSize
    have : env.seriesBytes * 1 ≤ env.seriesBytes * ch.ts.rows.length := Nat.mul_le_mul_left _ (by omega)
    omega

/-- `size_pos` with the constants of today's source -/
theorem size_pos_gen (fp : Labels → UInt64) (encLen : Labels → Nat) (ctxTtl : Nat) (now : Int) (b : Body) :
    ∃ chunks, b.run (Env.ofGen fp encLen ctxTtl) Gen.pointsHit now = .ok chunks ∧
      ∀ ch ∈ chunks, (ch.rows ≠ [] → 0 < ch.spl.size) ∧ (ch.ts.rows ≠ [] → 0 < ch.ts.size) :=
  size_pos _ _ now b (by show 0 < Gen.rowBytes; decide) (by show 0 < Gen.seriesBytes; decide)

/-- the sanitiser the model implements is the expression the source has today (a changed expression fails here) -/
theorem sanitiser_source :
    Gen.sanitizeRe = "(^[^a-zA-Z_]|[^a-zA-Z0-9_])" ∧ Gen.metricNameRe = Gen.sanitizeRe ∧
    Gen.otlpKeyRe = "[^a-zA-Z0-9_]" ∧ Gen.labelValueCut ≤ Gen.labelValueMax := by
  decide

/-- **`validUTF8Labels`** (`strings.ToValidUTF8`): valid UTF-8 is left alone (so for well-formed text the identity of a
    stream is its sanitised label list, as before the C04 fix), the result is always valid UTF-8 (so the label document
    is JSON that decodes to the fingerprinted set), and applying it again changes nothing. -/
theorem toValidUTF8_id_on_valid (s : Bytes) (h : validUTF8 s = true) : toValidUTF8 s = s :=
  toValidUTF8_of_valid' s h

theorem toValidUTF8_valid (s : Bytes) : validUTF8 (toValidUTF8 s) = true := toValidUTF8_valid' s

theorem toValidUTF8_idempotent (s : Bytes) : toValidUTF8 (toValidUTF8 s) = toValidUTF8 s :=
  toValidUTF8_of_valid' _ (toValidUTF8_valid' s)

theorem validLabels_idempotent (ls : Labels) : validLabels (validLabels ls) = validLabels ls := by
  simp [validLabels, Function.comp_def, toValidUTF8_idempotent]

/-! ### non-vacuity -/

/-- a run of invalid bytes becomes ONE U+FFFD; a rune cut by the value truncation ("日" = E6 97 A5 cut after two
    bytes, then "...") is repaired; a well-formed multi-byte rune and U+FFFD itself pass -/
example : toValidUTF8 [0x61, 0xFF, 0xFE, 0x80, 0x62] = [0x61, 0xEF, 0xBF, 0xBD, 0x62] := by decide +kernel
example : toValidUTF8 [0xE6, 0x97, 0x2E, 0x2E, 0x2E] = [0xEF, 0xBF, 0xBD, 0x2E, 0x2E, 0x2E] := by decide +kernel
example : toValidUTF8 [0xE6, 0x97, 0xA5, 0xEF, 0xBF, 0xBD, 0xF0, 0x9F, 0x98, 0x80] = [0xE6, 0x97, 0xA5, 0xEF, 0xBF, 0xBD, 0xF0, 0x9F, 0x98, 0x80] := by
  decide +kernel
example : validUTF8 [0xED, 0xA0, 0x80] = false ∧ validUTF8 [0xC0, 0x80] = false ∧ validUTF8 [0xF4, 0x90, 0x80, 0x80] = false := by
  decide +kernel


def exEnv : Env := ⟨fun _ => 7, fun _ => 10, fun n => n > 60, 26, 14, 0⟩
def exDoc : PromWrite := [⟨[([97], [98])], [⟨1, 10⟩, ⟨2, 20⟩, ⟨3, 30⟩, ⟨4, 40⟩, ⟨5, 50⟩]⟩]

/-- a remote-write body whose single series crosses a point limit of 2 and a byte threshold of 60:
    three chunks, five rows, all under the series' fingerprint -/
example :
    (match (Body.prom exDoc).run exEnv (fun p => p ≥ 2) 0 with
      | .ok cs => (cs.length, (cs.flatMap Chunk.rows).map (fun r => (r.fp, r.ts, r.val, r.tp)))
      | .error _ => (0, []))
      = (3, [(7, 1000000, 10, 2), (7, 2000000, 20, 2), (7, 3000000, 30, 2), (7, 4000000, 40, 2), (7, 5000000, 50, 2)]) := by
  decide +kernel

/-- the same body under other thresholds is cut differently (one chunk) — `chunking_invariant` is not vacuous -/
example :
    (match (Body.prom exDoc).run { exEnv with flush := fun n => n > 100000 } (fun p => p ≥ 1000) 0 with | .ok cs => cs.length | .error _ => 0) = 1 := by
  decide +kernel

/-- the builder does fault on arrays no decoder passes (the `Fault` values are reachable, the hypotheses of the
    internal lemmas are not empty promises) -/
def faultOf {α} : Except Fault α → Option Fault
  | .error f => some f
  | .ok _ => none
example : faultOf (onEntries exEnv {} ⟨[], [1], [], [0], [1]⟩) = some .indexOutOfRange := by decide +kernel
example : faultOf (onEntries exEnv {} ⟨[], [1], [[]], [0], [3]⟩) = some .indexOutOfRange := by decide +kernel
example : faultOf (onEntries exEnv {} ⟨[], [1], [[]], [0], [2]⟩) = none := by decide +kernel

/-- a Loki entry with a line and a number gets type 0, one with a line only type 1 -/
example : (LokiEntry.entry ⟨5, some [120], some 0⟩).tp = 0 ∧ (LokiEntry.entry ⟨5, some [120], none⟩).tp = 1 := by
  decide

end Qryn.C03
