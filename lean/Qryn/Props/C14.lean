import Qryn.LogQL.Process
import Qryn.Proofs.LogQLPlan
import Qryn.Gen.PlannerGlobals
import Qryn.Gen.PlannerSelfWrites
import Qryn.Proofs.ProcessTraceQL
import Qryn.Proofs.ProcessMetric
import Qryn.LogQL.ProcessFormat
import Qryn.LogQL.SemMetric
import Qryn.Proofs.PlanHeap
import Qryn.Gen.PlannerGlobalFlows
import Qryn.Gen.PlannerListWrites
/-! # C14 — query translation is deterministic and a prepared plan can be re-executed -/
namespace Qryn.C14
open Qryn Qryn.Sql Qryn.LogQL

/-- **translate_pure.** In the model, translating a query is a function of (query, context) only — and the
    first execution of a fresh plan is exactly that translation. (That the Go packages hold no mutable
    package-level state is the regenerated fact `Gen.PlannerGlobals`, see `planner_globals_immutable`.) -/
theorem first_execution (c : Ctx) (q : LogQuery) : (process {} c q).2 = planLog c q := rfl

/-- **process_stable.** Re-executing a prepared plan any number of times, from any memo state and with any
    contexts: every statement is exactly the translation for ITS context — nothing is carried over between
    executions. -/
theorem process_stable (st : PlanState) (q : LogQuery) (cs : List Ctx) :
    runs st q cs = cs.map (fun c => planLog c q) := by
  induction cs generalizing st with
  | nil => rfl
  | cons c cs ih =>
    simp only [runs, List.map_cons, List.cons.injEq]
    exact ⟨rfl, ih _⟩

/-- the fingerprint chain depends on the context only through the index date bound, the signal type and the table names -/
theorem chain_depends_on (a b : Ctx) (q : LogQuery) (hs : a.sameStatic b)
    (hd : Time.formatFromDate a.fromNs = Time.formatFromDate b.fromNs) : chainOf a q = chainOf b q := by
  obtain ⟨_, _, htp, _, hg, _, hts, _⟩ := hs
  have hss : streamSelect a q.matchers = streamSelect b q.matchers := by
    simp [streamSelect, getTypes, hd, htp, hg]
  have hlf : ∀ k lc, labelFilterBody a k lc = labelFilterBody b k lc := by
    intro k lc; simp [labelFilterBody, hts]
  have : ∀ (conds : List LabelCond) (cur : Sel) (k : Nat), fpChain a cur k conds = fpChain b cur k conds := by
    intro conds
    induction conds with
    | nil => intro cur k; rfl
    | cons lc conds ih => intro cur k; simp [fpChain, hlf, ih]
  simp [chainOf, hss, this]

/-- **reexecution_same_meaning.** Every re-executed statement returns exactly the entries of the direct
    reading for the window of its own context (by C07.plan_correct): the same meaning as the first execution
    apart from the advancing time bounds. -/
theorem reexecution_same_meaning (o : Oracles) (d : LokiDb) (q : LogQuery) (st : PlanState) (c : Ctx)
    (hn : c.namesOk) (hlim : 0 ≤ c.limit) (hm : q.matchers.length ≤ 63) :
    evalSel o (d.toDb c) (process st c q).2 = evalLog o c d q :=
  planLog_correct o c hn d q hlim hm

/-- what the code did before the fix (the memo was never cleared): executions after the first kept the
    fingerprint chain of the FIRST context; with contexts on different index days that is a different
    statement than the translation for the current context -/
theorem stale_chain_differs :
    ∃ (q : LogQuery) (c0 c : Ctx), c0.sameStatic c ∧ chainOf c0 q ≠ chainOf c q := by
  refine ⟨⟨[⟨[97], .eq, [98]⟩], []⟩, ⟨0, 1, 0, false, 1, false, "g", "s", "t", "t"⟩,
    ⟨86400000000000 * 2, 86400000000000 * 2 + 1, 0, false, 1, false, "g", "s", "t", "t"⟩,
    ⟨rfl, rfl, rfl, rfl, rfl, rfl, rfl, rfl⟩, ?_⟩
  intro h
  -- the index date bound of the two chains: 1969-12-31 vs 1970-01-02
  have hd : Time.formatFromDate 0 ≠ Time.formatFromDate (86400000000000 * 2) := by decide
  let chainDate : List (Alias × Sel) → Option Bytes := fun ch =>
    match ch with
    | [(_, .mk _ _ _ _ _ _ (some (.logical _ (.logical _ [_, .str d] :: _))) _ _ _ _)] => some d
    | _ => none
  have h' := congrArg chainDate h
  exact hd (Option.some.inj h')

-- non-vacuity: two executions one second apart
example : (runs {} ⟨[⟨[97], .eq, [98]⟩], []⟩
    [⟨1700000000000000000, 1700000300000000000, 0, false, 1, false, "g", "s", "t", "t"⟩,
     ⟨1700000001000000000, 1700000301000000000, 0, false, 1, false, "g", "s", "t", "t"⟩]).length = 2 := rfl

end Qryn.C14

namespace Qryn.C14
/-- **planner_globals_immutable.** The only package-level variables of the query-translation packages
    (regenerated inventory) are lexer/parser definitions and lookup tables initialised once and never assigned:
    a translation cannot depend on earlier translations through package state. A new package-level variable
    changes the inventory and fails this obligation. -/
theorem planner_globals_immutable :
    Qryn.Gen.plannerGlobals =
      ["reader/logql/logql_parser.LogQLLexerDefinition", "reader/logql/logql_parser.LogQLLexerRulesV2",
       "reader/logql/logql_transpiler_v2/clickhouse_planner.regexParserDesc",
       "reader/logql/logql_transpiler_v2/shared.symbols",
       "reader/prof/parser.LogQLLexerRulesV2", "reader/prof/parser.Parser", "reader/prof/parser.ProfLexerDefinition",
       "reader/prof/parser.parseReg",
       "reader/traceql/parser.TraceQLLexerDefinition", "reader/traceql/parser.TraceQLLexerRulesV2"] := by decide
end Qryn.C14

namespace Qryn.C14
/-- `MainFinalizerPlanner.Process`: `if m.Alias == "" { m.Alias = "prefinal" }` — the exported configuration field -/
def finalizerAlias (a : String) : String := if a = "" then "prefinal" else a

/-- the default is idempotent and `plan()` builds the finalizer with `Alias = ""`: every execution uses `prefinal`
    (the name the models `planLog` / `finalizeMatrix` write) -/
theorem finalizer_alias_default : finalizerAlias "" = "prefinal" ∧ ∀ a, finalizerAlias (finalizerAlias a) = finalizerAlias a := by
  refine ⟨rfl, fun a => ?_⟩
  unfold finalizerAlias
  by_cases h : a = ""
  · simp [h]
  · simp [h]
end Qryn.C14

namespace Qryn.C14
open Lean in
/-- how a field a planner object writes on itself during `Process` is kept from carrying anything to the next
    execution -/
inductive SelfWriteClass
  /-- a `**sql.With` pointing at `planner.fpCache` / `planner.labelsCache`: memo of the current execution, cleared by
      `cacheResetPlanner` at the start of every `Process` (`process_stable`, `process_stable_metric`) -/
  | memoReset
  /-- assigned during the same `Process` before anything reads it (`processTpl_state_independent`,
      `attr_condition_state_independent`, `aggregator_state_independent`; the in-process planners build their lookup
      tables from immutable fields in the first lines of `Process`) -/
  | scratch
  /-- read before it is assigned, and reset on every return path that produced a statement: the invariant between two
      executions (`attr_condition_resets_flag`, `traceql_process_invariant`) -/
  | flagResetOnExit
  /-- an exported configuration field given its default on first use; idempotent (`finalizer_alias_default`) -/
  | configDefault
  /-- a memo of values derived from immutable configuration only, filled once; the type is not constructed by this
      build (`Gen.plannerSelfWriteUnconstructed`) -/
  | memoConfig
deriving DecidableEq, Repr

/-- one site of `Gen.plannerSelfWrites`, its class, and the field of the executable models that stands for it
    (names checked by the elaborator; `none`: modelled as a pure function elsewhere — C09's in-process engine — or
    not constructed by this build) -/
structure SelfWrite where
  site : String
  cls : SelfWriteClass
  modelField : Option Lean.Name

def selfWriteClass : List SelfWrite :=
  let cp := "reader/logql/logql_transpiler_v2/clickhouse_planner."
  let ip := "reader/logql/logql_transpiler_v2/internal_planner."
  let tq := "reader/traceql/transpiler/clickhouse_transpiler."
  [⟨cp ++ "ByWithoutPlanner.processTSTable:LabelsCache", .memoReset, some ``Qryn.LogQL.MPlanState.labelsCache⟩,
   ⟨cp ++ "LabelFormatPlanner.makeFormatters:formatters", .memoConfig, none⟩,
   ⟨cp ++ "LabelsJoinPlanner.Process:LabelsCache", .memoReset, some ``Qryn.LogQL.MPlanState.labelsCache⟩,
   ⟨cp ++ "LineFormatPlanner.ProcessTpl:args", .scratch, some ``Qryn.LogQL.FmtState.args⟩,
   ⟨cp ++ "LineFormatPlanner.ProcessTpl:formatStr", .scratch, some ``Qryn.LogQL.FmtState.formatStr⟩,
   ⟨cp ++ "LineFormatPlanner.fieldNode:args", .scratch, some ``Qryn.LogQL.FmtState.args⟩,
   ⟨cp ++ "LineFormatPlanner.fieldNode:formatStr", .scratch, some ``Qryn.LogQL.FmtState.formatStr⟩,
   ⟨cp ++ "LineFormatPlanner.textNode:formatStr", .scratch, some ``Qryn.LogQL.FmtState.formatStr⟩,
   ⟨cp ++ "MainFinalizerPlanner.Process:Alias", .configDefault, some ``Qryn.C14.finalizerAlias⟩,
   ⟨cp ++ "PlannerDropSimple.Process:LabelsCache", .memoReset, none⟩,
   ⟨cp ++ "WithConnectorPlanner.Process:WithCache", .memoReset, some ``Qryn.LogQL.MPlanState.fpCache⟩,
   ⟨ip ++ "ByWithoutPlanner.Process:labels", .scratch, none⟩,
   ⟨ip ++ "LineFilterPlanner.Process:re", .scratch, none⟩,
   ⟨ip ++ "ParserPlanner.Process:logfmtFields", .scratch, none⟩,
   ⟨ip ++ "ParserPlanner.Process:parameterTypedValues", .scratch, none⟩,
   ⟨tq ++ "AggregatorPlanner.cmpVal:fCmpVal", .scratch, some ``Qryn.TraceQL.AggState.fCmpVal⟩,
   ⟨tq ++ "AttrConditionPlanner.Process:alias", .scratch, some ``Qryn.TraceQL.AttrState.alias⟩,
   ⟨tq ++ "AttrConditionPlanner.Process:isAliased", .flagResetOnExit, some ``Qryn.TraceQL.AttrState.isAliased⟩,
   ⟨tq ++ "AttrConditionPlanner.getCond:isAliased", .flagResetOnExit, some ``Qryn.TraceQL.AttrState.isAliased⟩,
   ⟨tq ++ "AttrConditionPlanner.maybeCreateWhere:sqlConds", .scratch, some ``Qryn.TraceQL.AttrState.sqlConds⟩,
   ⟨tq ++ "AttrConditionPlanner.maybeCreateWhere:where", .scratch, some ``Qryn.TraceQL.AttrState.where_⟩]

/-- **planner_self_writes_pinned.** Executing a prepared plan (`Process`, once per second while tailing, once per
    portion of a complex trace search) may write to the planner objects themselves only at the sites of the regenerated
    inventory `Gen.PlannerSelfWrites` (every assignment, `++`, `delete`, address-taking or `range`-assignment whose
    target is a field of the receiver, inside `Process` or a method of the same receiver reachable from it, for all 99
    planner types of the LogQL, TraceQL, PromQL and Pyroscope translation packages) — and the classification table
    `selfWriteClass` covers that inventory EXACTLY, site by site, each with its class and the field of the executable
    state machines that stands for it. A planner that starts to keep anything else across executions (as
    `LabelFilterPlanner.MainReq`, the line-filter and `AttrConditionPlanner` accumulators did before their fixes) changes
    the inventory and fails this obligation; the re-execution and dirty-state streams then search for a query on which
    an execution differs from a fresh translation. -/
theorem planner_self_writes_pinned :
    Qryn.Gen.plannerSelfWrites = selfWriteClass.map (·.site) ∧ 40 ≤ Qryn.Gen.plannerProcessTypes := by decide

/-- the two self-writing types whose fields have no model (`modelField = none`, class memo) are exactly the ones this
    build never constructs: `clickhouse_planner.LabelFormatPlanner` and `PlannerDropSimple` are dead code (label_format
    runs in-process, `planDrop` builds `PlannerDrop`). Constructing one of them changes this regenerated fact. -/
theorem unmodelled_memo_types_not_constructed :
    Qryn.Gen.plannerSelfWriteUnconstructed =
      ["reader/logql/logql_transpiler_v2/clickhouse_planner.LabelFormatPlanner",
       "reader/logql/logql_transpiler_v2/clickhouse_planner.PlannerDropSimple"] ∧
    ((selfWriteClass.filter (fun w => w.modelField.isNone && w.cls != .scratch)).map (·.site)) =
      ["reader/logql/logql_transpiler_v2/clickhouse_planner.LabelFormatPlanner.makeFormatters:formatters",
       "reader/logql/logql_transpiler_v2/clickhouse_planner.PlannerDropSimple.Process:LabelsCache"] := by decide
end Qryn.C14

/-! ## TraceQL: the planner objects' own fields as state (`TraceQL/Process.lean`) -/
namespace Qryn.C14
open Qryn.TraceQL

/-- **attr_condition_state_independent.** One `AttrConditionPlanner.Process`, for EVERY context — also the contexts
    of the portions of a complex search (`RandomFilter`, `CachedTraceIds`: the three return paths) — and for every
    value of the fields `sqlConds`, `where`, `alias` an earlier `Process` (or anything else) left in the object:
    the result is the pure translation `attrCondition` of C11. The one field that is read before it is assigned,
    `isAliased`, must be `false` at entry — `attr_condition_resets_flag` shows every path re-establishes that. -/
theorem attr_condition_state_independent (st : AttrState) (h : st.isAliased = false) (c : TraceQL.Ctx)
    (terms : List Term) (cond : Cond) (aggAttr : String) :
    (processAttr st c terms cond aggAttr).2 = attrCondition c terms cond aggAttr :=
  processAttr_out st h c terms cond aggAttr

/-- every way out of `AttrConditionPlanner.Process` (error in a term; no portion; portion filter; portion filter and
    cached trace ids) leaves `isAliased = false` -/
theorem attr_condition_resets_flag (st : AttrState) (h : st.isAliased = false) (c : TraceQL.Ctx)
    (terms : List Term) (cond : Cond) (aggAttr : String) :
    (processAttr st c terms cond aggAttr).1.isAliased = false :=
  processAttr_clean st h c terms cond aggAttr

/-- on the paths that return a statement the flag is reset whatever it was -/
theorem attr_tail_resets (st : AttrState) (c : TraceQL.Ctx) (res : Sql.Sel) :
    (attrTail st c res).1.isAliased = false := by rw [attrTail_state]

/-- the three tails are really taken: a context for each -/
example : portionOf ⟨0, 1, 0, 0, false, "a", "b", "c", "d", 0, 0, []⟩ = .none := by decide
example : portionOf ⟨0, 1, 0, 0, false, "a", "b", "c", "d", 3, 1, []⟩ = .filter := by decide
example : portionOf ⟨0, 1, 0, 0, false, "a", "b", "c", "d", 3, 2, ["00"]⟩ = .filterAndCached := by decide

/-- `AggregatorPlanner.Process` never reads the `fCmpVal` an earlier `Process` left -/
theorem aggregator_state_independent (st : AggState) (pfx : String) (a : Agg) (main : Sql.Sel) :
    (processAgg st pfx a main).2 = aggregator pfx a main := processAgg_out st pfx a main

/-- **process_stable_traceql.** A prepared TraceQL plan (any tree of `&&`/`||` selectors with aggregators) in a clean
    state, processed any number of times with any contexts (complex searches: once per portion, each with its own
    random filter and the trace ids found so far): every result — statement or error — is the pure reading of the
    plan for ITS context; the objects' fields carry nothing over. -/
theorem process_stable_traceql (p : PTree) (hp : p.clean) (cs : List TraceQL.Ctx) :
    runsT p cs = cs.map (fun c => finishPlan c (pureTree c p.shape)) := runsT_eq p hp cs

/-- … and for the plan object `Plan(script)` returns this is `TraceQL.plan` of C11 (`plan_correct` etc. are about it) -/
theorem process_stable_traceql_plan (script : Script) (p : PTree) (h : prepare script = .ok p) (cs : List TraceQL.Ctx) :
    runsT p cs = cs.map (fun c => plan c script) := by
  rw [runsT_eq p (prepare_spec script p h ⟨0, 0, 0, 0, false, "", "", "", "", 0, 0, []⟩).1 cs]
  apply List.map_congr_left
  intro c _
  obtain ⟨_, hs, hpl⟩ := prepare_spec script p h c
  rw [hs, hpl]

/-- `Process` modifies nothing of the plan but the inventoried fields, and keeps the invariant -/
theorem traceql_process_invariant (p : PTree) (hp : p.clean) (c : TraceQL.Ctx) :
    (processPlan p c).1.clean ∧ (processPlan p c).1.shape = p.shape :=
  ⟨processTree_clean c p hp, processTree_shape c p⟩

/-- what a flag left set does (the state a lost reset produces): the first condition refers to the alias `bsCond`
    instead of defining it — the statement has no definition of `bsCond` at all -/
theorem stale_flag_drops_definition (ts : List Sql.Expr) (a : String) (i : Nat) :
    (condSqlA ts a true (.leaf i)).1 = Sql.neq (.callT "bitAnd" [.raw a, .int (shl1 i)]) (.int 0) ∧
    (condSqlA ts a false (.leaf i)).1 = Sql.neq (.callT "bitAnd" [.bitSet ts a, .int (shl1 i)]) (.int 0) ∧
    (condSqlA ts a true (.leaf i)).1 ≠ (condSqlA ts a false (.leaf i)).1 := by
  refine ⟨rfl, rfl, ?_⟩
  intro h
  simp [condSqlA, Sql.neq] at h

/-- what the code did before the `fix:` of `maybeCreateWhere`: a `Process` that failed on the second term left the
    first one in the planner; the next `Process` of the same plan found the memo non-empty and returned a statement
    (built from one term, testing bit 1 of a one-bit set) where the first execution — and a fresh translation —
    return the error -/
theorem stale_terms_after_error :
    ∃ (terms : List Term) (cond : Cond) (c : TraceQL.Ctx),
      (runsAttrOld {} terms cond "" [c, c]).map Except.isOk = [false, true] ∧
      (attrCondition c terms cond "").isOk = false ∧
      ((runsT (.simple [(⟨some (.leafOp ⟨".a", .eq, .str [34, 98, 34] (some [98])⟩ .and (.leaf ⟨"foo", .eq, .str [34, 120, 34] (some [120])⟩)), none⟩, .none)] "" {} {}) [c, c]).map
        Except.isOk = [false, false]) := by
  refine ⟨[⟨".a", .eq, .str [34, 98, 34] (some [98])⟩, ⟨"foo", .eq, .str [34, 120, 34] (some [120])⟩],
    .node .and (.leaf 0) (.leaf 1), ⟨0, 1, 0, 0, false, "a", "b", "c", "d", 0, 0, []⟩, ?_, ?_, ?_⟩ <;> decide +kernel

end Qryn.C14

/-! ## metric LogQL: the memo fields `fpCache`, `labelsCache` and the `ctx.Id()` counter as state (`LogQL/ProcessMetric.lean`) -/
namespace Qryn.C14
open Qryn Qryn.Sql Qryn.LogQL

/-- the first execution of a fresh metric plan is the translation `planMetric` of C08 -/
theorem first_execution_metric (c : MCtx) (q : MetricQuery) : (processMetric {} c q).2 = planMetric c q :=
  metricChainP_fresh c q

/-- **process_stable_metric.** A prepared metric plan — range functions over a selector of the C07 fragment, `unwrap`,
    `by`/`without` with and without the time-series join, `topk`, comparisons, the metrics_15s shortcut —, whatever
    `fpCache` and `labelsCache` hold (what earlier executions memoized, or anything else), processed any number of
    times with any contexts: every statement is exactly `planMetric` for ITS context. The proof follows the memo
    fields and the `ctx.Id()` counter through every planner of the chain in the order the Go code calls them
    (`Proofs/ProcessMetric.lean`: `withConnector_ok`, `labelsJoinP_spec`, `byWithoutTSP_ok`, `fold_spec`). -/
theorem process_stable_metric (st : MPlanState) (q : MetricQuery) (cs : List MCtx) :
    runsMetric st q cs = cs.map (fun c => planMetric c q) := by
  induction cs generalizing st with
  | nil => rfl
  | cons c cs ih =>
    simp only [runsMetric, List.map_cons, List.cons.injEq]
    exact ⟨metricChainP_fresh c q, ih _⟩

/-- inside one execution the planners DO communicate through the memo: after `Process` the fingerprint sub-query is
    memoized (so `process_stable_metric` is not true because nothing is ever stored) -/
theorem metric_memo_is_used (c : MCtx) (q : MetricQuery) :
    ∃ lc, (metricChainP c q ⟨none, none, 0⟩).1.fpCache = some (fpWith c.toCtx q.rangeAgg.sel) ∧
      (metricChainP c q ⟨none, none, 0⟩).1.labelsCache = lc := ⟨_, by
  obtain ⟨lc, hs⟩ := steps_spec c q
  have hi := mapP_spec c q (stepFixSel c q.rangeAgg.durNs) hs
  unfold metricChainP
  cases hm : matrixLabels q with
  | true =>
    have := mapP_spec c q finalizeMatrix hi ⟨none, none, 0⟩ (Or.inl ⟨rfl, rfl⟩) rfl
    simp only [if_true]
    rw [this]
  | false =>
    have := mapP_spec c q finalizeMatrix (labelsJoinP_spec c q false hi) ⟨none, none, 0⟩ (Or.inl ⟨rfl, rfl⟩) rfl
    simp only [Bool.false_eq_true, if_false]
    rw [this], rfl⟩

/-- what the code did before `cacheResetPlanner` existed: from the second execution on `ByWithoutPlanner.processTSTable`
    found its own `labels_1` of the previous execution in the memo and defined the new `labels_1` as a filter over
    `labels_1` — a sub-query selecting from itself; the fresh translation never does -/
theorem stale_labels_self_reference :
    ∃ (q : MetricQuery) (c : MCtx),
      (runsMetricNoReset {} q [c, c]).map selfRefWith = [false, true] ∧
      (runsMetric {} q [c, c]).map selfRefWith = [false, false] ∧ selfRefWith (planMetric c q) = false := by
  refine ⟨.agg ⟨.sum, some ⟨true, ["a"]⟩, ⟨.lra .countOverTime, ⟨[⟨[97], .eq, [98]⟩], []⟩, 7000000000, none, none, none⟩, none, none⟩,
    ⟨⟨1700000000000000000, 1700000300000000000, 0, false, 1, false, "g", "s", "t", "t"⟩, 5000000000, "m"⟩, ?_, ?_, ?_⟩ <;>
    decide +kernel

end Qryn.C14

/-! ## `LineFormatPlanner`: the accumulated `format(...)` call (`LogQL/ProcessFormat.lean`) -/
namespace Qryn.C14
open Qryn Qryn.Sql Qryn.LogQL

/-- the walk numbers the placeholders from the number of arguments it starts with and appends to what it starts with -/
theorem tpl_walk (nodes : List TplNode) (st : FmtState) :
    nodes.foldl nodeStep st = ⟨st.formatStr ++ fmtText st.args.length nodes, st.args ++ fmtArgs nodes⟩ := by
  induction nodes generalizing st with
  | nil => simp [fmtText, fmtArgs]
  | cons n rest ih =>
    cases n with
    | text s => simp [List.foldl_cons, nodeStep, ih, fmtText, fmtArgs, List.append_assoc]
    | field name => simp [List.foldl_cons, nodeStep, ih, fmtText, fmtArgs, List.append_assoc]

/-- **processTpl_state_independent.** `ProcessTpl` from ANY values of `formatStr` / `args`: success or failure and the
    `format(...)` call are those of a fresh planner — and that call is a function of the template alone. -/
theorem processTpl_state_independent (st : FmtState) (tpl : Option (List TplNode)) :
    (processTpl st tpl).2 = (processTpl {} tpl).2 ∧
    ((processTpl st tpl).2 = true → (processTpl st tpl).1.out = (processTpl {} tpl).1.out) ∧
    (∀ nodes, tpl = some nodes → (processTpl st tpl).1.out = (fmtText 0 nodes, fmtArgs nodes)) := by
  cases tpl with
  | none => exact ⟨rfl, ⟨fun h => by simp [processTpl] at h, fun _ h => by cases h⟩⟩
  | some nodes =>
    refine ⟨rfl, fun _ => rfl, fun n h => ?_⟩
    cases h
    simp [processTpl, tpl_walk, FmtState.out]

/-- any number of `ProcessTpl` calls on one planner object, from any state: always the same call -/
theorem processTpl_stable (nodes : List TplNode) (n : Nat) (st : FmtState) :
    runsTpl processTpl st (some nodes) n = List.replicate n (some (fmtText 0 nodes, fmtArgs nodes)) := by
  induction n generalizing st with
  | zero => rfl
  | succ n ih =>
    simp only [runsTpl, List.replicate_succ, List.cons.injEq]
    exact ⟨by simp [processTpl, tpl_walk, FmtState.out], ih _⟩

/-- what the code did before the `fix:` (no reset): the second execution appended the template again, its
    placeholders numbered after the first execution's arguments -/
theorem stale_format_accumulates (nodes : List TplNode) :
    (processTplOld (processTplOld {} (some nodes)).1 (some nodes)).1.out =
      (fmtText 0 nodes ++ fmtText (fmtArgs nodes).length nodes, fmtArgs nodes ++ fmtArgs nodes) := by
  simp [processTplOld, tpl_walk, FmtState.out]

/-- … for `{{.a}}`: `format('{0}{1}', labels['a'], labels['a'])` instead of `format('{0}', labels['a'])` -/
theorem stale_format_differs :
    runsTpl processTplOld {} (some [.field [97]]) 2 = [some ([123, 48, 125], [[97]]), some ([123, 48, 125, 123, 49, 125], [[97], [97]])] ∧
    runsTpl processTpl {} (some [.field [97]]) 2 = [some ([123, 48, 125], [[97]]), some ([123, 48, 125], [[97]])] := by
  decide +kernel
end Qryn.C14

/-! ## determinism: a translation is a function of (query, context) -/
namespace Qryn.C14
open Qryn Qryn.Sql Qryn.LogQL

/-- **translate_pure (all three model planners).** What an execution returns does not depend on the history of the plan
    object: two plan objects of the same query in ANY two states (reached by any earlier executions, or never
    executed), given the same context, return the same statement. In Lean the model planners are functions, so
    "deterministic" is this independence from the only other input they have — the object state. Transfer to the
    code: the real planners have two more potential inputs, package-level variables and other objects' fields;
    `planner_globals_immutable` (regenerated: the translation packages hold no assignable package-level state) and
    `planner_self_writes_pinned` (regenerated: `Process` writes only receiver fields, each classified here) exclude
    them; the `concurrent`, `reexec-*` and `retranslate-api` streams test exactly this on real objects. -/
theorem translation_history_independent :
    (∀ (st st' : PlanState) (c : LogQL.Ctx) (q : LogQuery), (process st c q).2 = (process st' c q).2) ∧
    (∀ (st st' : MPlanState) (c : MCtx) (q : MetricQuery), (processMetric st c q).2 = (processMetric st' c q).2) ∧
    (∀ (p p' : TraceQL.PTree) (c : TraceQL.Ctx), p.clean → p'.clean → p.shape = p'.shape →
        (TraceQL.processPlan p c).2 = (TraceQL.processPlan p' c).2) := by
  refine ⟨fun _ _ _ _ => rfl, fun _ _ _ _ => rfl, fun p p' c hp hp' hs => ?_⟩
  have h1 := TraceQL.runsT_eq p hp [c]
  have h2 := TraceQL.runsT_eq p' hp' [c]
  simp only [TraceQL.runsT, List.map_cons, List.map_nil, List.cons.injEq, and_true] at h1 h2
  rw [h1, h2, hs]

/-- full statement for metric queries: every re-executed statement evaluates (SQL semantics of C08, `Sql.SemAgg`) to
    the direct reading `evalMetric` of the query for the window of its own context. C08 proves this stage by stage and
    SEARCHES it for whole plans (`sem` stream); it is not a theorem there, hence not here. -/
def reexecution_same_meaning_metric_full : Prop :=
  ∀ (o : Oracles) (d : LokiDb) (st : MPlanState) (c : MCtx) (q : MetricQuery),
    (evalSelA o (d.toDbM c) (processMetric st c q).2).map normRow = evalMetric o c d q

/-- **reexecution_same_meaning_metric_partial.** Proved part: under the SQL semantics every re-executed statement
    means what the FRESH translation for its context means — on every database, from every memo state; whatever C08
    establishes (or finds) about `planMetric c q` holds verbatim for the k-th execution. Missing for the full
    statement: `evalSelA (planMetric c q) = evalMetric c q` for whole plans (C08: proved per stage, searched per plan). -/
theorem reexecution_same_meaning_metric_partial (o : Oracles) (db : Db) (st : MPlanState) (c : MCtx) (q : MetricQuery) :
    evalSelA o db (processMetric st c q).2 = evalSelA o db (planMetric c q) ∧
    (∀ P : Sel → Prop, P (planMetric c q) → P (processMetric st c q).2) := by
  have h : (processMetric st c q).2 = planMetric c q := metricChainP_fresh c q
  exact ⟨by rw [h], fun P hp => by rw [h]; exact hp⟩

/-- the same for TraceQL, where C11 has the whole-plan theorems about `TraceQL.plan`: the k-th execution of the plan
    object of `script` IS `plan c script` -/
theorem reexecution_same_meaning_traceql (script : TraceQL.Script) (p : TraceQL.PTree) (h : TraceQL.prepare script = .ok p)
    (cs : List TraceQL.Ctx) (i : Nat) (hi : i < cs.length) :
    (TraceQL.runsT p cs)[i]? = some (TraceQL.plan cs[i] script) := by
  rw [process_stable_traceql_plan script p h cs]
  simp [hi]
end Qryn.C14

/-! ## sharing between plan objects: the heap of column lists (`Sql/PlanHeap.lean`)

    The planner models above build statements as VALUES, so two translations share nothing by construction. The Go
    planners build them from `sql.Select` objects that keep and hand out SLICES (`Select(cols...)` stores its argument as
    is, `GetSelect()` returns it), patch each other's lists in place and append to them. The heap model makes that
    sharing explicit; the theorems say under which discipline it cannot carry anything from one translation to the next,
    and the two regenerated facts below check that discipline on the source. -/
namespace Qryn.C14
open Qryn.PlanHeap

/-- **translation_history_independent_heap.** For EVERY sequence of translations run one after the other in one process
    — each any program over the heap of column lists: allocating lists, taking package-level lists, storing lists into
    plan objects and loading them back (`Select(...)` / `GetSelect()`), writing in place (`cols[i] = …`), mapping in place,
    appending with Go's capacity rule (in place when the array has room), copying, branching on what a list holds —:
    if every translation keeps the discipline "a list stored into a plan object, written through or appended to was
    allocated by THIS translation" (`Prog.Disciplined`: package-level lists are only read), then what the n-th translation
    renders is what it renders as the FIRST translation of a fresh process. In-place writes of translation n land in
    arrays translation n allocated and cannot reach translation n+1. (`G`: the package-level slices, allocated before the
    first translation; `h0`: the heap at process start.) -/
theorem translation_history_independent_heap {α : Type} (G : List Slice) (h0 : Heap α)
    (hG : ∀ s ∈ G, s.ref < h0.next) (ps : List (Prog α)) (hd : ∀ p ∈ ps, p.Disciplined) :
    runSeq G h0 ps = ps.map (fun p => (translate G h0 p).2) :=
  (runSeq_frame G h0 hG ps h0 (Nat.le_refl _) (fun _ _ => rfl) hd).1

/-- … and the package-level arrays hold after any such sequence what they held at process start -/
theorem package_lists_never_change {α : Type} (G : List Slice) (h0 : Heap α)
    (hG : ∀ s ∈ G, s.ref < h0.next) (ps : List (Prog α)) (hd : ∀ p ∈ ps, p.Disciplined) (a : Nat) (ha : a < h0.next) :
    (heapAfter G h0 ps).cell a = h0.cell a :=
  (runSeq_frame G h0 hG ps h0 (Nat.le_refl _) (fun _ _ => rfl) hd).2 a ha

/-- the columns of the statements `MainRenewPlanner` and `LRAPlanner` exchange: (expression, alias) -/
inductive ColName
  | timestamp_ns | fingerprint | labels | string | _string | value
deriving DecidableEq, Repr

abbrev Column := ColName × ColName

/-- `MainRenewPlanner.Process` as pinned: `Select(ts, fp)` (a new array of two), then
    `req.Select(append(req.GetSelect(), string, value)...)` — the array is full, `append` copies. Plan object 0 = `req`. -/
def renewPinned : List (Instr Column) :=
  [.lit 0 [(.timestamp_ns, .timestamp_ns), (.fingerprint, .fingerprint)] 0, .store 0 0,
   .load 1 0, .append 2 1 (.string, .string) 1, .append 3 2 (.value, .value) 0, .store 0 3]

/-- the seeded shape: the column list hoisted into a package-level slice and handed to `Select(cols...)` -/
def renewHoisted : List (Instr Column) := [.pkg 0 0, .store 0 0]

/-- `LRAPlanner.Process`: `cols := main.GetSelect(); for i, c := range cols { if alias == "string" { cols[i] = NewCol(expr, "_string") } }` -/
def lraPatch : List (Instr Column) :=
  [.load 4 0, .mapAt 4 (fun c => if c.2 = .string then (c.1, ._string) else c)]

/-- a range aggregation whose `LRAPlanner` receives the renewed SELECT, and a log query that only renews -/
def metricQuery (renew : List (Instr Column)) : Prog Column := Prog.ofList (renew ++ lraPatch ++ [.emit 0])
def logQuery (renew : List (Instr Column)) : Prog Column := Prog.ofList (renew ++ [.emit 0])

/-- the process at start: one package-level array (address 0) holding the hoisted column list -/
def renewHeap : Heap Column :=
  ⟨fun a => if a = 0 then ⟨[(.timestamp_ns, .timestamp_ns), (.fingerprint, .fingerprint), (.string, .string), (.value, .value)], 4⟩ else ⟨[], 0⟩, 1⟩
def renewGlobals : List Slice := [⟨0, 4⟩]

/-- the pinned planners keep the discipline (so the theorem applies to every sequence of these translations), the
    hypotheses are satisfiable, and both shapes render the same statement as the first translation of a process -/
theorem pinned_renew_disciplined :
    (metricQuery renewPinned).Disciplined ∧ (logQuery renewPinned).Disciplined ∧
    (∀ s ∈ renewGlobals, s.ref < renewHeap.next) ∧
    (translate renewGlobals renewHeap (logQuery renewPinned)).2 = (translate renewGlobals renewHeap (logQuery renewHoisted)).2 ∧
    runSeq renewGlobals renewHeap [metricQuery renewPinned, logQuery renewPinned] =
      [[[(.timestamp_ns, .timestamp_ns), (.fingerprint, .fingerprint), (.string, ._string), (.value, .value)]],
       [[(.timestamp_ns, .timestamp_ns), (.fingerprint, .fingerprint), (.string, .string), (.value, .value)]]] := by
  decide +kernel

/-- **shared_package_list_counterexample.** The seeded shape: the hoisted list is not disciplined (`Select(cols...)` stores
    a package-level slice), and ONE translation of the metric query changes what the log query translates to afterwards:
    its renewed sub-select provides `_string` where the pristine translation provides `string` — while every translation
    taken alone is unchanged. The in-place patch of `LRAPlanner` is the same in both worlds; the difference is only whose
    array it lands in. -/
theorem shared_package_list_counterexample :
    ¬ (logQuery renewHoisted).Disciplined ∧
    runSeq renewGlobals renewHeap [metricQuery renewHoisted, logQuery renewHoisted] ≠
      [metricQuery renewHoisted, logQuery renewHoisted].map (fun p => (translate renewGlobals renewHeap p).2) ∧
    (runSeq renewGlobals renewHeap [metricQuery renewHoisted, logQuery renewHoisted])[1]? =
      some [[(.timestamp_ns, .timestamp_ns), (.fingerprint, .fingerprint), (.string, ._string), (.value, .value)]] ∧
    (translate renewGlobals renewHeap (logQuery renewHoisted)).2 =
      [[(.timestamp_ns, .timestamp_ns), (.fingerprint, .fingerprint), (.string, .string), (.value, .value)]] := by
  decide +kernel

/-- the second way a list can be shared: `append` into spare capacity. Two plan objects built from one list with room
    (`a := append(base, x)`, `b := append(base, y)`): the second append overwrites what the first plan renders. Within a
    translation this is the translation's own business (both arrays are its own — `Disciplined` admits it); with a
    package-level `base` it is what the discipline excludes. -/
theorem append_shares_spare_capacity :
    (translate [] (⟨fun _ => ⟨[], 0⟩, 0⟩ : Heap Column)
      (Prog.ofList [.lit 0 [(.timestamp_ns, .timestamp_ns)] 1, .append 1 0 (.string, .string) 0, .store 0 1,
                    .append 2 0 (.value, .value) 0, .store 1 2, .emit 0, .emit 1])).2 =
      [[(.timestamp_ns, .timestamp_ns), (.value, .value)], [(.timestamp_ns, .timestamp_ns), (.value, .value)]] := by
  decide +kernel

/-- the classes of the reviewed in-place-write table -/
inductive ListWriteClass
  /-- `x.Select(append(x.GetSelect(), c)...)` on a `Select` this function has just built: the array is the function's own -/
  | ownList
  /-- index write / append on the list of a `Select` ANOTHER planner returned (`Main.Process(ctx)`, an operand, a
      parameter handed down by `Process`): lands in whatever that planner stored — its own fresh list as long as
      `planner_lists_not_package_level` holds (`translation_history_independent_heap`) -/
  | inputList
  /-- the getter returns a copy (`GetWith`) -/
  | getterCopies
  /-- a slice of slices / of strings allocated by the same function, filled by index -/
  | localMatrix
  /-- not a list of a statement: result rows, value buffers, regexp group names, rendering options (`options ...int`),
      the selector list of the script parsed for this request -/
  | notPlanList
deriving DecidableEq, Repr

def inPlaceWriteClass : List (String × ListWriteClass) :=
  let lt := "reader/logql/logql_transpiler_v2."
  let cp := "reader/logql/logql_transpiler_v2/clickhouse_planner."
  let tq := "reader/traceql/transpiler/clickhouse_transpiler."
  [(lt ++ "FixPeriodPlanner.Process:append:elem", .notPlanList),
   (lt ++ "fastFill:copy:param:v", .notPlanList),
   (lt ++ "fastFill:index:param:v", .notPlanList),
   (cp ++ "AggOpPlanner.Process:append:getter:GetSelect@input+own", .ownList),
   (cp ++ "LRAPlanner.Process:append:getter:GetSelect@own", .ownList),
   (cp ++ "LRAPlanner.Process:index:getter:GetSelect@input", .inputList),
   (cp ++ "MainRenewPlanner.Process:append:getter:GetSelect@own ×2", .ownList),
   (cp ++ "ParserPlanner.json:index:elem@fresh ×2", .localMatrix),
   (cp ++ "QuantilePlanner.Process:append:getter:GetSelect@own", .ownList),
   (cp ++ "StepFixPlanner.Process:append:getter:GetSelect@own", .ownList),
   (cp ++ "TopKPlanner.Process:append:getter:GetSelect@own", .ownList),
   (cp ++ "UnionSelect.GetWith:append:getter:GetWith@recvfield", .getterCopies),
   (cp ++ "UnwrapPlanner.processTimeSeries:append:getter:GetSelect@param", .inputList),
   (cp ++ "brackPart.collectGroupNames:append:param:init", .notPlanList),
   (cp ++ "regexPart.collectGroupNames:append:param:init", .notPlanList),
   (cp ++ "sqlMapInit.String:index:elem@fresh", .localMatrix),
   ("reader/logql/logql_transpiler_v2/shared.ClickhouseGetterPlanner.Scan:index:field:Labels", .notPlanList),
   ("reader/logql/logql_transpiler_v2/shared.ClickhouseGetterPlanner.ScanMatrix:index:field:Labels", .notPlanList),
   ("reader/prof/transpiler.populateTypeId:append:field:Selectors", .notPlanList),
   (tq ++ "AttrConditionPlanner.aggregator:append:getter:GetSelect@param ×2", .inputList),
   (tq ++ "ComplexAndPlanner.Process:append:getter:GetSelect@elem", .inputList),
   (tq ++ "ComplexOrPlanner.Process:append:getter:GetSelect@elem", .inputList),
   ("reader/utils/sql_select.Col.String:append:param:options", .notPlanList),
   ("reader/utils/sql_select.Select.String:append:param:options", .notPlanList)]

/-- **planner_inplace_writes_pinned.** Every place in the translation packages (420 functions scanned, regenerated) where
    a slice or map that the function did not allocate itself is written IN PLACE — `x[i] = v`, `append(x, …)` (which writes
    into x's array when it has room), `copy`, `delete`, `clear` — is in this reviewed table, with the origin of the list
    (the getter of a `Select` the function built / received from another planner / a parameter / a field) and its class.
    The five `inputList` sites are the writes that reach into another planner's list (`LRAPlanner.Process` patches the
    column `string` of its input in place; `UnwrapPlanner`, `AttrConditionPlanner.aggregator`, `ComplexAnd/OrPlanner`
    append to their operands' lists): they are harmless exactly as long as those lists are allocated per translation. A
    new in-place write, or one whose list comes from somewhere else, changes the inventory and fails this obligation;
    the `history-cross` stream then searches a sequence of translations on which it shows. -/
theorem planner_inplace_writes_pinned :
    Qryn.Gen.plannerInPlaceWrites = inPlaceWriteClass.map (·.1) ∧ 300 ≤ Qryn.Gen.plannerListFuncs := by decide

/-- **planner_lists_not_package_level.** The other half: every list handed to a plan object without copying
    (`f(x...)`: `Select`, `GroupBy`, `OrderBy`, `And`, `Or`, `AndWhere`, `AddWith`, …) that is neither freshly allocated
    by the caller nor a wrapper's own variadic parameter comes from a getter of a `Select` of the same translation, from
    a field of the request's own planner objects (`Matchers`, `globalMatchers`, `kvMatchers`: built by `Plan…` for this
    request), or from `aggregator` (returns fresh conditions) — reviewed list; and NO in-place write and NO such store
    has a list of package-level or unknown origin. -/
theorem planner_lists_not_package_level :
    Qryn.Gen.plannerListGlobalOrigins = [] ∧
    Qryn.Gen.plannerSpreadStoresShared =
      (let cp := "reader/logql/logql_transpiler_v2/clickhouse_planner."
       let pf := "reader/prof/transpiler."
       let tq := "reader/traceql/transpiler/clickhouse_transpiler."
       [cp ++ "AggOpPlanner.Process:Select:getter:GetSelect@input+own",
        cp ++ "LRAPlanner.Process:Select:getter:GetSelect@own",
        cp ++ "MainRenewPlanner.Process:Select:getter:GetSelect@own ×2",
        cp ++ "QuantilePlanner.Process:Select:getter:GetSelect@own",
        cp ++ "StepFixPlanner.Process:Select:getter:GetSelect@own",
        cp ++ "TopKPlanner.Process:Select:getter:GetSelect@own",
        cp ++ "UnwrapPlanner.processSimple:Select:getter:GetSelect@param",
        cp ++ "UnwrapPlanner.processTimeSeries:Select:getter:GetSelect@param",
        pf ++ "GetLabelsPlanner.Process:AndWhere:field:globalMatchers",
        pf ++ "MergeProfilesPlanner.Process:AndWhere:field:globalMatchers",
        pf ++ "MergeRawPlanner.Process:And:field:globalMatchers",
        pf ++ "SelectSeriesPlanner.Process:AndWhere:field:globalMatchers",
        pf ++ "StreamSelectorPlanner.Process:And:field:globalMatchers",
        pf ++ "StreamSelectorPlanner.Process:Or:field:kvMatchers",
        pf ++ "TimeSeriesSelectPlanner.Process:AndWhere:field:globalMatchers",
        "reader/promql/transpiler.StreamSelectPlanner.Process:fingerprintsQuery:recvfield:Matchers",
        tq ++ "AttrConditionPlanner.Process:Or:call:aggregator",
        tq ++ "AttrConditionPlanner.aggregator:Select:getter:GetSelect@param ×2",
        tq ++ "ComplexAndPlanner.Process:Select:getter:GetSelect@elem",
        tq ++ "ComplexOrPlanner.Process:Select:getter:GetSelect@elem",
        "reader/utils/sql_select.Select.AddWith:AddWith:getter:GetWith@elem"]) := by decide

/-- why a package-level variable cannot carry anything from one translation to the next -/
inductive GlobalClass
  /-- lexer rules / lexer definition / generated parser: built at init, handed to participle, which only reads them -/
  | lexerDefinition
  /-- `*regexp.Regexp`: immutable, safe for concurrent use -/
  | compiledRegexp
  /-- the function table of `line_format` (in-process engine): passed to `template.Funcs`, which copies the entries into
      the template's own map; no SQL plan object ever holds it -/
  | templateFuncs
deriving DecidableEq, Repr

def reviewedGlobals : List ((String × String × List String) × GlobalClass) :=
  [(("reader/logql/logql_parser.LogQLLexerDefinition", "call:lexer.MustSimple", ["arg:Lexer"]), .lexerDefinition),
   (("reader/logql/logql_parser.LogQLLexerRulesV2", "slice", ["init:LogQLLexerDefinition"]), .lexerDefinition),
   (("reader/logql/logql_transpiler_v2/clickhouse_planner.regexParserDesc", "call:lexer.MustSimple", ["arg:Lexer"]), .lexerDefinition),
   (("reader/logql/logql_transpiler_v2/internal_planner.functionMap", "call:func()type:template.FuncMap", ["arg:Funcs"]), .templateFuncs),
   (("reader/logql/logql_transpiler_v2/internal_planner.sanitizeRe", "call:regexp.MustCompile", ["method:ReplaceAllString"]), .compiledRegexp),
   (("reader/logql/logql_transpiler_v2/shared.symbols", "map", ["ret@Symbols"]), .lexerDefinition),
   (("reader/prof/parser.LogQLLexerRulesV2", "slice", ["init:ProfLexerDefinition"]), .lexerDefinition),
   (("reader/prof/parser.Parser", "call:MustBuild", ["method:ParseString"]), .lexerDefinition),
   (("reader/prof/parser.ProfLexerDefinition", "call:lexer.MustSimple", ["init:Parser"]), .lexerDefinition),
   (("reader/prof/parser.parseReg", "call:regexp.MustCompile", []), .compiledRegexp),
   (("reader/traceql/parser.TraceQLLexerDefinition", "call:lexer.MustSimple", ["arg:Lexer"]), .lexerDefinition),
   (("reader/traceql/parser.TraceQLLexerRulesV2", "slice", ["init:TraceQLLexerDefinition"]), .lexerDefinition)]

/-- **planner_globals_not_handed_to_plans.** For every package-level variable of the translation packages (the in-process
    planner package included) the regenerated fact gives its kind and EVERY use anywhere under reader/ (also through a
    local alias `x := g`). The table is exact; no variable of reference kind is handed to a plan object, aliased, put
    into a literal, returned, re-sliced, written or has its address taken — the one hand-over outside the lexer
    definitions is `functionMap` to `template.Funcs` (copied by text/template). A package-level slice of columns handed to
    `Select(cols...)` (the seeded shape: `alias:cols`, `via(cols):spread:Select`), a `sync.Pool` of `Select` objects
    (`method:Get`, `method:Put` on a new variable), a package-level memo map (`index-write`) each change this fact. -/
theorem planner_globals_not_handed_to_plans :
    Qryn.Gen.plannerGlobalFlows = reviewedGlobals.map (·.1) ∧
    Qryn.Gen.plannerGlobalsIntoPlan = ["reader/logql/logql_transpiler_v2/internal_planner.functionMap arg:Funcs"] := by decide

end Qryn.C14
