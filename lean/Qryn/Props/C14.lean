import Qryn.LogQL.Process
import Qryn.Proofs.LogQLPlan
import Qryn.Gen.PlannerGlobals
import Qryn.Gen.PlannerSelfWrites
import Qryn.Proofs.ProcessTraceQL
import Qryn.Proofs.ProcessMetric
/-! # C14 — query translation is deterministic and a prepared plan can be re-executed -/
namespace Qryn.C14
open Qryn Qryn.Sql Qryn.LogQL

/-- **translate_pure.** In the model, translating a query is a function of (query, context) only — and the
    first execution of a fresh plan is exactly that translation. (That the Go packages hold no mutable
    package-level state is the regenerated fact `Gen.PlannerGlobals`, see `planner_globals_immutable`.) -/
theorem first_execution (c : Ctx) (q : LogQuery) : (process {} c q).2 = planLog c q := rfl

/-- **process_stable.** Re-executing a prepared plan any number of times, from any memo state and with any
    contexts: every statement is exactly the translation for ITS context — nothing is carried over between
    executions. -/
theorem process_stable (st : PlanState) (q : LogQuery) (cs : List Ctx) :
    runs st q cs = cs.map (fun c => planLog c q) := by
  induction cs generalizing st with
  | nil => rfl
  | cons c cs ih =>
    simp only [runs, List.map_cons, List.cons.injEq]
    exact ⟨rfl, ih _⟩

/-- the fingerprint chain depends on the context only through the index date bound, the signal type and the table names -/
theorem chain_depends_on (a b : Ctx) (q : LogQuery) (hs : a.sameStatic b)
    (hd : Time.formatFromDate a.fromNs = Time.formatFromDate b.fromNs) : chainOf a q = chainOf b q := by
  obtain ⟨_, _, htp, _, hg, _, hts, _⟩ := hs
  have hss : streamSelect a q.matchers = streamSelect b q.matchers := by
    simp [streamSelect, getTypes, hd, htp, hg]
  have hlf : ∀ k lc, labelFilterBody a k lc = labelFilterBody b k lc := by
    intro k lc; simp [labelFilterBody, hts]
  have : ∀ (conds : List LabelCond) (cur : Sel) (k : Nat), fpChain a cur k conds = fpChain b cur k conds := by
    intro conds
    induction conds with
    | nil => intro cur k; rfl
    | cons lc conds ih => intro cur k; simp [fpChain, hlf, ih]
  simp [chainOf, hss, this]

/-- **reexecution_same_meaning.** Every re-executed statement returns exactly the entries of the direct
    reading for the window of its own context (by C07.plan_correct): the same meaning as the first execution
    apart from the advancing time bounds. -/
theorem reexecution_same_meaning (o : Oracles) (d : LokiDb) (q : LogQuery) (st : PlanState) (c : Ctx)
    (hn : c.namesOk) (hlim : 0 ≤ c.limit) (hm : q.matchers.length ≤ 63) :
    evalSel o (d.toDb c) (process st c q).2 = evalLog o c d q :=
  planLog_correct o c hn d q hlim hm

/-- what the code did before the fix (the memo was never cleared): executions after the first kept the
    fingerprint chain of the FIRST context; with contexts on different index days that is a different
    statement than the translation for the current context -/
theorem stale_chain_differs :
    ∃ (q : LogQuery) (c0 c : Ctx), c0.sameStatic c ∧ chainOf c0 q ≠ chainOf c q := by
  refine ⟨⟨[⟨[97], .eq, [98]⟩], []⟩, ⟨0, 1, 0, false, 1, false, "g", "s", "t", "t"⟩,
    ⟨86400000000000 * 2, 86400000000000 * 2 + 1, 0, false, 1, false, "g", "s", "t", "t"⟩,
    ⟨rfl, rfl, rfl, rfl, rfl, rfl, rfl, rfl⟩, ?_⟩
  intro h
  -- the index date bound of the two chains: 1969-12-31 vs 1970-01-02
  have hd : Time.formatFromDate 0 ≠ Time.formatFromDate (86400000000000 * 2) := by decide
  let chainDate : List (Alias × Sel) → Option Bytes := fun ch =>
    match ch with
    | [(_, .mk _ _ _ _ _ _ (some (.logical _ (.logical _ [_, .str d] :: _))) _ _ _ _)] => some d
    | _ => none
  have h' := congrArg chainDate h
  exact hd (Option.some.inj h')

-- non-vacuity: two executions one second apart
example : (runs {} ⟨[⟨[97], .eq, [98]⟩], []⟩
    [⟨1700000000000000000, 1700000300000000000, 0, false, 1, false, "g", "s", "t", "t"⟩,
     ⟨1700000001000000000, 1700000301000000000, 0, false, 1, false, "g", "s", "t", "t"⟩]).length = 2 := rfl

end Qryn.C14

namespace Qryn.C14
/-- **planner_globals_immutable.** The only package-level variables of the query-translation packages
    (regenerated inventory) are lexer/parser definitions and lookup tables initialised once and never assigned:
    a translation cannot depend on earlier translations through package state. A new package-level variable
    changes the inventory and fails this obligation. -/
theorem planner_globals_immutable :
    Qryn.Gen.plannerGlobals =
      ["reader/logql/logql_parser.LogQLLexerDefinition", "reader/logql/logql_parser.LogQLLexerRulesV2",
       "reader/logql/logql_transpiler_v2/clickhouse_planner.regexParserDesc",
       "reader/logql/logql_transpiler_v2/shared.symbols",
       "reader/prof/parser.LogQLLexerRulesV2", "reader/prof/parser.Parser", "reader/prof/parser.ProfLexerDefinition",
       "reader/prof/parser.parseReg",
       "reader/traceql/parser.TraceQLLexerDefinition", "reader/traceql/parser.TraceQLLexerRulesV2"] := by decide
end Qryn.C14

namespace Qryn.C14
/-- **planner_self_writes_pinned.** Executing a prepared plan (`Process`, once per second while tailing) may write to
    the planner objects themselves only at the sites of this regenerated inventory (`Gen.PlannerSelfWrites`: every
    assignment, `++`, `delete`, address-taking or `range`-assignment whose target is a field of the receiver, inside
    `Process` or a method of the same receiver reachable from it, for all 99 planner types of the LogQL, TraceQL,
    PromQL and Pyroscope translation packages). Each listed site was reviewed and is of one of two harmless kinds:
    (a) the memo pointers `LabelsCache`/`WithCache`, which point into `planner.fpCache`/`labelsCache` and are reset at
    the start of every execution by `cacheResetPlanner` — this is the state machine `LogQL.Process` models
    (`process_stable`); (b) values recomputed from immutable configuration before every use
    (`LineFormatPlanner.formatStr/args` reset in `ProcessTpl`, `LabelFormatPlanner.formatters`, `MainFinalizerPlanner.Alias`
    default, in-process `labels`/`re`/`logfmtFields`/`parameterTypedValues`, TraceQL `fCmpVal`, `alias`, `isAliased`,
    `sqlConds`, `where` — all assigned before they are read in the same call). A planner that starts to keep anything
    else across executions (as `LabelFilterPlanner.MainReq`, the line-filter and `AttrConditionPlanner` accumulators
    did before their fixes) changes the inventory and fails this obligation; the re-execution streams then search for
    a query on which the second execution differs. -/
theorem planner_self_writes_pinned :
    Qryn.Gen.plannerSelfWrites =
      ["reader/logql/logql_transpiler_v2/clickhouse_planner.ByWithoutPlanner.processTSTable:LabelsCache",
       "reader/logql/logql_transpiler_v2/clickhouse_planner.LabelFormatPlanner.makeFormatters:formatters",
       "reader/logql/logql_transpiler_v2/clickhouse_planner.LabelsJoinPlanner.Process:LabelsCache",
       "reader/logql/logql_transpiler_v2/clickhouse_planner.LineFormatPlanner.ProcessTpl:args",
       "reader/logql/logql_transpiler_v2/clickhouse_planner.LineFormatPlanner.ProcessTpl:formatStr",
       "reader/logql/logql_transpiler_v2/clickhouse_planner.LineFormatPlanner.fieldNode:args",
       "reader/logql/logql_transpiler_v2/clickhouse_planner.LineFormatPlanner.fieldNode:formatStr",
       "reader/logql/logql_transpiler_v2/clickhouse_planner.LineFormatPlanner.textNode:formatStr",
       "reader/logql/logql_transpiler_v2/clickhouse_planner.MainFinalizerPlanner.Process:Alias",
       "reader/logql/logql_transpiler_v2/clickhouse_planner.PlannerDropSimple.Process:LabelsCache",
       "reader/logql/logql_transpiler_v2/clickhouse_planner.WithConnectorPlanner.Process:WithCache",
       "reader/logql/logql_transpiler_v2/internal_planner.ByWithoutPlanner.Process:labels",
       "reader/logql/logql_transpiler_v2/internal_planner.LineFilterPlanner.Process:re",
       "reader/logql/logql_transpiler_v2/internal_planner.ParserPlanner.Process:logfmtFields",
       "reader/logql/logql_transpiler_v2/internal_planner.ParserPlanner.Process:parameterTypedValues",
       "reader/traceql/transpiler/clickhouse_transpiler.AggregatorPlanner.cmpVal:fCmpVal",
       "reader/traceql/transpiler/clickhouse_transpiler.AttrConditionPlanner.Process:alias",
       "reader/traceql/transpiler/clickhouse_transpiler.AttrConditionPlanner.Process:isAliased",
       "reader/traceql/transpiler/clickhouse_transpiler.AttrConditionPlanner.getCond:isAliased",
       "reader/traceql/transpiler/clickhouse_transpiler.AttrConditionPlanner.maybeCreateWhere:sqlConds",
       "reader/traceql/transpiler/clickhouse_transpiler.AttrConditionPlanner.maybeCreateWhere:where"] ∧
    40 ≤ Qryn.Gen.plannerProcessTypes := by decide
end Qryn.C14

/-! ## TraceQL: the planner objects' own fields as state (`TraceQL/Process.lean`) -/
namespace Qryn.C14
open Qryn.TraceQL

/-- **attr_condition_state_independent.** One `AttrConditionPlanner.Process`, for EVERY context — also the contexts
    of the portions of a complex search (`RandomFilter`, `CachedTraceIds`: the three return paths) — and for every
    value of the fields `sqlConds`, `where`, `alias` an earlier `Process` (or anything else) left in the object:
    the result is the pure translation `attrCondition` of C11. The one field that is read before it is assigned,
    `isAliased`, must be `false` at entry — `attr_condition_resets_flag` shows every path re-establishes that. -/
theorem attr_condition_state_independent (st : AttrState) (h : st.isAliased = false) (c : TraceQL.Ctx)
    (terms : List Term) (cond : Cond) (aggAttr : String) :
    (processAttr st c terms cond aggAttr).2 = attrCondition c terms cond aggAttr :=
  processAttr_out st h c terms cond aggAttr

/-- every way out of `AttrConditionPlanner.Process` (error in a term; no portion; portion filter; portion filter and
    cached trace ids) leaves `isAliased = false` -/
theorem attr_condition_resets_flag (st : AttrState) (h : st.isAliased = false) (c : TraceQL.Ctx)
    (terms : List Term) (cond : Cond) (aggAttr : String) :
    (processAttr st c terms cond aggAttr).1.isAliased = false :=
  processAttr_clean st h c terms cond aggAttr

/-- on the paths that return a statement the flag is reset whatever it was -/
theorem attr_tail_resets (st : AttrState) (c : TraceQL.Ctx) (res : Sql.Sel) :
    (attrTail st c res).1.isAliased = false := by rw [attrTail_state]

/-- the three tails are really taken: a context for each -/
example : portionOf ⟨0, 1, 0, 0, false, "a", "b", "c", "d", 0, 0, []⟩ = .none := by decide
example : portionOf ⟨0, 1, 0, 0, false, "a", "b", "c", "d", 3, 1, []⟩ = .filter := by decide
example : portionOf ⟨0, 1, 0, 0, false, "a", "b", "c", "d", 3, 2, ["00"]⟩ = .filterAndCached := by decide

/-- `AggregatorPlanner.Process` never reads the `fCmpVal` an earlier `Process` left -/
theorem aggregator_state_independent (st : AggState) (pfx : String) (a : Agg) (main : Sql.Sel) :
    (processAgg st pfx a main).2 = aggregator pfx a main := processAgg_out st pfx a main

/-- **process_stable_traceql.** A prepared TraceQL plan (any tree of `&&`/`||` selectors with aggregators) in a clean
    state, processed any number of times with any contexts (complex searches: once per portion, each with its own
    random filter and the trace ids found so far): every result — statement or error — is the pure reading of the
    plan for ITS context; the objects' fields carry nothing over. -/
theorem process_stable_traceql (p : PTree) (hp : p.clean) (cs : List TraceQL.Ctx) :
    runsT p cs = cs.map (fun c => finishPlan c (pureTree c p.shape)) := runsT_eq p hp cs

/-- … and for the plan object `Plan(script)` returns this is `TraceQL.plan` of C11 (`plan_correct` etc. are about it) -/
theorem process_stable_traceql_plan (script : Script) (p : PTree) (h : prepare script = .ok p) (cs : List TraceQL.Ctx) :
    runsT p cs = cs.map (fun c => plan c script) := by
  rw [runsT_eq p (prepare_spec script p h ⟨0, 0, 0, 0, false, "", "", "", "", 0, 0, []⟩).1 cs]
  apply List.map_congr_left
  intro c _
  obtain ⟨_, hs, hpl⟩ := prepare_spec script p h c
  rw [hs, hpl]

/-- `Process` modifies nothing of the plan but the inventoried fields, and keeps the invariant -/
theorem traceql_process_invariant (p : PTree) (hp : p.clean) (c : TraceQL.Ctx) :
    (processPlan p c).1.clean ∧ (processPlan p c).1.shape = p.shape :=
  ⟨processTree_clean c p hp, processTree_shape c p⟩

/-- what a flag left set does (the state a lost reset produces): the first condition refers to the alias `bsCond`
    instead of defining it — the statement has no definition of `bsCond` at all -/
theorem stale_flag_drops_definition (ts : List Sql.Expr) (a : String) (i : Nat) :
    (condSqlA ts a true (.leaf i)).1 = Sql.neq (.callT "bitAnd" [.raw a, .int (shl1 i)]) (.int 0) ∧
    (condSqlA ts a false (.leaf i)).1 = Sql.neq (.callT "bitAnd" [.bitSet ts a, .int (shl1 i)]) (.int 0) ∧
    (condSqlA ts a true (.leaf i)).1 ≠ (condSqlA ts a false (.leaf i)).1 := by
  refine ⟨rfl, rfl, ?_⟩
  intro h
  simp [condSqlA, Sql.neq] at h

/-- what the code did before the `fix:` of `maybeCreateWhere`: a `Process` that failed on the second term left the
    first one in the planner; the next `Process` of the same plan found the memo non-empty and returned a statement
    (built from one term, testing bit 1 of a one-bit set) where the first execution — and a fresh translation —
    return the error -/
theorem stale_terms_after_error :
    ∃ (terms : List Term) (cond : Cond) (c : TraceQL.Ctx),
      (runsAttrOld {} terms cond "" [c, c]).map Except.isOk = [false, true] ∧
      (attrCondition c terms cond "").isOk = false ∧
      ((runsT (.simple [(⟨some (.leafOp ⟨".a", .eq, .str [34, 98, 34] (some [98])⟩ .and (.leaf ⟨"foo", .eq, .str [34, 120, 34] (some [120])⟩)), none⟩, .none)] "" {} {}) [c, c]).map
        Except.isOk = [false, false]) := by
  refine ⟨[⟨".a", .eq, .str [34, 98, 34] (some [98])⟩, ⟨"foo", .eq, .str [34, 120, 34] (some [120])⟩],
    .node .and (.leaf 0) (.leaf 1), ⟨0, 1, 0, 0, false, "a", "b", "c", "d", 0, 0, []⟩, ?_, ?_, ?_⟩ <;> decide +kernel

end Qryn.C14

/-! ## metric LogQL: the memo fields `fpCache`, `labelsCache` and the `ctx.Id()` counter as state (`LogQL/ProcessMetric.lean`) -/
namespace Qryn.C14
open Qryn Qryn.Sql Qryn.LogQL

/-- the first execution of a fresh metric plan is the translation `planMetric` of C08 -/
theorem first_execution_metric (c : MCtx) (q : MetricQuery) : (processMetric {} c q).2 = planMetric c q :=
  metricChainP_fresh c q

/-- **process_stable_metric.** A prepared metric plan — range functions over a selector of the C07 fragment, `unwrap`,
    `by`/`without` with and without the time-series join, `topk`, comparisons, the metrics_15s shortcut —, whatever
    `fpCache` and `labelsCache` hold (what earlier executions memoized, or anything else), processed any number of
    times with any contexts: every statement is exactly `planMetric` for ITS context. The proof follows the memo
    fields and the `ctx.Id()` counter through every planner of the chain in the order the Go code calls them
    (`Proofs/ProcessMetric.lean`: `withConnector_ok`, `labelsJoinP_spec`, `byWithoutTSP_ok`, `fold_spec`). -/
theorem process_stable_metric (st : MPlanState) (q : MetricQuery) (cs : List MCtx) :
    runsMetric st q cs = cs.map (fun c => planMetric c q) := by
  induction cs generalizing st with
  | nil => rfl
  | cons c cs ih =>
    simp only [runsMetric, List.map_cons, List.cons.injEq]
    exact ⟨metricChainP_fresh c q, ih _⟩

/-- inside one execution the planners DO communicate through the memo: after `Process` the fingerprint sub-query is
    memoized (so `process_stable_metric` is not true because nothing is ever stored) -/
theorem metric_memo_is_used (c : MCtx) (q : MetricQuery) :
    ∃ lc, (metricChainP c q ⟨none, none, 0⟩).1.fpCache = some (fpWith c.toCtx q.rangeAgg.sel) ∧
      (metricChainP c q ⟨none, none, 0⟩).1.labelsCache = lc := ⟨_, by
  obtain ⟨lc, hs⟩ := steps_spec c q
  have hi := mapP_spec c q (stepFixSel c q.rangeAgg.durNs) hs
  unfold metricChainP
  cases hm : matrixLabels q with
  | true =>
    have := mapP_spec c q finalizeMatrix hi ⟨none, none, 0⟩ (Or.inl ⟨rfl, rfl⟩) rfl
    simp only [if_true]
    rw [this]
  | false =>
    have := mapP_spec c q finalizeMatrix (labelsJoinP_spec c q false hi) ⟨none, none, 0⟩ (Or.inl ⟨rfl, rfl⟩) rfl
    simp only [Bool.false_eq_true, if_false]
    rw [this], rfl⟩

/-- what the code did before `cacheResetPlanner` existed: from the second execution on `ByWithoutPlanner.processTSTable`
    found its own `labels_1` of the previous execution in the memo and defined the new `labels_1` as a filter over
    `labels_1` — a sub-query selecting from itself; the fresh translation never does -/
theorem stale_labels_self_reference :
    ∃ (q : MetricQuery) (c : MCtx),
      (runsMetricNoReset {} q [c, c]).map selfRefWith = [false, true] ∧
      (runsMetric {} q [c, c]).map selfRefWith = [false, false] ∧ selfRefWith (planMetric c q) = false := by
  refine ⟨.agg ⟨.sum, some ⟨true, ["a"]⟩, ⟨.lra .countOverTime, ⟨[⟨[97], .eq, [98]⟩], []⟩, 7000000000, none, none, none⟩, none, none⟩,
    ⟨⟨1700000000000000000, 1700000300000000000, 0, false, 1, false, "g", "s", "t", "t"⟩, 5000000000, "m"⟩, ?_, ?_, ?_⟩ <;>
    decide +kernel

end Qryn.C14
