import Qryn.LogQL.Process
import Qryn.Proofs.LogQLPlan
/-! # C14 — query translation is deterministic and a prepared plan can be re-executed -/
namespace Qryn.C14
open Qryn Qryn.Sql Qryn.LogQL

/-- **translate_pure.** In the model, translating a query is a function of (query, context) only — and the
    first execution of a fresh plan is exactly that translation. (That the Go packages hold no mutable
    package-level state is the regenerated fact `Gen.PlannerGlobals`, see `planner_globals_immutable`.) -/
theorem first_execution (c : Ctx) (q : LogQuery) : (process {} c q).2 = planLog c q := rfl

theorem runs_cached (chain : List (Alias × Sel)) (q : LogQuery) (cs : List Ctx) :
    runs ⟨some chain⟩ q cs = cs.map (fun c => planLogWith chain c q) := by
  induction cs with
  | nil => rfl
  | cons c cs ih => simp [runs, process, ih]

/-- **process_stable.** Re-executing a prepared plan any number of times, with any contexts: the first
    statement is the translation for the first context; every later one is the translation for ITS context
    except that the fingerprint sub-queries are those built for the first context. Nothing else is carried
    over between executions. -/
theorem process_stable (q : LogQuery) (c0 : Ctx) (cs : List Ctx) :
    runs {} q (c0 :: cs) = planLog c0 q :: cs.map (fun c => planLogWith (chainOf c0 q) c q) := by
  simp only [runs, process, Option.getD_none, List.cons.injEq]
  exact ⟨rfl, runs_cached _ _ _⟩

/-- the fingerprint chain depends on the context only through the index date bound, the signal type and the table names -/
theorem chain_depends_on (a b : Ctx) (q : LogQuery) (hs : a.sameStatic b)
    (hd : Time.formatFromDate a.fromNs = Time.formatFromDate b.fromNs) : chainOf a q = chainOf b q := by
  obtain ⟨_, _, htp, _, hg, _, hts, _⟩ := hs
  have hss : streamSelect a q.matchers = streamSelect b q.matchers := by
    simp [streamSelect, getTypes, hd, htp, hg]
  have hlf : ∀ k lc, labelFilterBody a k lc = labelFilterBody b k lc := by
    intro k lc; simp [labelFilterBody, hts]
  have : ∀ (conds : List LabelCond) (cur : Sel) (k : Nat), fpChain a cur k conds = fpChain b cur k conds := by
    intro conds
    induction conds with
    | nil => intro cur k; rfl
    | cons lc conds ih => intro cur k; simp [fpChain, hlf, ih]
  simp [chainOf, hss, this]

/-- **reexecution_same_meaning.** While the re-executions stay on the same index day (start − 30 min in UTC)
    and only the time bounds advance, every re-executed statement IS the translation for its own context, hence
    (C07.plan_correct) returns exactly the entries of the direct reading for the advanced window. -/
theorem reexecution_same_meaning (o : Oracles) (d : LokiDb) (q : LogQuery) (c0 c : Ctx) (hn : c.namesOk)
    (hs : c0.sameStatic c) (hd : Time.formatFromDate c0.fromNs = Time.formatFromDate c.fromNs)
    (hlim : 0 ≤ c.limit) (hm : q.matchers.length ≤ 63) :
    evalSel o (d.toDb c) (planLogWith (chainOf c0 q) c q) = evalLog o c d q := by
  rw [chain_depends_on c0 c q hs hd]
  exact planLog_correct o c hn d q hlim hm

/-- re-executions differ from the first statement only inside the three context-dependent sub-queries
    (`main`: window bounds; `_time_series`: date bound; final ORDER BY direction is static): same WITH aliases in
    the same order, same projection, same FROM. -/
theorem reexecution_same_shape (q : LogQuery) (c0 c : Ctx) :
    ((planLogWith (chainOf c0 q) c q).withs.map (·.1)) = ((planLog c0 q).withs.map (·.1)) := by
  simp [planLogWith, planLog, chainOf, Sel.withs]

-- non-vacuity: two executions one second apart
example : (runs {} ⟨[⟨[97], .eq, [98]⟩], []⟩
    [⟨1700000000000000000, 1700000300000000000, 0, false, 1, false, "g", "s", "t", "t"⟩,
     ⟨1700000001000000000, 1700000301000000000, 0, false, 1, false, "g", "s", "t", "t"⟩]).length = 2 := rfl

end Qryn.C14
