import Qryn.Proofs.ProfBFSComplete
import Qryn.Gen.ProfTreeShape
/-! # C16 — profile call trees conserve weight from ingest to flame graph

Property theorems only. Model: `Qryn.Prof` (lean/Qryn/Prof/Tree.lean) —
`storedRows` = the tree rows `postProcessProf` returns (writer/utils/unmarshal/golangPprof.go; stored in the
`tree` column), `typeRows j` = the ClickHouse projection to one sample type, `mergeTrie` / `bfs` / `rootTotal`
= `Tree.MergeTrie` / `Tree.BFS` / `Tree.Total` (reader/service/profTree.go). `Gen.ProfTree` carries the bit
layout of `getNodeId`, the "n/a" function id and whether stackless samples are kept, from the source.

Node ids: the theorems hold for *any* id function `nid` under the two hypotheses
* `NoCollision nid … Ps` — `nid` is injective on the (parent id, function id, depth) triples that occur while
  the trees of the profiles `Ps` are built (for `getNodeId`: no collision of its 55 hash bits on these profiles);
* `NeverRoot nid` — an id is never the root's 0; proved for `getNodeId` (`getNodeId_never_root`).
Values are `Int` (Go: `int64`; all statements are equations between sums, so they hold modulo 2^64 as well). -/
namespace Qryn.C16
open Qryn.Prof

variable (nid : Nat → Nat → Nat → Nat) (k : Bool) (na : Nat)

/-- the translator found the loops of `postProcessProf`, `getNodeId`, `MergeTrie` and `BFS` in the statement
    shape the model mirrors (this module does not build otherwise) -/
theorem model_shape_recognised : Gen.ProfTreeShape.recognised = true := rfl

/-- `getNodeId` never returns the root's id 0: the depth bits `min(depth,511) << 55` are non-zero
    (constants regenerated from golangPprof.go). Discharges `NeverRoot` for the real id function. -/
theorem getNodeId_never_root : NeverRoot getNodeId := getNodeId_neverRoot

/-- every stored row has its own node id (the rows are the values of the `tree` map) -/
theorem stored_node_ids_unique (P : Profile) : ((storedRows nid k na P).map (·.node)).Nodup :=
  storedRows_nodup nid k na P

/-- the stored rows are in descending node-id order (with `stored_node_ids_unique`: strictly), the order
    `sort.Slice(indices, … indices[i] > indices[j])` produces whatever the sorting algorithm -/
theorem stored_rows_descending (P : Profile) : (storedRows nid k na P).Pairwise (fun x y => y.node ≤ x.node) :=
  sortRows_sorted _

/-- the loop bound of the model's `BFS` is never what stops it: any larger bound yields the same levels -/
theorem bfs_fuel_suffices (T : List Row) (extra : Nat) :
    bfsLoop T (T.length + 2 + extra) [rootBar T] [] = bfsLoop T (T.length + 2) [rootBar T] [] :=
  bfsLoop_fuel T extra

/-- **node_conservation.** In the rows stored for any profile, for every node and every sample type:
    total = self + the totals of the node's children (the rows whose parent id is the node's id). -/
theorem node_conservation (hnr : NeverRoot nid) (P : Profile) (hc : NoCollision nid k na [P])
    (r : Node) (hr : r ∈ storedRows nid k na P) (j : Nat) (hj : j < P.ntypes) :
    ntotal j r = nself j r
      + (((storedRows nid k na P).filter (fun c => decide (c.parent = r.node))).map (ntotal j)).sum := by
  obtain ⟨v, hv, hvn, _⟩ := storedRows_attr P r hr
  have hne : r.node ≠ 0 := by
    rw [← hvn]; exact hnr.allVisits [P] v (mem_allVisits_of_mem nid k na (by simp) hv)
  have hb := storedRows_balance hnr P (hc.parentConsistent_of_mem (by simp)) hj r.node hne
  rw [fsum_key_of_mem (storedRows_nodup nid k na P) hr, fsum_key_of_mem (storedRows_nodup nid k na P) hr] at hb
  exact hb

/-- root totals = the values of the samples that are walked at all (for either setting of `keepEmpty`) -/
theorem root_total_walked (hnr : NeverRoot nid) (P : Profile) (hc : NoCollision nid k na [P])
    (j : Nat) (hj : j < P.ntypes) :
    (((storedRows nid k na P).filter (fun c => decide (c.parent = 0))).map (ntotal j)).sum
      = (P.samples.map (fun s => if frames k na s ≠ [] then s.vals.getD j 0 else 0)).sum := by
  show fsum (storedRows nid k na P) (fun c => decide (c.parent = 0)) (ntotal j) = _
  rw [fsum_storedRows, treeMap_children hj _ (hc.parentConsistent_of_mem (by simp))]
  exact visits_root nid k na P.samples j (fun v hv => hnr.allVisits [P] v (mem_allVisits_of_mem nid k na (by simp) hv))

/-- **root_total.** With the tree builder as it is in the source now (`Gen.ProfTreeShape.emptyStackFrame`: a sample
    without a stack is kept as one "n/a" frame), the totals of the root rows add up to the sum of **all** the
    profile's sample values of that type — the sum `calculateSumAndCount` stores in `values_agg`. -/
theorem root_total (hnr : NeverRoot nid) (P : Profile)
    (hc : NoCollision nid Gen.ProfTreeShape.emptyStackFrame na [P]) (j : Nat) (hj : j < P.ntypes) :
    (((storedRows nid Gen.ProfTreeShape.emptyStackFrame na P).filter (fun c => decide (c.parent = 0))).map (ntotal j)).sum
      = valueSum P j := by
  rw [root_total_walked nid _ na hnr P hc j hj]
  unfold valueSum
  apply sum_map_congr
  intro s _
  have : Gen.ProfTreeShape.emptyStackFrame = true := rfl
  rw [this, if_pos (frames_keep_ne_nil s)]

/-- the statement of `root_total` for the tree builder that drops stackless samples (the pinned tree, A31) -/
def root_total_dropping_full : Prop :=
  ∀ (P : Profile) (j : Nat), j < P.ntypes → NoCollision getNodeId false Gen.ProfTree.naFnId [P] →
    (((storedRows getNodeId false Gen.ProfTree.naFnId P).filter (fun c => decide (c.parent = 0))).map (ntotal j)).sum
      = valueSum P j

/-- what held before the fix: root totals = values of the samples with a non-empty stack -/
theorem root_total_dropping_partial (hnr : NeverRoot nid) (P : Profile) (hc : NoCollision nid false na [P])
    (j : Nat) (hj : j < P.ntypes) :
    (((storedRows nid false na P).filter (fun c => decide (c.parent = 0))).map (ntotal j)).sum
      = (P.samples.map (fun s => if s.locs ≠ [] then s.vals.getD j 0 else 0)).sum := by
  rw [root_total_walked nid false na hnr P hc j hj]
  apply sum_map_congr
  intro s _
  cases h : s.locs <;> simp [frames, h]

/-- … and why the fix was needed: one sample of value 5 without a stack -/
theorem root_total_dropping_counterexample : ¬ root_total_dropping_full := by
  intro h
  have := h ⟨1, [⟨[], [5]⟩]⟩ 0 (by decide) (by intro v hv; simp [allVisits, visits, sampleVisits, frames, walk] at hv)
  revert this
  decide +kernel

/-! ## merging -/

/-- **merge_sums.** Merging the stored trees of any list of profiles (for one sample type): every merged node's
    total and self are the sums, over the profiles, of what each profile's rows give that node (a profile without
    the node contributes the empty sum 0) — and every node of every input is in the merged tree. -/
theorem merge_sums (Ps : List Profile) (j : Nat) :
    (∀ e ∈ mergeTrie [] (inputRows (nid := nid) (k := k) (na := na) j Ps),
      e.total = (Ps.map (fun P => (((typeRows j (storedRows nid k na P)).filter
                    (fun r => decide (rkey r = rkey e))).map (·.total)).sum)).sum
      ∧ e.self = (Ps.map (fun P => (((typeRows j (storedRows nid k na P)).filter
                    (fun r => decide (rkey r = rkey e))).map (·.self)).sum)).sum)
    ∧ (∀ P ∈ Ps, ∀ r ∈ typeRows j (storedRows nid k na P),
        ∃ e ∈ mergeTrie [] (inputRows (nid := nid) (k := k) (na := na) j Ps), rkey e = rkey r)
    ∧ ((mergeTrie [] (inputRows (nid := nid) (k := k) (na := na) j Ps)).map rkey).Nodup := by
  refine ⟨?_, ?_, mergeTrie_nodup _⟩
  · intro e he
    have := mergeTrie_entry _ he
    rw [this.1, this.2]
    simp only [inputRows, fsum_flatMap]
    exact ⟨rfl, rfl⟩
  · intro P hP r hr
    have : rkey r ∈ (mergeTrie [] (inputRows (nid := nid) (k := k) (na := na) j Ps)).map rkey :=
      (mergeTrie_keys _ _).mpr (List.mem_map.mpr ⟨r, List.mem_flatMap.mpr ⟨P, hP, hr⟩, rfl⟩)
    obtain ⟨e, he, hk⟩ := List.mem_map.mp this
    exact ⟨e, he, hk⟩

/-- in one profile's rows at most one row has a given node id, so the inner sums of `merge_sums` are that row's
    value (or 0) -/
theorem stored_type_rows_unique (P : Profile) (j : Nat) : ((typeRows j (storedRows nid k na P)).map (·.node)).Nodup := by
  simpa [typeRows, List.map_map, Function.comp_def, typeRow] using storedRows_nodup nid k na P

/-- **merged_conservation.** The merged tree conserves weight at every node. -/
theorem merged_conservation (hnr : NeverRoot nid) (Ps : List Profile) (j : Nat) (hj : ∀ P ∈ Ps, j < P.ntypes)
    (hc : NoCollision nid k na Ps) :
    ∀ e ∈ mergeTrie [] (inputRows (nid := nid) (k := k) (na := na) j Ps),
      e.total = e.self + sumTotals (children (mergeTrie [] (inputRows (nid := nid) (k := k) (na := na) j Ps)) e.node) :=
  merged_conserving hj hc hnr

/-- **merged_root_total.** The merged root total (`Tree.Total`, the total of level 0 of the flame graph) is the sum
    of all sample values of all the profiles. -/
theorem merged_root_total (hnr : NeverRoot nid) (Ps : List Profile) (j : Nat) (hj : ∀ P ∈ Ps, j < P.ntypes)
    (hc : NoCollision nid Gen.ProfTreeShape.emptyStackFrame na Ps) :
    rootTotal (mergeTrie [] (inputRows (nid := nid) (k := Gen.ProfTreeShape.emptyStackFrame) (na := na) j Ps))
      = (Ps.map (fun P => valueSum P j)).sum := by
  have h1 := mergeTrie_total (inputRows (nid := nid) (k := Gen.ProfTreeShape.emptyStackFrame) (na := na) j Ps)
    (fun kk => decide (kk.1 = 0))
  have h2 : rootTotal (mergeTrie [] (inputRows (nid := nid) (k := Gen.ProfTreeShape.emptyStackFrame) (na := na) j Ps))
      = fsum (mergeTrie [] (inputRows (nid := nid) (k := Gen.ProfTreeShape.emptyStackFrame) (na := na) j Ps))
          (fun a => decide ((rkey a).1 = 0)) (·.total) := rfl
  rw [h2, h1]
  have h3 := inputRows_total_parent Ps hj hc 0
  rw [h3, fsum_allVisits]
  apply sum_map_congr
  intro P hP
  have hv := visits_root nid Gen.ProfTreeShape.emptyStackFrame na P.samples j
    (fun v hv => hnr.allVisits Ps v (mem_allVisits_of_mem nid _ na hP hv))
  rw [visits_eq_visitsOf, hv]
  unfold valueSum
  apply sum_map_congr
  intro s _
  have : Gen.ProfTreeShape.emptyStackFrame = true := rfl
  rw [this, if_pos (frames_keep_ne_nil s)]

/-- **merge_order_free.** Any permutation of the rows read — hence any order of the profiles and any order of
    the rows inside each — yields the same merged nodes: the two trees are permutations of each other (only the
    order inside the children lists differs) and are equal once the entries are sorted by (parent, node id), the
    order `mergeNodes` establishes. -/
theorem merge_order_free (Ps : List Profile) (j : Nat) (hc : NoCollision nid k na Ps)
    (R' : List Row) (hperm : (inputRows (nid := nid) (k := k) (na := na) j Ps).Perm R') :
    (mergeTrie [] (inputRows (nid := nid) (k := k) (na := na) j Ps)).Perm (mergeTrie [] R')
      ∧ canonTree (mergeTrie [] (inputRows (nid := nid) (k := k) (na := na) j Ps)) = canonTree (mergeTrie [] R') := by
  have hp := mergeTrie_perm hperm (inputRows_fnConsistent hc)
  exact ⟨hp, canonTree_eq_of_perm hp (mergeTrie_nodup _)⟩

/-- **sql_pregroup_transparent.** What `getTree` really feeds to `MergeTrie` is the result of the ClickHouse
    request of `MergeJoinedPlanner` (rows of all selected profiles grouped by (parent, function, node), self and
    total summed), in ClickHouse's group order. For every order of the groups the merged tree has the same nodes
    as merging the stored rows directly — so all merge theorems above apply to the production path. -/
theorem sql_pregroup_transparent (Ps : List Profile) (j : Nat) (hc : NoCollision nid k na Ps)
    (G : List Row) (hG : G.Perm (sqlGroup (inputRows (nid := nid) (k := k) (na := na) j Ps))) :
    (mergeTrie [] G).Perm (mergeTrie [] (inputRows (nid := nid) (k := k) (na := na) j Ps))
      ∧ canonTree (mergeTrie [] G) = canonTree (mergeTrie [] (inputRows (nid := nid) (k := k) (na := na) j Ps)) := by
  have hp := mergeTrie_sqlGroup (inputRows_fnConsistent hc) hG
  exact ⟨hp, canonTree_eq_of_perm hp (mergeTrie_nodup _)⟩

/-- reordering the profiles permutes the rows read -/
theorem profile_order_permutes_rows (Ps Ps' : List Profile) (j : Nat) (h : Ps.Perm Ps') :
    (inputRows (nid := nid) (k := k) (na := na) j Ps).Perm (inputRows (nid := nid) (k := k) (na := na) j Ps') :=
  List.Perm.flatMap_right _ h

/-- merging profile after profile (one `MergeTrie` call each) is merging all the rows at once -/
theorem merge_incremental (T R₁ R₂ : List Row) : mergeTrie (mergeTrie T R₁) R₂ = mergeTrie T (R₁ ++ R₂) :=
  (mergeTrie_append T R₁ R₂).symm

/-- `MergeTrie`'s node cap (`Gen.ProfTree.maxNodes` = 2 000 000) is not reached by fewer rows than that -/
theorem merge_cap_not_reached (R : List Row) (h : R.length ≤ Gen.ProfTree.maxNodes) :
    mergeTrieCap Gen.ProfTree.maxNodes [] 0 R = mergeTrie [] R :=
  mergeTrieCap_eq _ R [] 0 (by simpa using h)

/-! ## flame-graph levels -/

/-- **levels_layout.** For any tree that conserves weight at every node (any sign of the weights): the bars of
    level k+1 of `BFS` are exactly the children of the bars of level k, in order, each parent's children laid out
    contiguously starting at the parent's offset (offsets decoded the flame-graph way by `spans`). -/
theorem levels_layout (T : List Row) (hT : ∀ e ∈ T, e.total = e.self + sumTotals (children T e.node))
    (i : Nat) (L L' : List (Row × Int)) (h1 : (bfs T)[i]? = some L) (h2 : (bfs T)[i + 1]? = some L') :
    spans 0 L' = (spans 0 L).flatMap (fun p => contig p.2.1 (children T p.1.node)) :=
  bfs_layout T (fun e he _ => hT e he) i L L' h1 h2

/-- **levels_nest.** If moreover the weights are non-negative: every bar of level k+1 lies inside the span
    `[offset, offset + total)` of a bar of level k that is its parent, and the bars of a level (in particular
    siblings) do not overlap. -/
theorem levels_nest (T : List Row) (hT : ∀ e ∈ T, e.total = e.self + sumTotals (children T e.node))
    (hnn : ∀ e ∈ T, 0 ≤ e.self ∧ 0 ≤ e.total)
    (i : Nat) (L L' : List (Row × Int)) (h1 : (bfs T)[i]? = some L) (h2 : (bfs T)[i + 1]? = some L') :
    (∀ c ∈ spans 0 L', ∃ p ∈ spans 0 L, c.1.parent = p.1.node ∧ p.2.1 ≤ c.2.1 ∧ c.2.2 ≤ p.2.2)
      ∧ (spans 0 L').Pairwise (fun s t => s.2.2 ≤ t.2.1) :=
  bfs_nest T (fun e he _ => hT e he) hnn i L L' h1 h2

/-- level 0 is one bar `[0, total)` carrying the merged root total -/
theorem level_zero (T : List Row) : (bfs T)[0]? = some [rootBar T] ∧ spans 0 [rootBar T] = [((rootBar T).1, 0, rootTotal T)] := by
  simp [bfs, spans, rootBar]

/-- **flamegraph_nests.** End to end: for any list of profiles with non-negative sample values, merged in any
    order, the levels of the flame graph nest (and level 0 spans the sum of all sample values, by
    `merged_root_total` and `level_zero`). -/
theorem flamegraph_nests (hnr : NeverRoot nid) (Ps : List Profile) (j : Nat) (hj : ∀ P ∈ Ps, j < P.ntypes)
    (hc : NoCollision nid k na Ps) (hv : ∀ P ∈ Ps, ∀ s ∈ P.samples, 0 ≤ s.vals.getD j 0)
    (R' : List Row) (hperm : (inputRows (nid := nid) (k := k) (na := na) j Ps).Perm R')
    (i : Nat) (L L' : List (Row × Int))
    (h1 : (bfs (mergeTrie [] R'))[i]? = some L) (h2 : (bfs (mergeTrie [] R'))[i + 1]? = some L') :
    (∀ c ∈ spans 0 L', ∃ p ∈ spans 0 L, c.1.parent = p.1.node ∧ p.2.1 ≤ c.2.1 ∧ c.2.2 ≤ p.2.2)
      ∧ (spans 0 L').Pairwise (fun s t => s.2.2 ≤ t.2.1) := by
  have hp := (merge_order_free nid k na Ps j hc R' hperm).1
  -- conservation and non-negativity are properties of the set of entries, carried along the permutation
  have hsum : ∀ n, sumTotals (children (mergeTrie [] R') n)
      = sumTotals (children (mergeTrie [] (inputRows (nid := nid) (k := k) (na := na) j Ps)) n) := by
    intro n
    exact (fsum_perm hp (fun a => decide (a.parent = n)) (·.total)).symm
  apply levels_nest (mergeTrie [] R') ?_ ?_ i L L' h1 h2
  · intro e he
    rw [hsum]
    exact merged_conserving hj hc hnr e (hp.symm.subset he)
  · intro e he
    exact merged_nonneg hj hc hv e (hp.symm.subset he)

/-- **levels_are_generations.** On a tree whose node ids are unique and whose nodes hang on parent chains down to
    the root (`TreeShaped`), `BFS` never takes its "node seen twice" exit: level i is exactly generation i of the
    root's descendants, for every i up to the first empty generation. -/
theorem levels_are_generations (T : List Row) (dep : Nat → Nat) (h : TreeShaped T dep) (i : Nat)
    (hne : ∀ j, j < i → levelRows T j ≠ []) :
    ((bfs T)[i]?).map (fun L => L.map (·.1)) = some (levelRows T i) :=
  bfs_levels h i hne

/-- **flamegraph_complete.** For collision-free profiles merged in any order, every merged node is laid out as a
    bar of the flame graph (in the level of its depth) — so the bars' totals are exactly the merged sums of
    `merge_sums`, none is dropped. -/
theorem flamegraph_complete (hnr : NeverRoot nid) (Ps : List Profile) (j : Nat) (hc : NoCollision nid k na Ps)
    (R' : List Row) (hperm : (inputRows (nid := nid) (k := k) (na := na) j Ps).Perm R')
    (e : Row) (he : e ∈ mergeTrie [] R') :
    ∃ L, (bfs (mergeTrie [] R'))[depOf (allVisits nid k na Ps) e.node]? = some L ∧ e ∈ L.map (·.1) := by
  have hp := (merge_order_free nid k na Ps j hc R' hperm).1
  exact bfs_complete ((merged_treeShaped (j := j) Ps hc hnr).perm hp) e he

/-! ## the hypotheses are satisfiable (and hold on a concrete case with the real `getNodeId`) -/

/-- two small profiles (shared prefix, recursion, a stackless sample): no collision among their triples -/
example : NoCollision getNodeId true Gen.ProfTree.naFnId
    [⟨2, [⟨[7, 5], [1, 10]⟩, ⟨[5], [2, 20]⟩, ⟨[5, 5, 5], [3, 30]⟩, ⟨[], [4, 40]⟩]⟩, ⟨2, [⟨[9, 7, 5], [1, 1]⟩]⟩] := by
  unfold NoCollision
  decide +kernel

example : (storedRows getNodeId true Gen.ProfTree.naFnId ⟨1, [⟨[7, 5], [1]⟩, ⟨[5], [2]⟩, ⟨[], [4]⟩]⟩).map
    (fun r => (r.fn, ntotal 0 r, nself 0 r)) = [(7, 1, 1), (5, 3, 2), (Gen.ProfTree.naFnId, 4, 4)] := by decide +kernel

end Qryn.C16
