import Qryn.Proofs.ProfDiffE2E
import Qryn.Proofs.ProfWrap64
import Qryn.Proofs.PprofWellFormed
import Qryn.Gen.ProfTreeShape
import Qryn.Gen.ProfExtShape
import Qryn.Prof.ExtPins
/-! # C16 — profile call trees conserve weight from ingest to flame graph

Property theorems only. Model: `Qryn.Prof` (lean/Qryn/Prof/Tree.lean) —
`storedRows` = the tree rows `postProcessProf` returns (writer/utils/unmarshal/golangPprof.go; stored in the
`tree` column), `typeRows j` = the ClickHouse projection to one sample type, `mergeTrie` / `bfs` / `rootTotal`
= `Tree.MergeTrie` / `Tree.BFS` / `Tree.Total` (reader/service/profTree.go). `Gen.ProfTree` carries the bit
layout of `getNodeId`, the "n/a" function id and whether stackless samples are kept, from the source.

Node ids: the theorems hold for *any* id function `nid` under the two hypotheses
* `NoCollision nid … Ps` — `nid` is injective on the (parent id, function id, depth) triples that occur while
  the trees of the profiles `Ps` are built (for `getNodeId`: no collision of its 55 hash bits on these profiles);
* `NeverRoot nid` — an id is never the root's 0; proved for `getNodeId` (`getNodeId_never_root`).
Values are `Int` (Go: `int64`; all statements are equations between sums, so they hold modulo 2^64 as well). -/
namespace Qryn.C16
open Qryn.Prof

variable (nid : Nat → Nat → Nat → Nat) (k : Bool) (na : Nat)

/-- the translator found the loops of `postProcessProf`, `getNodeId`, `MergeTrie` and `BFS` in the statement
    shape the model mirrors (this module does not build otherwise) -/
theorem model_shape_recognised : Gen.ProfTreeShape.recognised = true := rfl

/-- the functions the models of the DIFF view and of the pprof payload merge mirror (`synchronizeNames`, `mergeNodes`,
    `mergeChildren`, `computeFlameGraphDiff`, `ProfileMergeV2.Merge`/`Profile`, `RewriteTableV2.Get`, `sanitizeProfile`,
    the key functions …) have the bodies the models were reviewed against, and the entry points wire them as modelled -/
theorem ext_shape_pinned : Gen.ProfExtShape.bodyHashes = reviewedBodies ∧ Gen.ProfExtShape.entryPointsRecognised = true :=
  ⟨by decide, rfl⟩

/-- the four repairs of the pprof payload merge are in the source: the hashing helpers guard the empty stack / the
    location without lines (no index fault), and every string index of a merged sample label and of the merged header is
    taken through `strIdx` (`merge_refs_valid` is about the code with them) -/
theorem pprof_repairs_present :
    Gen.ProfExtShape.emptyStackGuard = true ∧ Gen.ProfExtShape.emptyLinesGuard = true
      ∧ Gen.ProfExtShape.numUnitReindexed = true ∧ Gen.ProfExtShape.headerReindexed = true := ⟨rfl, rfl, rfl, rfl⟩

/-- `getNodeId` never returns the root's id 0: the depth bits `min(depth,511) << 55` are non-zero
    (constants regenerated from golangPprof.go). Discharges `NeverRoot` for the real id function. -/
theorem getNodeId_never_root : NeverRoot getNodeId := getNodeId_neverRoot

/-- every stored row has its own node id (the rows are the values of the `tree` map) -/
theorem stored_node_ids_unique (P : Profile) : ((storedRows nid k na P).map (·.node)).Nodup :=
  storedRows_nodup nid k na P

/-- the stored rows are in descending node-id order (with `stored_node_ids_unique`: strictly), the order
    `sort.Slice(indices, … indices[i] > indices[j])` produces whatever the sorting algorithm -/
theorem stored_rows_descending (P : Profile) : (storedRows nid k na P).Pairwise (fun x y => y.node ≤ x.node) :=
  sortRows_sorted _

/-- the loop bound of the model's `BFS` is never what stops it: any larger bound yields the same levels -/
theorem bfs_fuel_suffices (T : List Row) (extra : Nat) :
    bfsLoop T (T.length + 2 + extra) [rootBar T] [] = bfsLoop T (T.length + 2) [rootBar T] [] :=
  bfsLoop_fuel T extra

/-- **node_conservation.** In the rows stored for any profile, for every node and every sample type:
    total = self + the totals of the node's children (the rows whose parent id is the node's id). -/
theorem node_conservation (hnr : NeverRoot nid) (P : Profile) (hc : NoCollision nid k na [P])
    (r : Node) (hr : r ∈ storedRows nid k na P) (j : Nat) (hj : j < P.ntypes) :
    ntotal j r = nself j r
      + (((storedRows nid k na P).filter (fun c => decide (c.parent = r.node))).map (ntotal j)).sum := by
  obtain ⟨v, hv, hvn, _⟩ := storedRows_attr P r hr
  have hne : r.node ≠ 0 := by
    rw [← hvn]; exact hnr.allVisits [P] v (mem_allVisits_of_mem nid k na (by simp) hv)
  have hb := storedRows_balance hnr P (hc.parentConsistent_of_mem (by simp)) hj r.node hne
  rw [fsum_key_of_mem (storedRows_nodup nid k na P) hr, fsum_key_of_mem (storedRows_nodup nid k na P) hr] at hb
  exact hb

/-- root totals = the values of the samples that are walked at all (for either setting of `keepEmpty`) -/
theorem root_total_walked (hnr : NeverRoot nid) (P : Profile) (hc : NoCollision nid k na [P])
    (j : Nat) (hj : j < P.ntypes) :
    (((storedRows nid k na P).filter (fun c => decide (c.parent = 0))).map (ntotal j)).sum
      = (P.samples.map (fun s => if frames k na s ≠ [] then s.vals.getD j 0 else 0)).sum := by
  show fsum (storedRows nid k na P) (fun c => decide (c.parent = 0)) (ntotal j) = _
  rw [fsum_storedRows, treeMap_children hj _ (hc.parentConsistent_of_mem (by simp))]
  exact visits_root nid k na P.samples j (fun v hv => hnr.allVisits [P] v (mem_allVisits_of_mem nid k na (by simp) hv))

/-- **root_total.** With the tree builder as it is in the source now (`Gen.ProfTreeShape.emptyStackFrame`: a sample
    without a stack is kept as one "n/a" frame), the totals of the root rows add up to the sum of **all** the
    profile's sample values of that type — the sum `calculateSumAndCount` stores in `values_agg`. -/
theorem root_total (hnr : NeverRoot nid) (P : Profile)
    (hc : NoCollision nid Gen.ProfTreeShape.emptyStackFrame na [P]) (j : Nat) (hj : j < P.ntypes) :
    (((storedRows nid Gen.ProfTreeShape.emptyStackFrame na P).filter (fun c => decide (c.parent = 0))).map (ntotal j)).sum
      = valueSum P j := by
  rw [root_total_walked nid _ na hnr P hc j hj]
  unfold valueSum
  apply sum_map_congr
  intro s _
  have : Gen.ProfTreeShape.emptyStackFrame = true := rfl
  rw [this, if_pos (frames_keep_ne_nil s)]

/-- the statement of `root_total` for the tree builder that drops stackless samples (the pinned tree, A31) -/
def root_total_dropping_full : Prop :=
  ∀ (P : Profile) (j : Nat), j < P.ntypes → NoCollision getNodeId false Gen.ProfTree.naFnId [P] →
    (((storedRows getNodeId false Gen.ProfTree.naFnId P).filter (fun c => decide (c.parent = 0))).map (ntotal j)).sum
      = valueSum P j

/-- what held before the fix: root totals = values of the samples with a non-empty stack -/
theorem root_total_dropping_partial (hnr : NeverRoot nid) (P : Profile) (hc : NoCollision nid false na [P])
    (j : Nat) (hj : j < P.ntypes) :
    (((storedRows nid false na P).filter (fun c => decide (c.parent = 0))).map (ntotal j)).sum
      = (P.samples.map (fun s => if s.locs ≠ [] then s.vals.getD j 0 else 0)).sum := by
  rw [root_total_walked nid false na hnr P hc j hj]
  apply sum_map_congr
  intro s _
  cases h : s.locs <;> simp [frames, h]

/-- … and why the fix was needed: one sample of value 5 without a stack -/
theorem root_total_dropping_counterexample : ¬ root_total_dropping_full := by
  intro h
  have := h ⟨1, [⟨[], [5]⟩]⟩ 0 (by decide) (by intro v hv; simp [allVisits, visits, sampleVisits, frames, walk] at hv)
  revert this
  decide +kernel

/-! ## merging -/

/-- **merge_sums.** Merging the stored trees of any list of profiles (for one sample type): every merged node's
    total and self are the sums, over the profiles, of what each profile's rows give that node (a profile without
    the node contributes the empty sum 0) — and every node of every input is in the merged tree. -/
theorem merge_sums (Ps : List Profile) (j : Nat) :
    (∀ e ∈ mergeTrie [] (inputRows (nid := nid) (k := k) (na := na) j Ps),
      e.total = (Ps.map (fun P => (((typeRows j (storedRows nid k na P)).filter
                    (fun r => decide (rkey r = rkey e))).map (·.total)).sum)).sum
      ∧ e.self = (Ps.map (fun P => (((typeRows j (storedRows nid k na P)).filter
                    (fun r => decide (rkey r = rkey e))).map (·.self)).sum)).sum)
    ∧ (∀ P ∈ Ps, ∀ r ∈ typeRows j (storedRows nid k na P),
        ∃ e ∈ mergeTrie [] (inputRows (nid := nid) (k := k) (na := na) j Ps), rkey e = rkey r)
    ∧ ((mergeTrie [] (inputRows (nid := nid) (k := k) (na := na) j Ps)).map rkey).Nodup := by
  refine ⟨?_, ?_, mergeTrie_nodup _⟩
  · intro e he
    have := mergeTrie_entry _ he
    rw [this.1, this.2]
    simp only [inputRows, fsum_flatMap]
    exact ⟨rfl, rfl⟩
  · intro P hP r hr
    have : rkey r ∈ (mergeTrie [] (inputRows (nid := nid) (k := k) (na := na) j Ps)).map rkey :=
      (mergeTrie_keys _ _).mpr (List.mem_map.mpr ⟨r, List.mem_flatMap.mpr ⟨P, hP, hr⟩, rfl⟩)
    obtain ⟨e, he, hk⟩ := List.mem_map.mp this
    exact ⟨e, he, hk⟩

/-- in one profile's rows at most one row has a given node id, so the inner sums of `merge_sums` are that row's
    value (or 0) -/
theorem stored_type_rows_unique (P : Profile) (j : Nat) : ((typeRows j (storedRows nid k na P)).map (·.node)).Nodup := by
  simpa [typeRows, List.map_map, Function.comp_def, typeRow] using storedRows_nodup nid k na P

/-- **merged_conservation.** The merged tree conserves weight at every node. -/
theorem merged_conservation (hnr : NeverRoot nid) (Ps : List Profile) (j : Nat) (hj : ∀ P ∈ Ps, j < P.ntypes)
    (hc : NoCollision nid k na Ps) :
    ∀ e ∈ mergeTrie [] (inputRows (nid := nid) (k := k) (na := na) j Ps),
      e.total = e.self + sumTotals (children (mergeTrie [] (inputRows (nid := nid) (k := k) (na := na) j Ps)) e.node) :=
  merged_conserving hj hc hnr

/-- **merged_root_total.** The merged root total (`Tree.Total`, the total of level 0 of the flame graph) is the sum
    of all sample values of all the profiles. -/
theorem merged_root_total (hnr : NeverRoot nid) (Ps : List Profile) (j : Nat) (hj : ∀ P ∈ Ps, j < P.ntypes)
    (hc : NoCollision nid Gen.ProfTreeShape.emptyStackFrame na Ps) :
    rootTotal (mergeTrie [] (inputRows (nid := nid) (k := Gen.ProfTreeShape.emptyStackFrame) (na := na) j Ps))
      = (Ps.map (fun P => valueSum P j)).sum := by
  have h1 := mergeTrie_total (inputRows (nid := nid) (k := Gen.ProfTreeShape.emptyStackFrame) (na := na) j Ps)
    (fun kk => decide (kk.1 = 0))
  have h2 : rootTotal (mergeTrie [] (inputRows (nid := nid) (k := Gen.ProfTreeShape.emptyStackFrame) (na := na) j Ps))
      = fsum (mergeTrie [] (inputRows (nid := nid) (k := Gen.ProfTreeShape.emptyStackFrame) (na := na) j Ps))
          (fun a => decide ((rkey a).1 = 0)) (·.total) := rfl
  rw [h2, h1]
  have h3 := inputRows_total_parent Ps hj hc 0
  rw [h3, fsum_allVisits]
  apply sum_map_congr
  intro P hP
  have hv := visits_root nid Gen.ProfTreeShape.emptyStackFrame na P.samples j
    (fun v hv => hnr.allVisits Ps v (mem_allVisits_of_mem nid _ na hP hv))
  rw [visits_eq_visitsOf, hv]
  unfold valueSum
  apply sum_map_congr
  intro s _
  have : Gen.ProfTreeShape.emptyStackFrame = true := rfl
  rw [this, if_pos (frames_keep_ne_nil s)]

/-- **merge_order_free.** Any permutation of the rows read — hence any order of the profiles and any order of
    the rows inside each — yields the same merged nodes: the two trees are permutations of each other (only the
    order inside the children lists differs) and are equal once the entries are sorted by (parent, node id), the
    order `mergeNodes` establishes. -/
theorem merge_order_free (Ps : List Profile) (j : Nat) (hc : NoCollision nid k na Ps)
    (R' : List Row) (hperm : (inputRows (nid := nid) (k := k) (na := na) j Ps).Perm R') :
    (mergeTrie [] (inputRows (nid := nid) (k := k) (na := na) j Ps)).Perm (mergeTrie [] R')
      ∧ canonTree (mergeTrie [] (inputRows (nid := nid) (k := k) (na := na) j Ps)) = canonTree (mergeTrie [] R') := by
  have hp := mergeTrie_perm hperm (inputRows_fnConsistent hc)
  exact ⟨hp, canonTree_eq_of_perm hp (mergeTrie_nodup _)⟩

/-- **sql_pregroup_transparent.** What `getTree` really feeds to `MergeTrie` is the result of the ClickHouse
    request of `MergeJoinedPlanner` (rows of all selected profiles grouped by (parent, function, node), self and
    total summed), in ClickHouse's group order. For every order of the groups the merged tree has the same nodes
    as merging the stored rows directly — so all merge theorems above apply to the production path. -/
theorem sql_pregroup_transparent (Ps : List Profile) (j : Nat) (hc : NoCollision nid k na Ps)
    (G : List Row) (hG : G.Perm (sqlGroup (inputRows (nid := nid) (k := k) (na := na) j Ps))) :
    (mergeTrie [] G).Perm (mergeTrie [] (inputRows (nid := nid) (k := k) (na := na) j Ps))
      ∧ canonTree (mergeTrie [] G) = canonTree (mergeTrie [] (inputRows (nid := nid) (k := k) (na := na) j Ps)) := by
  have hp := mergeTrie_sqlGroup (inputRows_fnConsistent hc) hG
  exact ⟨hp, canonTree_eq_of_perm hp (mergeTrie_nodup _)⟩

/-- reordering the profiles permutes the rows read -/
theorem profile_order_permutes_rows (Ps Ps' : List Profile) (j : Nat) (h : Ps.Perm Ps') :
    (inputRows (nid := nid) (k := k) (na := na) j Ps).Perm (inputRows (nid := nid) (k := k) (na := na) j Ps') :=
  List.Perm.flatMap_right _ h

/-- merging profile after profile (one `MergeTrie` call each) is merging all the rows at once -/
theorem merge_incremental (T R₁ R₂ : List Row) : mergeTrie (mergeTrie T R₁) R₂ = mergeTrie T (R₁ ++ R₂) :=
  (mergeTrie_append T R₁ R₂).symm

/-- `MergeTrie`'s node cap (`Gen.ProfTree.maxNodes` = 2 000 000) is not reached by fewer rows than that -/
theorem merge_cap_not_reached (R : List Row) (h : R.length ≤ Gen.ProfTree.maxNodes) :
    mergeTrieCap Gen.ProfTree.maxNodes [] 0 R = mergeTrie [] R :=
  mergeTrieCap_eq _ R [] 0 (by simpa using h)

/-! ## flame-graph levels -/

/-- **levels_layout.** For any tree that conserves weight at every node (any sign of the weights): the bars of
    level k+1 of `BFS` are exactly the children of the bars of level k, in order, each parent's children laid out
    contiguously starting at the parent's offset (offsets decoded the flame-graph way by `spans`). -/
theorem levels_layout (T : List Row) (hT : ∀ e ∈ T, e.total = e.self + sumTotals (children T e.node))
    (i : Nat) (L L' : List (Row × Int)) (h1 : (bfs T)[i]? = some L) (h2 : (bfs T)[i + 1]? = some L') :
    spans 0 L' = (spans 0 L).flatMap (fun p => contig p.2.1 (children T p.1.node)) :=
  bfs_layout T (fun e he _ => hT e he) i L L' h1 h2

/-- **levels_nest.** If moreover the weights are non-negative: every bar of level k+1 lies inside the span
    `[offset, offset + total)` of a bar of level k that is its parent, and the bars of a level (in particular
    siblings) do not overlap. -/
theorem levels_nest (T : List Row) (hT : ∀ e ∈ T, e.total = e.self + sumTotals (children T e.node))
    (hnn : ∀ e ∈ T, 0 ≤ e.self ∧ 0 ≤ e.total)
    (i : Nat) (L L' : List (Row × Int)) (h1 : (bfs T)[i]? = some L) (h2 : (bfs T)[i + 1]? = some L') :
    (∀ c ∈ spans 0 L', ∃ p ∈ spans 0 L, c.1.parent = p.1.node ∧ p.2.1 ≤ c.2.1 ∧ c.2.2 ≤ p.2.2)
      ∧ (spans 0 L').Pairwise (fun s t => s.2.2 ≤ t.2.1) :=
  bfs_nest T (fun e he _ => hT e he) hnn i L L' h1 h2

/-- level 0 is one bar `[0, total)` carrying the merged root total -/
theorem level_zero (T : List Row) : (bfs T)[0]? = some [rootBar T] ∧ spans 0 [rootBar T] = [((rootBar T).1, 0, rootTotal T)] := by
  simp [bfs, spans, rootBar]

/-- **flamegraph_nests.** End to end: for any list of profiles with non-negative sample values, merged in any
    order, the levels of the flame graph nest (and level 0 spans the sum of all sample values, by
    `merged_root_total` and `level_zero`). -/
theorem flamegraph_nests (hnr : NeverRoot nid) (Ps : List Profile) (j : Nat) (hj : ∀ P ∈ Ps, j < P.ntypes)
    (hc : NoCollision nid k na Ps) (hv : ∀ P ∈ Ps, ∀ s ∈ P.samples, 0 ≤ s.vals.getD j 0)
    (R' : List Row) (hperm : (inputRows (nid := nid) (k := k) (na := na) j Ps).Perm R')
    (i : Nat) (L L' : List (Row × Int))
    (h1 : (bfs (mergeTrie [] R'))[i]? = some L) (h2 : (bfs (mergeTrie [] R'))[i + 1]? = some L') :
    (∀ c ∈ spans 0 L', ∃ p ∈ spans 0 L, c.1.parent = p.1.node ∧ p.2.1 ≤ c.2.1 ∧ c.2.2 ≤ p.2.2)
      ∧ (spans 0 L').Pairwise (fun s t => s.2.2 ≤ t.2.1) := by
  have hp := (merge_order_free nid k na Ps j hc R' hperm).1
  -- conservation and non-negativity are properties of the set of entries, carried along the permutation
  have hsum : ∀ n, sumTotals (children (mergeTrie [] R') n)
      = sumTotals (children (mergeTrie [] (inputRows (nid := nid) (k := k) (na := na) j Ps)) n) := by
    intro n
    exact (fsum_perm hp (fun a => decide (a.parent = n)) (·.total)).symm
  apply levels_nest (mergeTrie [] R') ?_ ?_ i L L' h1 h2
  · intro e he
    rw [hsum]
    exact merged_conserving hj hc hnr e (hp.symm.subset he)
  · intro e he
    exact merged_nonneg hj hc hv e (hp.symm.subset he)

/-- **levels_are_generations.** On a tree whose node ids are unique and whose nodes hang on parent chains down to
    the root (`TreeShaped`), `BFS` never takes its "node seen twice" exit: level i is exactly generation i of the
    root's descendants, for every i up to the first empty generation. -/
theorem levels_are_generations (T : List Row) (dep : Nat → Nat) (h : TreeShaped T dep) (i : Nat)
    (hne : ∀ j, j < i → levelRows T j ≠ []) :
    ((bfs T)[i]?).map (fun L => L.map (·.1)) = some (levelRows T i) :=
  bfs_levels h i hne

/-- **flamegraph_complete.** For collision-free profiles merged in any order, every merged node is laid out as a
    bar of the flame graph (in the level of its depth) — so the bars' totals are exactly the merged sums of
    `merge_sums`, none is dropped. -/
theorem flamegraph_complete (hnr : NeverRoot nid) (Ps : List Profile) (j : Nat) (hc : NoCollision nid k na Ps)
    (R' : List Row) (hperm : (inputRows (nid := nid) (k := k) (na := na) j Ps).Perm R')
    (e : Row) (he : e ∈ mergeTrie [] R') :
    ∃ L, (bfs (mergeTrie [] R'))[depOf (allVisits nid k na Ps) e.node]? = some L ∧ e ∈ L.map (·.1) := by
  have hp := (merge_order_free nid k na Ps j hc R' hperm).1
  exact bfs_complete ((merged_treeShaped (j := j) Ps hc hnr).perm hp) e he


/-! ## the node cap and the name cap of `MergeTrie` -/

/-- **cap_is_prefix.** Under the node cap (`Gen.ProfTree.maxNodes` = 2 000 000) `MergeTrie` merges a PREFIX of the rows
    exactly as without a cap and ignores the rest: the prefix ends before the first row that would add a node while
    `maxNodes` nodes exist. Every later row is dropped — also rows that would only add weight to a node already there. -/
theorem cap_is_prefix (R : List Row) :
    ∃ n, n ≤ R.length ∧ mergeTrieCap Gen.ProfTree.maxNodes [] 0 R = mergeTrie [] (R.take n)
      ∧ (n = R.length ∨ (Gen.ProfTree.maxNodes ≤ (mergeTrie [] (R.take n)).length
            ∧ ∃ r, R[n]? = some r ∧ ∀ a ∈ mergeTrie [] (R.take n), rkey a ≠ rkey r)) :=
  mergeTrieCap_prefix Gen.ProfTree.maxNodes R []

/-- the merge law one would like for inputs of any size: the merged root total is the sum of the root rows read -/
def merge_any_size_full : Prop :=
  ∀ R : List Row, rootTotal (mergeTrieCap Gen.ProfTree.maxNodes [] 0 R) = fsum R (fun r => decide (r.parent = 0)) (·.total)

/-- … holds for at most `maxNodes` rows (all theorems of the section "merging" then apply, `merge_cap_not_reached`) -/
theorem merge_any_size_partial (R : List Row) (h : R.length ≤ Gen.ProfTree.maxNodes) :
    rootTotal (mergeTrieCap Gen.ProfTree.maxNodes [] 0 R) = fsum R (fun r => decide (r.parent = 0)) (·.total) := by
  rw [merge_cap_not_reached R h]
  exact mergeTrie_total R (fun kk => decide (kk.1 = 0))

/-- … and fails above it (recorded finding `C16/node-cap-drops-weight`): `maxNodes + 1` children of the root, each
    of weight 1 — the root total is `maxNodes`, one short. The weight is lost silently. -/
theorem merge_any_size_counterexample : ¬ merge_any_size_full :=
  fun h => capWitness_breaks Gen.ProfTree.maxNodes (h _)

/-- **cap_conservation_pregrouped.** What conservation becomes under the cap on the production path (rows pre-grouped
    by ClickHouse: one row per (parent, node), so the merged tree is the row prefix itself): a kept node still has
    total = self + kept children + the totals of its DROPPED children — its own numbers are right, but the dropped part
    of its weight has no bar, so the children no longer fill the parent and the bars to the right shift. -/
theorem cap_conservation_pregrouped (R : List Row) (hnd : (R.map rkey).Nodup)
    (hT : ∀ e ∈ R, e.total = e.self + sumTotals (children R e.node)) :
    ∃ n, n ≤ R.length ∧ mergeTrieCap Gen.ProfTree.maxNodes [] 0 R = R.take n
      ∧ ∀ e ∈ R.take n, e.total = e.self + sumTotals (children (R.take n) e.node) + sumTotals (children (R.drop n) e.node) := by
  obtain ⟨n, hn, he, _⟩ := cap_is_prefix R
  have hnd' : ((R.take n).map rkey).Nodup := hnd.sublist ((List.take_sublist n R).map rkey)
  refine ⟨n, hn, by rw [he, mergeTrie_nodup_id _ hnd'], ?_⟩
  intro e he'
  rw [hT e (List.mem_of_mem_take he'), children_take_drop R n e.node]
  omega

/-- **name_cap_is_prefix.** Under the name cap the table is the first `maxNames` entries of the table without a cap;
    a function beyond it has no entry (`nameIndex` 0: its bars show the name at index 0, "total"). No weight is involved. -/
theorem name_cap_is_prefix (fns : List (Nat × String)) :
    mergeNameTab Gen.ProfTree.maxNames [] fns = (mergeNameTab (fns.length) [] fns).take Gen.ProfTree.maxNames :=
  mergeNameTab_take Gen.ProfTree.maxNames fns.length fns [] (by simp) (by simp)

/-! ## `maxSelf`, and two sample types of one name -/

/-- `MergeTrie`'s `maxSelf` is the largest `self` among the ROWS read (or 0) … -/
theorem maxSelf_is_max_of_rows (rows : List Row) :
    0 ≤ maxSelf 0 rows ∧ (∀ r ∈ rows, r.self ≤ maxSelf 0 rows)
      ∧ (maxSelf 0 rows = 0 ∨ ∃ r ∈ rows, maxSelf 0 rows = r.self) :=
  ⟨maxSelf_ge_init 0 rows, maxSelf_ge_row 0 rows, maxSelf_attained 0 rows⟩

/-- … which on the production path (rows pre-grouped, one per node) is the largest self of the merged NODES -/
theorem maxSelf_pregrouped_exact (rows : List Row) (hnd : (rows.map rkey).Nodup) :
    (∀ e ∈ mergeTrie [] rows, e.self ≤ maxSelf 0 rows)
      ∧ (maxSelf 0 rows = 0 ∨ ∃ e ∈ mergeTrie [] rows, maxSelf 0 rows = e.self) := by
  rw [mergeTrie_nodup_id rows hnd]
  exact ⟨maxSelf_ge_row 0 rows, maxSelf_attained 0 rows⟩

/-- … but NOT in general: when a node's weight arrives in several rows (one `MergeTrie` call per profile, no GROUP BY)
    the merged node's self can exceed `maxSelf` (3 + 3 = 6 > 3). Only the colour scale of the client uses it. -/
theorem maxSelf_ungrouped_counterexample :
    ∃ rows : List Row, ∃ e ∈ mergeTrie [] rows, maxSelf 0 rows < e.self :=
  ⟨[⟨0, 1, 1, 3, 3⟩, ⟨0, 1, 1, 3, 3⟩], ⟨0, 1, 1, 6, 6⟩, by decide, by decide⟩

/-- **first_by_name.** The reader selects a sample type by its `type:unit` NAME (`arrayFirst`): the position it reads is
    the first one carrying the name, so every theorem about `typeRows j` applies with that `j`; a second sample type of the
    same name is never read (no request can name it), and an unknown name reads zeros. -/
theorem first_by_name (names : List String) (name : String) (n : Node) :
    typeRowByName names name n = typeRow (firstIdx names name) n
      ∧ (∀ i, i < firstIdx names name → names[i]? ≠ some name)
      ∧ (firstIdx names name < names.length → names[firstIdx names name]? = some name)
      ∧ (name ∉ names → firstIdx names name = names.length) :=
  ⟨rfl, firstIdx_spec names name⟩

/-! ## the DIFF view (`synchronizeNames`, `mergeNodes`, `computeFlameGraphDiff`) -/

/-- **mergeNodes_aligns.** For every parent id, after `mergeNodes` the two children slices have the same length and
    the same node ids position by position, strictly ascending; the ids are exactly the union of the two sides' ids; a
    position is the side's own node, or — when the side lacks the id — a zero-weight node; nothing is lost or repeated,
    and each side keeps the sum of its totals. Holds for ALL pairs of trees with duplicate-free (parent, node) keys,
    which is what `MergeTrie` builds (`merge_sums`). -/
theorem mergeNodes_aligns (T1 T2 : List Row) (h1 : (T1.map rkey).Nodup) (h2 : (T2.map rkey).Nodup) (p : Nat) :
    AlignedSpec T1 T2 p := alignedSpec T1 T2 h1 h2 p

/-- **diff_bars_faithful.** Every bar the diff emits (any two trees) is the root bar or a pair of `mergeNodes`: its left
    numbers are the left tree's numbers of that (parent, node) — or zeros when the left tree has no such node — and
    the same on the right. So the diff's left/right totals per node are the corresponding tree's totals. -/
theorem diff_bars_faithful (T1 T2 : List Row) (h1 : (T1.map rkey).Nodup) (h2 : (T2.map rkey).Nodup) :
    ∀ q ∈ diffItems T1 T2, q = rootOf T1 T2 ∨
      (q.left.node = q.right.node ∧ q.left.parent = q.right.parent
        ∧ (q.left ∈ T1 ∨ (q.left.self = 0 ∧ q.left.total = 0 ∧ ∀ a ∈ T1, rkey a ≠ rkey q.left))
        ∧ (q.right ∈ T2 ∨ (q.right.self = 0 ∧ q.right.total = 0 ∧ ∀ b ∈ T2, rkey b ≠ rkey q.right))) := by
  intro q hq
  have := diffLoop_items_pairs T1 T2 h1 h2 _ [rootOf T1 T2] (by
    intro x hx; simp only [List.mem_singleton] at hx; subst hx; exact ⟨rfl, Or.inl rfl⟩) q hq
  rcases this.2 with h | ⟨p, hp⟩
  · exact Or.inl h
  · right
    obtain ⟨hn, hpl, hpr, hL, hR⟩ := (alignedSpec T1 T2 h1 h2 p).pair _ hp
    simp only [] at hn hpl hpr hL hR
    refine ⟨hn, hpl.trans hpr.symm, ?_, ?_⟩
    · rcases hL with h | h
      · exact Or.inl (mem_children.mp h).1
      · refine Or.inr ⟨by rw [h.1]; rfl, by rw [h.1]; rfl, ?_⟩
        intro a ha e
        have e' : a.parent = q.left.parent ∧ a.node = q.left.node := by simpa [rkey] using e
        exact h.2 a (mem_children.mpr ⟨ha, e'.1.trans hpl⟩) e'.2
    · rcases hR with h | h
      · exact Or.inl (mem_children.mp h).1
      · refine Or.inr ⟨by rw [h.1]; rfl, by rw [h.1]; rfl, ?_⟩
        intro b hb e
        have e' : b.parent = q.right.parent ∧ b.node = q.right.node := by simpa [rkey] using e
        exact h.2 b (mem_children.mpr ⟨hb, e'.1.trans hpr⟩) e'.2

/-- **diff_totals.** `leftTicks` / `rightTicks` are the two trees' root totals, `total` their sum, level 0 the bar
    `[0, left, 0, 0, right, 0, ·]`. -/
theorem diff_totals (T1 T2 : List Row) (n1 n2 : NameTab) (h1 : (T1.map rkey).Nodup) (h2 : (T2.map rkey).Nodup)
    (d : DiffOut) (hd : renderDiff T1 T2 n1 n2 = some d) :
    d.leftTicks = rootTotal T1 ∧ d.rightTicks = rootTotal T2 ∧ d.total = rootTotal T1 + rootTotal T2 := by
  unfold renderDiff at hd
  split at hd
  · cases hd
  · cases hd
    have eL := (alignedSpec T1 T2 h1 h2 0).sumL
    have eR := (alignedSpec T1 T2 h1 h2 0).sumR
    simp only [computeDiff, ticks, eL, eR]
    exact ⟨rfl, rfl, rfl⟩

/-- the diff is refused exactly when some node of either tree has a negative self value (`assertPositive`) -/
theorem diff_refused_iff (T1 T2 : List Row) (n1 n2 : NameTab) :
    renderDiff T1 T2 n1 n2 = none ↔ (∃ e ∈ T1, e.self < 0) ∨ (∃ e ∈ T2, e.self < 0) := by
  unfold renderDiff assertPositive
  constructor
  · intro h
    split at h
    · rename_i hc
      simp only [Bool.or_eq_true, Bool.not_eq_true', List.all_eq_false, decide_eq_true_eq, Int.not_le] at hc
      exact hc
    · cases h
  · intro h
    rw [if_pos]
    simp only [Bool.or_eq_true, Bool.not_eq_true', List.all_eq_false, decide_eq_true_eq, Int.not_le]
    exact h

section DiffShape
variable {T1 T2 : List Row} {dep : Nat → Nat}

/-- **diff_every_node_once.** For tree-shaped inputs that agree on parents (what collision-free profiles give,
    `diff_end_to_end`): the first bar is the root bar; the bars after it carry pairwise different node ids, and these are
    exactly the node ids of the left tree together with those of the right tree — every node of either tree appears
    exactly once. -/
theorem diff_every_node_once (t1 : TreeShaped T1 dep) (t2 : TreeShaped T2 dep) (hc : Compatible T1 T2)
    (h1 : (T1.map rkey).Nodup) (h2 : (T2.map rkey).Nodup) :
    (diffItems T1 T2).head? = some (rootOf T1 T2)
      ∧ (((diffItems T1 T2).tail).map (·.left.node)).Nodup
      ∧ ∀ x, x ∈ ((diffItems T1 T2).tail).map (·.left.node) ↔ x ∈ T1.map (·.node) ∨ x ∈ T2.map (·.node) :=
  diffItems_once t1 t2 hc h1 h2

/-- **diff_fuel_suffices.** The Go loop has no bound; the model's is never what ends it on tree-shaped input: any
    larger bound gives the same bars — the levels of the aligned trees one after the other (breadth first). -/
theorem diff_fuel_suffices (t1 : TreeShaped T1 dep) (t2 : TreeShaped T2 dep) (hc : Compatible T1 T2)
    (h1 : (T1.map rkey).Nodup) (h2 : (T2.map rkey).Nodup) (extra : Nat) :
    diffLoop (kidsL T1 T2) (kidsR T1 T2) (T1.length + T2.length + 2 + extra) [rootOf T1 T2] = diffItems T1 T2
      ∧ diffItems T1 T2 = walkItems (kidsL T1 T2) (kidsR T1 T2) (maxDep (alignedL T1 T2) dep + 1) [rootOf T1 T2] := by
  refine ⟨?_, diffItems_eq t1 t2 hc h1 h2⟩
  rw [diffLoop_walk t1 t2 hc h1 h2 _ (by omega), diffItems_eq t1 t2 hc h1 h2]

/-- **diff_levels_are_generations.** The bars filed under level `k` of the output (`res.Levels[k]`) are exactly the
    k-th generation of the walk, in order: the statements about `itemLevel k` below are statements about the levels
    the client receives. -/
theorem diff_levels_are_generations (t1 : TreeShaped T1 dep) (t2 : TreeShaped T2 dep) (hc : Compatible T1 T2)
    (h1 : (T1.map rkey).Nodup) (h2 : (T2.map rkey).Nodup) (k : Nat) (hk : k ≤ maxDep (alignedL T1 T2) dep) :
    (diffItems T1 T2).filter (fun q => q.level == k) = itemLevel (kidsL T1 T2) (kidsR T1 T2) k [rootOf T1 T2] := by
  rw [diffItems_eq t1 t2 hc h1 h2]
  exact walk_filter_level h1 h2 _ k (by omega)

/-- **diff_sides_conserve.** If both input trees conserve weight (and are parent-closed, non-negative, agree on
    parents) then every bar of the diff conserves weight on BOTH sides over its child bars: left total = left self + the
    left totals of its children, right likewise — also for the zero bars standing for nodes a side lacks. -/
theorem diff_sides_conserve (F1 : SideFacts T1) (F2 : SideFacts T2) (hc : Compatible T1 T2)
    (h1 : (T1.map rkey).Nodup) (h2 : (T2.map rkey).Nodup) (i : Nat) :
    ∀ q ∈ itemLevel (kidsL T1 T2) (kidsR T1 T2) i [rootOf T1 T2],
      q.left.total = q.left.self + sumTotals ((kidItems (kidsL T1 T2) (kidsR T1 T2) q).map (·.left))
        ∧ q.right.total = q.right.self + sumTotals ((kidItems (kidsL T1 T2) (kidsR T1 T2) q).map (·.right)) := by
  intro q hq
  have hs := (level_inv T1 T2 h1 h2 i q hq).1
  have hl := left_ok F1 F2 hc h1 h2 i q hq
  have hr := right_ok F1 F2 hc h1 h2 i q hq
  have ka := kidItems_aligned T1 T2 q hs
  have eL : (kidItems (kidsL T1 T2) (kidsR T1 T2) q).map (·.left) = (kidsL T1 T2 q.left.node).reverse := by
    have : (kidItems (kidsL T1 T2) (kidsR T1 T2) q).map (·.left) = ((kidItems (kidsL T1 T2) (kidsR T1 T2) q).map viewL).map (·.1) := by
      rw [List.map_map]; rfl
    rw [this, ka.2.1, placeFrom_rows]
  have eR : (kidItems (kidsL T1 T2) (kidsR T1 T2) q).map (·.right) = (kidsR T1 T2 q.right.node).reverse := by
    have : (kidItems (kidsL T1 T2) (kidsR T1 T2) q).map (·.right) = ((kidItems (kidsL T1 T2) (kidsR T1 T2) q).map viewR).map (·.1) := by
      rw [List.map_map]; rfl
    rw [this, ka.2.2.1, placeFrom_rows, hs]
  rw [eL, eR, sumTotals_reverse, sumTotals_reverse]
  exact ⟨hl.1, hr.1⟩

/-- **diff_levels_nest.** Under the same hypotheses the levels nest on both sides: every bar of level i+1 lies inside
    the span of a bar of level i that is its parent — in the left coordinates and in the right coordinates — and the
    bars of a level do not overlap on either side (`viewL`/`viewR` = the node with its absolute left/right offset). -/
theorem diff_levels_nest (F1 : SideFacts T1) (F2 : SideFacts T2) (hc : Compatible T1 T2)
    (h1 : (T1.map rkey).Nodup) (h2 : (T2.map rkey).Nodup) (i : Nat) :
    ((∀ c ∈ (itemLevel (kidsL T1 T2) (kidsR T1 T2) (i + 1) [rootOf T1 T2]).map viewL,
        ∃ p ∈ (itemLevel (kidsL T1 T2) (kidsR T1 T2) i [rootOf T1 T2]).map viewL,
          c.1.parent = p.1.node ∧ p.2 ≤ c.2 ∧ c.2 + c.1.total ≤ p.2 + p.1.total)
      ∧ SideOrdered ((itemLevel (kidsL T1 T2) (kidsR T1 T2) (i + 1) [rootOf T1 T2]).map viewL))
    ∧ ((∀ c ∈ (itemLevel (kidsL T1 T2) (kidsR T1 T2) (i + 1) [rootOf T1 T2]).map viewR,
        ∃ p ∈ (itemLevel (kidsL T1 T2) (kidsR T1 T2) i [rootOf T1 T2]).map viewR,
          c.1.parent = p.1.node ∧ p.2 ≤ c.2 ∧ c.2 + c.1.total ≤ p.2 + p.1.total)
      ∧ SideOrdered ((itemLevel (kidsL T1 T2) (kidsR T1 T2) (i + 1) [rootOf T1 T2]).map viewR)) :=
  ⟨left_nest F1 F2 hc h1 h2 i, right_nest F1 F2 hc h1 h2 i⟩

end DiffShape

/-- **diff_delta_decodes.** The offsets written into a level (relative to the end of the previous bar, the
    "double" flame-graph format) decode to the absolute left and right spans of the bars: the final loop of
    `computeFlameGraphDiff` loses nothing. -/
theorem diff_delta_decodes (bars : List Bar) :
    decodeLevel 0 0 (encodeLevel 0 0 bars) = bars.map (fun b => (b.xl, b.xl + b.lt, b.xr, b.xr + b.rt)) :=
  decode_encode bars 0 0

/-- **diff_names_consistent.** The names table of the diff: no name twice (a name ↦ one index), one index per bar,
    every index valid and pointing at the bar's name. -/
theorem diff_names_consistent (ns : List String) :
    (internNames [] ns).1.Nodup ∧ (internNames [] ns).2.length = ns.length
      ∧ ∀ i (h : i < ns.length), ((internNames [] ns).1)[((internNames [] ns).2).getD i 0]? = some ns[i] := by
  obtain ⟨a, _, b, c⟩ := internNames_spec ns [] (by simp)
  exact ⟨a, b, c⟩

/-- **diff_names_sync.** After `synchronizeNames` a function reads the left tree's name if the left table has the id,
    else the right tree's, else "total" — whatever order Go's map iteration adds the missing entries in. -/
theorem diff_names_sync (t1 t2 add : NameTab) (u1 : (t1.map (·.1)).Nodup) (u2 : (t2.map (·.1)).Nodup)
    (hp : add.Perm (missingNames t1 t2)) (f : Nat) :
    nameOf (syncNamesWith t1 add) f = if NameTab.has t1 f then nameOf t1 f else nameOf t2 f := by
  rw [nameOf_sync_order u1 u2 hp f, nameOf_syncNames u1 u2 f]

/-- **diff_names_side_free.** When the two tables give common ids the same name (ids are hashes of the names), it
    does not matter which side lists a function, or lists it first: swapping the trees names every function alike. -/
theorem diff_names_side_free (t1 t2 : NameTab) (u1 : (t1.map (·.1)).Nodup) (u2 : (t2.map (·.1)).Nodup)
    (ha : NamesAgree t1 t2) (f : Nat) : nameOf (syncNames t1 t2) f = nameOf (syncNames t2 t1) f :=
  nameOf_sync_comm u1 u2 ha f

/-- **diff_end_to_end.** Two lists of profiles with non-negative values and no id collision among all of them: their
    merged trees satisfy every hypothesis of the DIFF theorems above (one depth function, agreement on parents,
    conservation, parent closure). -/
theorem diff_end_to_end (hnr : NeverRoot nid) (Ps Qs : List Profile) (j : Nat)
    (hj : ∀ P ∈ Ps ++ Qs, j < P.ntypes) (hc : NoCollision nid k na (Ps ++ Qs))
    (hv : ∀ P ∈ Ps ++ Qs, ∀ s ∈ P.samples, 0 ≤ s.vals.getD j 0) :
    TreeShaped (mergeTrie [] (inputRows (nid := nid) (k := k) (na := na) j Ps)) (depOf (allVisits nid k na (Ps ++ Qs)))
      ∧ TreeShaped (mergeTrie [] (inputRows (nid := nid) (k := k) (na := na) j Qs)) (depOf (allVisits nid k na (Ps ++ Qs)))
      ∧ Compatible (mergeTrie [] (inputRows (nid := nid) (k := k) (na := na) j Ps))
                   (mergeTrie [] (inputRows (nid := nid) (k := k) (na := na) j Qs))
      ∧ SideFacts (mergeTrie [] (inputRows (nid := nid) (k := k) (na := na) j Ps))
      ∧ SideFacts (mergeTrie [] (inputRows (nid := nid) (k := k) (na := na) j Qs)) :=
  diff_hypotheses hnr Ps Qs j hj hc hv

/-- the hypotheses of the DIFF theorems are satisfiable: two small trees sharing a node -/
example : SideFacts [⟨0, 5, 77, 1, 4⟩, ⟨77, 6, 88, 3, 3⟩] ∧ SideFacts [⟨0, 5, 77, 2, 9⟩, ⟨77, 7, 99, 7, 7⟩]
    ∧ Compatible [⟨0, 5, 77, 1, 4⟩, ⟨77, 6, 88, 3, 3⟩] [⟨0, 5, 77, 2, 9⟩, ⟨77, 7, 99, 7, 7⟩] := by
  refine ⟨⟨by decide, by decide, by decide, by decide⟩, ⟨by decide, by decide, by decide, by decide⟩, by unfold Compatible; decide⟩


/-! ## the laws over `int64` (`BitVec 64`): what the code computes with wrap-around addition

`wrap = BitVec.ofInt 64`. The `…64` definitions (`Qryn/Prof/Wrap64.lean`) are the tree builder, the projection, the
ClickHouse GROUP BY, `MergeTrie` and `Total` with every `+` the 64-bit one. `int64_simulation` says they compute the
wrap of what the `Int` model computes (no branch looks at a weight), so each conservation law holds of the 64-bit
values as an equation of `BitVec 64` — also when the true sums exceed the `int64` range. The ORDER statements
(`levels_nest`, `flamegraph_nests`, `diff_levels_nest`) are about integers: they hold of the code's values as long as
the sums stay inside the range (`int64_exact_in_range`; non-negative values whose grand total is below 2^63). -/

/-- **int64_simulation.** The 64-bit computation is the image of the `Int` model under `wrap`. -/
theorem int64_simulation (P : Profile) (j : Nat) (T R : List Row) :
    (treeMap P.ntypes (visits nid k na P)).map Node.wrap = treeMap64 P.ntypes ((visits nid k na P).map Visit.wrap)
      ∧ (∀ n : Node, (typeRow j n).wrap = typeRow64 j n.wrap)
      ∧ (mergeTrie T R).map Row.wrap = mergeTrie64 (T.map Row.wrap) (R.map Row.wrap)
      ∧ (sqlGroup R).map Row.wrap = sqlGroup64 (R.map Row.wrap)
      ∧ wrap (rootTotal T) = rootTotal64 (T.map Row.wrap)
      ∧ wrap (valueSum P j) = valueSum64 (P.samples.map (fun s => s.vals.map wrap)) j :=
  ⟨treeMap_wrap _ _, typeRow_wrap j, mergeTrie_wrap T R, sqlGroup_wrap R, rootTotal_wrap T, valueSum_wrap P j⟩

/-- inside the `int64` range the bit pattern is the integer: the `Int` theorems then speak about the code's values -/
theorem int64_exact_in_range (x : Int) (h : -2 ^ 63 ≤ x) (h' : x < 2 ^ 63) : (wrap x).toInt = x := wrap_exact x h h'

/-- **node_conservation_int64.** `node_conservation` as an equation of `int64` values. -/
theorem node_conservation_int64 (hnr : NeverRoot nid) (P : Profile) (hc : NoCollision nid k na [P])
    (r : Node) (hr : r ∈ storedRows nid k na P) (j : Nat) (hj : j < P.ntypes) :
    (typeRow64 j r.wrap).total = (typeRow64 j r.wrap).self
      + sumTotals64 (children64 ((storedRows nid k na P).map (fun n => typeRow64 j n.wrap)) r.node) := by
  have h := node_conservation nid k na hnr P hc r hr j hj
  have e1 : (storedRows nid k na P).map (fun n => typeRow64 j n.wrap) = (typeRows j (storedRows nid k na P)).map Row.wrap := by
    simp only [typeRows, List.map_map]
    apply List.map_congr_left
    intro n _
    exact (typeRow_wrap j n).symm
  rw [e1, ← children_wrap, ← sumTotals_wrap, ← typeRow_wrap]
  show wrap (ntotal j r) = wrap (nself j r) + wrap _
  rw [← wrap_add, h]
  congr 2
  unfold sumTotals children typeRows
  rw [List.filter_map, List.map_map]
  rfl

/-- **root_total_int64.** -/
theorem root_total_int64 (hnr : NeverRoot nid) (P : Profile)
    (hc : NoCollision nid Gen.ProfTreeShape.emptyStackFrame na [P]) (j : Nat) (hj : j < P.ntypes) :
    rootTotal64 ((storedRows nid Gen.ProfTreeShape.emptyStackFrame na P).map (fun n => typeRow64 j n.wrap))
      = valueSum64 (P.samples.map (fun s => s.vals.map wrap)) j := by
  have h := root_total nid na hnr P hc j hj
  have e1 : (storedRows nid Gen.ProfTreeShape.emptyStackFrame na P).map (fun n => typeRow64 j n.wrap)
      = (typeRows j (storedRows nid Gen.ProfTreeShape.emptyStackFrame na P)).map Row.wrap := by
    simp only [typeRows, List.map_map]
    apply List.map_congr_left
    intro n _
    exact (typeRow_wrap j n).symm
  rw [e1, ← rootTotal_wrap, ← valueSum_wrap, ← h]
  congr 1
  unfold rootTotal sumTotals children typeRows
  rw [List.filter_map, List.map_map]
  rfl

/-- **merged_conservation_int64.** The tree `MergeTrie` holds (64-bit sums of the rows of any list of profiles)
    conserves weight at every node, as an equation of `int64` values. -/
theorem merged_conservation_int64 (hnr : NeverRoot nid) (Ps : List Profile) (j : Nat) (hj : ∀ P ∈ Ps, j < P.ntypes)
    (hc : NoCollision nid k na Ps) :
    ∀ e ∈ mergeTrie64 [] ((inputRows (nid := nid) (k := k) (na := na) j Ps).map Row.wrap),
      e.total = e.self + sumTotals64 (children64 (mergeTrie64 [] ((inputRows (nid := nid) (k := k) (na := na) j Ps).map Row.wrap)) e.node) := by
  have hs := mergeTrie_wrap [] (inputRows (nid := nid) (k := k) (na := na) j Ps)
  simp only [List.map_nil] at hs
  rw [← hs]
  intro e he
  obtain ⟨e0, he0, rfl⟩ := List.mem_map.mp he
  rw [← children_wrap, ← sumTotals_wrap]
  show wrap e0.total = wrap e0.self + wrap (sumTotals (children _ e0.node))
  rw [← wrap_add, ← merged_conservation nid k na hnr Ps j hj hc e0 he0]

/-- **merged_root_total_int64.** `Tree.Total()` = the 64-bit sum of all sample values of all the profiles. -/
theorem merged_root_total_int64 (hnr : NeverRoot nid) (Ps : List Profile) (j : Nat) (hj : ∀ P ∈ Ps, j < P.ntypes)
    (hc : NoCollision nid Gen.ProfTreeShape.emptyStackFrame na Ps) :
    rootTotal64 (mergeTrie64 [] ((inputRows (nid := nid) (k := Gen.ProfTreeShape.emptyStackFrame) (na := na) j Ps).map Row.wrap))
      = sum64 (Ps.map (fun P => valueSum64 (P.samples.map (fun s => s.vals.map wrap)) j)) := by
  have hs := mergeTrie_wrap [] (inputRows (nid := nid) (k := Gen.ProfTreeShape.emptyStackFrame) (na := na) j Ps)
  simp only [List.map_nil] at hs
  rw [← hs, ← rootTotal_wrap, merged_root_total nid na hnr Ps j hj hc, wrap_sum, List.map_map]
  congr 1
  apply List.map_congr_left
  intro P _
  exact valueSum_wrap P j

/-- **merge_sums_int64.** Every node of the 64-bit merged tree carries the 64-bit sums of the rows with its key. -/
theorem merge_sums_int64 (R : List Row) :
    ∀ e ∈ mergeTrie64 [] (R.map Row.wrap),
      e.total = sum64 (((R.map Row.wrap).filter (fun r => decide ((r.parent, r.node) = (e.parent, e.node)))).map (·.total))
      ∧ e.self = sum64 (((R.map Row.wrap).filter (fun r => decide ((r.parent, r.node) = (e.parent, e.node)))).map (·.self)) := by
  have hs := mergeTrie_wrap [] R
  simp only [List.map_nil] at hs
  rw [← hs]
  intro e he
  obtain ⟨e0, he0, rfl⟩ := List.mem_map.mp he
  have := mergeTrie_entry R he0
  constructor
  · show wrap e0.total = _
    rw [this.1, fsum, wrap_sum, List.filter_map, List.map_map, List.map_map]
    rfl
  · show wrap e0.self = _
    rw [this.2, fsum, wrap_sum, List.filter_map, List.map_map, List.map_map]
    rfl


/-! ## merging pprof payloads (`ProfileMergeV2.Merge` / `Profile`, the merge behind `SelectMergeProfile`)

Model `Qryn.Prof.Pprof` (lean/Qryn/Prof/PprofMerge.lean): `mergeAll MState.empty Ps` = one `Merge` call per decoded
payload, `result` = `Profile()`. `.ok` = no payload was refused (`compatible`) and none lacks a period type. -/

open Qryn.Prof.Pprof in
/-- **merge_conserves_values.** For ALL lists of payloads `Merge` accepts and every sample type position `j`: the values
    of the merged profile's samples add up to the values of the samples of the payloads — those payloads `Merge` does
    not skip (no sample, fewer than two strings), and of each the samples `sanitizeProfile` keeps (a sample with a wrong
    number of values or a dangling location id is dropped there: `inputTotal`). -/
theorem merge_conserves_values (Ps : List PProfile) (st : MState) (h : mergeAll MState.empty Ps = .ok st) (j : Nat) :
    valTotal (result st).samples j = inputTotal Ps j := by
  have := mergeAll_vals Ps MState.empty st valInv_empty h j
  have hs : (result st).samples = st.samples := by
    unfold result
    cases hh : st.header with
    | none => simp [this.1.none_empty hh]
    | some hd => rfl
  rw [hs, this.2]
  simp [valTotal, MState.empty]

open Qryn.Prof.Pprof in
/-- **merge_refs_valid.** For ALL lists of payloads `Merge` accepts — whatever their own references look like — every
    reference of the merged profile resolves: each location id of a sample is the id of a merged location, each
    location's mapping id and each line's function id are ids of merged mappings / functions, and every string index
    (function names, mapping file names and build ids, label keys / values / units, sample and period types,
    drop_frames, keep_frames, default_sample_type) lies inside the merged string table. (With the four repairs of this
    extension; before them label units and the three header strings did not.) -/
theorem merge_refs_valid (Ps : List PProfile) (st : MState) (h : mergeAll MState.empty Ps = .ok st) :
    Resolves (result st) :=
  result_resolves st (mergeAll_refs Ps MState.empty st refsOK_empty h)

open Qryn.Prof.Pprof in
/-- **merge_incremental_pprof.** Merging is a left fold: merging `Ps ++ Qs` is merging `Qs` into the state `Ps` left
    (associativity of the accumulation; `MergeProfiles` relies on it when it streams the rows). -/
theorem merge_incremental_pprof (Ps Qs : List PProfile) (st0 : MState) :
    mergeAll st0 (Ps ++ Qs) = (match mergeAll st0 Ps with | .ok st => mergeAll st Qs | .error e => .error e) := by
  induction Ps generalizing st0 with
  | nil => simp [mergeAll]
  | cons p Ps ih =>
    simp only [List.cons_append, mergeAll]
    cases mergeOne st0 p with
    | ok st1 => exact ih st1
    | error e => rfl

open Qryn.Prof.Pprof in
/-- **merge_total_order_free.** Per sample type the merged total does not depend on the order of the payloads
    (any permutation that is accepted as well). -/
theorem merge_total_order_free (Ps Qs : List PProfile) (hp : Ps.Perm Qs) (st st' : MState)
    (h : mergeAll MState.empty Ps = .ok st) (h' : mergeAll MState.empty Qs = .ok st') (j : Nat) :
    valTotal (result st).samples j = valTotal (result st').samples j := by
  rw [merge_conserves_values Ps st h, merge_conserves_values Qs st' h']
  exact sum_perm_int (hp.map _)


open Qryn.Prof.Pprof in
/-- **merge_sums_per_stack.** Read every sample through the tables it refers to — its stack: each location as its address and
    the functions of its lines, each function as (start line, name, system name, file name) STRINGS; its string labels as
    (key, value) STRINGS (`stStack`/`rLabelsK` in the merged tables, `inStack`/`inLabels` in a payload's own). For every class `Q`
    of such (resolved stack, label set) pairs — `Q` must not depend on the order of the labels — and every value position:
    the merged samples of the class carry the sum of the payloads' samples of the class. So `Merge` aggregates by stack and
    string labels and never moves weight from one call stack or label set to another, whatever the ids and the string tables
    of the payloads look like (shared, disjoint, permuted, repeated strings). Hypotheses: fewer than 2^32 functions and
    strings (`hashLines` / `hashProfileLabels` pack two ids into one 64-bit word). -/
theorem merge_sums_per_stack (Q : List RLoc → RLabels → Bool) (hQ : ∀ x a b, a.Perm b → Q x a = Q x b)
    (Ps : List PProfile) (st : MState) (h : mergeAll MState.empty Ps = .ok st)
    (hsmall : st.functions.length < 2 ^ 32) (hsmallS : st.strings.length < 2 ^ 32) (j : Nat) :
    stackTotal Q st j = inputStackTotal Q Ps j := by
  have := mergeAll_stacks Q hQ Ps MState.empty st valInv_empty refsOK_empty h hsmall hsmallS j
  rw [this]
  simp [stackTotal, valTotalK, MState.empty]

open Qryn.Prof.Pprof in
/-- **merge_order_free_per_stack.** Hence the weight of every resolved (stack, string labels) class is the same for every
    order of the payloads — commutativity of the merge up to the numbering of the tables; together with
    `merge_incremental_pprof` (merging `Ps ++ Qs` = merging `Qs` into the state of `Ps`) this is `merge_assoc_comm` for
    the weights. -/
theorem merge_order_free_per_stack (Q : List RLoc → RLabels → Bool) (hQ : ∀ x a b, a.Perm b → Q x a = Q x b)
    (Ps Qs : List PProfile) (hp : Ps.Perm Qs) (st st' : MState)
    (h : mergeAll MState.empty Ps = .ok st) (h' : mergeAll MState.empty Qs = .ok st')
    (hs : st.functions.length < 2 ^ 32 ∧ st.strings.length < 2 ^ 32)
    (hs' : st'.functions.length < 2 ^ 32 ∧ st'.strings.length < 2 ^ 32) (j : Nat) :
    stackTotal Q st j = stackTotal Q st' j := by
  rw [merge_sums_per_stack Q hQ Ps st h hs.1 hs.2, merge_sums_per_stack Q hQ Qs st' h' hs'.1 hs'.2]
  exact sum_perm_int (hp.map _)

open Qryn.Prof.Pprof in
/-- **merge_conserves_values_wellformed.** For payloads whose references resolve (`WellFormed`: what pprof's `CheckValid`
    demands, hence what the writer stores) nothing is dropped on the way in: per sample type the merged values add up to
    ALL the values of all the payloads that have at least one sample and two strings. -/
theorem merge_conserves_values_wellformed (Ps : List PProfile) (st : MState) (h : mergeAll MState.empty Ps = .ok st)
    (hw : ∀ p ∈ Ps, WellFormed p) (j : Nat) :
    valTotal (result st).samples j = (Ps.map (fun p => if skipped p then 0 else valTotal p.samples j)).sum := by
  rw [merge_conserves_values Ps st h j]
  unfold inputTotal
  congr 1
  apply List.map_congr_left
  intro p hp
  split
  · rfl
  · exact sanitize_keeps_values p (hw p hp) j

/-- `WellFormed` is satisfiable, and so are the hypotheses of the pprof theorems (two payloads, shared function) -/
example : Qryn.Prof.Pprof.WellFormed
    ⟨["", "samples", "count", "main"], [⟨1, 2⟩], some ⟨1, 2⟩, [⟨[7], [5], []⟩, ⟨[], [2], []⟩], [], [⟨7, 0, 16, [⟨3, 10, 0⟩], false⟩],
      [⟨3, 3, 3, 0, 1⟩], 0, 0, 0, 0, 0, [], 0⟩ := by
  refine ⟨by decide, by decide, by decide, by decide⟩

namespace MergeWitness
open Qryn.Prof.Pprof
/-- two payloads with one stackless sample each, labelled `bytes = 100` resp. `bytes = 200` (numeric labels) -/
def pA : PProfile := ⟨["", "s", "c", "bytes"], [⟨1, 2⟩], some ⟨1, 2⟩, [⟨[], [1], [⟨3, 0, 100, 0⟩]⟩], [], [], [], 0, 0, 0, 0, 0, [], 0⟩
def pB : PProfile := ⟨["", "s", "c", "bytes"], [⟨1, 2⟩], some ⟨1, 2⟩, [⟨[], [2], [⟨3, 0, 200, 0⟩]⟩], [], [], [], 0, 0, 0, 0, 0, [], 0⟩
/-- what a reader of the merged profile sees of the samples: values and the numbers of the labels -/
def view (r : Except MergeErr MState) : List (List Int × List Int) :=
  match r with
  | .ok st => (result st).samples.map (fun (s : PSample) => (s.vals, s.labels.map (·.num)))
  | .error _ => []
end MergeWitness

open Qryn.Prof.Pprof MergeWitness in
/-- the hypotheses of the payload-merge theorems are satisfiable: the two payloads are accepted, the tables are small -/
example : (match mergeAll MState.empty [pA, pB] with
    | .ok st => decide (st.functions.length < 2 ^ 32 ∧ st.strings.length < 2 ^ 32)
    | .error _ => false) = true := by decide +kernel

open Qryn.Prof.Pprof MergeWitness in
/-- the full commutativity one might expect: the merged samples (values AND label numbers) do not depend on the order -/
def merge_assoc_comm_full : Prop :=
  ∀ Ps Qs : List PProfile, Ps.Perm Qs → (view (mergeAll MState.empty Ps)).Perm (view (mergeAll MState.empty Qs))

open Qryn.Prof.Pprof MergeWitness in
/-- … is FALSE: `GetSampleKey` hashes the label keys and string values only, so samples that differ in a NUMERIC label
    (the allocation size classes of a heap profile) are merged into one and the number of the first payload is kept —
    the values are conserved (`merge_conserves_values`, `merge_sums_per_stack`), the label is not order independent.
    Recorded in the notes as observed (weights are what C16 is about). -/
theorem merge_assoc_comm_counterexample : ¬ merge_assoc_comm_full := by
  intro h
  have := h [pA, pB] [pB, pA] (List.Perm.swap pB pA [])
  have e1 : view (mergeAll MState.empty [pA, pB]) = [([3], [100])] := by decide +kernel
  have e2 : view (mergeAll MState.empty [pB, pA]) = [([3], [200])] := by decide +kernel
  rw [e1, e2] at this
  have := this.subset (List.mem_singleton.mpr rfl)
  simp at this

/-! ## the hypotheses are satisfiable (and hold on a concrete case with the real `getNodeId`) -/

/-- two small profiles (shared prefix, recursion, a stackless sample): no collision among their triples -/
example : NoCollision getNodeId true Gen.ProfTree.naFnId
    [⟨2, [⟨[7, 5], [1, 10]⟩, ⟨[5], [2, 20]⟩, ⟨[5, 5, 5], [3, 30]⟩, ⟨[], [4, 40]⟩]⟩, ⟨2, [⟨[9, 7, 5], [1, 1]⟩]⟩] := by
  unfold NoCollision
  decide +kernel

example : (storedRows getNodeId true Gen.ProfTree.naFnId ⟨1, [⟨[7, 5], [1]⟩, ⟨[5], [2]⟩, ⟨[], [4]⟩]⟩).map
    (fun r => (r.fn, ntotal 0 r, nself 0 r)) = [(7, 1, 1), (5, 3, 2), (Gen.ProfTree.naFnId, 4, 4)] := by decide +kernel

end Qryn.C16
