import Qryn.Proofs.BatcherProgress
import Qryn.Proofs.Handler
import Qryn.Proofs.ErrorHandler
import Qryn.Proofs.BatcherLocks
import Qryn.Proofs.BatcherLate
import Qryn.Proofs.PromiseModel
import Qryn.Gen.Inserts
import Qryn.Gen.ErrorHandler
import Qryn.Gen.BatcherLocks
import Qryn.Gen.Promise
import Qryn.Gen.PostChains
import Qryn.Proofs.BatcherAlias
import Qryn.Gen.BatcherAlias
/-! # C01 — a push is acknowledged only after ClickHouse accepted all of its rows

Property theorems only. Model: `Qryn.Ingest.Batcher` — `InsertServiceV2` as a state machine whose steps are
the lock holds of `Request`/`swapBuffers`, the return of `client.Do`, the connect attempt, the watchdog
ping and the stop branch of `Run`; `Multi` = `InsertServiceV2Multimodal` over its round-robin groups;
`doPush`/`doParse`/`handler` = `writer/controller/builder.go`. Events of a run: `resolved id o` (a promise
is completed) and `insert block waiting o` (`client.Do` returned `o` for `block`).

A *request id* stands for one promise, i.e. one call of `Request`: a retry of the same payload is a new id.
`R id` is the payload submitted under `id` (`SysWellFormed`). -/
namespace Qryn.C01
open Qryn.Ingest.Batcher

/-- the six plans are coherent (INSERT list = acquirer order, one append statement per column, the counted
    column is acquired) -/
theorem plans_ok (k : Kind) : planOK (planOf k) = true := by cases k <;> decide

/-- the plans the theorems are about are the ones regenerated from `writer/service/impl/*.go` on this run -/
theorem plans_eq_gen (k : Kind) : planOf k = Gen.Inserts.planOf k := by cases k <;> decide

/-- `doParse` pushes each of the five parser-response fields exactly once, all in sync mode (the extractor
    fails on any other mode), to the service bound under the paired context key -/
theorem five_pushes : Gen.Inserts.pairings.length = 5 ∧ (Gen.Inserts.pairings.map (·.1)).Nodup := by decide

/-- **ack_sound.** For every insert service (any table, any `MaxQueueSize`, any number of parallel
    sub-services), every interleaving of requests, flush triggers (timer, size, forced), connect attempts,
    buffer swaps, `Do` outcomes, watchdog pings and stops: whenever a promise is completed *without error*,
    either its request appended nothing to the counted column (`inserted == 0`: for a rectangular request,
    no rows at all), or **earlier in the trace** a `client.Do` returned nil for a block that contains, in
    every column, exactly the values this request submitted for that column, contiguously and in order. -/
theorem ack_sound (k : Kind) (maxQueue svcNum : Nat) (R : ReqId → Req) (ops : List SysOp)
    (hW : ∀ op ∈ ops, SysWellFormed R op) :
    AckSound (planOf k) R ((Multi.init (planOf k) maxQueue svcNum).run ops).2 :=
  Sound.ackSound _ (multi_run_sound (plans_ok k) ops _ (multi_init_inv maxQueue svcNum) hW []).2

/-- the same for one sub-service started in any state satisfying the bookkeeping invariant -/
theorem ack_sound_sub (k : Kind) (maxQueue : Nat) (R : ReqId → Req) (ops : List Op)
    (hW : ∀ op ∈ ops, WellFormed R op) :
    AckSound (planOf k) R (run (Svc.init (planOf k) maxQueue) ops).2 :=
  Sound.ackSound _ (run_sound (plans_ok k) ops _ (init_inv maxQueue) hW []).2

/-- **resolve_once.** Along every run, a promise is completed at most as many times as it was handed
    out: with one `Request` call per promise, every promise is completed at most once. -/
theorem resolve_once (p : Plan) (maxQueue svcNum : Nat) (ops : List SysOp) (id : ReqId) :
    (resolvedIds ((Multi.init p maxQueue svcNum).run ops).2).count id ≤ (sysRequestIds ops).count id := by
  have := multi_run_count ops (Multi.init p maxQueue svcNum) id
  rw [liveAll_init] at this
  simp only [List.count_nil, Nat.zero_add] at this
  omega

theorem resolve_once_nodup (p : Plan) (maxQueue svcNum : Nat) (ops : List SysOp) (id : ReqId)
    (h : (sysRequestIds ops).Nodup) :
    (resolvedIds ((Multi.init p maxQueue svcNum).run ops).2).count id ≤ 1 :=
  Nat.le_trans (resolve_once p maxQueue svcNum ops id) (count_le_one_of_nodup h id)

/-- `Promise.Done` is a compare-and-swap: after the first completion the value never changes -/
theorem promise_value_stable (p : Promise) (a b : Outcome) : (p.done a).done b = p.done a := by
  cases p <;> rfl

/-- what the environment must provide for progress, in this order, with arbitrary *calm* activity
    (further requests with an accounted size, triggers, connects of either outcome, swaps, `Do`
    completions of either outcome, successful pings) before, between and after: the completion of the `Do`
    in flight, a flush trigger, a successful connect, a buffer swap, the completion of that `Do`. -/
def FairSchedule (p : Plan) (id : ReqId) (ops : List Op) : Prop :=
  ∃ a0 o0 a1 k a2 a3 a4 o1 a5,
    ops = a0 ++ ([Op.doResult o0] ++ (a1 ++ ([Op.trigger k] ++ (a2 ++ ([Op.connect true] ++ (a3 ++ ([Op.swap] ++
            (a4 ++ ([Op.doResult o1] ++ a5))))))))) ∧
    (∀ op ∈ a0, Calm p id op) ∧ (∀ op ∈ a1, Calm p id op) ∧ (∀ op ∈ a2, Calm p id op) ∧
    (∀ op ∈ a3, Calm p id op) ∧ (∀ op ∈ a4, Calm p id op) ∧ (∀ op ∈ a5, Calm p id op)

/-- **resolve_eventually.** In a sub-service that is up (`Alive`: running, not crashed, columns in place,
    queued promises have a positive accounted size — `SizePos`), every promise that is queued or in flight
    is completed once the environment has gone through a fair schedule. No hypothesis on the outcome of
    the INSERTs: a failing database still yields an answer (an error). -/
theorem resolve_eventually (p : Plan) (s : Svc) (id : ReqId) (ops : List Op)
    (hA : Alive p s) (hl : id ∈ live s) (hF : FairSchedule p id ops) :
    ∃ o, Event.resolved id o ∈ (run s ops).2 := by
  obtain ⟨a0, o0, a1, k, a2, a3, a4, o1, a5, hops, c0, c1, c2, c3, c4, c5⟩ := hF
  have key : phase (run s ops).1 id = 0 := by
    rw [hops]
    simp only [run_append, run]
    have h0 := run_calm a0 s hA c0
    have h1 := prog5 (id := id) _ o0 h0.1
    have A1 := (step_calm (id := id) _ (.doResult o0) h0.1 trivial).1
    have h2 := run_calm a1 _ A1 c1
    have h3 := prog4 (id := id) _ k h2.1 (Nat.le_trans h2.2 h1)
    have A3 := (step_calm (id := id) _ (.trigger k) h2.1 trivial).1
    have h4 := run_calm a2 _ A3 c2
    have h5 := prog3 (id := id) _ h4.1 (Nat.le_trans h4.2 h3)
    have A5 := (step_calm (id := id) _ (.connect true) h4.1 trivial).1
    have h6 := run_calm a3 _ A5 c3
    have h7 := prog2 (id := id) _ h6.1 (Nat.le_trans h6.2 h5)
    have A7 := (step_calm (id := id) _ .swap h6.1 trivial).1
    have h8 := run_calm a4 _ A7 c4
    have h9 := prog1 (id := id) _ o1 h8.1 (Nat.le_trans h8.2 h7)
    have A9 := (step_calm (id := id) _ (.doResult o1) h8.1 trivial).1
    have h10 := run_calm a5 _ A9 c5
    have := h10.2
    omega
  rcases run_live _ s id hl with h | h
  · exact absurd h (phase_zero_not_live key)
  · exact mem_resolvedIds.mp h

/-- the state after `Init()` is up -/
theorem init_alive (p : Plan) (maxQueue : Nat) : Alive p (Svc.init p maxQueue) :=
  ⟨rfl, rfl, rfl, rfl, fun h => absurd rfl h⟩

/-- **resolve_eventually, from `Init()`.** After any calm prefix, a request with an accounted size that
    neither fails nor faults gets its promise completed — at once (`inserted == 0`) or by the flush that a
    fair schedule brings about. -/
theorem resolve_eventually_from_init (p : Plan) (maxQueue : Nat) (pre post : List Op) (r : Req)
    (hpre : ∀ op ∈ pre, Calm p r.id op) (hsize : 0 < r.size) (hty : r.ptype = p.ptype)
    (hnf : p.steps.any (stepFaults r) = false) (hF : FairSchedule p r.id post) :
    ∃ o, Event.resolved r.id o ∈ (run (Svc.init p maxQueue) (pre ++ ([Op.request r] ++ post))).2 := by
  have h0 := run_calm pre _ (init_alive p maxQueue) hpre
  simp only [run_append, run, List.append_nil, List.mem_append]
  obtain ⟨hplan, hcr, hrun, hcols, hsz⟩ := h0.1
  generalize (run (Svc.init p maxQueue) pre).1 = s at *
  rw [step_request s r hcr]
  obtain ⟨cs, hc⟩ := Option.isSome_iff_exists.mp hcols
  have hpr : ∃ res, processRequest s.plan r s.cols = .ok res ∧ res.err = false ∧ res.cols.isSome = true := by
    rw [hplan]
    rcases processRequest_cases p r s.cols with ⟨h, _⟩ | ⟨_, h, _⟩ | ⟨_, cs', _, hf, _⟩ | ⟨_, cs', hcs', _, hpr⟩
    · exact absurd hty h
    · rw [hc] at h; cases h
    · rw [hnf] at hf; cases hf
    · exact ⟨_, hpr, rfl, rfl⟩
  obtain ⟨res0, hres0, herr0, hsome0⟩ := hpr
  rcases stepRequest_cases s r with ⟨h, _⟩ | ⟨_, f, hres, _⟩ | ⟨_, res, hres, _, he⟩ | ⟨_, res, hres, _, he⟩
  · rw [hrun] at h; cases h
  · rw [hres0] at hres; cases hres
  · rw [he]; exact ⟨if res.err = true then .err else .ok, Or.inr (Or.inl (by simp))⟩
  · rw [hres0] at hres; cases hres
    have hA' : Alive p (stepRequest s r).1 := by
      rw [he]; exact ⟨hplan, hcr, hrun, hsome0, fun _ => (by show 0 < s.size + r.size; omega)⟩
    have hl' : r.id ∈ live (stepRequest s r).1 := by rw [he]; simp [live]
    obtain ⟨o, ho⟩ := resolve_eventually p (stepRequest s r).1 r.id post hA' hl' hF
    exact ⟨o, Or.inr (Or.inr ho)⟩

/-- **zero_size_request_not_flushed** (why `SizePos` is a hypothesis). `swapBuffers` returns nothing when
    `svc.size == 0`: a request with a row but `GetSize() == 0` stays queued through a complete flush round.
    Every parser of the pinned tree accounts ≥ 14 bytes per row (`builder.go`: 26+len per sample, 14+len per
    series, 49+… per span, 40+… per tag, ≥ 16 per profile), so this is unreachable from the HTTP side. -/
theorem zero_size_request_not_flushed :
    let r : Req := { id := 7, ptype := .timeSamplesData, size := 0,
                     arrays := [("MTimestampNS", [1]), ("MFingerprint", [2]), ("MType", [3]), ("MValue", [4]), ("MMessage", [5])] }
    let res := run (Svc.init samplesPlan 0) [.request r, .trigger .timer, .connect true, .swap, .doResult .ok]
    res.2 = [] ∧ res.1.pending = [7] := by
  decide

/-- a sub-service step of the multi-service machine is the step of that sub-service and touches no other -/
theorem sub_step_local (m : Multi) (i : Nat) (s : Svc) (op : Op) (hs : m.subs[i]? = some s)
    (hop : ∀ r, op ≠ .request r) :
    (m.step (.sub i op)).1.subs = m.subs.set i (step s op).1 ∧ (m.step (.sub i op)).2 = (step s op).2 := by
  cases op with
  | request r => exact absurd rfl (hop r)
  | _ => simp [Multi.step, stepAt, hs]

/-! ## handler level -/

/-- **retry_exhausted_is_error.** If the promise of every attempt is completed with an error, `doPush`
    reports an error after exactly `attempts` attempts … -/
theorem retry_exhausted_is_error (attempts : Nat) (p : Push) (hr : p.hasReq = true) (hs : p.hasSvc = true)
    (h : ∀ k, k < attempts → p.out k = .err) : doPush attempts p = (.err, attempts) := by
  have := retryFrom_exhausted p.out attempts 0 (fun j hj => by simpa using h j hj)
  simpa [doPush, hr, hs] using this

/-- … in particular `attempts = 0` (retry-go returns its empty, non-nil error log) is an error without
    any attempt: never a success. -/
theorem retry_zero_attempts (p : Push) (hr : p.hasReq = true) (hs : p.hasSvc = true) :
    doPush 0 p = (.err, 0) := by
  simp [doPush, hr, hs, retryFrom]

/-- `doPush` succeeds iff some attempt within the bound had its promise completed without error, all
    earlier ones having failed; it never makes more than `attempts` attempts. -/
theorem push_ok_iff (attempts : Nat) (p : Push) (hr : p.hasReq = true) (hs : p.hasSvc = true) :
    (doPush attempts p).1 = .ok ↔ ∃ k, k < attempts ∧ p.out k = .ok ∧ ∀ i, i < k → p.out i = .err := by
  have := retryFrom_ok_iff p.out attempts 0
  simpa [doPush, hr, hs] using this

theorem push_attempts_bounded (attempts : Nat) (p : Push) : (doPush attempts p).2 ≤ attempts := by
  unfold doPush
  split
  · exact Nat.zero_le _
  · simpa using retryFrom_attempts_le p.out attempts 0

/-- **status_ok_iff_all_chunks_ok.** The handler writes the success status iff the pre-request steps
    passed, the parser reported no error, and every `doPush` of every chunk succeeded. -/
theorem status_ok_iff_all_chunks_ok (attempts : Nat) (pre : Bool) (chunks : List Chunk) :
    handler attempts pre chunks = [.success] ↔
      pre = true ∧ (∀ c ∈ chunks, ∃ ps, c = .response ps) ∧
      ∀ ps, Chunk.response ps ∈ chunks → ∀ p ∈ ps, (doPush attempts p).1 = .ok := by
  unfold handler
  cases pre with
  | false => simp
  | true =>
    simp only [Bool.not_true, Bool.false_eq_true, if_false, true_and]
    have h := doParse_ok_iff attempts chunks []
    simp only [List.not_mem_nil, false_implies, implies_true, true_and] at h
    rw [← h]
    cases doParse attempts chunks [] <;> simp

/-- exactly one status per request -/
theorem one_status (attempts : Nat) (pre : Bool) (chunks : List Chunk) : (handler attempts pre chunks).length = 1 := by
  unfold handler
  split
  · rfl
  · split <;> rfl

/-- **push_ok_rows_inserted** (handler ∘ service). Let a `doPush` send its attempts to an insert service
    as promises `ids 0, ids 1, …` carrying the same payload, and let its attempt outcomes be the values
    those promises take in the service's trace. If the `doPush` succeeds then, for the attempt that
    succeeded, a `client.Do` that returned nil contained all the values of the payload (or the payload
    had no rows). With `status_ok_iff_all_chunks_ok`: a success status implies this for every non-nil
    request of every chunk whose service is present. -/
theorem push_ok_rows_inserted (k : Kind) (maxQueue svcNum attempts : Nat) (R : ReqId → Req) (ops : List SysOp)
    (hW : ∀ op ∈ ops, SysWellFormed R op) (p : Push) (ids : Nat → ReqId)
    (hr : p.hasReq = true) (hs : p.hasSvc = true)
    (hout : ∀ n, p.out n = .ok ↔ resolution ((Multi.init (planOf k) maxQueue svcNum).run ops).2 (ids n) = some .ok)
    (hok : (doPush attempts p).1 = .ok) :
    ∃ n, n < attempts ∧
      (NoRows (planOf k) (R (ids n)) ∨
       ∃ b w, Event.insert b w .ok ∈ ((Multi.init (planOf k) maxQueue svcNum).run ops).2 ∧ Covers (planOf k) b (R (ids n))) := by
  obtain ⟨n, hn, hokn, _⟩ := (push_ok_iff attempts p hr hs).mp hok
  obtain ⟨pre, post, he⟩ := resolution_ok_split ((hout n).mp hokn)
  refine ⟨n, hn, ?_⟩
  rcases ack_sound k maxQueue svcNum R ops hW pre post (ids n) he with h | ⟨b, w, hb, hc⟩
  · exact Or.inl h
  · exact Or.inr ⟨b, w, by rw [he]; exact List.mem_append.mpr (Or.inl hb), hc⟩


/-! ## the answer: `ErrorHandler` (error value → status, or nothing), `doPush`/`doParse` with error texts

Model: `Qryn.Ingest.ErrorHandler`. `Gen.ErrorHandler` is regenerated from `writer/controller/builder.go`
(`ErrorHandler` as an ordered rule table incl. the branch that returns WITHOUT writing a status — net/http then
answers 200 —, `writeErrorResponse`, `Build`'s handler), from the pinned retry-go's `Error.Error()` (module cache)
and from `writer/utils/errors/error.go` (codes of the typed errors). -/
section answer
open Qryn.Ingest.ErrorHandler

/-- the rule table, the retry-go text format the theorems below are about are the ones the source has now -/
theorem error_rules_eq_gen :
    rules = Gen.ErrorHandler.rules ∧ retryFmt = Gen.ErrorHandler.retryFmt ∧
    Gen.ErrorHandler.writeHeaderFirst = true ∧ Gen.ErrorHandler.handlerCallsErrorHandlerOnError = true := by
  decide

/-- **error_rules_safe** (decided on the regenerated table). No rule of `ErrorHandler` can turn an untyped error
    whose text starts with retry-go's header `"All attempts fail:\n"` or with `"panic: "` — and continues
    *arbitrarily* — into anything but a 4xx/5xx status: typed guards do not apply, a prefix guard must be
    incompatible with both headers unless it writes an error status itself, every `Contains`/`HasSuffix` guard
    must write an error status (the attempts' texts are the database's), and the tail writes one. -/
theorem error_rules_safe :
    tableSafe Gen.ErrorHandler.retryFmt.header Gen.ErrorHandler.rules = true ∧
    tableSafe panicHeader Gen.ErrorHandler.rules = true := by
  decide

/-- every typed error the writer constructs carries a 4xx/5xx code -/
theorem typed_codes_are_errors : ∀ c ∈ Gen.ErrorHandler.typedCodes, 400 ≤ c ∧ c ≤ 599 := by decide

/-- **insert_failure_never_silent.** For EVERY number of attempts and EVERY list of per-attempt error texts
    (whatever ClickHouse, the network or the service said — "connection reset by peer" included, anywhere), the
    `retry.Error` that `doPush` hands back after exhausted retries is answered with status 500 by the regenerated
    rule table: never the silent branch, never a success status. The same for a recovered panic of the push. -/
theorem insert_failure_never_silent (errs : List Text) (t : Text) :
    classify Gen.ErrorHandler.rules (retryErr Gen.ErrorHandler.retryFmt errs) = .status 500 ∧
    classify Gen.ErrorHandler.rules (panicErr t) = .status 500 := by
  rw [← error_rules_eq_gen.1, ← error_rules_eq_gen.2.1]
  exact ⟨classify_pushErr_500 retryFmt (by decide) _ (Or.inl ⟨errs, rfl⟩),
         classify_pushErr_500 retryFmt (by decide) _ (Or.inr ⟨t, rfl⟩)⟩

/-- the same from the safety predicate alone, for any rule table (so for any future shape of `ErrorHandler`
    that keeps `error_rules_safe` true): an error status, whatever the texts -/
theorem insert_failure_error_status_of_safe (rs : List Rule) (f : RetryFmt)
    (h : tableSafe f.header rs = true ∧ tableSafe panicHeader rs = true) (attempts : Nat) (p : PushT) (e : ErrVal)
    (he : doPushT f attempts p = some e) : ∃ c, classify rs e = .status c ∧ 400 ≤ c ∧ c ≤ 599 :=
  classify_pushErr f rs h.1 h.2 e (doPushT_isPushErr f attempts p e he)

/-- **exhausted_retries_error_value.** If every one of the `attempts` promises is completed with an error
    (texts `ts 0, ts 1, …`), `doPush` returns exactly the `retry.Error` of these texts, in order. -/
theorem exhausted_retries_error_value (attempts : Nat) (p : PushT) (ts : Nat → Text) (hr : p.hasReq = true)
    (hs : p.hasSvc = true) (h : ∀ k, k < attempts → p.out k = .fail (ts k)) :
    doPushT Gen.ErrorHandler.retryFmt attempts p =
      some (retryErr Gen.ErrorHandler.retryFmt ((List.range attempts).map ts)) := by
  have := retryFromT_exhausted Gen.ErrorHandler.retryFmt p.out ts attempts 0 [] (by simpa using h)
  simpa [doPushT, hr, hs] using this

/-- **insert_failure_status_500** (handler level). If the parser reported no error and some `doPush` of some
    chunk failed — exhausted retries with any error texts, or a panic — the handler answers 500. -/
theorem insert_failure_status_500 (attempts okStatus : Nat) (chunks : List ChunkT)
    (hparse : ∀ c ∈ chunks, ∃ ps, c = ChunkT.response ps)
    (hfail : ∃ ps p, ChunkT.response ps ∈ chunks ∧ p ∈ ps ∧ doPushT Gen.ErrorHandler.retryFmt attempts p ≠ none) :
    handlerT Gen.ErrorHandler.rules Gen.ErrorHandler.retryFmt attempts none okStatus chunks = .status 500 := by
  rw [← error_rules_eq_gen.1, ← error_rules_eq_gen.2.1] at *
  exact handlerT_push_failure retryFmt (by decide) attempts okStatus chunks hparse hfail

/-- **answer_total.** The status decision is total and closed: with request-side errors (pre-request steps,
    parser) of the shapes the writer can construct (`Shape`: untyped, `*UnMarshalError`, `*QrynError`, codes from
    the regenerated list) the handler answers the route's ok status — only when no pre-request step failed and
    `doParse` returned nil —, or 500, or the code of a typed request-side error, or nothing (→ 200) — the last
    ONLY for an untyped request-side error whose text begins with "connection reset by peer" (the client went
    away while its body was read), never for an error of the push path. `WriteHeader` never faults. -/
theorem answer_total (attempts okStatus : Nat) (pre : Option ErrVal) (chunks : List ChunkT)
    (hpre : ∀ e, pre = some e → Shape Gen.ErrorHandler.typedCodes e)
    (hch : ∀ e, ChunkT.error e ∈ chunks → Shape Gen.ErrorHandler.typedCodes e) :
    let a := handlerT Gen.ErrorHandler.rules Gen.ErrorHandler.retryFmt attempts pre okStatus chunks
    (a = answerOf okStatus ∧ pre = none ∧ doParseT Gen.ErrorHandler.retryFmt attempts chunks [] = none) ∨
    a = .status 500 ∨ (∃ c ∈ Gen.ErrorHandler.typedCodes, a = .status c) ∨
    (a = .silent ∧ ∃ e, (pre = some e ∨ (pre = none ∧ ChunkT.error e ∈ chunks)) ∧ e.as = [] ∧
        resetText.isPrefixOf e.text = true) := by
  rw [← error_rules_eq_gen.1, ← error_rules_eq_gen.2.1]
  exact handlerT_cases retryFmt (by decide) (fun c hc => by have := typed_codes_are_errors c hc; omega)
    attempts okStatus pre chunks hpre hch

/-- **success_status_implies_pushed.** If the client is told success (a status below 400; a handler that
    writes nothing counts as 200) and no request-side error is of the "client went away" class, then no
    pre-request step failed, the parser reported no error and EVERY `doPush` of every chunk ended without error —
    hence (`status_ok_iff_all_chunks_ok`, `push_ok_rows_inserted`) the outcome-only handler model answers success
    and the rows were in accepted INSERTs. -/
theorem success_status_implies_pushed (attempts okStatus : Nat) (pre : Option ErrVal) (chunks : List ChunkT)
    (hpre : ∀ e, pre = some e → Shape Gen.ErrorHandler.typedCodes e)
    (hch : ∀ e, ChunkT.error e ∈ chunks → Shape Gen.ErrorHandler.typedCodes e)
    (hgone : ∀ e, (pre = some e ∨ ChunkT.error e ∈ chunks) → e.as = [] → resetText.isPrefixOf e.text = false)
    (hs : isSuccess (handlerT Gen.ErrorHandler.rules Gen.ErrorHandler.retryFmt attempts pre okStatus chunks) = true) :
    pre = none ∧ (∀ c ∈ chunks, ∃ ps, c = ChunkT.response ps) ∧
    (∀ ps, ChunkT.response ps ∈ chunks → ∀ p ∈ ps, doPushT Gen.ErrorHandler.retryFmt attempts p = none) ∧
    handler attempts true (chunks.map ChunkT.erase) = [.success] := by
  have key : pre = none ∧ doParseT Gen.ErrorHandler.retryFmt attempts chunks [] = none := by
    rcases answer_total attempts okStatus pre chunks hpre hch with ⟨_, h1, h2⟩ | h | ⟨c, hc, h⟩ | ⟨_, e, hw, has, hp⟩
    · exact ⟨h1, h2⟩
    · rw [h] at hs; simp [isSuccess, observed] at hs
    · rw [h] at hs
      have := typed_codes_are_errors c hc
      simp only [isSuccess, observed, decide_eq_true_eq] at hs
      omega
    · have : resetText.isPrefixOf e.text = false := hgone e (by rcases hw with h | ⟨_, h⟩; exact Or.inl h; exact Or.inr h) has
      rw [this] at hp; cases hp
  obtain ⟨h1, h2, h3⟩ := (doParseT_none_iff _ attempts chunks []).mp key.2
  refine ⟨key.1, h1, h3, ?_⟩
  rw [status_ok_iff_all_chunks_ok]
  refine ⟨rfl, ?_, ?_⟩
  · intro c hc
    obtain ⟨ct, hct, rfl⟩ := List.mem_map.mp hc
    obtain ⟨ps, rfl⟩ := h1 ct hct
    exact ⟨_, rfl⟩
  · intro ps hps p hp
    obtain ⟨pts, hpts, rfl⟩ := erase_mem hps
    obtain ⟨pt, hpt, rfl⟩ := List.mem_map.mp hp
    exact doPushT_none_erase _ attempts pt (h3 pts hpts pt hpt)

/-- without panics the text-carrying `doPush` and the outcome-only one agree on success -/
theorem push_models_agree (attempts : Nat) (p : PushT) (hpf : p.panicFree) :
    (doPushT Gen.ErrorHandler.retryFmt attempts p).isNone = ((doPush attempts p.erase).1 == .ok) :=
  doPushT_erase_panicFree _ attempts p hpf

/-- a `Contains` guard in the place of the `HasPrefix` one (seeded change C01-4) is rejected by the safety
    predicate, and for a good reason: an INSERT that keeps failing with a reset connection would be answered
    with nothing, i.e. 200 -/
theorem contains_variant_counterexample :
    let rs : List Rule := [.typed "*customErrors.UnMarshalError", .typed "customErrors.IQrynError",
                           .text .contains resetText .silent, .otherwise (.write 500)]
    tableSafe retryFmt.header rs = false ∧
    isSuccess (handlerT rs retryFmt 2 none 204
      [.response [⟨true, true, fun _ => .fail ([119, 114, 105, 116, 101, 58, 32] ++ resetText)⟩]]) = true := by
  decide

/-- non-vacuity: the text of a two-attempt failure is the one retry-go prints
    ("All attempts fail:\n#1: EOF\n#2: EOF"), and the handler answers 500 -/
example :
    retryText retryFmt [[69, 79, 70], [69, 79, 70]] =
      [65, 108, 108, 32, 97, 116, 116, 101, 109, 112, 116, 115, 32, 102, 97, 105, 108, 58, 10,
       35, 49, 58, 32, 69, 79, 70, 10, 35, 50, 58, 32, 69, 79, 70] ∧
    handlerT rules retryFmt 2 none 204 [.response [⟨true, true, fun _ => .fail [69, 79, 70]⟩]] = .status 500 := by
  decide

/-- the silent branch exists and is reachable by a request-side error only: a body read that fails with a text
    beginning "connection reset by peer" is answered with nothing (200) — there is no client left to read it -/
example : handlerT rules retryFmt 2 (some { text := resetText }) 204 [] = .silent := by decide

/-- a typed parser error keeps its code -/
example :
    handlerT rules retryFmt 2 none 204
      [.error { as := [("*customErrors.UnMarshalError", 400), ("customErrors.IQrynError", 400)], text := [] }]
      = .status 400 := by decide

end answer


/-! ## the atomic steps are the lock holds of the source (`Gen.BatcherLocks`; see also `Props/C02`) -/
section locks
open Qryn.Ingest.BatcherLocks

/-- the facts the atomic-step convention needs hold of the regenerated critical sections (`C02.locks_atomic`
    spells them out) -/
theorem locks_atomic :
    atomicSwap Gen.BatcherLocks.methods Gen.BatcherLocks.swapProgram Gen.BatcherLocks.requestProgram = true ∧
    Gen.BatcherLocks.iterationProgram = iterationAsModelled := by
  decide

/-- **ack_sound, hold by hold.** With `swapBuffers` running as the regenerated sequence of lock holds and
    requests / flush triggers of other goroutines arriving anywhere between two holds, a promise is still completed
    without error only after a `client.Do` that returned nil for a block containing all its values. -/
theorem ack_sound_locks (k : Kind) (maxQueue : Nat) (R : ReqId → Req) (ops : List MOp)
    (hW : ∀ op ∈ ops, MWellFormed R op) :
    AckSound (planOf k) R (mrun Gen.BatcherLocks.swapProgram (MSvc.init (planOf k) maxQueue) ops).2 := by
  have hat : atomicProg Gen.BatcherLocks.swapProgram = true := by decide
  have href := (mrun_refines (shape_of_atomic _ hat) ops (MSvc.init (planOf k) maxQueue) _ (Rel.idle _)).1
  rw [href]
  exact Sound.ackSound _ (run_sound (plans_ok k) _ _ (init_inv maxQueue) (absRun_wellFormed ops _ hW) []).2

/-- the two-hold split of seeded change C02-1 breaks it: request 2 is acknowledged although the only INSERT that
    carried its rows failed (the run of `C02.two_hold_split_counterexample`) -/
theorem two_hold_split_ack_counterexample :
    ¬ AckSound samplesPlan
        (fun id => { id := id, ptype := .timeSamplesData, size := 30,
                     arrays := [("MTimestampNS", [10 * id]), ("MFingerprint", [10 * id + 1]), ("MType", [10 * id + 2]),
                                ("MValue", [10 * id + 3]), ("MMessage", [10 * id + 4])] })
        [.insert [("type", [12, 22]), ("fingerprint", [11, 21]), ("timestamp_ns", [10, 20]), ("string", [14, 24]), ("value", [13, 23])] [1] .err,
         .resolved 1 .err,
         .insert [("type", []), ("fingerprint", []), ("timestamp_ns", []), ("string", []), ("value", [])] [2] .ok,
         .resolved 2 .ok] := by
  intro h
  rcases h [.insert [("type", [12, 22]), ("fingerprint", [11, 21]), ("timestamp_ns", [10, 20]), ("string", [14, 24]), ("value", [13, 23])] [1] .err,
            .resolved 1 .err,
            .insert [("type", []), ("fingerprint", []), ("timestamp_ns", []), ("string", []), ("value", [])] [2] .ok] [] 2 rfl with h0 | ⟨b, w, hb, hc⟩
  · simp only [NoRows] at h0; revert h0; decide
  · simp only [List.mem_cons, Event.insert.injEq, reduceCtorEq, and_false, false_or, List.not_mem_nil, or_false] at hb
    obtain ⟨rfl, _, _⟩ := hb
    have := hc "type" (by decide)
    revert this
    decide

/-- the documented limit as a regenerated fact: `Request` reads `svc.running` before it takes the lock (the first
    segment of `Request` is free and reads exactly `running`), while `Run`'s stop branch writes it under the lock —
    a data race the model does not exhibit (it reads `running` inside the atomic step) -/
theorem running_read_outside_lock :
    ((findMethod Gen.BatcherLocks.methods "Request").bind (·.segs.head?)) = some (.free ⟨["running"], [], []⟩) := by
  decide

end locks

/-! ## requests that arrive while an INSERT is in flight (`Ingest.BatcherAlias`: the promise arrays over a heap) -/
section inflight
open Qryn.Ingest.BatcherAlias

/-- the regenerated facts (what `swapBuffers` leaves in `svc.results`, what it hands over, what `releaseWaiting` ranges
    over) keep the open batch and the portion in flight on different backing arrays -/
theorem results_array_not_shared : Gen.BatcherAlias.cfg.disciplined = true := by decide

/-- **ack_sound with the INSERT as a window.** With the promises kept in Go slices over a heap, the flusher's iteration
    split into `swap` / `insertBegin` / `insertEnd` and any number of `Request` calls between any two of them (also
    while `client.Do` runs), under the regenerated configuration: a promise is completed without error only after a
    `client.Do` that returned nil for a block containing all its values. -/
theorem ack_sound_inflight (k : Kind) (maxQueue : Nat) (R : ReqId → Req) (ops : List AOp)
    (hW : ∀ op ∈ ops, AWellFormed R op) :
    AckSound (planOf k) R (arun Gen.BatcherAlias.cfg (ASvc.init (planOf k) maxQueue) ops).2 := by
  rw [(arun_refines _ results_array_not_shared ops _ (ainv_init (planOf k) maxQueue)).1]
  exact Sound.ackSound _ (run_sound (plans_ok k) _ _ (init_inv maxQueue) (Qryn.Ingest.BatcherAlias.absRun_wellFormed ops _ hW) []).2

/-- **every promise in flight is answered by ITS `insertEnd`.** Under the regenerated configuration the completions
    of an `insertEnd` are exactly the promises `swapBuffers` took — those queued before the swap, in order — whatever
    was requested since: state-level form of "exactly one answer, from the block that carries the rows". -/
theorem insertEnd_completes_what_swap_took (cfg : Cfg) (hd : cfg.disciplined = true) (p : Plan) (maxQueue : Nat)
    (ops : List AOp) (o : Outcome) (q : Portion)
    (hq : (view (arun cfg (ASvc.init p maxQueue) ops).1).inflight = some q)
    (hb : (arun cfg (ASvc.init p maxQueue) ops).1.began = true)
    (hc : (arun cfg (ASvc.init p maxQueue) ops).1.s.crashed = false) :
    (astep cfg (arun cfg (ASvc.init p maxQueue) ops).1 (.insertEnd o)).2 =
      Event.insert q.cols q.waiting o :: q.waiting.map (fun id => Event.resolved id o) := by
  have hI := (arun_refines cfg hd ops _ (ainv_init p maxQueue)).2.2
  have h := (astep_refines cfg hd _ hI (.insertEnd o)).1
  rw [h]
  simp only [absOp, hb, if_true, Qryn.Ingest.BatcherLocks.run_single]
  have hvc : (view (arun cfg (ASvc.init p maxQueue) ops).1).crashed = false := hc
  rw [step_doResult _ o hvc]
  simp [stepDoResult, hq]

/-- the run of `C02.shared_results_array_counterexample` (`svc.results = results[:0]`, no private copy): request 2,
    which arrived during INSERT 0, is acknowledged by INSERT 0 — a block without its rows; the only INSERT that
    carried its rows failed — and request 1 is never answered although its INSERT returned -/
theorem shared_results_array_ack_counterexample :
    ¬ AckSound samplesPlan
        (fun id => { id := id, ptype := .timeSamplesData, size := 30,
                     arrays := [("MTimestampNS", [10 * id]), ("MFingerprint", [10 * id + 1]), ("MType", [10 * id + 2]),
                                ("MValue", [10 * id + 3]), ("MMessage", [10 * id + 4])] })
        (arun { afterSwap := .reslice, portionRes := .moved, release := .portion } (ASvc.init samplesPlan 0)
          [.request { id := 1, ptype := .timeSamplesData, size := 30,
                      arrays := [("MTimestampNS", [10]), ("MFingerprint", [11]), ("MType", [12]), ("MValue", [13]), ("MMessage", [14])] } true,
           .trigger .timer, .connect true, .swap, .insertBegin,
           .request { id := 2, ptype := .timeSamplesData, size := 30,
                      arrays := [("MTimestampNS", [20]), ("MFingerprint", [21]), ("MType", [22]), ("MValue", [23]), ("MMessage", [24])] } false,
           .insertEnd .ok, .trigger .timer, .swap, .insertBegin, .insertEnd .err]).2 := by
  have hev : (arun { afterSwap := .reslice, portionRes := .moved, release := .portion } (ASvc.init samplesPlan 0)
          [.request { id := 1, ptype := .timeSamplesData, size := 30,
                      arrays := [("MTimestampNS", [10]), ("MFingerprint", [11]), ("MType", [12]), ("MValue", [13]), ("MMessage", [14])] } true,
           .trigger .timer, .connect true, .swap, .insertBegin,
           .request { id := 2, ptype := .timeSamplesData, size := 30,
                      arrays := [("MTimestampNS", [20]), ("MFingerprint", [21]), ("MType", [22]), ("MValue", [23]), ("MMessage", [24])] } false,
           .insertEnd .ok, .trigger .timer, .swap, .insertBegin, .insertEnd .err]).2 =
      [.insert [("type", [12]), ("fingerprint", [11]), ("timestamp_ns", [10]), ("string", [14]), ("value", [13])] [2] .ok,
       .resolved 2 .ok,
       .insert [("type", [22]), ("fingerprint", [21]), ("timestamp_ns", [20]), ("string", [24]), ("value", [23])] [2] .err,
       .resolved 2 .err] := by decide
  rw [hev]
  intro h
  rcases h [.insert [("type", [12]), ("fingerprint", [11]), ("timestamp_ns", [10]), ("string", [14]), ("value", [13])] [2] .ok]
      [.insert [("type", [22]), ("fingerprint", [21]), ("timestamp_ns", [20]), ("string", [24]), ("value", [23])] [2] .err,
       .resolved 2 .err] 2 rfl with h0 | ⟨b, w, hb, hc⟩
  · simp only [NoRows] at h0; revert h0; decide
  · simp only [List.mem_cons, Event.insert.injEq, reduceCtorEq, and_false, false_or, List.not_mem_nil, or_false] at hb
    obtain ⟨rfl, _, _⟩ := hb
    have := hc "type" (by decide)
    revert this
    decide

end inflight


/-! ## `Request` whose unlocked `running` check passed just before the stop (`requestProgram`: the check is free) -/
section late
open Qryn.Ingest.BatcherLocks

/-- **ack_sound with late requests.** Let any number of `Request` calls run their hold on a service that has
    stopped meanwhile (they read `svc.running` before taking the lock): acknowledgements stay sound — a promise is
    completed without error only after an accepted INSERT that contained its rows. The unlocked read costs
    liveness at shutdown (`stopped_service_completes_nothing`), never safety. -/
theorem ack_sound_late (k : Kind) (maxQueue : Nat) (R : ReqId → Req) (ops : List LOp)
    (hW : ∀ op ∈ ops, LWellFormed R op) :
    AckSound (planOf k) R (lrun (Svc.init (planOf k) maxQueue) ops).2 :=
  Sound.ackSound _ (lrun_sound (plans_ok k) ops _ (init_inv maxQueue) hW []).2

/-- **stopped_service_completes_nothing** (the shutdown limit of `resolve_eventually`, as a theorem). Once `Run`
    has returned, whatever happens afterwards — refused requests, late requests (which are QUEUED), triggers,
    connects, swaps, `Do` results, pings — no queued promise is ever completed: a `doPush` whose `Request` slipped
    past the check waits forever. Liveness is claimed while the service runs. -/
theorem stopped_service_completes_nothing (s : Svc) (hrun : s.running = false) (hinf : s.inflight = none) (id : ReqId)
    (ops : List LOp) (hid : ∀ op ∈ ops, op.reqId ≠ some id) : ∀ o, Event.resolved id o ∉ (lrun s ops).2 :=
  stopped_never_resolves ops s hrun hinf id hid

/-- concretely: stop, then a late request with one row — it is queued (`pending = [7]`), a full flush round later it
    still is, and nothing was ever emitted -/
example :
    let r : Req := { id := 7, ptype := .timeSamplesData, size := 30,
                     arrays := [("MTimestampNS", [1]), ("MFingerprint", [2]), ("MType", [3]), ("MValue", [4]), ("MMessage", [5])] }
    let res := lrun (Svc.init samplesPlan 0)
      [.op .stop, .late r, .op (.trigger .timer), .op (.connect true), .op .swap, .op (.doResult .ok)]
    res.2 = [] ∧ res.1.pending = [7] := by
  decide

end late

/-! ## `promise.Promise`, statement by statement (`Qryn.Ingest.PromiseModel`, `Gen.Promise`) -/
section promise
open Qryn.Ingest

/-- the statement order of `Done` (compare-and-swap guard, `res`, `err`, `close`) and of `Get` (receive, then the
    fields) is the one in `writer/utils/promise/promise.go` now; `GetCtx` reads the fields only after its receive -/
theorem promise_program_eq_gen :
    PromiseModel.doneProgram = Gen.Promise.doneProgram ∧ PromiseModel.getProgram = Gen.Promise.getProgram ∧
    Gen.Promise.getCtxReadsAfterLock = true ∧ Gen.Promise.newIsPendingOpen = true := by
  decide

/-- **promise_once_exact.** Take one fresh promise and ANY number of goroutines, each about to call
    `Done(res, err)` with its own arguments or `Get()`. For EVERY schedule of their statements (compare-and-swap,
    `p.res = …`, `p.err = …`, `close(p.lock)`; receive, read `res`, read `err`): the channel is never closed twice
    (no panic); every `Get` that has returned holds the `res` AND the `err` of one and the same `Done` call — the one
    whose compare-and-swap succeeded —, so all `Get`s agree, no value is torn between two `Done`s, and a zero value
    is never observed. -/
theorem promise_once_exact (ths : List PromiseModel.Th) (hF : ∀ t ∈ ths, PromiseModel.Fresh t) (sched : List Nat) :
    (PromiseModel.run (PromiseModel.init ths) sched).c.fault = false ∧
    ∀ (i r e : Nat), (PromiseModel.run (PromiseModel.init ths) sched).ths[i]? = some (PromiseModel.Th.get .ret r e) →
      (PromiseModel.run (PromiseModel.init ths) sched).c.winner = some (r, e) ∧
      ∃ j : Nat, ths[j]? = some (PromiseModel.Th.done r e .cas) := by
  have hI := PromiseModel.run_inv sched _ (PromiseModel.init_inv ths hF)
  refine ⟨hI.nofault, ?_⟩
  intro i r e hi
  have hg := hI.gets i _ r e hi
  have hcl : (PromiseModel.run (PromiseModel.init ths) sched).c.closed = true := by
    cases hc : (PromiseModel.run (PromiseModel.init ths) sched).c.closed with
    | true => rfl
    | false => have := hg.1 hc; cases this
  have hp : (PromiseModel.run (PromiseModel.init ths) sched).c.pending = false := by
    cases hp : (PromiseModel.run (PromiseModel.init ths) sched).c.pending with
    | false => rfl
    | true => have := (hI.pend hp).2.1; rw [hcl] at this; cases this
  obtain ⟨w, hw, _, _⟩ := hI.won hp
  obtain ⟨h1, h2⟩ := hg.2 w hw
  have hwe : w = (r, e) := by
    have a := h1 (Or.inr rfl); have b := h2 rfl
    cases w; simp_all
  subst hwe
  refine ⟨hw, ?_⟩
  obtain ⟨j, pc, hj⟩ := hI.origin _ hw
  obtain ⟨pc', hj'⟩ := PromiseModel.run_done_args sched _ j r e pc hj
  have := hF _ (List.mem_of_getElem? hj')
  simp only [PromiseModel.Fresh] at this
  subst this
  exact ⟨j, hj'⟩

/-- **promise_closed_stable.** Once the promise is closed nothing a later statement of any goroutine does changes
    `res`, `err`, the winner or the closed flag — whatever the schedule. -/
theorem promise_closed_stable (ths : List PromiseModel.Th) (hF : ∀ t ∈ ths, PromiseModel.Fresh t) (a b : List Nat)
    (hc : (PromiseModel.run (PromiseModel.init ths) a).c.closed = true) :
    (PromiseModel.run (PromiseModel.init ths) (a ++ b)).c = (PromiseModel.run (PromiseModel.init ths) a).c := by
  rw [PromiseModel.run_append]
  exact PromiseModel.run_closed b _ (PromiseModel.run_inv a _ (PromiseModel.init_inv ths hF)) hc

/-- non-vacuity, and why the order of `Done`'s statements matters: two `Done`s racing with a `Get`; goroutine 1 wins
    the compare-and-swap, goroutine 0 loses it, the `Get` returns goroutine 1's pair -/
example :
    (PromiseModel.run (PromiseModel.init [.done 5 0 .cas, .done 9 3 .cas, .get .wait 0 0]) [2, 1, 0, 2, 1, 1, 2, 1, 2, 2, 2]).ths
      = [.done 5 0 .fin, .done 9 3 .fin, .get .ret 9 3] := by
  decide

end promise


/-! ## who writes the status (`Gen.PostChains`: every ResponseWriter call of `writer/controller`, every `Build(...)`) -/
section writers
open Qryn.Ingest.ErrorHandler

/-- **status_written_by_post_step_or_error_handler** (decided on the regenerated facts). net/http keeps the FIRST
    status a handler writes. In `writer/controller` a ResponseWriter is written to only inside `writeErrorResponse`
    and inside post-request steps (`withOkStatusAndBody`, `withOkStatusAndJSONBody`, the function literals given to
    `withPostRequest`) — no pre-request step and no parser touches it, so nothing can shadow `ErrorHandler`'s status;
    `PusherCtx.Do` runs the pre-request steps, then `DoParse`, then the post-request steps, returning the first
    error; and every handler constructor (all 16 `Build(...)`) has exactly ONE post-request step, which writes a 2xx
    status — after `doParse` returned nil. With `answer_total`: the status a client reads is the route's 2xx only if
    every `doPush` returned nil, and otherwise what `ErrorHandler` decides. -/
theorem status_written_by_post_step_or_error_handler :
    Gen.PostChains.writeSites.all (fun s =>
      ["writeErrorResponse", "post:withPostRequest", "post:withOkStatusAndBody", "post:withOkStatusAndJSONBody"].contains s.1) = true ∧
    Gen.PostChains.pusherDo = ["preRequestsUntilError", "doParse", "returnOnError", "postRequestsUntilError", "returnNil"] ∧
    Gen.PostChains.handlers.all (fun h => match h.2 with
      | [(_, c)] => decide (200 ≤ c) && decide (c < 300)
      | _ => false) = true ∧
    (Gen.PostChains.handlers.lookup "PushStreamV2") = some [("withOkStatusAndBody", 204)] := by
  decide

/-- the ok status of every route is a valid `WriteHeader` argument and reads as success -/
theorem route_ok_status_is_success (c : Nat) (h : 200 ≤ c ∧ c < 300) : answerOf c = .status c ∧ isSuccess (answerOf c) = true := by
  have : 100 ≤ c ∧ c ≤ 999 := ⟨by omega, by omega⟩
  refine ⟨by simp [answerOf, this], ?_⟩
  simp only [answerOf, this, and_self, if_true, isSuccess, observed, decide_eq_true_eq]
  omega

end writers

/-! ## non-vacuity -/

/-- two requests, one failed and one successful `Do`: the first batch fails (both promises error), the
    retry of the first request is acknowledged after the second `Do` -/
example :
    let r1 : Req := { id := 1, ptype := .timeSamplesData, size := 30,
                      arrays := [("MTimestampNS", [10]), ("MFingerprint", [11]), ("MType", [12]), ("MValue", [13]), ("MMessage", [14])] }
    let r2 : Req := { id := 2, ptype := .timeSamplesData, size := 30,
                      arrays := [("MTimestampNS", [20]), ("MFingerprint", [21]), ("MType", [22]), ("MValue", [23]), ("MMessage", [24])] }
    let r3 : Req := { r1 with id := 3 }
    (resolvedIds (run (Svc.init samplesPlan 0)
      [.request r1, .request r2, .trigger .timer, .connect true, .swap, .doResult .err,
       .request r3, .trigger .forced, .connect true, .swap, .doResult .ok]).2) = [1, 2, 3] := by
  decide

/-- `FairSchedule` is satisfiable and `resolve_eventually_from_init` applies to a concrete request -/
example : FairSchedule samplesPlan 5 [.doResult .ok, .trigger .timer, .connect true, .swap, .doResult .err] :=
  ⟨[], .ok, [], .timer, [], [], [], .err, [], rfl, by simp, by simp, by simp, by simp, by simp, by simp⟩

/-- a handler with one chunk of five pushes (two present) and `attempts = 2`: first attempt of the second
    push fails, its retry succeeds → success -/
example :
    handler 2 true [.response [⟨true, true, fun _ => .ok⟩, ⟨true, true, fun k => if k = 0 then .err else .ok⟩,
                               ⟨false, true, fun _ => .err⟩, ⟨false, true, fun _ => .err⟩, ⟨false, false, fun _ => .err⟩]]
      = [.success] := by decide

end Qryn.C01
